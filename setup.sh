#!/bin/sh
# Build the framework from files on disk only (offline): translator, Lean model + proofs + drivers of the
# checks registered in MANIFEST.json, and a warm object cache of the real oomd sources (every check
# rebuilds whatever changed in /repo afterwards, so this is only a warm-up and never a verdict).
cd "$(dirname "$0")"
python3 - <<'PY'
import importlib, json, subprocess, sys
sys.path.insert(0, '.')
from vlib import core
man = json.load(open('MANIFEST.json'))
targets, flavours = [], set()
for c in man['checks']:
    pid = c['property_id']
    try:
        mod = importlib.import_module('vlib.props.' + pid)
    except Exception as e:
        print('setup: cannot import check module for', pid, e)
        continue
    targets += ['+OomdProps.' + pid, 'drv_' + mod.ENGINE]
    flavours.add(getattr(mod, 'FLAVOUR', 'asan'))
    for fl in getattr(mod, 'FLAVOURS', ()):
        flavours.add(fl)
targets = sorted(set(targets))
ok, failed, out = core.lake_build(targets)
if not ok:
    print('setup: lake build reported failures in', failed, '(the affected checks will report them)')
    print(out[-2000:])
for fl in sorted(flavours):
    try:
        core.build_objects(fl)
    except core.InfraError as e:
        print('setup: C++ warm-up failed:', str(e)[:2000])
        sys.exit(1)
print('setup ok: %d lake targets, flavours %s' % (len(targets), sorted(flavours)))
PY

#!/bin/sh
# Build the framework from files on disk only (offline): Lean model + proofs + driver, and warm the
# object cache of the real oomd sources (the checks rebuild whatever changed in /repo afterwards).
set -e
cd "$(dirname "$0")"
python3 tools/extract.py --out lean/OomdModel/Generated >/dev/null
(cd lean && lake build)
python3 - <<'PY'
import sys
sys.path.insert(0, '.')
from vlib import core
for fl in ("asan", "tsan"):
    core.build_objects(fl)
print("setup ok")
PY

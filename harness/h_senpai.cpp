// Engine h_senpai (C18): the real `senpai` plugin, created through the plugin registry with the
// scenario's arguments and run tick by tick on a scratch cgroup tree.
//
// Observed at the libc boundary (no source hook):
//   write(2)  on every file below the scenario's scratch root while the plugin runs -> trace event
//             (cgroup-relative directory, file name, bytes); the file is truncated first so that an
//             ordinary file behaves like a kernfs control file (a write replaces the value);
//   open/open64/fopen/fopen64 of /proc/sys/vm/swappiness and /proc/meminfo -> redirected to scratch
//             files (the real /proc/sys is never touched);
//   fstat(2)  on directories of the scratch tree -> st_ino taken from the scenario (cgroup identity).
// Senpai reads no clock (its intervals are tick counts), so the virtual clock is not used; the
// `memory_high_timeout_ms` path runs its helper thread on real time.
//
// Scenario: {"id", "args": {name: string}, "memtotal_kb": int|null, "meminfo_missing": bool,
//   "ticks": [{"sys": {"swaptotal","swapused","swappiness","bps60","bps300"},
//              "cgs": [{"p": "w/a", "ino": 7, "gen": 0, "ctrl": "memory io", "cur": int, "min": v, "max": v,
//                       "high": v|"echo", "hightmp": v|"echo", "stat": {key: int}, "mp": [a10,a60,total],
//                       "iop": [a10,a60,total], "swap_max": v, "swap_cur": int, "reclaim": bool}, ...]}]}
//   v = int | "max"; an absent / null field = the file does not exist; "empty" (ctrl, cur, min, max, stat,
//   swap_max, swap_cur) = the file exists and has no bytes; "echo" = leave the file as the last write left it.  Parents must precede children in "cgs".
// Trace: {"id", "outcome", "init": rc, "ticks": [[{"cg","f","v"}, ...], ...]}
#include "common.h"

#include <dlfcn.h>
#include <fcntl.h>
#include <ftw.h>
#include <pthread.h>
#include <time.h>
#include <stdarg.h>
#include <sys/stat.h>
#include <unistd.h>

#include <map>
#include <memory>
#include <mutex>
#include <optional>
#include <set>

#include "oomd/OomdContext.h"
#include "oomd/PluginConstructionContext.h"
#include "oomd/PluginRegistry.h"
#include "oomd/engine/BasePlugin.h"

using namespace Oomd;

namespace {
std::string g_root;  // scratch root of the current scenario ("" = interposers pass through)
std::string g_cgfs;  // g_root + "/cg"
bool g_rec = false;  // record writes
std::mutex g_mu;
Json::Value g_events(Json::arrayValue);
std::map<std::string, uint64_t> g_ino;  // cgroup-relative directory -> scenario inode

std::string fdPath(int fd) {
  char link[64], buf[4096];
  snprintf(link, sizeof(link), "/proc/self/fd/%d", fd);
  ssize_t n = ::readlink(link, buf, sizeof(buf) - 1);
  if (n <= 0) return "";
  return std::string(buf, n);
}

const char* redirect(const char* path, std::string& store) {
  if (g_root.empty() || !path) return path;
  if (!strcmp(path, "/proc/sys/vm/swappiness")) {
    store = g_root + "/proc/swappiness";
    return store.c_str();
  }
  if (!strcmp(path, "/proc/meminfo")) {
    store = g_root + "/proc/meminfo";
    return store.c_str();
  }
  return path;
}
} // namespace

extern "C" int open(const char* path, int flags, ...) {
  using fn_t = int (*)(const char*, int, ...);
  static fn_t real = (fn_t)dlsym(RTLD_NEXT, "open");
  mode_t mode = 0;
  if (flags & (O_CREAT | O_TMPFILE)) {
    va_list ap;
    va_start(ap, flags);
    mode = va_arg(ap, mode_t);
    va_end(ap);
  }
  std::string s;
  return real(redirect(path, s), flags, mode);
}

extern "C" int open64(const char* path, int flags, ...) {
  using fn_t = int (*)(const char*, int, ...);
  static fn_t real = (fn_t)dlsym(RTLD_NEXT, "open64");
  mode_t mode = 0;
  if (flags & (O_CREAT | O_TMPFILE)) {
    va_list ap;
    va_start(ap, flags);
    mode = va_arg(ap, mode_t);
    va_end(ap);
  }
  std::string s;
  return real(redirect(path, s), flags, mode);
}

extern "C" FILE* fopen(const char* path, const char* mode) {
  using fn_t = FILE* (*)(const char*, const char*);
  static fn_t real = (fn_t)dlsym(RTLD_NEXT, "fopen");
  std::string s;
  return real(redirect(path, s), mode);
}

extern "C" FILE* fopen64(const char* path, const char* mode) {
  using fn_t = FILE* (*)(const char*, const char*);
  static fn_t real = (fn_t)dlsym(RTLD_NEXT, "fopen64");
  std::string s;
  return real(redirect(path, s), mode);
}

static pthread_t g_main_thread;
static int g_interrupted_writes = 0;
static std::map<std::string, int> g_slow;  // cgroup (relative) -> ms a helper-thread write to its memory.high blocks

extern "C" ssize_t write(int fd, const void* buf, size_t n) {
  using fn_t = ssize_t (*)(int, const void*, size_t);
  static fn_t real = (fn_t)dlsym(RTLD_NEXT, "write");
  if (g_rec && !g_root.empty()) {
    std::string p = fdPath(fd);
    if (p.size() > g_root.size() && p.compare(0, g_root.size(), g_root) == 0 && p[g_root.size()] == '/') {
      Json::Value ev(Json::objectValue);
      std::string rel = p.substr(g_root.size() + 1);  // "cg/w/a/memory.high" or "proc/swappiness"
      size_t slash = rel.rfind('/');
      std::string dir = slash == std::string::npos ? "" : rel.substr(0, slash);
      std::string base = slash == std::string::npos ? rel : rel.substr(slash + 1);
      if (dir == "proc") {
        ev["cg"] = "";
        ev["f"] = base;
      } else if (dir == "cg" || dir.compare(0, 3, "cg/") == 0) {
        ev["cg"] = dir.size() > 3 ? dir.substr(3) : "";
        ev["f"] = base;
      } else {
        ev["cg"] = "?" + dir;
        ev["f"] = base;
      }
      ev["v"] = std::string((const char*)buf, n);
      int slowMs = 0;
      {
        std::lock_guard<std::mutex> g(g_mu);
        // a write issued from Senpai's time-out helper thread to a cgroup listed in the tick's "slow" map behaves like the
        // kernel's memory.high write that blocks in reclaim: the value takes effect, then the call blocks until a signal
        // interrupts it (EINTR) or the time is over.  An interrupted call is retried by the writer (Fs::writeFull); the
        // trace shows one event per write that returned, so a retry is not mistaken for a second poke
        if (!pthread_equal(pthread_self(), g_main_thread) && base == "memory.high") {
          auto it = g_slow.find(ev["cg"].asString());
          if (it != g_slow.end()) slowMs = it->second;
        }
        if (slowMs == 0) g_events.append(ev);
      }
      if (::ftruncate(fd, 0)) {}
      if (slowMs > 0) {
        ssize_t rc = real(fd, buf, n);
        struct timespec ts = {slowMs / 1000, (slowMs % 1000) * 1000000L};
        if (::nanosleep(&ts, nullptr) != 0 && errno == EINTR) {
          std::lock_guard<std::mutex> g(g_mu);
          g_interrupted_writes++;
          errno = EINTR;
          return -1;
        }
        std::lock_guard<std::mutex> g(g_mu);
        g_events.append(ev);
        return rc;
      }
    }
  }
  return real(fd, buf, n);
}

extern "C" int fstat(int fd, struct stat* st) {
  using fn_t = int (*)(int, struct stat*);
  static fn_t real = (fn_t)dlsym(RTLD_NEXT, "fstat");
  int rc = real ? real(fd, st) : -1;
  if (rc == 0 && !g_cgfs.empty() && S_ISDIR(st->st_mode)) {
    std::string p = fdPath(fd);
    if (p.size() > g_cgfs.size() && p.compare(0, g_cgfs.size(), g_cgfs) == 0 && p[g_cgfs.size()] == '/') {
      auto it = g_ino.find(p.substr(g_cgfs.size() + 1));
      if (it != g_ino.end()) st->st_ino = it->second;
    }
  }
  return rc;
}

namespace {

// recursive removal without fork (system("rm -rf") is slow in a sanitized process)
int rmOne(const char* path, const struct stat*, int, struct FTW*) {
  return ::remove(path);
}
void rmTree(const std::string& p) {
  ::nftw(p.c_str(), rmOne, 16, FTW_DEPTH | FTW_PHYS);
}

std::string valStr(const Json::Value& v) {
  if (v.isString()) return v.asString();
  return std::to_string(v.asInt64());
}

std::string psi(const Json::Value& a) {
  char buf[256];
  long long a10 = a[0].asInt64(), a60 = a[1].asInt64();
  snprintf(buf, sizeof(buf),
           "some avg10=%lld.%02lld avg60=%lld.%02lld avg300=0.00 total=%lld\n"
           "full avg10=0.00 avg60=0.00 avg300=0.00 total=0\n",
           a10 / 100, a10 % 100, a60 / 100, a60 % 100, (long long)a[2].asInt64());
  return buf;
}

// What the harness last put into each file of the scratch tree (nullopt = known to be absent), so that
// unchanged files are not rewritten every tick.  Entries are dropped when the plugin writes the file
// or the directory is removed.
std::map<std::string, std::optional<std::string>> g_files;
std::set<std::string> g_dirs;

void forgetDir(const std::string& dir) {
  auto under = [&](const std::string& p) { return p == dir || p.compare(0, dir.size() + 1, dir + "/") == 0; };
  for (auto it = g_files.begin(); it != g_files.end();) {
    it = under(it->first) ? g_files.erase(it) : std::next(it);
  }
  for (auto it = g_dirs.begin(); it != g_dirs.end();) {
    it = under(*it) ? g_dirs.erase(it) : std::next(it);
  }
}

void setFile(const std::string& dir, const char* name, bool present, const std::string& content) {
  std::string p = dir + "/" + name;
  auto it = g_files.find(p);
  if (!present) {
    if (it != g_files.end() && !it->second) return;
    ::unlink(p.c_str());
    g_files[p] = std::nullopt;
  } else {
    if (it != g_files.end() && it->second && *it->second == content) return;
    vh::writeFile(p, content);
    g_files[p] = content;
  }
}

void render(const std::string& dir, const Json::Value& c) {
  auto has = [&](const char* k) { return c.isMember(k) && !c[k].isNull(); };
  // "empty" = the file exists and has no bytes
  auto isEmpty = [&](const char* k) { return c[k].isString() && c[k].asString() == "empty"; };
  auto val = [&](const char* k, const char* suffix) {
    if (!has(k) || isEmpty(k)) return std::string();
    return valStr(c[k]) + suffix;
  };
  setFile(dir, "cgroup.controllers", has("ctrl"), val("ctrl", "\n"));
  setFile(dir, "memory.current", has("cur"), val("cur", "\n"));
  setFile(dir, "memory.min", has("min"), val("min", "\n"));
  setFile(dir, "memory.max", has("max"), val("max", "\n"));
  if (!(has("high") && c["high"].isString() && c["high"].asString() == "echo")) {
    setFile(dir, "memory.high", has("high"), val("high", "\n"));
  }
  if (!(has("hightmp") && c["hightmp"].isString() && c["hightmp"].asString() == "echo")) {
    setFile(dir, "memory.high.tmp", has("hightmp"), val("hightmp", " 0\n"));
  }
  std::string stat;
  if (has("stat") && c["stat"].isObject()) {
    for (auto it = c["stat"].begin(); it != c["stat"].end(); ++it) {
      stat += it.key().asString() + " " + std::to_string(it->asInt64()) + "\n";
    }
  }
  setFile(dir, "memory.stat", has("stat"), stat);
  setFile(dir, "memory.pressure", has("mp"), has("mp") ? psi(c["mp"]) : "");
  setFile(dir, "io.pressure", has("iop"), has("iop") ? psi(c["iop"]) : "");
  setFile(dir, "memory.swap.max", has("swap_max"), val("swap_max", "\n"));
  setFile(dir, "memory.swap.current", has("swap_cur"), val("swap_cur", "\n"));
  setFile(dir, "memory.reclaim", has("reclaim") && c["reclaim"].asBool(), "");
}

void runScenario(const Json::Value& sc, Json::Value& out) {
  // a crashed earlier process with the same pid may have left a directory of the same name behind
  std::string root0 = vh::freshDir("senpai");
  rmTree(root0);
  vh::mkdirs(root0);
  g_root = root0;
  g_cgfs = g_root + "/cg";
  vh::mkdirs(g_cgfs);
  vh::mkdirs(g_root + "/proc");
  if (!sc.get("meminfo_missing", false).asBool()) {
    std::string mi;
    if (sc.isMember("memtotal_kb") && !sc["memtotal_kb"].isNull()) {
      mi += "MemTotal:       " + std::to_string(sc["memtotal_kb"].asInt64()) + " kB\n";
    }
    mi += "MemFree:        1024 kB\nSwapTotal:      0 kB\n";
    vh::writeFile(g_root + "/proc/meminfo", mi);
  }
  vh::writeFile(g_root + "/proc/swappiness", "60\n");

  out["ticks"] = Json::Value(Json::arrayValue);
  g_interrupted_writes = 0;
  {
    std::unique_ptr<Engine::BasePlugin> plugin(getPluginRegistry().create("senpai"));
    if (!plugin) {
      out["outcome"] = "no-plugin";
      return;
    }
    Engine::PluginArgs args;
    for (auto it = sc["args"].begin(); it != sc["args"].end(); ++it) {
      args[it.key().asString()] = it->asString();
    }
    PluginConstructionContext pcc(g_cgfs);
    int rc = 0;
    try {
      rc = plugin->initPlugin(args, pcc);
    } catch (const std::exception& e) {
      out["outcome"] = std::string("uncaught-init:") + e.what();
      rc = -1;
    }
    out["init"] = rc;
    if (rc == 0) {
      OomdContext ctx;
      std::map<std::string, std::pair<uint64_t, int64_t>> prev;
      for (const auto& tick : sc["ticks"]) {
        std::map<std::string, std::pair<uint64_t, int64_t>> cur;
        for (const auto& c : tick["cgs"]) {
          cur[c["p"].asString()] = {c["ino"].asUInt64(), c.get("gen", 0).asInt64()};
        }
        // removed cgroups, and cgroups whose identity changed (removed and re-created)
        for (auto it = prev.rbegin(); it != prev.rend(); ++it) {
          auto f = cur.find(it->first);
          if (f == cur.end() || f->second != it->second) {
            rmTree(g_cgfs + "/" + it->first);
            forgetDir(g_cgfs + "/" + it->first);
          }
        }
        g_ino.clear();
        for (const auto& c : tick["cgs"]) {
          std::string dir = g_cgfs + "/" + c["p"].asString();
          if (g_dirs.insert(dir).second) vh::mkdirs(dir);
          render(dir, c);
          g_ino[c["p"].asString()] = c["ino"].asUInt64();
        }
        prev = cur;
        const auto& s = tick["sys"];
        SystemContext sys;
        sys.swaptotal = s.get("swaptotal", 0).asUInt64();
        sys.swapused = s.get("swapused", 0).asUInt64();
        sys.swappiness = s.get("swappiness", 60).asInt();
        sys.swapout_bps_60 = (double)s.get("bps60", 0).asInt64();
        sys.swapout_bps_300 = (double)s.get("bps300", 0).asInt64();
        vh::writeFile(g_root + "/proc/swappiness", std::to_string(sys.swappiness) + "\n");
        ctx.setSystemContext(sys);
        ctx.refresh();
        {
          std::lock_guard<std::mutex> g(g_mu);
          g_events = Json::Value(Json::arrayValue);
        }
        {
          std::lock_guard<std::mutex> g(g_mu);
          g_slow.clear();
          const Json::Value& sl = tick["slow"];
          for (auto it = sl.begin(); it != sl.end(); ++it) g_slow[it.key().asString()] = it->asInt();
          g_main_thread = pthread_self();
        }
        g_rec = true;
        try {
          plugin->run(ctx);
        } catch (const std::exception& e) {
          out["outcome"] = std::string("uncaught:") + e.what();
        }
        g_rec = false;
        for (const auto& e : g_events) {
          if (e["cg"].asString().compare(0, 1, "?") != 0 && e["f"].asString() != "swappiness") {
            g_files.erase(g_cgfs + "/" + e["cg"].asString() + "/" + e["f"].asString());
          }
        }
        out["ticks"].append(g_events);
        out["interrupted_writes"] = g_interrupted_writes;
        if (out["outcome"].asString() != "ok") break;
      }
    }
  }
  std::string root = g_root;
  g_root.clear();
  g_cgfs.clear();
  g_ino.clear();
  g_files.clear();
  g_dirs.clear();
  rmTree(root);
}

} // namespace

int main() {
  vh::lineLoop(runScenario);
  std::cout.flush();
  fflush(nullptr);
  _exit(0);
}

// Engine h_statsvc (C19): drives the real Oomd::Stats service (counter map + AF_UNIX socket server)
// and Oomd::StatsClient, compiled from /repo's working tree, on REAL time (no virtual clock: the
// 2 s socket timeouts and the destructor's 5 s wait are evaluated by the kernel).
//
// Scenario kinds (one JSON object per line, one process per scenario is recommended - chunk=1):
//   api    N threads of API calls (+ raw-socket 'g'/'r' clients) with invocation/response stamps
//   sess   a batch of raw AF_UNIX client sessions (bytes, chunks with delays, half-close, stall,
//          disconnect without reading), then final counters, then the destructor under a watchdog
//   path   socket paths of an exact length around sizeof(sun_path) for Stats and StatsClient;
//          bind(2)/connect(2) arguments are observed at the libc boundary
//   uninit free-function API before / after Stats::init (singleton)
//
// SIGPIPE keeps its default disposition, exactly as in oomd's main(): the harness' own client writes
// use MSG_NOSIGNAL, so a SIGPIPE death is one caused by the server's write.
#include "common.h"

#include <dlfcn.h>
#include <fcntl.h>
#include <signal.h>
#include <sys/socket.h>
#include <sys/un.h>
#include <atomic>
#include <chrono>
#include <condition_variable>
#include <cstring>
#include <mutex>
#include <thread>
#include <vector>

#include "oomd/Stats.h"
#include "oomd/StatsClient.h"

using namespace Oomd;
using Clock = std::chrono::steady_clock;

static int msSince(Clock::time_point t0) {
  return (int)std::chrono::duration_cast<std::chrono::milliseconds>(Clock::now() - t0).count();
}

// ------------------------------------------------------------------------------------------------
// libc boundary: socket / bind / connect of AF_UNIX addresses (used by the path-length scenarios)
// ------------------------------------------------------------------------------------------------
struct AddrEv {
  std::string call;  // bind | connect
  int fd;
  int lastSocketFd;  // fd returned by the last socket() on the same thread
  std::string path;  // bytes of sun_path up to the first NUL, at most sizeof(sun_path)
  bool terminated;   // a NUL inside sun_path
  int rc;
  int err;
};
static std::mutex g_evMu;
static std::vector<AddrEv> g_events;
static std::atomic<bool> g_record{false};
static thread_local int t_lastSocket = -1;

extern "C" int socket(int domain, int type, int protocol) {
  using Fn = int (*)(int, int, int);
  static Fn real = (Fn)dlsym(RTLD_NEXT, "socket");
  int fd = real(domain, type, protocol);
  if (domain == AF_UNIX) {
    t_lastSocket = fd;
  }
  return fd;
}

static void recordAddr(const char* call, int fd, const struct sockaddr* addr, socklen_t len, int rc, int err) {
  if (!g_record.load() || !addr || addr->sa_family != AF_UNIX) {
    return;
  }
  const sockaddr_un* un = (const sockaddr_un*)addr;
  size_t cap = sizeof(un->sun_path);
  size_t avail = len > offsetof(sockaddr_un, sun_path) ? len - offsetof(sockaddr_un, sun_path) : 0;
  if (avail > cap) {
    avail = cap;
  }
  size_t n = strnlen(un->sun_path, avail);
  AddrEv e{call, fd, t_lastSocket, std::string(un->sun_path, n), n < avail, rc, err};
  std::lock_guard<std::mutex> l(g_evMu);
  g_events.push_back(e);
}

extern "C" int bind(int fd, const struct sockaddr* addr, socklen_t len) {
  using Fn = int (*)(int, const struct sockaddr*, socklen_t);
  static Fn real = (Fn)dlsym(RTLD_NEXT, "bind");
  int rc = real(fd, addr, len);
  int e = errno;
  recordAddr("bind", fd, addr, len, rc, e);
  errno = e;
  return rc;
}

extern "C" int connect(int fd, const struct sockaddr* addr, socklen_t len) {
  using Fn = int (*)(int, const struct sockaddr*, socklen_t);
  static Fn real = (Fn)dlsym(RTLD_NEXT, "connect");
  int rc = real(fd, addr, len);
  int e = errno;
  recordAddr("connect", fd, addr, len, rc, e);
  errno = e;
  return rc;
}

// ------------------------------------------------------------------------------------------------
// helpers
// ------------------------------------------------------------------------------------------------
static std::string toHex(const std::string& s) {
  static const char* d = "0123456789abcdef";
  std::string r;
  for (unsigned char c : s) {
    r.push_back(d[c >> 4]);
    r.push_back(d[c & 15]);
  }
  return r;
}

static std::string fromHex(const std::string& h) {
  auto v = [](char c) { return c <= '9' ? c - '0' : (c | 32) - 'a' + 10; };
  std::string r;
  for (size_t i = 0; i + 1 < h.size(); i += 2) {
    r.push_back((char)(v(h[i]) * 16 + v(h[i + 1])));
  }
  return r;
}

static Json::Value mapJson(const std::unordered_map<std::string, int>& m) {
  Json::Value o(Json::objectValue);
  for (auto& p : m) {
    o[p.first] = p.second;
  }
  return o;
}

// the harness' own address construction: never overflows, allows an unterminated 108-byte path
static bool makeAddr(const std::string& path, sockaddr_un& a, socklen_t& len) {
  memset(&a, 0, sizeof(a));
  a.sun_family = AF_UNIX;
  if (path.size() > sizeof(a.sun_path)) {
    return false;
  }
  memcpy(a.sun_path, path.data(), path.size());
  len = (socklen_t)(offsetof(sockaddr_un, sun_path) + std::min(path.size() + 1, sizeof(a.sun_path)));
  return true;
}

struct SessRes {
  bool connected = false;
  int connErr = 0;
  int sent = 0;
  int sendErr = 0;
  std::string reply;
  std::string end = "none";  // eof | reset | timeout | err | closed (client closed without reading)
  int ms = 0;
};

static void setTimeouts(int fd, int rcvMs, int sndMs) {
  timeval r{rcvMs / 1000, (rcvMs % 1000) * 1000};
  timeval s{sndMs / 1000, (sndMs % 1000) * 1000};
  setsockopt(fd, SOL_SOCKET, SO_RCVTIMEO, &r, sizeof r);
  setsockopt(fd, SOL_SOCKET, SO_SNDTIMEO, &s, sizeof s);
}

// one raw client session.  s: {"hex": bytes, "chunks":[[hex, delay_ms_before],...], "end": read|half|reset,
//                             "close_delay_ms": n, "rcv_ms": n, "read_delay_ms": n (pause before the first recv)}
static SessRes runSession(const std::string& path, const Json::Value& s) {
  SessRes r;
  auto t0 = Clock::now();
  sockaddr_un a;
  socklen_t alen;
  if (!makeAddr(path, a, alen)) {
    r.connErr = ENAMETOOLONG;
    return r;
  }
  int fd = ::socket(AF_UNIX, SOCK_STREAM, 0);
  if (fd < 0) {
    r.connErr = errno;
    return r;
  }
  setTimeouts(fd, s.get("rcv_ms", 6000).asInt(), 6000);
  if (::connect(fd, (sockaddr*)&a, alen) < 0) {
    r.connErr = errno;
    ::close(fd);
    r.ms = msSince(t0);
    return r;
  }
  r.connected = true;
  std::vector<std::pair<std::string, int>> chunks;
  if (s.isMember("chunks")) {
    for (auto& c : s["chunks"]) {
      chunks.emplace_back(fromHex(c[0].asString()), c[1].asInt());
    }
  } else {
    chunks.emplace_back(fromHex(s["hex"].asString()), 0);
  }
  for (auto& c : chunks) {
    if (c.second > 0) {
      std::this_thread::sleep_for(std::chrono::milliseconds(c.second));
    }
    size_t off = 0;
    while (off < c.first.size()) {
      ssize_t n = ::send(fd, c.first.data() + off, c.first.size() - off, MSG_NOSIGNAL);
      if (n < 0) {
        if (errno == EINTR) {
          continue;
        }
        r.sendErr = errno;
        break;
      }
      off += n;
      r.sent += n;
    }
    if (r.sendErr) {
      break;
    }
  }
  std::string end = s.get("end", "read").asString();
  if (end == "reset") {
    int d = s.get("close_delay_ms", 0).asInt();
    if (d > 0) {
      std::this_thread::sleep_for(std::chrono::milliseconds(d));
    }
    ::close(fd);
    r.end = "closed";
    r.ms = msSince(t0);
    return r;
  }
  if (end == "half") {
    ::shutdown(fd, SHUT_WR);
  }
  if (s.get("read_delay_ms", 0).asInt() > 0) {
    std::this_thread::sleep_for(std::chrono::milliseconds(s["read_delay_ms"].asInt()));
  }
  char buf[4096];
  for (;;) {
    ssize_t n = ::recv(fd, buf, sizeof buf, 0);
    if (n > 0) {
      r.reply.append(buf, n);
      if (r.reply.size() > (1u << 22)) {
        r.end = "err";
        break;
      }
      continue;
    }
    if (n == 0) {
      r.end = "eof";
    } else if (errno == EINTR) {
      continue;
    } else if (errno == EAGAIN || errno == EWOULDBLOCK) {
      r.end = "timeout";
    } else if (errno == ECONNRESET) {
      r.end = "reset";
    } else {
      r.end = "err";
    }
    break;
  }
  ::close(fd);
  r.ms = msSince(t0);
  return r;
}

static Json::Value sessJson(const SessRes& r) {
  Json::Value o(Json::objectValue);
  o["connected"] = r.connected;
  if (r.connErr) {
    o["conn_errno"] = r.connErr;
  }
  o["sent"] = r.sent;
  if (r.sendErr) {
    o["send_errno"] = r.sendErr;
  }
  o["reply"] = toHex(r.reply);
  o["end"] = r.end;
  o["ms"] = r.ms;
  return o;
}

static void applyInit(Stats& st, const Json::Value& init) {
  for (auto& op : init) {
    std::string k = op[0].asString();
    if (k == "inc") {
      st.increment(op[1].asString(), op[2].asInt());
    } else if (k == "set") {
      st.set(op[1].asString(), op[2].asInt());
    } else if (k == "reset") {
      st.reset();
    }
  }
}

// ------------------------------------------------------------------------------------------------
// destructor under a watchdog.  OCHECK(false) in ~Stats calls abort(): the SIGABRT handler prints the
// trace prepared so far with "destructor":"abort"; a destructor that does not return within the
// watchdog time prints it with "destructor":"hang".  Either way the process ends there.
// ------------------------------------------------------------------------------------------------
static char* g_abortLine = nullptr;
static char* g_hangLine = nullptr;
static std::atomic<bool> g_inDtor{false};

static void onAbort(int) {
  if (g_inDtor.load() && g_abortLine) {
    ssize_t w = ::write(1, g_abortLine, strlen(g_abortLine));
    (void)w;
    _exit(0);
  }
  signal(SIGABRT, SIG_DFL);
  raise(SIGABRT);
}

static void destroyWatched(std::unique_ptr<Stats>& st, Json::Value& out, int watchdogMs) {
  Json::Value a = out;
  a["destructor"] = "abort";
  std::string al = vh::compact(a) + "\n";
  a["destructor"] = "hang";
  std::string hl = vh::compact(a) + "\n";
  g_abortLine = strdup(al.c_str());
  g_hangLine = strdup(hl.c_str());
  std::mutex mu;
  std::condition_variable cv;
  bool done = false;
  std::thread wd([&] {
    std::unique_lock<std::mutex> l(mu);
    if (!cv.wait_for(l, std::chrono::milliseconds(watchdogMs), [&] { return done; })) {
      ssize_t w = ::write(1, g_hangLine, strlen(g_hangLine));
      (void)w;
      _exit(0);
    }
  });
  auto t0 = Clock::now();
  g_inDtor = true;
  st.reset();  // ~Stats
  g_inDtor = false;
  out["dtor_ms"] = msSince(t0);
  {
    std::lock_guard<std::mutex> l(mu);
    done = true;
  }
  cv.notify_all();
  wd.join();
  out["destructor"] = "ok";
}

// ------------------------------------------------------------------------------------------------
// kind: api
// ------------------------------------------------------------------------------------------------
static std::atomic<uint64_t> g_stamp{1};
static inline uint64_t stamp() {
  // relaxed on purpose: gives a total order of invocation / response events without creating
  // happens-before edges that would hide races in the code under test from ThreadSanitizer
  return g_stamp.fetch_add(1, std::memory_order_relaxed);
}

struct OpRes {
  uint64_t inv = 0, res = 0;
  int ret = 0;
  bool hasMap = false;
  std::unordered_map<std::string, int> map;
  bool hasReply = false;
  SessRes sess;
};

static void doApi(const Json::Value& sc, Json::Value& out) {
  std::string dir = vh::freshDir("sv");
  std::string path = dir + "/s";
  bool singleton = sc.get("singleton", false).asBool();
  std::unique_ptr<Stats> inst;
  Stats* st = nullptr;
  if (singleton) {
    if (!Stats::init(path)) {
      out["init"] = "failed";
      vh::rmrf(dir);
      return;
    }
    st = &Stats::get();
  } else {
    try {
      inst = Stats::get_for_unittest(path);
    } catch (const std::runtime_error& e) {
      out["init"] = "failed";
      vh::rmrf(dir);
      return;
    }
    st = inst.get();
  }
  out["init"] = "ok";
  applyInit(*st, sc["init"]);
  const Json::Value& threads = sc["threads"];
  size_t T = threads.size();
  std::vector<std::vector<OpRes>> res(T);
  std::atomic<bool> go{false};
  std::vector<std::thread> ths;
  Json::Value gsess(Json::objectValue), rsess(Json::objectValue);
  gsess["hex"] = "670a";
  rsess["hex"] = "720a";
  for (size_t t = 0; t < T; t++) {
    res[t].resize(threads[(int)t].size());
    ths.emplace_back([&, t] {
      const Json::Value& ops = threads[(int)t];
      while (!go.load(std::memory_order_acquire)) {
        std::this_thread::yield();
      }
      for (Json::ArrayIndex i = 0; i < ops.size(); i++) {
        const Json::Value& op = ops[i];
        std::string k = op[0].asString();
        OpRes& r = res[t][i];
        if (k == "inc") {
          std::string key = op[1].asString();
          int v = op[2].asInt();
          r.inv = stamp();
          r.ret = singleton ? Oomd::incrementStat(key, v) : st->increment(key, v);
          r.res = stamp();
        } else if (k == "set") {
          std::string key = op[1].asString();
          int v = op[2].asInt();
          r.inv = stamp();
          r.ret = singleton ? Oomd::setStat(key, v) : st->set(key, v);
          r.res = stamp();
        } else if (k == "reset") {
          r.inv = stamp();
          r.ret = singleton ? Oomd::resetStats() : st->reset();
          r.res = stamp();
        } else if (k == "get") {
          r.inv = stamp();
          r.map = singleton ? Oomd::getStats() : st->getAll();
          r.res = stamp();
          r.hasMap = true;
        } else if (k == "scget") {
          // the real client (`oomd --dump-stats`): a successful call must deliver the server's counters like getAll()
          r.inv = stamp();
          StatsClient c(path);
          auto m = c.getStats();
          r.res = stamp();
          if (m) {
            r.map = *m;
            r.hasMap = true;
          } else {
            r.ret = -1;
          }
        } else if (k == "screset") {
          r.inv = stamp();
          StatsClient c(path);
          r.ret = c.resetStats();
          r.res = stamp();
        } else if (k == "cget" || k == "creset") {
          r.inv = stamp();
          r.sess = runSession(path, k == "cget" ? gsess : rsess);
          r.res = stamp();
          r.hasReply = true;
        } else if (k == "yield") {
          r.inv = stamp();
          std::this_thread::yield();
          r.res = stamp();
        }
      }
    });
  }
  go.store(true, std::memory_order_release);
  for (auto& t : ths) {
    t.join();
  }
  Json::Value hist(Json::arrayValue);
  for (size_t t = 0; t < T; t++) {
    for (size_t i = 0; i < res[t].size(); i++) {
      const OpRes& r = res[t][i];
      Json::Value o(Json::objectValue);
      o["th"] = (int)t;
      o["i"] = (int)i;
      o["inv"] = (Json::UInt64)r.inv;
      o["res"] = (Json::UInt64)r.res;
      if (r.hasMap) {
        o["map"] = mapJson(r.map);
      } else if (r.hasReply) {
        o["reply"] = toHex(r.sess.reply);
        o["end"] = r.sess.end;
        o["connected"] = r.sess.connected;
      } else {
        o["ret"] = r.ret;
      }
      hist.append(o);
    }
  }
  out["hist"] = hist;
  out["final"] = mapJson(st->getAll());
  if (singleton) {
    out["destructor"] = "skipped";  // static singleton: destroyed at exit, the harness leaves with _exit
  } else {
    destroyWatched(inst, out, sc.get("watchdog_ms", 9000).asInt());
  }
  vh::rmrf(dir);
}

// ------------------------------------------------------------------------------------------------
// kind: sess
// ------------------------------------------------------------------------------------------------
static void doSess(const Json::Value& sc, Json::Value& out) {
  std::string dir = vh::freshDir("sv");
  std::string path = dir + "/s";
  std::unique_ptr<Stats> inst;
  try {
    inst = Stats::get_for_unittest(path);
  } catch (const std::runtime_error& e) {
    out["init"] = "failed";
    vh::rmrf(dir);
    return;
  }
  out["init"] = "ok";
  applyInit(*inst, sc["init"]);
  const Json::Value& ss = sc["sessions"];
  size_t N = ss.size();
  std::vector<SessRes> res(N);
  std::vector<std::thread> ths;
  std::atomic<size_t> next{0};
  std::vector<size_t> pooled;
  for (size_t i = 0; i < N; i++) {
    if (ss[(int)i].get("bg", false).asBool()) {
      ths.emplace_back([&, i] { res[i] = runSession(path, ss[(int)i]); });
    } else {
      pooled.push_back(i);
    }
  }
  int par = sc.get("par", 4).asInt();
  for (int w = 0; w < par && !pooled.empty(); w++) {
    ths.emplace_back([&] {
      for (;;) {
        size_t j = next.fetch_add(1);
        if (j >= pooled.size()) {
          break;
        }
        size_t i = pooled[j];
        res[i] = runSession(path, ss[(int)i]);
      }
    });
  }
  auto fill = [&] {
    Json::Value arr(Json::arrayValue);
    for (size_t i = 0; i < N; i++) {
      arr.append(sessJson(res[i]));
    }
    out["sess"] = arr;
  };
  if (sc.isMember("dtor_at_ms")) {
    // destroy the service while sessions are still open
    std::this_thread::sleep_for(std::chrono::milliseconds(sc["dtor_at_ms"].asInt()));
    out["final"] = mapJson(inst->getAll());
    out["sess_pending"] = true;
    destroyWatched(inst, out, sc.get("watchdog_ms", 9000).asInt());
    for (auto& t : ths) {
      t.join();
    }
    fill();
  } else {
    for (auto& t : ths) {
      t.join();
    }
    fill();
    int settle = sc.get("settle_ms", 0).asInt();
    if (settle > 0) {
      std::this_thread::sleep_for(std::chrono::milliseconds(settle));
    }
    out["final"] = mapJson(inst->getAll());
    destroyWatched(inst, out, sc.get("watchdog_ms", 9000).asInt());
  }
  vh::rmrf(dir);
}

// ------------------------------------------------------------------------------------------------
// kind: path
// ------------------------------------------------------------------------------------------------
static Json::Value eventsJson(const std::string& wanted) {
  Json::Value arr(Json::arrayValue);
  std::lock_guard<std::mutex> l(g_evMu);
  for (auto& e : g_events) {
    Json::Value o(Json::objectValue);
    o["call"] = e.call;
    o["fd_is_last_socket"] = (e.fd == e.lastSocketFd);
    o["path_len"] = (int)e.path.size();
    o["path_matches"] = (e.path == wanted);
    o["terminated"] = e.terminated;
    o["rc"] = e.rc;
    if (e.rc < 0) {
      o["errno"] = e.err;
    }
    arr.append(o);
  }
  g_events.clear();
  return arr;
}

// StatsClient lives in this frame, like in Main.cpp and in ~Stats: an overflowing strcpy in its
// constructor is a stack overflow that AddressSanitizer reports
static __attribute__((noinline)) void clientProbe(const std::string& path, Json::Value& out) {
  StatsClient c(path);
  auto m = c.getStats();
  out["client_get"] = m ? Json::Value(mapJson(*m)) : Json::Value(Json::nullValue);
  out["client_close_rc"] = c.closeSocket();
}

static void doPath(const Json::Value& sc, Json::Value& out) {
  std::string dir = vh::freshDir("sv");
  std::string path;
  std::string bad = sc.get("bad", "").asString();
  int L = sc.get("len", 0).asInt();
  if (bad == "missing_dir") {
    path = dir + "/nonexistent/s";
  } else if (bad == "is_dir") {
    path = dir + "/";
  } else if (bad == "empty") {
    path = "";
  } else {
    if ((int)dir.size() + 2 > L) {
      out["skipped"] = "scratch directory name too long for the requested length";
      vh::rmrf(dir);
      return;
    }
    path = dir + "/" + std::string(L - dir.size() - 1, 'p');
  }
  out["path_len"] = (int)path.size();
  out["sun_path_size"] = (int)sizeof(((sockaddr_un*)nullptr)->sun_path);
  std::string who = sc.get("who", "server").asString();
  g_record = true;
  if (who == "server") {
    std::unique_ptr<Stats> inst;
    try {
      inst = Stats::get_for_unittest(path);
      out["init"] = "ok";
    } catch (const std::runtime_error& e) {
      out["init"] = "failed";
    }
    out["events"] = eventsJson(path);
    if (inst) {
      g_record = false;
      inst->increment("k", 7);
      // the harness' own client (never overflows); a 108-byte path is sent unterminated
      Json::Value g(Json::objectValue);
      g["hex"] = "670a";
      SessRes r = runSession(path, g);
      out["raw_get"] = sessJson(r);
      g_record = true;
      if (sc.get("with_client", true).asBool()) {
        clientProbe(path, out);
        out["client_events"] = eventsJson(path);
      }
      g_record = false;
      out["final"] = mapJson(inst->getAll());
      destroyWatched(inst, out, sc.get("watchdog_ms", 9000).asInt());
    }
  } else {
    // client only: nobody listens; the interesting part is what address StatsClient hands to connect(2)
    clientProbe(path, out);
    out["client_events"] = eventsJson(path);
  }
  g_record = false;
  vh::rmrf(dir);
}

// ------------------------------------------------------------------------------------------------
// kind: uninit - the free-function API around Stats::init (singleton; process must end afterwards)
// ------------------------------------------------------------------------------------------------
static void doUninit(const Json::Value& sc, Json::Value& out) {
  out["pre_isinit"] = Stats::isInit();
  out["pre_inc"] = Oomd::incrementStat("a", 1);
  out["pre_set"] = Oomd::setStat("a", 1);
  out["pre_reset"] = Oomd::resetStats();
  out["pre_get"] = mapJson(Oomd::getStats());
  std::string dir = vh::freshDir("sv");
  bool ok = Stats::init(dir + "/s");
  out["init"] = ok ? "ok" : "failed";
  out["post_isinit"] = Stats::isInit();
  if (ok) {
    out["post_inc"] = Oomd::incrementStat("a", 2);
    out["post_inc2"] = Oomd::incrementStat("a", 3);
    out["post_set"] = Oomd::setStat("b", 9);
    out["post_get"] = mapJson(Oomd::getStats());
    out["post_reset"] = Oomd::resetStats();
    out["post_get2"] = mapJson(Oomd::getStats());
  }
  out["destructor"] = "skipped";
}

int main() {
  signal(SIGABRT, onAbort);
  std::string line;
  Json::CharReaderBuilder rb;
  bool leave = false;
  while (!leave && std::getline(std::cin, line)) {
    if (line.empty()) {
      continue;
    }
    Json::Value sc;
    std::string errs;
    std::istringstream is(line);
    if (!Json::parseFromStream(rb, is, &sc, &errs)) {
      std::cout << "{\"error\":\"bad json\"}" << std::endl;
      continue;
    }
    Json::Value out(Json::objectValue);
    out["id"] = sc["id"];
    out["outcome"] = "ok";
    std::string kind = sc["kind"].asString();
    out["kind"] = kind;
    if (kind == "api") {
      doApi(sc, out);
      leave = sc.get("singleton", false).asBool();
    } else if (kind == "sess") {
      doSess(sc, out);
    } else if (kind == "path") {
      doPath(sc, out);
    } else if (kind == "uninit") {
      doUninit(sc, out);
      leave = true;
    } else {
      out["error"] = "unknown kind";
    }
    std::cout << vh::compact(out) << std::endl;
  }
  // never run static destructors (the Stats singleton's destructor waits on real-time condition
  // variables and would be a second, unobserved shutdown)
  fflush(nullptr);
  _exit(0);
}

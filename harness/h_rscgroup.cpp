// Engine h_rscgroup (C11): the real ConfigCompiler + Engine + Ruleset + DetectorGroup with a ruleset-level
// `cgroup` pattern, driven tick by tick over a scratch cgroup tree whose matching cgroups are created,
// removed, re-created, (un)tagged (xattr_filter) and made un-openable between ticks.  Scripted plugins
// are registered in the real plugin registry; CLOCK_MONOTONIC is virtual.  Derived from h_engine.cpp;
// differences: every plugin object carries a serial number (object identity), every call logs the
// ruleset cgroup of the OomdContext, scripts are per (cgroup, plugin), the world of every tick is
// given in full (the harness diffs), `open` / `fgetxattr` are interposed for fault injection, and every
// scenario runs in a forked child so that a sanitizer report or crash is an outcome of that scenario.
//
// Scenario:
//  {"id":..,
//   "rulesets":[{"rid":0,"delay":"15"|"","hook_timeout":"5"|"","silence":"",
//                "groups":[{"gid":0,"dets":[inst,...]}],"actions":[inst | {"inst":n,"cgroup":"x/y"},...],
//                "cgroup":"s/w*" (optional), "xattr_filter":"user.oomd_x" (optional)}],
//   "ticks":[{"gap":ns,
//             "cgs":[{"path":"s/wa","kind":"dir"|"file","x":bool,"open":bool,"xerr":bool,"re":bool}],
//                   // complete list of what exists below the cgroup fs root at this tick; x = carries
//                   // the xattr "user.oomd_x"; open=false: open(2) of it fails with EACCES; xerr:
//                   // fgetxattr fails with EIO; re: removed and re-created since the previous tick
//             "calls":{"<cgroup or empty>":{"<inst>":[ret,adv_ns,pause_s|-1]}}}]}   // default [0,0,-1]
// Trace: {"outcome":"ok"|"asan:..."|..., "compile":[ev..], "ticks":[{"pre":[ev..],"run":[ev..]},..]}
//   ev = ["i",inst,serial,cgroupArg|"-"]                      init() of a plugin object
//      | ["p",inst,serial]                                    prerun()
//      | ["d",inst,serial,now,rcg]                            run() of a detector; rcg = ctx.getRulesetCgroup() or "-"
//      | ["a",inst,serial,now,rcg,ruleset,group,uuid#,deadline,invoking,target,key]   run() of an action
//      | ["x",inst,serial]                                    destructor
//   key = the `cgroup` argument the object was initialised with ("-" if none), target = ActionContext.target_cgroup
#include "common.h"

#include <algorithm>

#include "oomd/util/PluginArgParser.h"
#include "vclock.h"

#include <dirent.h>
#include <ftw.h>
#include <fcntl.h>
#include <stdarg.h>
#include <sys/wait.h>
#include <sys/xattr.h>
#include <map>
#include <set>

#include "oomd/Log.h"
#include "oomd/OomdContext.h"
#include "oomd/PluginRegistry.h"
#include "oomd/Stats.h"
#include "oomd/config/ConfigCompiler.h"
#include "oomd/config/ConfigTypes.h"
#include "oomd/engine/BasePlugin.h"
#include "oomd/engine/Engine.h"
#include "oomd/engine/Ruleset.h"

using namespace Oomd;

// ---------------------------------------------------------------------------------------------
// libc boundary: open(2) of a blocked directory fails, fgetxattr on a marked directory fails
// ---------------------------------------------------------------------------------------------
static std::set<std::string> g_blocked; // absolute paths
static std::set<std::string> g_xerr;

extern "C" int open(const char* path, int flags, ...) {
  using fn_t = int (*)(const char*, int, ...);
  static fn_t real = (fn_t)dlsym(RTLD_NEXT, "open");
  mode_t mode = 0;
  if (flags & (O_CREAT | O_TMPFILE)) {
    va_list ap;
    va_start(ap, flags);
    mode = va_arg(ap, mode_t);
    va_end(ap);
  }
  if ((flags & O_DIRECTORY) && !g_blocked.empty() && g_blocked.count(path)) {
    errno = EACCES;
    return -1;
  }
  return real(path, flags, mode);
}

extern "C" ssize_t fgetxattr(int fd, const char* name, void* value, size_t size) {
  using fn_t = ssize_t (*)(int, const char*, void*, size_t);
  static fn_t real = (fn_t)dlsym(RTLD_NEXT, "fgetxattr");
  if (!g_xerr.empty()) {
    char buf[4096];
    std::string link = "/proc/self/fd/" + std::to_string(fd);
    ssize_t n = ::readlink(link.c_str(), buf, sizeof(buf) - 1);
    if (n > 0) {
      buf[n] = 0;
      if (g_xerr.count(buf)) {
        errno = EIO;
        return -1;
      }
    }
  }
  return real(fd, name, value, size);
}

namespace {

const char* kXattr = "user.oomd_x";

struct Call {
  int ret{0};
  int64_t adv{0};
  int64_t pause{-1};
};

std::map<std::pair<std::string, int>, Call> g_calls; // this tick's script, keyed by (ruleset cgroup, inst)
Json::Value* g_events = nullptr;
std::map<std::string, int> g_uuid_ids;
int g_serial = 0;

int uuidId(const std::string& u) {
  if (u.empty()) return -1;
  auto it = g_uuid_ids.find(u);
  if (it != g_uuid_ids.end()) return it->second;
  int id = (int)g_uuid_ids.size();
  g_uuid_ids[u] = id;
  return id;
}

class Scripted : public Engine::BasePlugin {
 public:
  Scripted() : serial_(g_serial++) {}
  ~Scripted() override {
    if (!g_events) return;
    Json::Value e(Json::arrayValue);
    e.append("x");
    e.append(inst_);
    e.append(serial_);
    g_events->append(e);
  }
  int init(const Engine::PluginArgs& args, const PluginConstructionContext& pcc) override {
    auto it = args.find("inst");
    if (it == args.end()) return 1;
    inst_ = std::stoi(it->second);
    auto c = args.find("cgroup");
    key_ = c == args.end() ? "-" : c->second;
    if (g_events) {
      Json::Value e(Json::arrayValue);
      e.append("i");
      e.append(inst_);
      e.append(serial_);
      e.append(key_);
      // what the argument names when it is read the way every core plugin reads it (PluginArgParser::parseCgroup, then
      // resolveWildcard on each pattern) - the cgroups this plugin object would act on right now
      Json::Value res(Json::arrayValue);
      if (c != args.end()) {
        std::vector<std::string> rel;
        for (const auto& pat : PluginArgParser::parseCgroup(pcc, c->second))
          for (const auto& r : pat.resolveWildcard()) rel.push_back(r.relativePath());
        std::sort(rel.begin(), rel.end());
        rel.erase(std::unique(rel.begin(), rel.end()), rel.end());
        for (auto& r : rel) res.append(r);
      }
      e.append(res);
      g_events->append(e);
    }
    return 0;
  }
  void prerun(OomdContext&) override {
    if (!g_events) return;
    Json::Value e(Json::arrayValue);
    e.append("p");
    e.append(inst_);
    e.append(serial_);
    g_events->append(e);
  }
  Engine::PluginRet run(OomdContext& ctx) override {
    auto rc = ctx.getRulesetCgroup();
    std::string rcg = rc ? rc->relativePath() : std::string("-");
    Call c;
    auto it = g_calls.find({rc ? rcg : std::string(""), inst_});
    if (it != g_calls.end()) c = it->second;
    const auto& ac = ctx.getActionContext();
    Json::Value e(Json::arrayValue);
    bool isAction = getName() == "vaction";
    e.append(isAction ? "a" : "d");
    e.append(inst_);
    e.append(serial_);
    e.append((Json::Int64)vh::g_now_ns);
    e.append(rcg);
    if (isAction) {
      e.append(ac.ruleset_name);
      e.append(ac.detectorgroup);
      e.append(uuidId(ac.action_group_run_uuid));
      if (ac.prekill_hook_timeout_ts) {
        e.append((Json::Int64)std::chrono::duration_cast<std::chrono::nanoseconds>(
                     ac.prekill_hook_timeout_ts->time_since_epoch())
                     .count());
      } else {
        e.append(-1);
      }
      e.append(ctx.getInvokingRuleset().has_value());
      e.append(ac.target_cgroup ? ac.target_cgroup->relativePath() : std::string("-"));
      e.append(key_);
    }
    if (g_events) g_events->append(e);
    vh::advanceNs(c.adv);
    if (c.pause >= 0) {
      auto rs = ctx.getInvokingRuleset();
      if (rs) (*rs)->pause_actions(std::chrono::seconds(c.pause));
    }
    switch (c.ret) {
      case 1: return Engine::PluginRet::STOP;
      case 2: return Engine::PluginRet::ASYNC_PAUSED;
      default: return Engine::PluginRet::CONTINUE;
    }
  }
  static Scripted* create() { return new Scripted(); }

 private:
  int inst_{-1};
  int serial_;
  std::string key_{"-"};
};

bool reg1 = getPluginRegistry().add("vdetector", Scripted::create);
bool reg2 = getPluginRegistry().add("vaction", Scripted::create);

Config2::IR::Ruleset irRuleset(const Json::Value& r) {
  Config2::IR::Ruleset ir;
  ir.name = "r" + std::to_string(r["rid"].asInt());
  for (const auto& g : r["groups"]) {
    Config2::IR::DetectorGroup dg;
    dg.name = "g" + std::to_string(g["gid"].asInt());
    for (const auto& d : g["dets"]) {
      Config2::IR::Detector det;
      det.name = "vdetector";
      det.args["inst"] = std::to_string(d.asInt());
      dg.detectors.push_back(det);
    }
    ir.dgs.push_back(dg);
  }
  for (const auto& a : r["actions"]) {
    Config2::IR::Action act;
    act.name = "vaction";
    if (a.isObject()) {
      act.args["inst"] = std::to_string(a["inst"].asInt());
      if (a.isMember("cgroup")) act.args["cgroup"] = a["cgroup"].asString();
    } else {
      act.args["inst"] = std::to_string(a.asInt());
    }
    ir.acts.push_back(act);
  }
  ir.post_action_delay = r.get("delay", "").asString();
  ir.prekill_hook_timeout = r.get("hook_timeout", "").asString();
  ir.silence_logs = r.get("silence", "").asString();
  ir.cgroup = r.get("cgroup", "").asString();
  ir.xattr_filter = r.get("xattr_filter", "").asString();
  return ir;
}

// vh::rmrf goes through system(); fork+exec from a sanitized process costs ~0.5 s, so remove natively
int rmOne(const char* path, const struct stat*, int, struct FTW*) {
  return ::remove(path);
}
void rmTree(const std::string& p) {
  ::nftw(p.c_str(), rmOne, 32, FTW_DEPTH | FTW_PHYS);
}

// vh::mkdirs calls mkdir(2) on every prefix from "/" down; the prefixes above the scenario's own
// directory are shared with all other checks and their directory locks are contended.  Below the
// scenario's root only the relative components are created.
void mkdirsBelow(const std::string& root, const std::string& rel) {
  size_t i = 0;
  while (i <= rel.size()) {
    size_t j = rel.find('/', i);
    if (j == std::string::npos) j = rel.size();
    if (j > 0) ::mkdir((root + "/" + rel.substr(0, j)).c_str(), 0755);
    i = j + 1;
  }
}

// make the scratch tree equal to the tick's `cgs` list
void listTree(const std::string& root, const std::string& rel, std::vector<std::string>& out) {
  std::string dir = rel.empty() ? root : root + "/" + rel;
  DIR* d = ::opendir(dir.c_str());
  if (!d) return;
  std::vector<std::string> names;
  while (struct dirent* e = ::readdir(d)) {
    std::string n = e->d_name;
    if (n == "." || n == "..") continue;
    names.push_back(n);
  }
  ::closedir(d);
  for (const auto& n : names) {
    std::string r = rel.empty() ? n : rel + "/" + n;
    struct stat st;
    if (::lstat((root + "/" + r).c_str(), &st) == 0 && S_ISDIR(st.st_mode)) listTree(root, r, out);
    out.push_back(r); // children before parents
  }
}

bool isPrefixDir(const std::string& p, const std::set<std::string>& want) {
  // p is needed as a parent directory of some wanted entry
  for (const auto& w : want)
    if (w.size() > p.size() && w.compare(0, p.size(), p) == 0 && w[p.size()] == '/') return true;
  return false;
}

void syncWorld(const std::string& root, const Json::Value& cgs) {
  std::set<std::string> want;
  for (const auto& c : cgs) want.insert(c["path"].asString());
  // forced re-creation first
  for (const auto& c : cgs)
    if (c.get("re", false).asBool()) rmTree(root + "/" + c["path"].asString());
  std::vector<std::string> have;
  listTree(root, "", have);
  for (const auto& h : have) {
    if (want.count(h) || isPrefixDir(h, want)) continue;
    std::string p = root + "/" + h;
    struct stat st;
    if (::lstat(p.c_str(), &st) != 0) continue;
    if (S_ISDIR(st.st_mode)) ::rmdir(p.c_str()); else ::unlink(p.c_str());
  }
  g_blocked.clear();
  g_xerr.clear();
  for (const auto& c : cgs) {
    std::string rel = c["path"].asString();
    std::string p = root + "/" + rel;
    if (c.get("kind", "dir").asString() == "file") {
      struct stat st;
      if (::lstat(p.c_str(), &st) != 0) {
        if (rel.find('/') != std::string::npos) mkdirsBelow(root, rel.substr(0, rel.rfind('/')));
        vh::writeFile(p, "x\n");
      }
      continue;
    }
    mkdirsBelow(root, rel);
    if (c.get("x", false).asBool()) {
      std::string xv = c.get("xv", "1").asString();  // the value is free; an empty one is a tag like any other
      ::setxattr(p.c_str(), kXattr, xv.data(), xv.size(), 0);
    } else {
      ::removexattr(p.c_str(), kXattr);
    }
    if (!c.get("open", true).asBool()) g_blocked.insert(p);
    if (c.get("xerr", false).asBool()) g_xerr.insert(p);
  }
}

void runScenario(const Json::Value& sc, Json::Value& out) {
  g_uuid_ids.clear();
  g_calls.clear();
  g_serial = 0;
  vh::setNowNs(1000LL * 1000000000LL);
  // one directory per (forked) scenario process directly below the scratch root
  std::string top = vh::scratchRoot() + "/rscg-" + std::to_string(getpid()) + "-0";
  ::mkdir(top.c_str(), 0755);
  std::string cgfs = top + "/cg";
  ::mkdir(cgfs.c_str(), 0755);

  Config2::IR::Root root;
  for (const auto& r : sc["rulesets"]) root.rulesets.push_back(irRuleset(r));
  PluginConstructionContext pcc(cgfs);
  Json::Value compileEvs(Json::arrayValue);
  g_events = &compileEvs;
  auto engine = Config2::compile(root, pcc);
  g_events = nullptr;
  out["compile"] = compileEvs;
  if (!engine) {
    out["outcome"] = "compile-failed";
    rmTree(top);
    return;
  }
  Json::Value ticks(Json::arrayValue);
  for (const auto& t : sc["ticks"]) {
    vh::advanceNs(t["gap"].asInt64());
    syncWorld(cgfs, t["cgs"]);
    g_calls.clear();
    const Json::Value& calls = t["calls"];
    for (auto cg = calls.begin(); cg != calls.end(); ++cg) {
      for (auto it = cg->begin(); it != cg->end(); ++it) {
        Call c;
        c.ret = (*it)[0].asInt();
        c.adv = (*it)[1].asInt64();
        c.pause = (*it)[2].asInt64();
        g_calls[{cg.key().asString(), std::stoi(it.key().asString())}] = c;
      }
    }
    Json::Value tk(Json::objectValue);
    Json::Value pre(Json::arrayValue), run(Json::arrayValue);
    OomdContext ctx;
    g_events = &pre;
    engine->prerun(ctx);
    g_events = &run;
    engine->runOnce(ctx);
    g_events = nullptr;
    tk["pre"] = pre;
    tk["run"] = run;
    ticks.append(tk);
  }
  out["ticks"] = ticks;
  g_blocked.clear();
  g_xerr.clear();
  engine.reset();
  rmTree(top);
}

std::string classify(int status, const std::string& se) {
  auto grab = [&](const std::string& key, size_t maxlen) {
    size_t p = se.find(key);
    if (p == std::string::npos) return std::string("?");
    p += key.size();
    size_t q = p;
    while (q < se.size() && q - p < maxlen && se[q] != ' ' && se[q] != '\n') q++;
    return se.substr(p, q - p);
  };
  if (se.find("AddressSanitizer") != std::string::npos) return "asan:" + grab("AddressSanitizer: ", 60);
  if (se.find("runtime error:") != std::string::npos) return "ubsan:" + grab("runtime error: ", 40);
  if (se.find("terminate called") != std::string::npos) return "uncaught:" + grab("instance of '", 60);
  if (se.find("Assertion") != std::string::npos) return "abort:assert";
  if (WIFSIGNALED(status)) return "signal:" + std::to_string(WTERMSIG(status));
  return "exit:" + std::to_string(WEXITSTATUS(status));
}

// run one scenario in a forked child; a crash / sanitizer report of the real code becomes the outcome
void runForked(const Json::Value& sc, Json::Value& out) {
  int po[2], pe[2];
  if (::pipe(po) || ::pipe(pe)) {
    out["outcome"] = "harness:pipe";
    return;
  }
  std::cout.flush();
  fflush(nullptr);
  pid_t pid = ::fork();
  if (pid == 0) {
    ::close(po[0]);
    ::close(pe[0]);
    ::dup2(pe[1], 2);
    Json::Value o(Json::objectValue);
    o["id"] = sc["id"];
    o["outcome"] = "ok";
    runScenario(sc, o);
    std::string s = vh::compact(o);
    size_t off = 0;
    while (off < s.size()) {
      ssize_t n = ::write(po[1], s.data() + off, s.size() - off);
      if (n <= 0) break;
      off += n;
    }
    _exit(0);
  }
  ::close(po[1]);
  ::close(pe[1]);
  std::string so, se;
  // read both pipes until EOF (poll-free: stderr is small unless a report is printed; read stdout first
  // would deadlock on a huge report, so alternate with non-blocking reads)
  ::fcntl(po[0], F_SETFL, O_NONBLOCK);
  ::fcntl(pe[0], F_SETFL, O_NONBLOCK);
  bool eo = false, ee = false;
  char buf[65536];
  while (!eo || !ee) {
    fd_set rf;
    FD_ZERO(&rf);
    if (!eo) FD_SET(po[0], &rf);
    if (!ee) FD_SET(pe[0], &rf);
    ::select(std::max(po[0], pe[0]) + 1, &rf, nullptr, nullptr, nullptr);
    if (!eo && FD_ISSET(po[0], &rf)) {
      ssize_t n = ::read(po[0], buf, sizeof buf);
      if (n > 0) so.append(buf, n); else if (n == 0) eo = true;
    }
    if (!ee && FD_ISSET(pe[0], &rf)) {
      ssize_t n = ::read(pe[0], buf, sizeof buf);
      if (n > 0) { if (se.size() < (1 << 20)) se.append(buf, n); } else if (n == 0) ee = true;
    }
  }
  ::close(po[0]);
  ::close(pe[0]);
  int status = 0;
  ::waitpid(pid, &status, 0);
  Json::Value parsed;
  bool okParse = false;
  if (!so.empty()) {
    Json::CharReaderBuilder rb;
    std::string errs;
    std::istringstream is(so);
    okParse = Json::parseFromStream(rb, is, &parsed, &errs);
  }
  if (WIFEXITED(status) && WEXITSTATUS(status) == 0 && okParse) {
    out = parsed;
    return;
  }
  out["outcome"] = classify(status, se);
  // keep the head of the report (the frames that name the faulting function)
  out["stderr"] = se.size() > 3000 ? se.substr(se.find("==") == std::string::npos ? 0 : se.find("=="), 3000) : se;
  // scratch directory of the dead child (the parent never calls freshDir, so the child's counter is 0)
  rmTree(vh::scratchRoot() + "/rscg-" + std::to_string(pid) + "-0");
}

} // namespace

int main() {
  // no Stats::init: the parent stays single-threaded so that fork() per scenario is safe (the engine's
  // incrementStat is then a logged no-op)
  vh::mkdirs(vh::scratchRoot());
  vh::lineLoop(runForked);
  vh::finish(0);
}

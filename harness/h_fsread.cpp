// Engine h_fsread (C15): drives the real Oomd::updateContext / OomdContext / CgroupContext on a scratch
// cgroup tree over a multi-tick history and prints what every public accessor returns.
//
// Scenario (one JSON line):
//   {"id":..,"cfg":{"devs":[["8:0","ssd"],..],"ssd":[6 x uint64 bits of a double],"hdd":[..],"dtype":bool},
//    "tree": <world.h node>, "proc": {"vmstat": "...", ...},
//    "ticks":[{"pre":[fsop..], "ops":[op..]}]}
//   fsop: {"op":"write","path":"a/memory.current","data":"1\n"} {"op":"unlink","path":..}
//         {"op":"rmdir","path":"a"} {"op":"mkdir","path":"a","node":{..}}
//         {"op":"proc","name":"vmstat","data":"..."|null} {"op":"setx","path":"a","name":"user.x","val":""}
//         {"op":"rmx","path":"a","name":"user.x"}
//   op:   fsop | {"op":"get","cg":"a/b","f":["current_usage",..]} | {"op":"kids","cg":"a"} | {"op":"list"} | {"op":"sys"}
// Per tick: apply `pre`, call the real Oomd::updateContext(), run `ops` in order.
// Trace: {"id":..,"outcome":"ok","ticks":[[result per op (null for fsops)]]}
// Doubles are printed as the uint64 bit pattern, floats as uint32, integers exactly.  unavailable = null.
#include "common.h"
#include "world.h"

#include <dirent.h>
#include <dlfcn.h>
#include <fcntl.h>
#include <stdarg.h>
#include <sys/stat.h>
#include <sys/xattr.h>
#include <cstring>
#include <map>
#include <set>

#include "oomd/CgroupContext.h"
#include "oomd/Oomd.h"
#include "oomd/OomdContext.h"
#include "oomd/config/ConfigTypes.h"
#include "oomd/engine/Engine.h"
#include "oomd/include/CgroupPath.h"
#include "oomd/util/Fs.h"

using namespace Oomd;

// ------------------------------------------------------------------------------------------
// libc boundary: /proc redirection and d_type-less readdir
// ------------------------------------------------------------------------------------------
static std::string g_procdir; // when non-empty, /proc/<x> is served from g_procdir/<x with / -> _>
static bool g_dt_unknown = false;

static const char* redirect(const char* path, std::string& buf) {
  if (g_procdir.empty() || !path || strncmp(path, "/proc/", 6) != 0) return path;
  if (strncmp(path, "/proc/self", 10) == 0) return path;
  std::string rest(path + 6);
  for (auto& c : rest)
    if (c == '/') c = '_';
  buf = g_procdir + "/" + rest;
  return buf.c_str();
}

extern "C" int open(const char* path, int flags, ...) {
  using fn_t = int (*)(const char*, int, ...);
  static fn_t real = (fn_t)dlsym(RTLD_NEXT, "open");
  mode_t mode = 0;
  if (flags & (O_CREAT | O_TMPFILE)) {
    va_list ap;
    va_start(ap, flags);
    mode = va_arg(ap, mode_t);
    va_end(ap);
  }
  std::string buf;
  return real(redirect(path, buf), flags, mode);
}
extern "C" int open64(const char* path, int flags, ...) {
  using fn_t = int (*)(const char*, int, ...);
  static fn_t real = (fn_t)dlsym(RTLD_NEXT, "open64");
  mode_t mode = 0;
  if (flags & (O_CREAT | O_TMPFILE)) {
    va_list ap;
    va_start(ap, flags);
    mode = va_arg(ap, mode_t);
    va_end(ap);
  }
  std::string buf;
  return real(redirect(path, buf), flags, mode);
}
extern "C" FILE* fopen(const char* path, const char* mode) {
  using fn_t = FILE* (*)(const char*, const char*);
  static fn_t real = (fn_t)dlsym(RTLD_NEXT, "fopen");
  std::string buf;
  return real(redirect(path, buf), mode);
}
extern "C" FILE* fopen64(const char* path, const char* mode) {
  using fn_t = FILE* (*)(const char*, const char*);
  static fn_t real = (fn_t)dlsym(RTLD_NEXT, "fopen64");
  std::string buf;
  return real(redirect(path, buf), mode);
}

using readdir_t = struct dirent* (*)(DIR*);
static readdir_t realReaddir() {
  static readdir_t real = (readdir_t)dlsym(RTLD_NEXT, "readdir");
  return real;
}
extern "C" struct dirent* readdir(DIR* d) {
  struct dirent* e = realReaddir()(d);
  if (e && g_dt_unknown) e->d_type = DT_UNKNOWN; // what a filesystem without d_type support reports
  return e;
}

// ------------------------------------------------------------------------------------------
// access to Oomd::ctx_ (no accessor exists; explicit instantiation may name a private member)
// ------------------------------------------------------------------------------------------
template <auto M>
struct Rob {
  friend OomdContext& oomdCtx(::Oomd::Oomd& o) { return o.*M; }
};
OomdContext& oomdCtx(::Oomd::Oomd& o);
template struct Rob<&::Oomd::Oomd::ctx_>;

// ------------------------------------------------------------------------------------------
// scratch world helpers
// ------------------------------------------------------------------------------------------
static void rmTree(int parentfd, const char* name) {
  int fd = ::openat(parentfd, name, O_RDONLY | O_DIRECTORY | O_NOFOLLOW);
  if (fd < 0) {
    ::unlinkat(parentfd, name, 0);
    return;
  }
  DIR* d = ::fdopendir(fd);
  if (d) {
    std::vector<std::string> names;
    while (struct dirent* e = realReaddir()(d)) {
      if (!strcmp(e->d_name, ".") || !strcmp(e->d_name, "..")) continue;
      names.push_back(e->d_name);
    }
    for (auto& n : names) {
      if (::unlinkat(fd, n.c_str(), 0) != 0) rmTree(fd, n.c_str());
    }
    ::closedir(d);
  } else {
    ::close(fd);
  }
  ::unlinkat(parentfd, name, AT_REMOVEDIR);
}
static void rmPath(const std::string& p) { rmTree(AT_FDCWD, p.c_str()); }

// Keep one fd per directory ever created in the scenario: the inode number of a removed directory
// then cannot be handed out again, which is the guarantee kernfs gives for cgroup ids.
struct Pins {
  std::set<std::pair<dev_t, ino_t>> seen;
  std::vector<int> fds;
  void walk(const std::string& dir) {
    int fd = ::open(dir.c_str(), O_PATH | O_DIRECTORY);
    if (fd < 0) return;
    struct stat st;
    if (::fstat(fd, &st) == 0 && seen.insert({st.st_dev, st.st_ino}).second) {
      fds.push_back(fd);
    } else {
      ::close(fd);
    }
    DIR* d = ::opendir(dir.c_str());
    if (!d) return;
    std::vector<std::string> subs;
    while (struct dirent* e = realReaddir()(d)) {
      if (e->d_name[0] == '.') continue;
      if (e->d_type == DT_DIR) subs.push_back(e->d_name);
    }
    ::closedir(d);
    for (auto& s : subs) walk(dir + "/" + s);
  }
  ~Pins() {
    for (int fd : fds) ::close(fd);
  }
};

static double bitsToDouble(const Json::Value& v) {
  uint64_t b = v.asUInt64();
  double d;
  memcpy(&d, &b, 8);
  return d;
}
static Json::Value dbits(double d) {
  uint64_t b;
  memcpy(&b, &d, 8);
  return Json::Value((Json::UInt64)b);
}
static Json::Value fbits(float f) {
  uint32_t b;
  memcpy(&b, &f, 4);
  return Json::Value((Json::UInt)b);
}
static IOCostCoeffs coeffs(const Json::Value& a) {
  IOCostCoeffs c;
  if (a.size() >= 6) {
    c.read_iops = bitsToDouble(a[0]);
    c.readbw = bitsToDouble(a[1]);
    c.write_iops = bitsToDouble(a[2]);
    c.writebw = bitsToDouble(a[3]);
    c.trim_iops = bitsToDouble(a[4]);
    c.trimbw = bitsToDouble(a[5]);
  }
  return c;
}

// ------------------------------------------------------------------------------------------
// accessors
// ------------------------------------------------------------------------------------------
static Json::Value jI(const std::optional<int64_t>& o) {
  return o ? Json::Value((Json::Int64)*o) : Json::Value();
}
static Json::Value jD(const std::optional<double>& o) { return o ? dbits(*o) : Json::Value(); }
static Json::Value jB(const std::optional<bool>& o) { return o ? Json::Value(*o) : Json::Value(); }
static Json::Value jP(const std::optional<ResourcePressure>& o) {
  if (!o) return Json::Value();
  Json::Value a(Json::arrayValue);
  a.append(fbits(o->sec_10));
  a.append(fbits(o->sec_60));
  a.append(fbits(o->sec_300));
  a.append(o->total ? Json::Value((Json::Int64)o->total->count()) : Json::Value());
  return a;
}

using Err = CgroupContext::Error;

// returns the value; *mismatch is set when "err was written" and "nullopt was returned" disagree
static Json::Value callAccessor(const CgroupContext& c, const std::string& f, bool* mismatch) {
  Err err = Err::NO_ERROR;
  Json::Value v;
  bool always_value = false;
#define ACC(name, conv)          \
  if (f == #name) {              \
    v = conv(c.name(&err));      \
    goto done;                   \
  }
  ACC(current_usage, jI)
  ACC(swap_usage, jI)
  ACC(swap_max, jI)
  ACC(memory_low, jI)
  ACC(memory_min, jI)
  ACC(memory_high, jI)
  ACC(memory_high_tmp, jI)
  ACC(memory_max, jI)
  ACC(nr_dying_descendants, jI)
  ACC(is_populated, jB)
  ACC(oom_group, jB)
  ACC(effective_swap_max, jI)
  ACC(effective_swap_free, jI)
  ACC(effective_swap_util_pct, jD)
  ACC(memory_protection, jI)
  ACC(io_cost_cumulative, jD)
  ACC(pg_scan_cumulative, jI)
  ACC(average_usage, jI)
  ACC(io_cost_rate, jD)
  ACC(pg_scan_rate, jI)
  ACC(anon_usage, jI)
  ACC(file_usage, jI)
  ACC(shmem_usage, jI)
  ACC(memory_growth, jD)
  ACC(mem_pressure, jP)
  ACC(mem_pressure_some, jP)
  ACC(io_pressure, jP)
  ACC(io_pressure_some, jP)
#undef ACC
  if (f == "id") {
    auto o = c.id(&err);
    v = o ? Json::Value((Json::UInt64)*o) : Json::Value();
    goto done;
  }
  if (f == "kill_preference") {
    auto o = c.kill_preference(&err);
    v = o ? Json::Value((int)*o) : Json::Value();
    goto done;
  }
  if (f == "children") {
    const auto& o = c.children(&err);
    if (o) {
      std::vector<std::string> n(*o);
      std::sort(n.begin(), n.end());
      v = Json::Value(Json::arrayValue);
      for (auto& s : n) v.append(s);
    }
    always_value = true;
    goto done;
  }
  if (f == "memory_stat") {
    const auto& o = c.memory_stat(&err);
    if (o) {
      v = Json::Value(Json::objectValue);
      for (auto& kv : *o) v[kv.first] = (Json::Int64)kv.second;
    }
    goto done;
  }
  if (f == "io_stat") {
    const auto& o = c.io_stat(&err);
    if (o) {
      v = Json::Value(Json::arrayValue);
      for (auto& s : *o) {
        Json::Value a(Json::arrayValue);
        a.append(s.dev_id);
        a.append((Json::Int64)s.rbytes);
        a.append((Json::Int64)s.wbytes);
        a.append((Json::Int64)s.rios);
        a.append((Json::Int64)s.wios);
        a.append((Json::Int64)s.dbytes);
        a.append((Json::Int64)s.dios);
        v.append(a);
      }
    }
    goto done;
  }
  if (f.rfind("effective_usage", 0) == 0) {
    // effective_usage or effective_usage/<scale>/<adj>
    long long scale = 1, adj = 0;
    if (f.size() > 15) sscanf(f.c_str() + 15, "/%lld/%lld", &scale, &adj);
    v = jI(c.effective_usage(&err, scale, adj));
    goto done;
  }
  {
    Json::Value e(Json::objectValue);
    e["unknown_accessor"] = f;
    return e;
  }
done:
  (void)always_value;
  if ((err == Err::INVALID_CGROUP) != v.isNull()) *mismatch = true;
  return v;
}

static void fsop(const std::string& cg, const std::string& procdir, const Json::Value& op, Pins& pins) {
  std::string k = op["op"].asString();
  if (k == "write") {
    vh::writeFile(cg + "/" + op["path"].asString(), op["data"].asString());
  } else if (k == "unlink") {
    ::unlink((cg + "/" + op["path"].asString()).c_str());
  } else if (k == "rmdir") {
    rmPath(cg + "/" + op["path"].asString());
  } else if (k == "mkdir") {
    vh::materialize(cg + "/" + op["path"].asString(), op["node"]);
    pins.walk(cg);
  } else if (k == "proc") {
    std::string p = procdir + "/" + op["name"].asString();
    if (op["data"].isNull()) ::unlink(p.c_str()); else vh::writeFile(p, op["data"].asString());
  } else if (k == "setx") {
    std::string v = op["val"].asString();
    ::setxattr((cg + "/" + op["path"].asString()).c_str(), op["name"].asString().c_str(), v.data(), v.size(), 0);
  } else if (k == "rmx") {
    ::removexattr((cg + "/" + op["path"].asString()).c_str(), op["name"].asString().c_str());
  }
}

static bool isFsop(const std::string& k) {
  return k == "write" || k == "unlink" || k == "rmdir" || k == "mkdir" || k == "proc" || k == "setx" || k == "rmx";
}

static Json::Value sysJson(const SystemContext& s) {
  Json::Value o(Json::objectValue);
  o["swaptotal"] = (Json::UInt64)s.swaptotal;
  o["swapused"] = (Json::UInt64)s.swapused;
  o["swappiness"] = s.swappiness;
  o["swapout_bps"] = dbits(s.swapout_bps);
  o["swapout_bps_60"] = dbits(s.swapout_bps_60);
  o["swapout_bps_300"] = dbits(s.swapout_bps_300);
  Json::Value vm(Json::objectValue);
  for (auto& kv : s.vmstat) vm[kv.first] = (Json::Int64)kv.second;
  o["vmstat"] = vm;
  return o;
}

static void runScenario(const Json::Value& sc, Json::Value& out) {
  std::string top = vh::freshDir("fsread");
  struct Cleanup {
    std::string top;
    ~Cleanup() {
      g_procdir.clear();
      g_dt_unknown = false;
      rmPath(top);
    }
  } cleanup{top};
  std::string cg = top + "/cg";
  std::string procdir = top + "/proc";
  vh::mkdirs(procdir);
  Pins pins;
  vh::materialize(cg, sc["tree"]);
  pins.walk(cg);
  const Json::Value& pr = sc["proc"];
  for (auto it = pr.begin(); it != pr.end(); ++it) {
    if (!it->isNull()) vh::writeFile(procdir + "/" + it.key().asString(), it->asString());
  }
  g_procdir = procdir;
  g_dt_unknown = !sc["cfg"].get("dtype", true).asBool();

  std::unordered_map<std::string, DeviceType> devs;
  for (const auto& d : sc["cfg"]["devs"]) {
    devs[d[0].asString()] = d[1].asString() == "hdd" ? DeviceType::HDD : DeviceType::SSD;
  }
  {
    ::Oomd::Oomd oomd(nullptr, nullptr, 5, cg, "", devs, coeffs(sc["cfg"]["hdd"]), coeffs(sc["cfg"]["ssd"]));
    OomdContext& ctx = oomdCtx(oomd);
    Json::Value ticks(Json::arrayValue);
    int mismatches = 0;
    for (const auto& tick : sc["ticks"]) {
      for (const auto& op : tick["pre"]) fsop(cg, procdir, op, pins);
      oomd.updateContext();
      Json::Value res(Json::arrayValue);
      for (const auto& op : tick["ops"]) {
        std::string k = op["op"].asString();
        if (isFsop(k)) {
          fsop(cg, procdir, op, pins);
          res.append(Json::Value());
        } else if (k == "get") {
          Json::Value r(Json::objectValue);
          CgroupPath cp(cg, op["cg"].asString());
          auto c = ctx.addToCacheAndGet(cp);
          r["ctx"] = (bool)c;
          if (c) {
            Json::Value vals(Json::arrayValue);
            for (const auto& f : op["f"]) {
              bool mm = false;
              try {
                vals.append(callAccessor(c->get(), f.asString(), &mm));
              } catch (const std::exception& e) {
                Json::Value t(Json::objectValue);
                t["throw"] = e.what();
                vals.append(t);
              }
              if (mm) mismatches++;
            }
            r["v"] = vals;
          }
          res.append(r);
        } else if (k == "kids") {
          Json::Value r(Json::objectValue);
          CgroupPath cp(cg, op["cg"].asString());
          auto c = ctx.addToCacheAndGet(cp);
          r["ctx"] = (bool)c;
          if (c) {
            std::vector<std::string> names;
            for (const CgroupContext& ch : ctx.addChildrenToCacheAndGet(c->get())) {
              names.push_back(ch.cgroup().relativePath());
            }
            std::sort(names.begin(), names.end());
            Json::Value a(Json::arrayValue);
            for (auto& n : names) a.append(n);
            r["kids"] = a;
          }
          res.append(r);
        } else if (k == "list") {
          std::vector<std::string> names;
          for (auto& p : ctx.cgroups()) names.push_back(p.relativePath());
          std::sort(names.begin(), names.end());
          Json::Value a(Json::arrayValue);
          for (auto& n : names) a.append(n);
          res.append(a);
        } else if (k == "sys") {
          res.append(sysJson(ctx.getSystemContext()));
        } else {
          res.append(Json::Value());
        }
      }
      ticks.append(res);
    }
    out["ticks"] = ticks;
    out["err_mismatch"] = mismatches;
  }
}

int main() {
  vh::lineLoop([](const Json::Value& sc, Json::Value& out) {
    try {
      runScenario(sc, out);
    } catch (const std::exception& e) {
      out["outcome"] = std::string("uncaught:") + e.what();
    }
  });
  std::cout.flush();
  fflush(nullptr);
  _exit(0);
}

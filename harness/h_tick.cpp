// Engine h_tick (C10): fault injection on the real readers and on the real main loop.
//
// kind "reader": {"reader":"memcurrent", "state":"absent|empty|denied|isdir|content", "content":"..."}
//     -> {"r":"ok","v":"..."} | {"r":"unavailable"} | {"r":"throws","what":"<type>"}      (crash -> process outcome)
// kind "vmstat" / "pgscan": the two optional-key sites outside Fs.cpp (Oomd::updateContext, CgroupContext::pg_scan_*)
// kind "dtype": readDir with d_type == DT_UNKNOWN  -> {"dirs":[...],"files":[...]}
// kind "tick":  {"config": <oomd json>, "tree": <world.h node>, "proc": {"meminfo","vmstat","swaps","swappiness"},
//                "ticks": N, "targets_pid_lo": a, "targets_pid_hi": b,
//                "faults":[{"tick":t,"at_open":k,"op":"rm|recreate|empty|absent|deny","path":"rel"}],
//                "dtype_unknown":bool}
//     the real Oomd::run loop is driven N ticks (interposed sigtimedwait = tick boundary)
//     -> {"r":"ok"|"throws", "kills":[[pid,sig],...], "opens":[n per tick]}
// kind "ctx":   {"cgroups": {"A": {file: content}, "A/B": {...}, ...}, "faults":[{"cg":"A/B","file":"memory.current",
//                "state":"absent|empty|denied|isdir"}], "target":"A/B", "ticks":2}
//     every accessor of the real CgroupContext of `target` (through a real OomdContext), once per tick
//     -> {"ticks":[{"currentUsage":"ok|unavailable|throws", ...}, ...]}
#include "common.h"
#include "vclock.h"
#include "world.h"

#include <sys/time.h>
#include <dirent.h>
#include <fcntl.h>
#include <ftw.h>
#include <signal.h>
#include <stdarg.h>
#include <sys/syscall.h>
#include <cxxabi.h>

#include <map>
#include <set>

#include "oomd/CgroupContext.h"
#include "oomd/Log.h"
#include "oomd/Oomd.h"
#include "oomd/OomdContext.h"
#include "oomd/PluginRegistry.h"
#include "oomd/Stats.h"
#include "oomd/config/ConfigCompiler.h"
#include "oomd/config/JsonConfigParser.h"
#include "oomd/engine/PrekillHook.h"
#include "oomd/util/Fs.h"

using namespace Oomd;

// a prekill hook that is still running when it is first asked: its invocation reports finished on the second poll, so every
// kill it gates is deferred to the next tick (serialised victim + stack, resumeFromPrekillHook) - under the tick's faults
namespace {
class SlowHookInvocation : public Engine::PrekillHookInvocation {
 public:
  bool didFinish() override { return ++polls_ >= 2; }
 private:
  int polls_{0};
};
class SlowHook : public Engine::PrekillHook {
 public:
  static SlowHook* create() { return new SlowHook(); }
  std::unique_ptr<Engine::PrekillHookInvocation> fire(const CgroupContext&, const ActionContext&) override {
    return std::unique_ptr<Engine::PrekillHookInvocation>(new SlowHookInvocation());
  }
};
bool slow_hook_registered = getPrekillHookRegistry().add("verif_slow_prekill_hook", SlowHook::create);
} // namespace

namespace {
std::string g_root;      // scratch cgroup root ("" = interposition off)
std::string g_procdir;   // scratch /proc replacement
std::set<std::string> g_deny;  // absolute paths whose open fails with EACCES
bool g_dtype_unknown = false;
int g_open_count = 0;
std::vector<std::pair<int, int>> g_kills;
struct Fault { int tick; int at_open; std::string op; std::string path; Json::Value node; bool done{false}; };
std::vector<Fault> g_faults;
int g_tick = -1;
Json::Value g_proc_ticks;
int g_ticks_total = 0;
std::vector<int> g_opens_per_tick;
Json::Value g_tree;
bool g_in_fault = false;
// identities (inode numbers) of the directories of a re-created subtree, before and after
std::set<uint64_t> g_old_inodes, g_new_inodes;
bool g_mixed = false;
// (identity, path relative to the cgroup root) of every directory whose cgroup.procs was read in this tick
std::vector<std::pair<uint64_t, std::string>> g_procs_dirs;
bool isPrefixPath(const std::string& a, const std::string& b) {  // a == b or a is an ancestor of b
  return a == b || (b.size() > a.size() && b.compare(0, a.size(), a) == 0 && b[a.size()] == '/');
}
void evalMixing() {
  // one victim = one subtree: pids taken from the removed incarnation of a directory and from the new
  // incarnation of the same directory or of a directory below / above it
  for (auto& o : g_procs_dirs) {
    if (!g_old_inodes.count(o.first)) continue;
    for (auto& n : g_procs_dirs) {
      if (g_old_inodes.count(n.first) || !g_new_inodes.count(n.first)) continue;
      if (isPrefixPath(o.second, n.second) || isPrefixPath(n.second, o.second)) g_mixed = true;
    }
  }
  g_procs_dirs.clear();
}

int collectInodeCb(const char*, const struct stat* sb, int flag, struct FTW*);
std::set<uint64_t>* g_collect_into = nullptr;
void collectInodes(const std::string& p, std::set<uint64_t>& into) {
  g_collect_into = &into;
  ::nftw(p.c_str(), collectInodeCb, 64, FTW_PHYS);
  g_collect_into = nullptr;
}
int collectInodeCb(const char*, const struct stat* sb, int flag, struct FTW*) {
  if (flag == FTW_D && g_collect_into) g_collect_into->insert((uint64_t)sb->st_ino);
  return 0;
}

const Json::Value* findNode(const Json::Value& n, const std::string& rel) {
  if (rel.empty()) return &n;
  auto pos = rel.find('/');
  std::string head = rel.substr(0, pos);
  std::string rest = pos == std::string::npos ? "" : rel.substr(pos + 1);
  for (const auto& c : n["children"]) if (c["name"].asString() == head) return findNode(c, rest);
  return nullptr;
}

void applyFault(Fault& f) {
  g_in_fault = true;
  std::string p = g_root + "/" + f.path;
  if (f.op == "rm") vh::rmrf(p);
  else if (f.op == "recreate") {
    collectInodes(p, g_old_inodes);
    vh::rmrf(p);
    // a new directory (new inode) with the original content
    const Json::Value* n = findNode(g_tree, f.path);
    // keep the old inode number from being reused immediately
    std::string hold = p + ".hold";
    vh::mkdirs(hold);
    if (n) vh::materialize(p, *n); else vh::mkdirs(p);
    vh::rmrf(hold);
    collectInodes(p, g_new_inodes);
  } else if (f.op == "empty") vh::writeFile(p, "");
  else if (f.op == "absent") ::unlink(p.c_str());
  else if (f.op == "deny") g_deny.insert(p);
  f.done = true;
  g_in_fault = false;
}

void onOpen(const std::string& abs) {
  if (g_root.empty() || g_in_fault) return;
  if (abs.compare(0, g_root.size(), g_root) != 0) return;
  int k = g_open_count++;
  if (getenv("VERIF_DBG")) fprintf(stderr, "DBG tick %d open %d %s\n", g_tick, k, abs.c_str() + g_root.size());
  for (auto& f : g_faults)
    if (!f.done && f.tick == g_tick && f.at_open == k && f.op != "vanish_on_readdir") applyFault(f);
}

std::string redirect(const char* path) {
  std::string p(path);
  if (g_procdir.empty()) return p;
  if (p == "/proc/meminfo") return g_procdir + "/meminfo";
  if (p == "/proc/vmstat") return g_procdir + "/vmstat";
  if (p == "/proc/swaps") return g_procdir + "/swaps";
  if (p == "/proc/sys/vm/swappiness") return g_procdir + "/swappiness";
  if (p == "/proc/pressure/memory") return g_procdir + "/pressure_memory";
  if (p == "/proc/pressure/io") return g_procdir + "/pressure_io";
  if (p == "/proc/mempressure") return g_procdir + "/mempressure";
  if (p == "/dev/kmsg") return g_procdir + "/kmsg";
  return p;
}

std::string fdPath(int fd) {
  char buf[4096];
  std::string l = "/proc/self/fd/" + std::to_string(fd);
  ssize_t n = ::readlink(l.c_str(), buf, sizeof(buf) - 1);
  if (n <= 0) return "";
  buf[n] = 0;
  std::string s(buf);
  auto d = s.find(" (deleted)");
  if (d != std::string::npos) s = s.substr(0, d);
  return s;
}
} // namespace

extern "C" {
int open(const char* path, int flags, ...) {
  using fn = int (*)(const char*, int, ...);
  static fn real = (fn)dlsym(RTLD_NEXT, "open");
  mode_t mode = 0;
  if (flags & (O_CREAT | O_TMPFILE)) { va_list ap; va_start(ap, flags); mode = va_arg(ap, mode_t); va_end(ap); }
  std::string p = redirect(path);
  onOpen(p);
  if (g_deny.count(p)) { errno = EACCES; return -1; }
  return real(p.c_str(), flags, mode);
}
int open64(const char* path, int flags, ...) {
  mode_t mode = 0;
  if (flags & (O_CREAT | O_TMPFILE)) { va_list ap; va_start(ap, flags); mode = va_arg(ap, mode_t); va_end(ap); }
  return open(path, flags, mode);
}
int openat(int dirfd, const char* path, int flags, ...) {
  using fn = int (*)(int, const char*, int, ...);
  static fn real = (fn)dlsym(RTLD_NEXT, "openat");
  mode_t mode = 0;
  if (flags & (O_CREAT | O_TMPFILE)) { va_list ap; va_start(ap, flags); mode = va_arg(ap, mode_t); va_end(ap); }
  if (!g_root.empty() && !g_in_fault && path[0] != '/' && dirfd != AT_FDCWD) {
    std::string abs = fdPath(dirfd) + "/" + path;
    onOpen(abs);
    if (std::string(path) == "cgroup.procs") {
      struct stat sb;
      // the pids about to be signalled come from this directory (identity = inode)
      if (::fstat(dirfd, &sb) == 0) g_procs_dirs.emplace_back((uint64_t)sb.st_ino, fdPath(dirfd).substr(std::min(g_root.size(), fdPath(dirfd).size())));
    }
    if (g_deny.count(abs)) { errno = EACCES; return -1; }
  }
  return real(dirfd, path, flags, mode);
}
int openat64(int dirfd, const char* path, int flags, ...) {
  mode_t mode = 0;
  if (flags & (O_CREAT | O_TMPFILE)) { va_list ap; va_start(ap, flags); mode = va_arg(ap, mode_t); va_end(ap); }
  return openat(dirfd, path, flags, mode);
}
FILE* fopen64(const char* path, const char* mode) {
  using fn = FILE* (*)(const char*, const char*);
  static fn real = (fn)dlsym(RTLD_NEXT, "fopen64");
  std::string p = redirect(path);
  onOpen(p);
  if (g_deny.count(p)) { errno = EACCES; return nullptr; }
  return real(p.c_str(), mode);
}
FILE* fopen(const char* path, const char* mode) { return fopen64(path, mode); }

// fault "vanish_on_readdir": the entry is removed right after readdir() returned it, i.e. between
// the directory read and the next access to the entry (fstatat in the d_type-less branch, openat else)
static void onReaddir(DIR* d, const char* name) {
  if (g_root.empty() || g_in_fault) return;
  std::string abs = fdPath(dirfd(d)) + "/" + name;
  for (auto& f : g_faults) {
    if (!f.done && f.op == "vanish_on_readdir" && f.tick == g_tick && abs == g_root + "/" + f.path) {
      g_in_fault = true;
      vh::rmrf(abs);
      f.done = true;
      g_in_fault = false;
    }
  }
}
struct dirent* readdir(DIR* d) {
  using fn = struct dirent* (*)(DIR*);
  static fn real = (fn)dlsym(RTLD_NEXT, "readdir");
  struct dirent* e = real(d);
  if (e && g_dtype_unknown) e->d_type = DT_UNKNOWN;
  if (e) onReaddir(d, e->d_name);
  return e;
}
struct dirent64* readdir64(DIR* d) {
  using fn = struct dirent64* (*)(DIR*);
  static fn real = (fn)dlsym(RTLD_NEXT, "readdir64");
  struct dirent64* e = real(d);
  if (e && g_dtype_unknown) e->d_type = DT_UNKNOWN;
  if (e) onReaddir(d, e->d_name);
  return e;
}

int kill(pid_t pid, int sig) {
  g_kills.emplace_back((int)pid, sig);
  if (getenv("VERIF_DBG")) fprintf(stderr, "DBG kill %d %d\n", (int)pid, sig);
  if (sig == 0) { errno = ESRCH; return -1; }   // liveness probe: the process is gone
  return 0;
}
int nanosleep(const struct timespec*, struct timespec*) { return 0; }
int pthread_kill(pthread_t, int) { return 0; }

// tick boundary of Oomd::run
int sigtimedwait(const sigset_t*, siginfo_t*, const struct timespec* ts) {
  g_opens_per_tick.push_back(g_open_count);
  g_tick++;
  g_open_count = 0;
  evalMixing();
  if (g_tick >= g_ticks_total) return SIGTERM;
  vh::advanceNs((ts ? ts->tv_sec : 5) * 1000000000LL);
  for (auto& f : g_faults)
    if (!f.done && f.tick == g_tick && f.at_open < 0 && f.op != "vanish_on_readdir") applyFault(f);
  // /proc files that change from tick to tick ("proc_ticks": [{file: content | null}, ...])
  if (g_proc_ticks.isArray() && g_tick < (int)g_proc_ticks.size()) {
    const Json::Value& pt = g_proc_ticks[g_tick];
    for (auto it = pt.begin(); it != pt.end(); ++it) {
      std::string f = g_procdir + "/" + it.key().asString();
      if (it->isNull()) ::unlink(f.c_str()); else vh::writeFile(f, it->asString());
    }
  }
  errno = EAGAIN;
  return -1;
}
}

namespace {

std::string exName() {
  int st = 0;
  const std::type_info* ti = abi::__cxa_current_exception_type();
  if (!ti) return "?";
  char* d = abi::__cxa_demangle(ti->name(), nullptr, nullptr, &st);
  std::string s = d ? d : ti->name();
  free(d);
  return s;
}

template <typename T>
std::string show(const T& v) { std::ostringstream o; o << v; return o.str(); }
std::string show(const ResourcePressure& p) {
  std::ostringstream o; o << p.sec_10 << "," << p.sec_60 << "," << p.sec_300; return o.str();
}
std::string show(const std::vector<std::string>& v) { std::string s; for (auto& x : v) s += x + "|"; return s; }
std::string show(const std::vector<int>& v) { std::string s; for (auto& x : v) s += std::to_string(x) + "|"; return s; }
std::string show(const std::unordered_map<std::string, int64_t>& m) {
  std::map<std::string, int64_t> o(m.begin(), m.end()); std::string s;
  for (auto& kv : o) s += kv.first + "=" + std::to_string(kv.second) + "|"; return s;
}
std::string show(const IOStat& v) { return std::to_string(v.size()); }
std::string show(const KillPreference& k) { return std::to_string((int)k); }

template <typename F>
void guarded(Json::Value& out, F f) {
  try {
    f();
  } catch (const std::exception& e) {
    out["r"] = "throws";
    out["what"] = exName();
    out["msg"] = e.what();
  } catch (...) {
    out["r"] = "throws";
    out["what"] = exName();
  }
}

template <typename M>
void report(Json::Value& out, const M& m) {
  if (m) { out["r"] = "ok"; out["v"] = show(*m); } else { out["r"] = "unavailable"; }
}

void doReader(const Json::Value& sc, Json::Value& out) {
  std::string dir = vh::freshDir("rd");
  std::string reader = sc["reader"].asString();
  static const std::map<std::string, std::string> fileOf = {
      {"controllers", "cgroup.controllers"}, {"pids", "cgroup.procs"}, {"populated", "cgroup.events"},
      {"mempressure", "memory.pressure"}, {"mempressure_full", "memory.pressure"}, {"iopressure", "io.pressure"},
      {"memcurrent", "memory.current"}, {"memlow", "memory.low"}, {"memhigh", "memory.high"}, {"memmax", "memory.max"},
      {"memhightmp", "memory.high.tmp"}, {"memmin", "memory.min"}, {"swapcurrent", "memory.swap.current"},
      {"swapmax", "memory.swap.max"}, {"pidscurrent", "pids.current"}, {"memstat", "memory.stat"},
      {"iostat", "io.stat"}, {"nrdying", "cgroup.stat"}, {"oomgroup", "memory.oom.group"},
      {"vmstat", "vmstat"}, {"meminfo", "meminfo"}, {"swappiness", "swappiness"}, {"pgscan", "memory.stat"}};
  auto it = fileOf.find(reader);
  if (it == fileOf.end()) { out["outcome"] = "bad-reader"; vh::rmrf(dir); return; }
  std::string file = dir + "/" + it->second;
  std::string st = sc["state"].asString();
  g_deny.clear();
  if (st == "empty") vh::writeFile(file, "");
  else if (st == "content") vh::writeFile(file, sc["content"].asString());
  else if (st == "denied") { vh::writeFile(file, "1\n"); g_deny.insert(file); }
  else if (st == "isdir") vh::mkdirs(file);
  // "absent": nothing
  g_root = dir;
  guarded(out, [&] {
    auto dfd = Fs::DirFd::open(dir);
    if (!dfd) { out["r"] = "unavailable"; return; }
    if (reader == "controllers") report(out, Fs::readControllersAt(*dfd));
    else if (reader == "pids") report(out, Fs::getPidsAt(*dfd));
    else if (reader == "populated") report(out, Fs::readIsPopulatedAt(*dfd));
    else if (reader == "mempressure") report(out, Fs::readMempressureAt(*dfd, Fs::PressureType::SOME));
    else if (reader == "mempressure_full") report(out, Fs::readMempressureAt(*dfd, Fs::PressureType::FULL));
    else if (reader == "iopressure") report(out, Fs::readIopressureAt(*dfd, Fs::PressureType::SOME));
    else if (reader == "memcurrent") report(out, Fs::readMemcurrentAt(*dfd));
    else if (reader == "memlow") report(out, Fs::readMemlowAt(*dfd));
    else if (reader == "memhigh") report(out, Fs::readMemhighAt(*dfd));
    else if (reader == "memmax") report(out, Fs::readMemmaxAt(*dfd));
    else if (reader == "memhightmp") report(out, Fs::readMemhightmpAt(*dfd));
    else if (reader == "memmin") report(out, Fs::readMemminAt(*dfd));
    else if (reader == "swapcurrent") report(out, Fs::readSwapCurrentAt(*dfd));
    else if (reader == "swapmax") report(out, Fs::readSwapMaxAt(*dfd));
    else if (reader == "pidscurrent") report(out, Fs::readPidsCurrentAt(*dfd));
    else if (reader == "memstat") report(out, Fs::getMemstatAt(*dfd));
    else if (reader == "iostat") report(out, Fs::readIostatAt(*dfd));
    else if (reader == "nrdying") report(out, Fs::getNrDyingDescendantsAt(*dfd));
    else if (reader == "oomgroup") report(out, Fs::readMemoryOomGroupAt(*dfd));
    else if (reader == "vmstat") report(out, Fs::getVmstat(file));
    else if (reader == "meminfo") report(out, Fs::getMeminfo(file));
    else if (reader == "swappiness") report(out, Fs::getSwappiness(file));
    else if (reader == "pgscan") {
      // CgroupContext::pg_scan_cumulative on a cgroup whose memory.stat is in the given state
      vh::writeFile(dir + "/cgroup.controllers", "memory\n");
      OomdContext ctx;
      auto cg = ctx.addToCacheAndGet(CgroupPath(dir, "/"));
      if (!cg) { out["r"] = "unavailable"; return; }
      auto v = cg->get().pg_scan_cumulative();
      if (v) { out["r"] = "ok"; out["v"] = std::to_string(*v); } else out["r"] = "unavailable";
    }
  });
  g_root.clear();
  g_deny.clear();
  vh::rmrf(dir);
}

void doDtype(const Json::Value& sc, Json::Value& out) {
  std::string dir = vh::freshDir("dt");
  for (const auto& d : sc["dirs"]) vh::mkdirs(dir + "/" + d.asString());
  for (const auto& f : sc["files"]) vh::writeFile(dir + "/" + f.asString(), "x");
  g_dtype_unknown = sc.get("dtype_unknown", true).asBool();
  guarded(out, [&] {
    auto r = Fs::readDir(dir, Fs::DE_FILE | Fs::DE_DIR);
    if (!r) { out["r"] = "unavailable"; return; }
    out["r"] = "ok";
    std::sort(r->dirs.begin(), r->dirs.end());
    std::sort(r->files.begin(), r->files.end());
    Json::Value ds(Json::arrayValue), fs(Json::arrayValue);
    for (auto& x : r->dirs) ds.append(x);
    for (auto& x : r->files) fs.append(x);
    out["dirs"] = ds;
    out["files"] = fs;
  });
  g_dtype_unknown = false;
  vh::rmrf(dir);
}

void doTick(const Json::Value& sc, Json::Value& out) {
  std::string top = vh::freshDir("tick");
  g_root = top + "/cg";
  g_procdir = top + "/proc";
  vh::mkdirs(g_procdir);
  g_tree = sc["tree"];
  vh::materialize(g_root, g_tree);
  const auto& pr = sc["proc"];
  for (auto it = pr.begin(); it != pr.end(); ++it)
    if (!it->isNull()) vh::writeFile(g_procdir + "/" + it.key().asString(), it->asString());
  vh::writeFile(g_procdir + "/kmsg", "");
  g_proc_ticks = sc["proc_ticks"];
  g_faults.clear();
  for (const auto& f : sc["faults"])
    g_faults.push_back(Fault{f["tick"].asInt(), f.get("at_open", -1).asInt(), f["op"].asString(), f["path"].asString(), Json::Value()});
  g_deny.clear();
  g_kills.clear();
  g_old_inodes.clear();
  g_new_inodes.clear();
  g_mixed = false;
  g_procs_dirs.clear();
  g_opens_per_tick.clear();
  g_tick = -1;
  g_open_count = 0;
  g_ticks_total = sc["ticks"].asInt();
  g_dtype_unknown = sc.get("dtype_unknown", false).asBool();
  vh::setNowNs(1000LL * 1000000000LL);
  out["r"] = "ok";
  guarded(out, [&] {
    Config2::JsonConfigParser parser;
    std::string cfgText = vh::compact(sc["config"]);
    auto ir = parser.parse(cfgText);
    if (!ir) { out["r"] = "config-rejected"; return; }
    PluginConstructionContext pcc(g_root);
    auto engine = Config2::compile(*ir, pcc);
    if (!engine) { out["r"] = "config-rejected"; return; }
    Oomd::Oomd oomd(std::move(ir), std::move(engine), 5, g_root, "");
    sigset_t mask;
    sigemptyset(&mask);
    oomd.run(&mask);
  });
  Json::Value ks(Json::arrayValue);
  for (auto& k : g_kills) { Json::Value e(Json::arrayValue); e.append(k.first); e.append(k.second); ks.append(e); }
  out["kills"] = ks;
  Json::Value os(Json::arrayValue);
  for (size_t i = 1; i < g_opens_per_tick.size(); i++) os.append(g_opens_per_tick[i]);
  out["opens"] = os;
  out["ticks_done"] = g_tick;
  // within one tick cgroup.procs was read both from the removed incarnation of a re-created subtree and from the
  // new one: the kill descended from the old victim into a different cgroup that happens to have the same path
  evalMixing();
  out["mixed_incarnations"] = g_mixed;
  g_root.clear();
  g_procdir.clear();
  g_dtype_unknown = false;
  g_deny.clear();
  vh::rmrf(top);
}

template <typename T>
std::string clsOf(const std::optional<T>& o) { return o ? "ok" : "unavailable"; }

void doCtx(const Json::Value& sc, Json::Value& out) {
  std::string top = vh::freshDir("cx");
  g_deny.clear();
  const auto& cgs = sc["cgroups"];
  for (const auto& name : cgs.getMemberNames()) {
    vh::mkdirs(top + "/" + name);
    for (const auto& f : cgs[name].getMemberNames()) vh::writeFile(top + "/" + name + "/" + f, cgs[name][f].asString());
  }
  for (const auto& f : sc["faults"]) {
    std::string file = top + "/" + f["cg"].asString() + "/" + f["file"].asString();
    std::string st = f["state"].asString();
    if (st == "absent") ::unlink(file.c_str());
    else if (st == "empty") vh::writeFile(file, "");
    else if (st == "denied") g_deny.insert(file);
    else if (st == "isdir") { ::unlink(file.c_str()); vh::mkdirs(file); }
    else if (st == "content") vh::writeFile(file, f["content"].asString());
  }
  g_root = top;
  Json::Value ticks(Json::arrayValue);
  {
    OomdContext ctx;
    CgroupPath target(top, sc["target"].asString());
    int n = sc.get("ticks", 2).asInt();
    for (int t = 0; t < n; t++) {
      if (t > 0) ctx.refresh();
      Json::Value row(Json::objectValue);
      auto cg = ctx.addToCacheAndGet(target);
      if (!cg) { row["_ctx"] = "unavailable"; ticks.append(row); continue; }
      const CgroupContext& c = cg->get();
      auto acc = [&](const char* name, auto fn) {
        try {
          row[name] = fn();
        } catch (const std::exception& e) {
          row[name] = "throws";
          row[std::string(name) + "_what"] = exName();
        } catch (...) {
          row[name] = "throws";
        }
      };
      acc("currentUsage", [&] { return clsOf(c.current_usage()); });
      acc("swapUsage", [&] { return clsOf(c.swap_usage()); });
      acc("swapMax", [&] { return clsOf(c.swap_max()); });
      acc("memoryLow", [&] { return clsOf(c.memory_low()); });
      acc("memoryMin", [&] { return clsOf(c.memory_min()); });
      acc("memoryHigh", [&] { return clsOf(c.memory_high()); });
      acc("memoryHighTmp", [&] { return clsOf(c.memory_high_tmp()); });
      acc("memoryMax", [&] { return clsOf(c.memory_max()); });
      acc("nrDying", [&] { return clsOf(c.nr_dying_descendants()); });
      acc("isPopulated", [&] { return clsOf(c.is_populated()); });
      acc("oomGroup", [&] { return clsOf(c.oom_group()); });
      acc("memPressure", [&] { return clsOf(c.mem_pressure()); });
      acc("memPressureSome", [&] { return clsOf(c.mem_pressure_some()); });
      acc("ioPressure", [&] { return clsOf(c.io_pressure()); });
      acc("ioPressureSome", [&] { return clsOf(c.io_pressure_some()); });
      acc("memoryStat", [&] { return clsOf(c.memory_stat()); });
      acc("ioStat", [&] { return clsOf(c.io_stat()); });
      acc("anonUsage", [&] { return clsOf(c.anon_usage()); });
      acc("fileUsage", [&] { return clsOf(c.file_usage()); });
      acc("shmemUsage", [&] { return clsOf(c.shmem_usage()); });
      acc("pgScanCumulative", [&] { return clsOf(c.pg_scan_cumulative()); });
      acc("pgScanRate", [&] { return clsOf(c.pg_scan_rate()); });
      acc("ioCostCumulative", [&] { return clsOf(c.io_cost_cumulative()); });
      acc("ioCostRate", [&] { return clsOf(c.io_cost_rate()); });
      acc("averageUsage", [&] { return clsOf(c.average_usage()); });
      acc("memoryGrowth", [&] { return clsOf(c.memory_growth()); });
      acc("memoryProtection", [&] { return clsOf(c.memory_protection()); });
      acc("effectiveUsage", [&] { return clsOf(c.effective_usage()); });
      acc("effectiveSwapMax", [&] { return clsOf(c.effective_swap_max()); });
      acc("effectiveSwapFree", [&] { return clsOf(c.effective_swap_free()); });
      acc("effectiveSwapUtil", [&] { return clsOf(c.effective_swap_util_pct()); });
      ticks.append(row);
    }
  }
  out["ticks"] = ticks;
  g_root.clear();
  g_deny.clear();
  vh::rmrf(top);
}

} // namespace

int main() {
  vh::mkdirs(vh::scratchRoot());
  std::string kmsg = vh::scratchRoot() + "/kmsg-" + std::to_string(getpid());
  Log::init(kmsg);
  vh::lineLoop([](const Json::Value& sc, Json::Value& out) {
    // watchdog of one scenario (a few ticks: milliseconds): 20 s of CPU time (a busy hang; not sensitive to machine load) or
    // 150 s of wall time (a blocked one) end the process with SIGPROF / SIGALRM, which the runner records as the outcome of
    // this scenario and goes on with the next one in a fresh process
    struct itimerval cpu = {{0, 0}, {20, 0}}, off = {{0, 0}, {0, 0}};
    ::setitimer(ITIMER_PROF, &cpu, nullptr);
    ::alarm(150);
    std::string k = sc["kind"].asString();
    if (k == "reader") doReader(sc, out);
    else if (k == "dtype") doDtype(sc, out);
    else if (k == "tick") doTick(sc, out);
    else if (k == "ctx") doCtx(sc, out);
    else out["outcome"] = "bad-kind";
    ::setitimer(ITIMER_PROF, &off, nullptr);
    ::alarm(0);
  });
  ::unlink(kmsg.c_str());
  vh::finish(0);
}

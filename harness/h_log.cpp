// Engine h_log (C20): the real Oomd::Log (get_for_unittest, async mode) and the real LogStream over a
// controllable std::streambuf sink, 1-8 producer threads, a conductor that blocks / releases the sink,
// parks producers at barriers, takes backlog marks and shuts the logger down.  Real time, TSan build.
//
// Scenario (one JSON line):
//   producers : [[op,...],...]   op = {"k":"log","n":N}   LogStream(log) << line                (N >= 20)
//                                     {"k":"raw","n":N}   log->debugLog(line)                   (N >= 1)
//                                     {"k":"nest","n":N},{"k":"nestout","n":M}   one statement  LogStream(log) << head << f() << tail  whose operand f()
//                                                       itself logs line N through LogStream before it returns (two LogStreams alive on
//                                                       the thread at once); head+tail is line M, attributed to the second op
//                                     {"k":"dis"} {"k":"en"}         LogStream(log) << Control alone
//                                     {"k":"dislog","n":N}           << DISABLE << text  (no line; stays disabled)
//                                     {"k":"enlog","n":N}            << ENABLE << line   (line)
//                                     {"k":"mix","n":N}              << DISABLE << junk << ENABLE << line
//                                     {"k":"kmsg","n":N}             log->kmsgLog(line, "oomd kill")
//                                     {"k":"bar","i":B}              park until the conductor releases barrier B
//                                     {"k":"us","n":N} {"k":"yield"}
//   sink      : {"us": per-write delay}
//   jitter    : k   (only with trace hooks: yield / short sleep inside the logger's critical sections)
//   script    : conductor ops  {"k":"close"} {"k":"open"} {"k":"budget","n":N} (N writes pass a closed gate)
//                              {"k":"release","i":B} {"k":"arrive","i":B} {"k":"join"} {"k":"blocked","ms":T}
//                              {"k":"us","n":N} {"k":"mark"} {"k":"shutdown","open_after_us":N}
//                              {"k":"shutdown_late","i":B}: with the gate closed and the io thread blocked in the sink,
//                              ~Log starts in a second thread (stop flag set, waiting in join), THEN the producers parked
//                              at barrier B log their remaining lines, then the gate opens: lines logged before the io
//                              thread's final queue swap
//               (a missing shutdown is appended: join, shutdown)
// Trace: sink entries in stream order ([tid,seq,n] record, seq -1 = tiny anonymous; {"d":count,"n":len} drop
// report; {"j":text,"n":len} unparseable bytes; {"f":1} flush), kmsg records, per-producer `done` (ops executed),
// marks {pos (bytes the sink had taken), done[]}, events (only when /repo carries the OOMD_VERIF trace hooks).
#include "common.h"

#include <dlfcn.h>
#include <fcntl.h>
#include <atomic>
#include <chrono>
#include <condition_variable>
#include <cstring>
#include <mutex>
#include <thread>
#include <vector>

#include "oomd/Log.h"

using namespace Oomd;

// ------------------------------------------------------------------------------------------------
// optional trace hooks (fixes/C20-hooks.patch): Log.cpp calls this weak symbol inside its critical
// sections.  Slots are reserved with a relaxed atomic so that the hook adds no happens-before edge
// that could hide a race from TSan; the buffer is read only after every thread has been joined.
// ------------------------------------------------------------------------------------------------
namespace {
struct Ev {
  char tag;
  int tid, seq;
  unsigned long a, b, c;
};
constexpr size_t kMaxEv = 1 << 20;
Ev* g_ev = nullptr;
std::atomic<size_t> g_nev{0};
std::atomic<bool> g_hooksSeen{false};
thread_local int t_tid = -1;
thread_local int t_seq = -1;
// schedule widening: with "jitter":k in the scenario a trace point yields with probability 1/k and sleeps a few
// microseconds with probability 1/(16k) while the logger's lock is held
std::atomic<unsigned> g_jitter{0};
thread_local unsigned long t_rng = 0;

void pushEv(char tag, unsigned long a, unsigned long b, unsigned long c) {
  size_t i = g_nev.fetch_add(1, std::memory_order_relaxed);
  if (i < kMaxEv) g_ev[i] = Ev{tag, t_tid, t_seq, a, b, c};
}
} // namespace

// write(2) on the kmsg descriptor may be interrupted or short, as POSIX allows for any descriptor ("kmsg_io": "eintr" | "short"):
// every other call on it fails with EINTR / takes only half of the bytes; the record must still arrive whole, once
static std::atomic<int> g_kmsg_fd{-1};
static std::atomic<int> g_kmsg_io{0};  // 0 plain, 1 eintr, 2 short
static std::atomic<unsigned> g_kmsg_faults{0};
static thread_local bool t_kmsg_faulted = false;
extern "C" ssize_t write(int fd, const void* buf, size_t n) {
  using fn_t = ssize_t (*)(int, const void*, size_t);
  static fn_t real = (fn_t)dlsym(RTLD_NEXT, "write");
  int mode = g_kmsg_io.load(std::memory_order_relaxed);
  if (mode != 0 && fd == g_kmsg_fd.load(std::memory_order_relaxed) && n > 1) {
    if (!t_kmsg_faulted) {
      t_kmsg_faulted = true;
      g_kmsg_faults.fetch_add(1, std::memory_order_relaxed);
      if (mode == 1) {
        errno = EINTR;
        return -1;
      }
      return real(fd, buf, n / 2);
    }
    t_kmsg_faulted = false;
  }
  return real(fd, buf, n);
}

extern "C" void oomd_verif_log_trace(const char* tag, unsigned long a, unsigned long b, unsigned long c) {
  g_hooksSeen.store(true, std::memory_order_relaxed);
  unsigned jit = g_jitter.load(std::memory_order_relaxed);
  if (jit) {
    if (!t_rng) t_rng = 0x9e3779b97f4a7c15ul ^ ((unsigned long)(t_tid + 2) * 0xbf58476d1ce4e5b9ul) ^ jit;
    t_rng ^= t_rng << 13;
    t_rng ^= t_rng >> 7;
    t_rng ^= t_rng << 17;
    if (t_rng % jit == 0) std::this_thread::yield();
    if ((t_rng >> 20) % (16ul * jit) == 0) std::this_thread::sleep_for(std::chrono::microseconds(1 + (t_rng >> 40) % 60));
  }
  // enq / drop / swap / clear / release / xstop
  pushEv(tag[0], a, b, c);
}

namespace {

// ------------------------------------------------------------------------------------------------
// payload encoding (self-delimiting, so the sink byte stream parses back without trusting newlines)
//   big  (n >= 20): "#<tid> <seq:6> <n:7> " + filler(tid,seq,offset) + '\n'          total n bytes
//   tiny (n <  20): (n-1) x 0x0e + TERM[tid] (0x01 + tid)                             total n bytes
//   (control bytes, so that no wording of a drop report can be mistaken for a record)
// ------------------------------------------------------------------------------------------------
constexpr size_t kBigMin = 20;
constexpr size_t kHdr = 18;
const char TERM[] = "\x01\x02\x03\x04\x05\x06\x07\x08";
constexpr char kTinyBody = '\x0e';

char fillerAt(int tid, int seq, size_t i) {
  return 'a' + (char)((tid * 5 + seq * 11 + i * 7) % 26);
}

// the whole line of n bytes (with trailing newline for big ones)
std::string makeLine(int tid, int seq, size_t n) {
  std::string s;
  if (n < kBigMin) {
    s.assign(n - 1, kTinyBody);
    s.push_back(TERM[tid]);
    return s;
  }
  char hdr[32];
  snprintf(hdr, sizeof(hdr), "#%d %06d %07zu ", tid, seq, n);
  s.reserve(n);
  s.append(hdr, kHdr);
  for (size_t i = kHdr; i + 1 < n; i++) s.push_back(fillerAt(tid, seq, i));
  s.push_back('\n');
  return s;
}

// try to parse one record at data[pos..]; returns its length or 0
size_t parseRecord(const std::string& d, size_t pos, int& tid, int& seq) {
  char c = d[pos];
  if (c == kTinyBody || (c && strchr(TERM, c))) {
    size_t j = pos;
    while (j < d.size() && d[j] == kTinyBody) j++;
    if (j >= d.size() || j - pos + 1 >= kBigMin) return 0;
    const char* t = d[j] ? strchr(TERM, d[j]) : nullptr;
    if (!t) return 0;
    tid = (int)(t - TERM);
    seq = -1;
    return j - pos + 1;
  }
  if (c != '#' || pos + kBigMin > d.size()) return 0;
  int t = 0, s = 0;
  unsigned long n = 0;
  if (sscanf(d.c_str() + pos, "#%1d %6d %7lu ", &t, &s, &n) != 3) return 0;
  if (n < kBigMin || pos + n > d.size() || t < 0 || t > 7) return 0;
  char hdr[32];
  snprintf(hdr, sizeof(hdr), "#%d %06d %07lu ", t, s, n);
  if (memcmp(hdr, d.data() + pos, kHdr) != 0) return 0;
  for (size_t i = kHdr; i + 1 < n; i++)
    if (d[pos + i] != fillerAt(t, s, i)) return 0;
  if (d[pos + n - 1] != '\n') return 0;
  tid = t;
  seq = s;
  return n;
}

// ------------------------------------------------------------------------------------------------
// the sink
// ------------------------------------------------------------------------------------------------
class GateBuf : public std::streambuf {
 public:
  std::mutex m;
  std::condition_variable cv;
  bool open = true;
  long budget = 0; // writes allowed through a closed gate
  bool ioWaiting = false;
  unsigned delayUs = 0;
  std::string data;
  std::vector<size_t> flushAt;

  size_t pos() {
    std::lock_guard<std::mutex> l(m);
    return data.size();
  }

 protected:
  std::streamsize xsputn(const char* s, std::streamsize n) override {
    if (delayUs) std::this_thread::sleep_for(std::chrono::microseconds(delayUs));
    std::unique_lock<std::mutex> l(m);
    while (!open && budget <= 0) {
      ioWaiting = true;
      cv.notify_all();
      cv.wait(l);
    }
    ioWaiting = false;
    if (!open) budget--;
    data.append(s, (size_t)n);
    return n;
  }
  int_type overflow(int_type c) override {
    if (c == traits_type::eof()) return traits_type::not_eof(c);
    char ch = (char)c;
    // single characters (num_put of the drop count) wait at a closed gate but use no budget
    std::unique_lock<std::mutex> l(m);
    while (!open && budget <= 0) {
      ioWaiting = true;
      cv.notify_all();
      cv.wait(l);
    }
    ioWaiting = false;
    data.push_back(ch);
    return c;
  }
  int sync() override {
    std::lock_guard<std::mutex> l(m);
    flushAt.push_back(data.size());
    return 0;
  }
};

// ------------------------------------------------------------------------------------------------
// producers and conductor
// ------------------------------------------------------------------------------------------------
struct Coord {
  std::mutex m;
  std::condition_variable cv;
  int released = -1;
  bool abort = false;
  std::vector<int> parkedAt; // barrier index or -1
  std::vector<char> finished;
  std::atomic<int> rushArrived{0}; // op "rush": lines are built first, then all parties offer them at the same instant
};

struct Run {
  std::unique_ptr<Log> log;
  GateBuf buf;
  std::unique_ptr<std::ostream> os;
  Coord co;
  std::vector<std::atomic<int>> done;
  explicit Run(size_t n) : done(n) {
    for (auto& d : done) d.store(0);
  }
};

[[noreturn]] void die(const char* what) {
  fprintf(stderr, "h_log Assertion failed: %s\n", what);
  fflush(stderr);
  abort();
}

// operand of a nested statement: logs its own line, contributes nothing to the outer one
std::string nestedInner(Log& log, int tid, int seq, size_t n) {
  std::string line = makeLine(tid, seq, n < kBigMin ? kBigMin : n);
  line.pop_back();
  LogStream(log) << line;
  t_seq = seq + 1;
  return std::string();
}

void producer(Run& r, int tid, const Json::Value& ops) {
  t_tid = tid;
  Log& log = *r.log;
  for (Json::ArrayIndex i = 0; i < ops.size(); i++) {
    const auto& op = ops[i];
    const std::string k = op["k"].asString();
    int seq = (int)i;
    t_seq = seq;
    size_t n = op.get("n", 0).asUInt64();
    if (k == "bar") {
      int b = op["i"].asInt();
      std::unique_lock<std::mutex> l(r.co.m);
      r.co.parkedAt[tid] = b;
      r.co.cv.notify_all();
      r.co.cv.wait(l, [&] { return r.co.abort || r.co.released >= b; });
      r.co.parkedAt[tid] = -1;
      if (r.co.abort) break;
    } else if (k == "us") {
      std::this_thread::sleep_for(std::chrono::microseconds(n));
    } else if (k == "yield") {
      std::this_thread::yield();
    } else if (k == "rush") {
      // the line is built before the spin barrier, so that the parties' debugLog calls start within a few hundred ns
      std::string line = makeLine(tid, seq, n);
      int parties = op["parties"].asInt();
      r.co.rushArrived.fetch_add(1);
      while (r.co.rushArrived.load() < parties && !r.co.abort) {
      }
      log.debugLog(std::move(line));
    } else if (k == "raw") {
      log.debugLog(makeLine(tid, seq, n));
    } else if (k == "kmsg") {
      std::string line = makeLine(tid, seq, n < kBigMin ? kBigMin : n);
      line.pop_back();
      log.kmsgLog(line, "oomd kill");
    } else {
      // LogStream forms: the stream appends std::endl itself
      std::string line = makeLine(tid, seq, n < kBigMin ? kBigMin : n);
      line.pop_back();
      if (k == "nest" && i + 1 < ops.size() && ops[i + 1]["k"].asString() == "nestout") {
        size_t m = ops[i + 1].get("n", 0).asUInt64();
        std::string outer = makeLine(tid, seq + 1, m < kBigMin ? kBigMin : m);
        outer.pop_back();
        size_t cut = outer.size() / 2;
        LogStream(log) << outer.substr(0, cut) << nestedInner(log, tid, seq, n) << outer.substr(cut);
        i++;  // the statement stands for both ops
      } else if (k == "log" || k == "nest" || k == "nestout") {
        LogStream(log) << line;
      } else if (k == "dis") {
        LogStream(log) << LogStream::Control::DISABLE;
      } else if (k == "en") {
        LogStream(log) << LogStream::Control::ENABLE;
      } else if (k == "dislog") {
        LogStream(log) << LogStream::Control::DISABLE << line;
      } else if (k == "enlog") {
        LogStream(log) << LogStream::Control::ENABLE << line;
      } else if (k == "mix") {
        LogStream(log) << LogStream::Control::DISABLE << "suppressed-part " << LogStream::Control::ENABLE << line;
      }
    }
    r.done[tid].store((int)i + 1, std::memory_order_relaxed);
  }
  std::lock_guard<std::mutex> l(r.co.m);
  r.co.finished[tid] = 1;
  r.co.cv.notify_all();
}

template <class P>
bool waitCo(Run& r, P pred, int ms = 30000) {
  std::unique_lock<std::mutex> l(r.co.m);
  return r.co.cv.wait_for(l, std::chrono::milliseconds(ms), pred);
}

Json::Value takeMark(Run& r, const char* label) {
  Json::Value mk(Json::objectValue);
  // read the producers' progress first: a line counted as offered here was offered before `pos` is read
  Json::Value dn(Json::arrayValue);
  for (auto& d : r.done) dn.append(d.load(std::memory_order_relaxed));
  std::atomic_thread_fence(std::memory_order_seq_cst);
  mk["pos"] = (Json::UInt64)r.buf.pos();
  mk["done"] = dn;
  mk["label"] = label;
  return mk;
}

void runScenario(const Json::Value& sc, Json::Value& out) {
  const Json::Value& prods = sc["producers"];
  size_t np = prods.size();
  if (np == 0 || np > 8) {
    out["outcome"] = "bad-scenario";
    return;
  }
  g_nev.store(0);
  g_jitter.store(sc.get("jitter", 0).asUInt());
  std::string dir = vh::freshDir("log");
  std::string kpath = dir + "/kmsg";
  int kfd = ::open(kpath.c_str(), O_WRONLY | O_CREAT | O_TRUNC | O_APPEND, 0644);  // O_TRUNC: a crashed earlier process with the same pid may have left the file
  if (kfd < 0) die("cannot create kmsg file");
  g_kmsg_fd.store(kfd);
  g_kmsg_faults.store(0);
  {
    std::string io = sc.get("kmsg_io", "").asString();
    g_kmsg_io.store(io == "eintr" ? 1 : io == "short" ? 2 : 0);
  }

  auto* rp = new Run(np);
  Run& r = *rp;
  r.buf.delayUs = sc["sink"].get("us", 0).asUInt();
  r.os.reset(new std::ostream(&r.buf));
  r.co.parkedAt.assign(np, -1);
  r.co.finished.assign(np, 0);
  r.log = Log::get_for_unittest(kfd, *r.os, /* inl= */ false);

  // a script that starts by closing the gate means "closed from the start": the producers must not get their first
  // lines through before the conductor thread is scheduled (seen under load: nothing left for the io thread to block on)
  if (sc["script"].size() > 0 && sc["script"][0]["k"].asString() == "close") r.buf.open = false;
  std::vector<std::thread> th;
  for (size_t p = 0; p < np; p++) th.emplace_back(producer, std::ref(r), (int)p, std::cref(prods[(int)p]));

  Json::Value marks(Json::arrayValue);
  bool shut = false;
  double shutdownMs = 0;
  auto quiesce = [&] {
    if (!waitCo(r, [&] {
          for (size_t p = 0; p < np; p++)
            if (!r.co.finished[p] && r.co.parkedAt[p] < 0) return false;
          return true;
        }))
      die("producers did not quiesce within 30 s");
  };
  auto doShutdown = [&](long openAfterUs) {
    quiesce();
    {
      std::lock_guard<std::mutex> l(r.co.m);
      r.co.abort = true;
      r.co.cv.notify_all();
    }
    for (auto& t : th) t.join();
    th.clear();
    marks.append(takeMark(r, "pre-shutdown"));
    std::atomic<bool> returned{false};
    std::thread opener([&] {
      // a closed gate is opened after the requested delay, so that the io thread can finish
      auto t0 = std::chrono::steady_clock::now();
      bool opened = false;
      while (!returned.load()) {
        auto el = std::chrono::duration_cast<std::chrono::microseconds>(std::chrono::steady_clock::now() - t0).count();
        if (!opened && el >= openAfterUs) {
          std::lock_guard<std::mutex> l(r.buf.m);
          r.buf.open = true;
          r.buf.cv.notify_all();
          opened = true;
        }
        if (el > 10 * 1000 * 1000) die("~Log did not return within 10 s (io thread never exited)");
        std::this_thread::sleep_for(std::chrono::microseconds(200));
      }
    });
    auto t0 = std::chrono::steady_clock::now();
    r.log.reset(); // Log::~Log: stop flag, notify, join
    shutdownMs = std::chrono::duration<double, std::milli>(std::chrono::steady_clock::now() - t0).count();
    returned.store(true);
    opener.join();
    shut = true;
  };

  Json::Value script = sc["script"];
  for (Json::ArrayIndex i = 0; i < script.size() && !shut; i++) {
    const auto& op = script[i];
    const std::string k = op["k"].asString();
    if (k == "close" || k == "open" || k == "budget") {
      std::lock_guard<std::mutex> l(r.buf.m);
      if (k == "close") r.buf.open = false;
      if (k == "open") r.buf.open = true;
      if (k == "budget") r.buf.budget = op["n"].asInt64();
      r.buf.cv.notify_all();
    } else if (k == "release") {
      std::lock_guard<std::mutex> l(r.co.m);
      r.co.released = std::max(r.co.released, op["i"].asInt());
      r.co.cv.notify_all();
    } else if (k == "arrive") {
      int b = op["i"].asInt();
      if (!waitCo(r, [&] {
            for (size_t p = 0; p < np; p++)
              if (!r.co.finished[p] && r.co.parkedAt[p] < b) return false;
            return true;
          }))
        die("producers did not arrive at the barrier within 30 s");
    } else if (k == "join") {
      if (!waitCo(r, [&] {
            for (size_t p = 0; p < np; p++)
              if (!r.co.finished[p]) return false;
            return true;
          }))
        die("producers did not finish within 30 s");
    } else if (k == "blocked") {
      std::unique_lock<std::mutex> l(r.buf.m);
      r.buf.cv.wait_for(l, std::chrono::milliseconds(op.get("ms", 200).asInt()), [&] { return r.buf.ioWaiting; });
    } else if (k == "us") {
      std::this_thread::sleep_for(std::chrono::microseconds(op["n"].asUInt64()));
    } else if (k == "mark") {
      marks.append(takeMark(r, "mark"));
    } else if (k == "shutdown") {
      doShutdown(op.get("open_after_us", 0).asInt64());
    } else if (k == "shutdown_late") {
      quiesce();
      bool blocked;
      {
        std::unique_lock<std::mutex> l(r.buf.m);
        if (r.buf.open) die("shutdown_late needs a closed gate");
        blocked = r.buf.cv.wait_for(l, std::chrono::seconds(5), [&] { return r.buf.ioWaiting; });
      }
      if (!blocked) {
        // the situation the op wants to set up (io thread inside the sink on an earlier batch) did not arise - e.g. a logger
        // that has not started writing yet.  When lines are written is not C20's subject (only that they are, once, in
        // order, before shutdown returns), so this is not a finding: the scenario ends with the default shutdown
        out["late_precondition_unmet"] = true;
        continue;
      }
      std::atomic<bool> returned{false};
      auto t0 = std::chrono::steady_clock::now();
      std::thread killer([&] {
        r.log.reset();  // Log::~Log: stop flag, notify, join (blocks: the io thread sits in the closed gate)
        shutdownMs = std::chrono::duration<double, std::milli>(std::chrono::steady_clock::now() - t0).count();
        returned.store(true);
      });
      std::this_thread::sleep_for(std::chrono::milliseconds(60));
      if (returned.load()) die("shutdown_late: ~Log returned although the io thread was blocked");
      {
        std::lock_guard<std::mutex> l(r.co.m);
        r.co.released = 1 << 30;   // the late lines: offered while the destructor waits, before the final swap
        r.co.cv.notify_all();
      }
      if (!waitCo(r, [&] {
            for (size_t p = 0; p < np; p++)
              if (!r.co.finished[p]) return false;
            return true;
          }))
        die("late producers did not finish within 30 s");
      for (auto& t : th) t.join();
      th.clear();
      marks.append(takeMark(r, "pre-shutdown"));
      {
        std::lock_guard<std::mutex> l(r.buf.m);
        r.buf.open = true;
        r.buf.cv.notify_all();
      }
      killer.join();
      shut = true;
    }
  }
  if (!shut) {
    // default ending: let every producer run to the end of its script, then shut down
    {
      std::lock_guard<std::mutex> l(r.co.m);
      r.co.released = 1 << 30;
      r.co.cv.notify_all();
    }
    if (!waitCo(r, [&] {
          for (size_t p = 0; p < np; p++)
            if (!r.co.finished[p]) return false;
          return true;
        }))
      die("producers did not finish within 30 s");
    doShutdown(0);
  }

  // ---- observations ----
  const std::string& d = r.buf.data;
  Json::Value sink(Json::arrayValue);
  size_t fi = 0, pos = 0;
  std::string junk;
  auto flushJunk = [&] {
    if (junk.empty()) return;
    // a drop report is recognised by its single number; the wording is not compared
    std::vector<std::string> nums;
    std::string cur;
    for (char c : junk) {
      if (c >= '0' && c <= '9')
        cur.push_back(c);
      else if (!cur.empty()) {
        nums.push_back(cur);
        cur.clear();
      }
    }
    if (!cur.empty()) nums.push_back(cur);
    Json::Value e(Json::objectValue);
    if (nums.size() == 1 && nums[0].size() < 18)
      e["d"] = (Json::UInt64)strtoull(nums[0].c_str(), nullptr, 10);
    else {
      std::string shown;
      for (char c : junk.substr(0, 80)) shown.push_back((c >= 32 && c < 127) ? c : '?');
      e["j"] = shown;
    }
    e["n"] = (Json::UInt64)junk.size();
    sink.append(e);
    junk.clear();
  };
  auto emitFlushes = [&](size_t upto) {
    while (fi < r.buf.flushAt.size() && r.buf.flushAt[fi] <= upto) {
      flushJunk();
      Json::Value e(Json::objectValue);
      e["f"] = 1;
      sink.append(e);
      fi++;
    }
  };
  while (pos < d.size()) {
    int tid = 0, seq = 0;
    size_t len = parseRecord(d, pos, tid, seq);
    if (len) {
      flushJunk();
      Json::Value e(Json::arrayValue);
      e.append(tid);
      e.append(seq);
      e.append((Json::UInt64)len);
      sink.append(e);
      pos += len;
    } else {
      junk.push_back(d[pos]);
      pos++;
    }
    emitFlushes(pos);
  }
  flushJunk();
  emitFlushes(d.size());
  out["sink"] = sink;
  out["sink_bytes"] = (Json::UInt64)d.size();

  // kmsg file: every line must be "<prefix>: <record without newline>"
  Json::Value km(Json::arrayValue);
  {
    std::ifstream f(kpath, std::ios::binary);
    std::string line;
    const std::string pre = "oomd kill: ";
    while (std::getline(f, line)) {
      int tid = -1, seq = -1;
      std::string rec = line.size() >= pre.size() && line.compare(0, pre.size(), pre) == 0 ? line.substr(pre.size()) + "\n" : "";
      size_t len = rec.empty() ? 0 : parseRecord(rec, 0, tid, seq);
      Json::Value e(Json::arrayValue);
      if (len && len == rec.size()) {
        e.append(tid);
        e.append(seq);
        e.append((Json::UInt64)len);
      } else {
        e.append(-1);
        e.append(-1);
        e.append((Json::UInt64)line.size());
      }
      km.append(e);
    }
  }
  out["kmsg"] = km;
  out["kmsg_faults"] = g_kmsg_faults.load();
  g_kmsg_io.store(0);
  g_kmsg_fd.store(-1);
  Json::Value dn(Json::arrayValue);
  for (auto& x : r.done) dn.append(x.load());
  out["done"] = dn;
  out["marks"] = marks;
  out["shutdown_ms"] = shutdownMs;
  bool hooks = g_hooksSeen.load();
  out["hooks"] = hooks;
  if (hooks) {
    Json::Value evs(Json::arrayValue);
    size_t n = std::min(g_nev.load(), kMaxEv);
    for (size_t i = 0; i < n; i++) {
      const Ev& e = g_ev[i];
      Json::Value j(Json::arrayValue);
      j.append(std::string(1, e.tag));
      if (e.tag == 'e' || e.tag == 'd') {
        j.append(e.tid);
        j.append(e.seq);
      }
      j.append((Json::UInt64)e.a);
      j.append((Json::UInt64)e.b);
      j.append((Json::UInt64)e.c);
      evs.append(j);
    }
    out["events"] = evs;
    out["events_lost"] = g_nev.load() > kMaxEv;
  }
  delete rp;
  vh::rmrf(dir);
}

} // namespace

int main() {
  g_ev = new Ev[kMaxEv];
  return vh::lineLoop(runScenario);
}

// Shared helpers for the verification harnesses (one JSON object per line in, one per line out).
#pragma once
#include <ftw.h>
#include <json/json.h>
#include <sys/stat.h>
#include <unistd.h>
#include <cstdio>
#include <cstdlib>
#include <fstream>
#include <functional>
#include <iostream>
#include <sstream>
#include <string>

namespace vh {

inline std::string scratchRoot() {
  // scenario worlds are many small short-lived files: prefer the tmpfs the check runner points at
  if (const char* w = getenv("VERIF_WORLD")) {
    return w;
  }
  const char* s = getenv("VERIF_SCRATCH");
  std::string r = s ? s : "/var/tmp/oomd-verif";
  r += "/world";
  return r;
}

inline void mkdirs(const std::string& p) {
  std::string cur;
  std::stringstream ss(p);
  std::string item;
  if (!p.empty() && p[0] == '/') cur = "";
  size_t i = 0;
  while (i <= p.size()) {
    size_t j = p.find('/', i);
    if (j == std::string::npos) j = p.size();
    cur = p.substr(0, j);
    if (!cur.empty()) ::mkdir(cur.c_str(), 0755);
    i = j + 1;
  }
}

inline int rmrfCb(const char* path, const struct stat*, int, struct FTW*) {
  return ::remove(path);
}
// no fork: forking a sanitizer-instrumented process is very slow
inline void rmrf(const std::string& p) {
  ::nftw(p.c_str(), rmrfCb, 64, FTW_DEPTH | FTW_PHYS);
}

inline std::string freshDir(const std::string& tag) {
  static int n = 0;
  std::string d = scratchRoot() + "/" + tag + "-" + std::to_string(getpid()) + "-" + std::to_string(n++);
  rmrf(d);  // a sanitizer-aborted process with a recycled pid may have left one behind
  mkdirs(d);
  return d;
}

inline void writeFile(const std::string& p, const std::string& content) {
  std::ofstream f(p, std::ios::binary | std::ios::trunc);
  f << content;
}

inline std::string compact(const Json::Value& v) {
  Json::StreamWriterBuilder b;
  b["indentation"] = "";
  b["emitUTF8"] = true;
  return Json::writeString(b, v);
}

// Reads scenario lines from stdin, calls f(scenario, out) and prints out (with the id) per line.
inline int lineLoop(const std::function<void(const Json::Value&, Json::Value&)>& f) {
  std::string line;
  Json::CharReaderBuilder rb;
  while (std::getline(std::cin, line)) {
    if (line.empty()) continue;
    Json::Value sc;
    std::string errs;
    std::istringstream is(line);
    if (!Json::parseFromStream(rb, is, &sc, &errs)) {
      std::cout << "{\"error\":\"bad json\"}" << std::endl;
      continue;
    }
    Json::Value out(Json::objectValue);
    out["id"] = sc["id"];
    out["outcome"] = "ok";
    f(sc, out);
    std::cout << compact(out) << std::endl;  // flush per line so a later crash does not lose it
  }
  return 0;
}

} // namespace vh

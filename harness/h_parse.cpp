// Engine h_parse (C12): the real string-level parsers of oomd (Util::parseSize, parseSizeOrPercent,
// PluginArgParser::parseUnsignedInt / parseValue<T> / parseCgroup) and the libc/libstdc++ std::sto*
// functions they are built on, on generated strings.  Config-level kinds (init / compile / load /
// dropin) live in h_config.cpp (linked into the same executable, see vlib/props/C12.py).
//
// Outcome vocabulary per string and parser:  "R" rejected by return code, "E:<exception>" rejected
// by a std::exception (which is how these APIs report a bad value to PluginArgParser::parse),
// "X:<what>" anything else that left the function (an escape), otherwise the value.
#include "common.h"

#include <cmath>
#include <cxxabi.h>
#include <algorithm>
#include <chrono>
#include <stdexcept>
#include <string>
#include <typeinfo>

#include "oomd/PluginConstructionContext.h"
#include "oomd/include/CgroupPath.h"
#include "oomd/include/Types.h"
#include "oomd/util/PluginArgParser.h"
#include "oomd/util/Util.h"

using namespace Oomd;

void configScenario(const std::string& kind, const Json::Value& sc, Json::Value& out); // h_config.cpp

namespace {

std::string excName(const std::exception& e) {
  int st = 0;
  char* d = abi::__cxa_demangle(typeid(e).name(), nullptr, nullptr, &st);
  std::string n = (st == 0 && d) ? d : typeid(e).name();
  free(d);
  if (n.rfind("std::", 0) == 0) n = n.substr(5);
  return n;
}

// exact description of a floating value: fin:<neg>:<m>:<e> meaning (-1)^neg * m * 2^e with m a 64-bit integer
template <class F>
std::string fdesc(F x) {
  if (std::isnan(x)) return "nan";
  std::string neg = std::signbit(x) ? "1" : "0";
  if (std::isinf(x)) return "inf:" + neg;
  if (x == 0) return "fin:" + neg + ":0:0";
  int e = 0;
  long double fr = frexpl(fabsl(static_cast<long double>(x)), &e); // [0.5, 1)
  uint64_t m = static_cast<uint64_t>(ldexpl(fr, 64));
  int ee = e - 64;
  while ((m & 1) == 0) { m >>= 1; ee++; }
  return "fin:" + neg + ":" + std::to_string(m) + ":" + std::to_string(ee);
}

std::string vdesc(int v) { return std::to_string(v); }
std::string vdesc(long v) { return std::to_string(v); }
std::string vdesc(long long v) { return std::to_string(v); }
std::string vdesc(unsigned long v) { return std::to_string(v); }
std::string vdesc(unsigned long long v) { return std::to_string(v); }
std::string vdesc(float v) { return fdesc(v); }
std::string vdesc(double v) { return fdesc(v); }
std::string vdesc(long double v) { return fdesc(v); }
std::string vdesc(bool v) { return v ? "true" : "false"; }
std::string vdesc(const std::string& v) { return "s:" + v; }
std::string vdesc(std::chrono::milliseconds v) { return std::to_string(v.count()); }
std::string vdesc(ResourceType v) { return v == ResourceType::IO ? "io" : (v == ResourceType::MEMORY ? "memory" : "?"); }

// raw std::sto*: "<pos>|<value>" or E:<exception>
template <class Fn>
std::string rawSto(Fn fn, const std::string& s) {
  try {
    size_t pos = 0;
    auto v = fn(s, &pos);
    return std::to_string(pos) + "|" + vdesc(v);
  } catch (const std::exception& e) {
    return "E:" + excName(e);
  } catch (...) {
    return "X:unknown";
  }
}

template <class Fn>
std::string viaException(Fn fn) {
  try {
    return vdesc(fn());
  } catch (const std::exception& e) {
    return "E:" + excName(e);
  } catch (...) {
    return "X:unknown";
  }
}

void doStr(const std::string& s, int64_t total, Json::Value& o) {
  // the functions under test
  {
    int64_t v = 0x5a5a5a5a;
    std::string r;
    try {
      r = Util::parseSize(s, &v) == 0 ? std::to_string(v) : "R";
    } catch (const std::exception& e) {
      r = "X:" + excName(e);
    } catch (...) {
      r = "X:unknown";
    }
    o["sz"] = r;
  }
  {
    int64_t v = 0x5a5a5a5a;
    std::string r;
    try {
      r = Util::parseSizeOrPercent(s, &v, total) == 0 ? std::to_string(v) : "R";
    } catch (const std::exception& e) {
      r = "X:" + excName(e);
    } catch (...) {
      r = "X:unknown";
    }
    o["sp"] = r;
  }
  o["ui"] = viaException([&] { return PluginArgParser::parseUnsignedInt(s); });
  o["vi"] = viaException([&] { return PluginArgParser::parseValue<int>(s); });
  o["vl"] = viaException([&] { return PluginArgParser::parseValue<int64_t>(s); });
  o["vd"] = viaException([&] { return PluginArgParser::parseValue<double>(s); });
  o["vf"] = viaException([&] { return PluginArgParser::parseValue<float>(s); });
  o["vm"] = viaException([&] { return PluginArgParser::parseValue<std::chrono::milliseconds>(s); });
  o["vb"] = viaException([&] { return PluginArgParser::parseValue<bool>(s); });
  o["vr"] = viaException([&] { return PluginArgParser::parseValue<ResourceType>(s); });
  o["vs"] = viaException([&] { return PluginArgParser::parseValue<std::string>(s); });
  // libc / libstdc++ themselves (validates the model of the accepted prefix languages)
  o["si"] = rawSto([](const std::string& x, size_t* p) { return std::stoi(x, p); }, s);
  o["sl"] = rawSto([](const std::string& x, size_t* p) { return std::stoll(x, p); }, s);
  o["su"] = rawSto([](const std::string& x, size_t* p) { return std::stoull(x, p); }, s);
  o["sf"] = rawSto([](const std::string& x, size_t* p) { return std::stof(x, p); }, s);
  o["sd"] = rawSto([](const std::string& x, size_t* p) { return std::stod(x, p); }, s);
  o["sL"] = rawSto([](const std::string& x, size_t* p) { return std::stold(x, p); }, s);
}

// one tab-separated record per string, fields in this order (vs, which echoes the input, last)
const char* kFields[] = {"sz", "sp", "ui", "vi", "vl", "vd", "vf", "vm", "vb", "vr", "si", "sl", "su", "sf", "sd", "sL", "vs"};

void doStrs(const Json::Value& sc, Json::Value& out) {
  int64_t total = std::stoll(sc.get("total", "0").asString());
  Json::Value rs(Json::arrayValue);
  for (const auto& s : sc["ss"]) {
    Json::Value o(Json::objectValue);
    doStr(s.asString(), total, o);
    std::string rec;
    for (const char* f : kFields) {
      if (!rec.empty()) rec += '\t';
      rec += o[f].asString();
    }
    rs.append(rec);
  }
  out["rs"] = rs;
}

void doCgroup(const Json::Value& sc, Json::Value& out) {
  PluginConstructionContext ctx(sc["fs"].asString());
  try {
    auto set = PluginArgParser::parseCgroup(ctx, sc["s"].asString());
    std::vector<std::string> v;
    bool fs_ok = true;
    for (auto& p : set) {
      v.push_back(p.relativePath());
      if (p.cgroupFs() != CgroupPath(sc["fs"].asString(), "").cgroupFs()) fs_ok = false;
    }
    std::sort(v.begin(), v.end());
    Json::Value a(Json::arrayValue);
    for (auto& x : v) a.append(x);
    out["paths"] = a;
    out["fs_ok"] = fs_ok;
    out["r"] = "ok";
  } catch (const std::exception& e) {
    out["r"] = "E:" + excName(e);
  }
}

} // namespace

int main() {
  int rc = vh::lineLoop([](const Json::Value& sc, Json::Value& out) {
    std::string k = sc["kind"].asString();
    if (k == "strs") doStrs(sc, out);
    else if (k == "cgroup") doCgroup(sc, out);
    else configScenario(k, sc, out);
  });
  fflush(stdout);
  _exit(rc);
}

// Engine h_detect (C08): runs the seven real detector plugins, created through the real plugin
// registry, on a scratch cgroup tree with a virtual CLOCK_MONOTONIC over multi-tick histories.
//
// Scenario (one JSON object per line):
//   {"id": .., "det": "pressure_above", "args": {"cgroup": "w/*,sys", "resource": "memory", ...},
//    "memtotal_kb": 16384000,          (memory_above: written to a meminfo file -> meminfo_location)
//    "ctx": "persistent" | "fresh",    (persistent = one OomdContext refreshed per tick as Oomd::updateContext
//                                       does; fresh = a new OomdContext every tick as the unit tests do)
//    "ticks": [ {"clock": <ns>,
//                "cgs": [ {"path": "w/a", "fresh": false,
//                          "mp": [p10,p60,p300] | null,   (hundredths; null = memory.pressure absent)
//                          "iop": [..] | null, "cur": N | null,
//                          "stat": {"anon": N, "pgscan": N, ...} | null,
//                          "dying": N | null, "dying_nokey": bool} ],
//                "sys": {"swaptotal": N, "swapused": N, "swapout_bps": N} } ]}
// Every directory of the tick must be listed in "cgs" (parents included); directories not listed are
// removed before the tick.  The harness renders the values into the kernel's file formats.
//
// Trace: {"id": .., "outcome": "ok", "init": 0, "rets": ["CONTINUE", "STOP", ...]}
#include "common.h"
#include "vclock.h"

#include <dirent.h>
#include <algorithm>
#include <map>
#include <memory>
#include <set>

#include "oomd/Log.h"
#include "oomd/OomdContext.h"
#include "oomd/PluginConstructionContext.h"
#include "oomd/PluginRegistry.h"
#include "oomd/engine/BasePlugin.h"

using namespace Oomd;

namespace {

std::string psi(const Json::Value& v) {
  // kernel: "%lu.%02lu"
  auto f = [](uint64_t h) {
    char b[64];
    snprintf(b, sizeof b, "%llu.%02llu", (unsigned long long)(h / 100), (unsigned long long)(h % 100));
    return std::string(b);
  };
  uint64_t a = v[0].asUInt64(), b = v[1].asUInt64(), c = v[2].asUInt64();
  // the "some" line is never read by the detectors; give it different numbers so that reading the
  // wrong line is visible
  std::string s = "some avg10=" + f(a / 2 + 1) + " avg60=" + f(b / 2 + 1) + " avg300=" + f(c / 2 + 1) + " total=12345\n";
  s += "full avg10=" + f(a) + " avg60=" + f(b) + " avg300=" + f(c) + " total=6789\n";
  return s;
}

void rmTree(const std::string& p) {
  DIR* dp = ::opendir(p.c_str());
  if (dp) {
    std::vector<std::string> names;
    while (auto* e = ::readdir(dp)) {
      std::string n = e->d_name;
      if (n != "." && n != "..") names.push_back(n);
    }
    ::closedir(dp);
    for (auto& n : names) {
      std::string q = p + "/" + n;
      struct stat st;
      if (::lstat(q.c_str(), &st) == 0 && S_ISDIR(st.st_mode)) rmTree(q); else ::unlink(q.c_str());
    }
  }
  ::rmdir(p.c_str());
}

// The tree is only ever changed through this object, so it knows which directories exist and what
// every file contains: a tick touches only what differs from the previous tick.
struct Tree {
  std::string root;
  std::set<std::string> dirs;                 // relative paths of existing directories
  std::map<std::string, std::string> files;   // absolute path -> content

  void setFile(const std::string& p, bool present, const std::string& content) {
    auto it = files.find(p);
    if (!present) {
      if (it != files.end()) {
        ::unlink(p.c_str());
        files.erase(it);
      }
      return;
    }
    if (it != files.end() && it->second == content) return;
    vh::writeFile(p, content);
    files[p] = content;
  }

  void removeDir(const std::string& rel) {
    std::string abs = root + "/" + rel;
    rmTree(abs);
    for (auto it = dirs.begin(); it != dirs.end();) {
      if (*it == rel || it->compare(0, rel.size() + 1, rel + "/") == 0) it = dirs.erase(it); else ++it;
    }
    for (auto it = files.begin(); it != files.end();) {
      if (it->first.compare(0, abs.size() + 1, abs + "/") == 0) it = files.erase(it); else ++it;
    }
  }

  void sync(const Json::Value& cgs) {
    std::set<std::string> want;
    for (const auto& cg : cgs) {
      std::string p = cg["path"].asString();
      for (size_t i = 0; i <= p.size(); i++) {
        if (i == p.size() || p[i] == '/') want.insert(p.substr(0, i));
      }
    }
    std::vector<std::string> gone;
    for (auto& d : dirs) {
      if (!want.count(d)) gone.push_back(d);
    }
    for (auto& d : gone) {
      if (dirs.count(d)) removeDir(d);
    }
    // "fresh": the directory is re-created (new inode) although a context may still hold the old one
    for (const auto& cg : cgs) {
      std::string rel = cg["path"].asString();
      if (cg.get("fresh", false).asBool() && dirs.count(rel)) removeDir(rel);
    }
    for (const auto& cg : cgs) {
      std::string rel = cg["path"].asString();
      std::string dir = root + "/" + rel;
      if (!dirs.count(rel)) {
        for (size_t i = 0; i <= rel.size(); i++) {
          if (i == rel.size() || rel[i] == '/') {
            std::string pre = rel.substr(0, i);
            if (dirs.insert(pre).second) {
              ::mkdir((root + "/" + pre).c_str(), 0755);
              // an intermediate directory is a cgroup too
              setFile(root + "/" + pre + "/cgroup.controllers", true, "memory io\n");
            }
          }
        }
      }
      setFile(dir + "/cgroup.controllers", true, "memory io\n");
      setFile(dir + "/memory.pressure", !cg["mp"].isNull(), cg["mp"].isNull() ? "" : psi(cg["mp"]));
      setFile(dir + "/io.pressure", !cg["iop"].isNull(), cg["iop"].isNull() ? "" : psi(cg["iop"]));
      setFile(dir + "/memory.current", !cg["cur"].isNull(),
              cg["cur"].isNull() ? "" : std::to_string(cg["cur"].asUInt64()) + "\n");
      {
        std::string c;
        const Json::Value& st = cg["stat"];
        if (!st.isNull()) {
          // a few lines the detectors do not look at, around the ones they do
          c += "file 4096\n";
          for (auto it = st.begin(); it != st.end(); ++it) c += it.key().asString() + " " + std::to_string(it->asUInt64()) + "\n";
          c += "pgsteal 17\n";
        }
        setFile(dir + "/memory.stat", !st.isNull(), c);
      }
      {
        std::string c;
        const Json::Value& dy = cg["dying"];
        if (!dy.isNull()) {
          c += "nr_descendants 3\n";
          if (!cg.get("dying_nokey", false).asBool()) c += "nr_dying_descendants " + std::to_string(dy.asUInt64()) + "\n";
        }
        setFile(dir + "/cgroup.stat", !dy.isNull(), c);
      }
    }
  }
};

const char* retName(Engine::PluginRet r) {
  switch (r) {
    case Engine::PluginRet::CONTINUE: return "CONTINUE";
    case Engine::PluginRet::STOP: return "STOP";
    case Engine::PluginRet::ASYNC_PAUSED: return "ASYNC_PAUSED";
  }
  return "?";
}

void runScenario(const Json::Value& sc, Json::Value& out) {
  std::string top = vh::freshDir("detect");
  std::string root = top + "/cg";
  vh::mkdirs(root);
  vh::writeFile(root + "/cgroup.controllers", "memory io\n");
  Tree tree;
  tree.root = root;
  const Json::Value& ticks = sc["ticks"];

  Engine::PluginArgs args;
  for (auto it = sc["args"].begin(); it != sc["args"].end(); ++it) args[it.key().asString()] = it->asString();
  if (sc.isMember("memtotal_kb")) {
    std::string mi = top + "/meminfo";
    vh::writeFile(mi, "MemTotal:       " + std::to_string(sc["memtotal_kb"].asUInt64()) + " kB\nMemFree:          1024 kB\n");
    args["meminfo_location"] = mi;
  }

  // the tree of the first tick exists when the plugin is constructed (init does not look at it)
  if (ticks.size() > 0) {
    vh::setNowNs(ticks[0]["clock"].asInt64());
    tree.sync(ticks[0]["cgs"]);
  }

  std::unique_ptr<Engine::BasePlugin> plugin(getPluginRegistry().create(sc["det"].asString()));
  if (!plugin) {
    out["outcome"] = "no-such-plugin";
    rmTree(top);
    return;
  }
  plugin->setName(sc["det"].asString());
  const PluginConstructionContext cctx(root);
  int rc = 0;
  try {
    rc = plugin->initPlugin(args, cctx);
  } catch (const std::exception& e) {
    out["outcome"] = std::string("uncaught-init:") + e.what();
    rmTree(top);
    return;
  }
  out["init"] = rc;
  Json::Value rets(Json::arrayValue);
  if (rc != 0) {
    out["outcome"] = "init-failed";
    out["rets"] = rets;
    rmTree(top);
    return;
  }

  bool persistent = sc.get("ctx", "persistent").asString() != "fresh";
  auto ctx = std::make_unique<OomdContext>();
  try {
    for (Json::ArrayIndex i = 0; i < ticks.size(); i++) {
      const Json::Value& tk = ticks[i];
      vh::setNowNs(tk["clock"].asInt64());
      tree.sync(tk["cgs"]);
      // as Oomd::updateContext: new SystemContext, refresh the cached cgroups, bump the tick
      if (!persistent) ctx = std::make_unique<OomdContext>();
      SystemContext sys;
      const Json::Value& s = tk["sys"];
      if (!s.isNull()) {
        sys.swaptotal = s["swaptotal"].asUInt64();
        sys.swapused = s["swapused"].asUInt64();
        sys.swapout_bps = s["swapout_bps"].asDouble();
      }
      ctx->setSystemContext(sys);
      ctx->refresh();
      ctx->bumpCurrentTick();
      plugin->prerun(*ctx);
      rets.append(retName(plugin->run(*ctx)));
    }
  } catch (const std::exception& e) {
    out["outcome"] = std::string("uncaught:") + e.what();
  }
  out["rets"] = rets;
  plugin.reset();
  ctx.reset();
  rmTree(top);
}

} // namespace

int main() {
  OLOG << LogStream::Control::DISABLE;
  vh::lineLoop(runScenario);
  vh::finish(0);
}

// Engine h_dropin (C13): copy of h_engine.cpp (real ConfigCompiler + Engine + Ruleset with scripted
// plugins and a virtual CLOCK_MONOTONIC) extended for drop-ins:
//  * detectors / actions may be objects {"inst":n,"fail_init":bool,"unknown":bool} (init() fails /
//    the plugin name is not in the registry);
//  * scripted prekill hook `vhook` registered in the real prekill-hook registry
//    ({"hid":n,"match":[probe,...],"fail_init":bool,"unknown":bool}); base hooks under "hooks",
//    drop-in hooks under the op's "hooks";
//  * "root": rulesets of the IR root handed to compileDropIn (default: the engine's "rulesets");
//    lets a drop-in compile against a ruleset the engine does not have (Engine::addDropInConfig's
//    partial-add cleanup);
//  * ruleset fields "silence" (bad value => compileRuleset fails), "delay" ("-1" => fails);
//  * after every tick each cgroup of "probes" is offered to Engine::firePrekillHook.
// Scenario:
//  {"id":..,"rulesets":[...],"root":[...]?,"hooks":[...],"probes":["p0",...],
//   "ticks":[{"gap":ns,"calls":{"<inst>":[ret,adv_ns,pause_s|-1]},
//             "ops":[{"op":"add","tag":"t","rulesets":[...],"hooks":[...]},{"op":"remove","tag":"t"}]}]}
// Trace: {"ticks":[[ev,...],...], "ops":[[tick,op-index,result,stat],...],
//         "probes":[[[probe,fired hid|-1,[hids asked in order]],...],...]}
//   result = "added" | "add-failed" | "compile-failed" | "removed"; stat = oomd.dropin.added after the op
//   (-1 for compile-failed: nothing reaches the engine).  Operations go through the real
//   DropInServiceAdaptor: scheduleDropInAdd / scheduleDropInRemove for all operations of the tick, then
//   one updateDropIns(); results come from its handleDropIn*Result callbacks.
//   ev as in h_engine.cpp.  "final_stat": oomd.dropin.added at the end.
//  "twin_ticks": a second history run on a fresh engine, reported under "twin" (same shape).
#include "common.h"
#include "vclock.h"
#include "world.h"

#include <ftw.h>
#include <map>
#include <set>

#include <dlfcn.h>
#include <signal.h>
#include <string.h>

#include <functional>

#include "oomd/Log.h"
#include "oomd/Oomd.h"
#include "oomd/OomdContext.h"
#include "oomd/PluginRegistry.h"
#include "oomd/Stats.h"
#include "oomd/config/ConfigCompiler.h"
#include "oomd/config/ConfigTypes.h"
#include "oomd/dropin/DropInServiceAdaptor.h"
#include "oomd/engine/BasePlugin.h"
#include "oomd/engine/Engine.h"
#include "oomd/engine/PrekillHook.h"
#include "oomd/engine/Ruleset.h"
#include "oomd/include/CoreStats.h"

using namespace Oomd;

namespace {

// remove a scratch tree without fork/exec (vh::rmrf runs `rm -rf` through system(), slow under ASan)
int rmOne(const char* path, const struct stat*, int, struct FTW*) { return ::remove(path); }
void rmTree(const std::string& p) { ::nftw(p.c_str(), rmOne, 16, FTW_DEPTH | FTW_PHYS); }

struct Call {
  int ret{0};
  int64_t adv{0};
  int64_t pause{-1};
};

std::map<int, Call> g_calls; // this tick's script
Json::Value* g_events = nullptr;
std::map<std::string, int> g_uuid_ids;
int g_live_instances = 0;

int uuidId(const std::string& u) {
  if (u.empty()) return -1;
  auto it = g_uuid_ids.find(u);
  if (it != g_uuid_ids.end()) return it->second;
  int id = (int)g_uuid_ids.size();
  g_uuid_ids[u] = id;
  return id;
}

class Scripted : public Engine::BasePlugin {
 public:
  Scripted() { g_live_instances++; }
  ~Scripted() override { g_live_instances--; }
  int init(const Engine::PluginArgs& args, const PluginConstructionContext&) override {
    auto it = args.find("inst");
    if (it == args.end()) return 1;
    inst_ = std::stoi(it->second);
    auto c = args.find("cgroup");
    key_ = c == args.end() ? "" : c->second;
    if (args.count("fail_init")) return 1;
    return 0;
  }
  void prerun(OomdContext&) override {
    if (!g_events) return;
    Json::Value e(Json::arrayValue);
    e.append("p");
    e.append(inst_);
    e.append(key_);
    g_events->append(e);
  }
  Engine::PluginRet run(OomdContext& ctx) override {
    Call c;
    auto it = g_calls.find(inst_);
    if (it != g_calls.end()) c = it->second;
    const auto& ac = ctx.getActionContext();
    Json::Value e(Json::arrayValue);
    bool isAction = getName() == "vaction";
    e.append(isAction ? "a" : "d");
    e.append(inst_);
    e.append((Json::Int64)vh::g_now_ns);
    if (isAction) {
      e.append(ac.ruleset_name);
      e.append(ac.detectorgroup);
      e.append(uuidId(ac.action_group_run_uuid));
      if (ac.prekill_hook_timeout_ts) {
        e.append((Json::Int64)std::chrono::duration_cast<std::chrono::nanoseconds>(
                     ac.prekill_hook_timeout_ts->time_since_epoch())
                     .count());
      } else {
        e.append(-1);
      }
      e.append(ctx.getInvokingRuleset().has_value());
      e.append(ac.target_cgroup ? ac.target_cgroup->relativePath() : std::string("-"));
    }
    e.append(key_);
    if (g_events) g_events->append(e);
    vh::advanceNs(c.adv);
    if (c.pause >= 0) {
      auto rs = ctx.getInvokingRuleset();
      if (rs) (*rs)->pause_actions(std::chrono::seconds(c.pause));
    }
    switch (c.ret) {
      case 1: return Engine::PluginRet::STOP;
      case 2: return Engine::PluginRet::ASYNC_PAUSED;
      default: return Engine::PluginRet::CONTINUE;
    }
  }
  static Scripted* create() { return new Scripted(); }

 private:
  int inst_{-1};
  std::string key_;
};

bool reg1 = getPluginRegistry().add("vdetector", Scripted::create);
bool reg2 = getPluginRegistry().add("vaction", Scripted::create);


std::string g_probe;            // probe cgroup currently offered
Json::Value* g_asked = nullptr; // hids asked for the current probe
int g_fired = -1;

class VInvocation : public Engine::PrekillHookInvocation {
 public:
  bool didFinish() override { return true; }
};

class VHook : public Engine::PrekillHook {
 public:
  VHook() { g_live_instances++; }
  ~VHook() override { g_live_instances--; }
  int init(const Engine::PluginArgs& args, const PluginConstructionContext&) override {
    auto it = args.find("hid");
    if (it == args.end()) return 1;
    hid_ = std::stoi(it->second);
    auto m = args.find("match");
    if (m != args.end()) {
      std::string cur;
      for (char c : m->second + ",") {
        if (c == ',') {
          if (!cur.empty()) match_.insert(cur);
          cur.clear();
        } else {
          cur.push_back(c);
        }
      }
    }
    if (args.count("fail_init")) return 1;
    return 0;
  }
  bool canRunOnCgroup(const CgroupContext& cg) override {
    if (g_asked) g_asked->append(hid_);
    return match_.count(cg.cgroup().relativePath()) > 0;
  }
  std::unique_ptr<Engine::PrekillHookInvocation> fire(const CgroupContext&, const ActionContext&) override {
    g_fired = hid_;
    return std::make_unique<VInvocation>();
  }
  static VHook* create() { return new VHook(); }

 private:
  int hid_{-1};
  std::set<std::string> match_;
};

bool reg3 = getPrekillHookRegistry().add("vhook", VHook::create);

void irPlugin(const Json::Value& p, const char* name, Config2::IR::Plugin& out) {
  out.name = name;
  if (p.isObject()) {
    out.args["inst"] = std::to_string(p["inst"].asInt());
    if (p.isMember("cgroup")) out.args["cgroup"] = p["cgroup"].asString();
    if (p.get("fail_init", false).asBool()) out.args["fail_init"] = "1";
    if (p.get("unknown", false).asBool()) out.name = "vnosuchplugin";
  } else {
    out.args["inst"] = std::to_string(p.asInt());
  }
}

Config2::IR::PrekillHook irHook(const Json::Value& h) {
  Config2::IR::PrekillHook ir;
  ir.name = h.get("unknown", false).asBool() ? "vnosuchhook" : "vhook";
  ir.args["hid"] = std::to_string(h["hid"].asInt());
  std::string m;
  for (const auto& p : h["match"]) m += (m.empty() ? "" : ",") + p.asString();
  ir.args["match"] = m;
  if (h.get("fail_init", false).asBool()) ir.args["fail_init"] = "1";
  return ir;
}


int64_t statOf(const std::string& key);

// the real adaptor between a drop-in service and the engine; the "service" is the scenario
class VAdaptor : public DropInServiceAdaptor {
 public:
  using DropInServiceAdaptor::DropInServiceAdaptor;
  bool add(const std::string& tag, const Config2::IR::Root& d) { return scheduleDropInAdd(tag, d); }
  void remove(const std::string& tag) { scheduleDropInRemove(tag); }
  std::vector<std::pair<std::string, int64_t>> results;

 protected:
  void tick() override {}
  void handleDropInAddResult(const std::string&, bool ok) override {
    results.emplace_back(ok ? "added" : "add-failed", statOf(CoreStats::kNumDropInAdds));
  }
  void handleDropInRemoveResult(const std::string&, bool) override {
    results.emplace_back("removed", statOf(CoreStats::kNumDropInAdds));
  }
};

// ---- "main_loop": true - the ticks are iterations of the real Oomd::run loop ----------------------------------------------
// The scenario's adaptor is installed as Oomd::fs_drop_in_service_ (explicit instantiation may name a private member), so the
// order `updateDropIns -> updateContext -> prerun -> runOnce` is the one Oomd.cpp has, not one written out here.  The
// interposed sigtimedwait is the tick boundary: it finishes the previous tick (operation results, events, probes) and starts
// the next (clock, operations scheduled through the adaptor, script), or returns SIGTERM after the last one.
template <auto M>
struct RobDropIn {
  friend std::unique_ptr<DropInServiceAdaptor>& oomdDropIn(::Oomd::Oomd& o) { return o.*M; }
};
std::unique_ptr<DropInServiceAdaptor>& oomdDropIn(::Oomd::Oomd& o);
template struct RobDropIn<&::Oomd::Oomd::fs_drop_in_service_>;

std::function<void()> g_ml_end;              // finish the tick that just ran
std::function<bool()> g_ml_begin;            // start the next tick; false = no more ticks
bool g_ml_on = false;
bool g_ml_started = false;

Config2::IR::Ruleset irRuleset(const Json::Value& r) {
  Config2::IR::Ruleset ir;
  ir.name = "r" + std::to_string(r["rid"].asInt());
  for (const auto& g : r["groups"]) {
    Config2::IR::DetectorGroup dg;
    dg.name = "g" + std::to_string(g["gid"].asInt());
    for (const auto& d : g["dets"]) {
      Config2::IR::Detector det;
      irPlugin(d, "vdetector", det);
      dg.detectors.push_back(det);
    }
    ir.dgs.push_back(dg);
  }
  for (const auto& a : r["actions"]) {
    Config2::IR::Action act;
    irPlugin(a, "vaction", act);
    ir.acts.push_back(act);
  }
  ir.post_action_delay = r.get("delay", "").asString();
  ir.prekill_hook_timeout = r.get("hook_timeout", "").asString();
  ir.silence_logs = r.get("silence", "").asString();
  ir.cgroup = r.get("cgroup", "").asString();
  ir.xattr_filter = r.get("xattr_filter", "").asString();
  const auto& d = r["dropin"];
  ir.dropin.disable_on_drop_in = d.get("disable", false).asBool();
  ir.dropin.detectorgroups_enabled = d.get("dg", false).asBool();
  ir.dropin.actiongroup_enabled = d.get("act", false).asBool();
  return ir;
}

int64_t statOf(const std::string& key) {
  auto all = Oomd::getStats();
  auto it = all.find(key);
  return it == all.end() ? 0 : it->second;
}

void runHistory(const Json::Value& sc, const Json::Value& tickList, Json::Value& out) {
  g_uuid_ids.clear();
  g_calls.clear();
  vh::setNowNs(1000LL * 1000000000LL);
  // one private parent per process: the shared scratch root is a single contended directory
  static const std::string parent = vh::freshDir("dropin");
  static int nWorld = 0;
  std::string top = parent + "/w" + std::to_string(nWorld++);
  ::mkdir(top.c_str(), 0755);
  std::string cgfs = top + "/cg";
  ::mkdir(cgfs.c_str(), 0755);
  if (sc.isMember("tree")) vh::materialize(cgfs, sc["tree"]);
  Oomd::resetStats();

  Config2::IR::Root root;
  for (const auto& r : sc["rulesets"]) root.rulesets.push_back(irRuleset(r));
  for (const auto& h : sc["hooks"]) root.prekill_hooks.push_back(irHook(h));
  // the IR root the drop-in adaptor compiles against (normally the same rulesets)
  Config2::IR::Root droot_base = root;
  if (sc.isMember("root")) {
    droot_base.rulesets.clear();
    for (const auto& r : sc["root"]) droot_base.rulesets.push_back(irRuleset(r));
  }
  for (const auto& p : sc["probes"]) ::mkdir((cgfs + "/" + p.asString()).c_str(), 0755);
  PluginConstructionContext pcc(cgfs);
  auto engine = Config2::compile(root, pcc);
  if (!engine) {
    out["outcome"] = "compile-failed";
    rmTree(top);
    return;
  }
  Engine::Engine* eng = engine.get();
  auto adaptorOwner = std::make_unique<VAdaptor>(cgfs, droot_base, *engine);
  VAdaptor& adaptor = *adaptorOwner;
  Json::Value ticks(Json::arrayValue);
  Json::Value ops(Json::arrayValue);
  Json::Value probes(Json::arrayValue);
  int tickNo = 0;
  std::vector<Json::Value> rows;
  std::vector<size_t> queued; // rows that reached the queue, in order
  Json::Value evs(Json::arrayValue);

  // before the tick: clock, tree delta, the tick's drop-in operations scheduled through the real DropInServiceAdaptor
  // (compileDropIn runs at scheduling time; what does not compile is not queued), the tick's script
  auto beginTick = [&](const Json::Value& t) {
    vh::advanceNs(t["gap"].asInt64());
    if (t.isMember("delta")) vh::applyDelta(cgfs, t["delta"]);
    rows.clear();
    queued.clear();
    int opNo = 0;
    for (const auto& op : t["ops"]) {
      Json::Value o(Json::arrayValue);
      o.append(tickNo);
      o.append(opNo++);
      std::string tag = op["tag"].asString();
      if (op["op"].asString() == "add") {
        Config2::IR::Root droot;
        for (const auto& r : op["rulesets"]) droot.rulesets.push_back(irRuleset(r));
        for (const auto& h : op["hooks"]) droot.prekill_hooks.push_back(irHook(h));
        if (adaptor.add(tag, droot)) {
          queued.push_back(rows.size());
        } else {
          o.append("compile-failed");
          o.append(-1); // not an engine operation: no statistic to report
        }
      } else {
        adaptor.remove(tag);
        queued.push_back(rows.size());
      }
      rows.push_back(o);
    }
    adaptor.results.clear();
    g_calls.clear();
    const Json::Value& calls = t["calls"];
    for (auto it = calls.begin(); it != calls.end(); ++it) {
      Call c;
      c.ret = (*it)[0].asInt();
      c.adv = (*it)[1].asInt64();
      c.pause = (*it)[2].asInt64();
      g_calls[std::stoi(it.key().asString())] = c;
    }
    evs = Json::Value(Json::arrayValue);
    g_events = &evs;
  };
  // after the tick: results of the operations (reported by updateDropIns through the adaptor's callbacks), events, probes
  auto endTick = [&]() {
    g_events = nullptr;
    for (size_t i = 0; i < queued.size(); i++) {
      Json::Value& o = rows[queued[i]];
      if (i < adaptor.results.size()) {
        o.append(adaptor.results[i].first);
        o.append((Json::Int64)adaptor.results[i].second);
      } else {
        o.append("lost");
        o.append(-1);
      }
    }
    for (auto& o : rows) ops.append(o);
    ticks.append(evs);
    OomdContext pctx;
    Json::Value pr(Json::arrayValue);
    for (const auto& p : sc["probes"]) {
      Json::Value asked(Json::arrayValue);
      g_asked = &asked;
      g_fired = -1;
      auto cg = CgroupContext::make(pctx, CgroupPath(cgfs, p.asString()));
      Json::Value one(Json::arrayValue);
      one.append(p.asString());
      if (cg) {
        auto inv = eng->firePrekillHook(*cg, pctx);
        one.append(inv.has_value() ? g_fired : -1);
      } else {
        one.append(-2);
      }
      g_asked = nullptr;
      one.append(asked);
      pr.append(one);
    }
    probes.append(pr);
    tickNo++;
  };

  if (sc.get("main_loop", false).asBool()) {
    Json::ArrayIndex next = 0;
    g_ml_end = endTick;
    g_ml_begin = [&]() {
      if (next >= tickList.size()) return false;
      beginTick(tickList[next++]);
      return true;
    };
    g_ml_on = true;
    g_ml_started = false;
    {
      auto ir = std::make_unique<Config2::IR::Root>(root);
      ::Oomd::Oomd oomd(std::move(ir), std::move(engine), 5, cgfs, "");
      oomdDropIn(oomd) = std::move(adaptorOwner);
      sigset_t mask;
      sigemptyset(&mask);
      oomd.run(&mask);
      g_ml_on = false;
      out["ticks"] = ticks;
      out["ops"] = ops;
      out["probes"] = probes;
      out["final_stat"] = (Json::Int64)statOf(CoreStats::kNumDropInAdds);
      out["fired_stat"] = (Json::Int64)statOf(CoreStats::kNumDropInFired);
      out["main_loop"] = true;
    }   // ~Oomd: adaptor, engine
    out["leaked_instances"] = g_live_instances;
    rmTree(top);
    return;
  }
  for (const auto& t : tickList) {
    beginTick(t);
    adaptor.updateDropIns();
    OomdContext ctx;
    engine->prerun(ctx);
    engine->runOnce(ctx);
    endTick();
  }
  out["ticks"] = ticks;
  out["ops"] = ops;
  out["probes"] = probes;
  out["final_stat"] = (Json::Int64)statOf(CoreStats::kNumDropInAdds);
  out["fired_stat"] = (Json::Int64)statOf(CoreStats::kNumDropInFired);
  adaptorOwner.reset();
  engine.reset();
  out["leaked_instances"] = g_live_instances;
  rmTree(top);
}

void runScenario(const Json::Value& sc, Json::Value& out) {
  runHistory(sc, sc["ticks"], out);
  // the same history without any operation on one tag, on a fresh engine (C13 reversibility)
  if (sc.isMember("twin_ticks") && out.get("outcome", "ok").asString() == "ok") {
    Json::Value twin(Json::objectValue);
    runHistory(sc, sc["twin_ticks"], twin);
    out["twin"] = twin;
  }
}

} // namespace

extern "C" {
// Oomd::updateContext (main_loop mode) parses /proc/swaps and insists on its own idea of the format; what the host's file looks
// like is none of the scenario's business: it reads as empty here (no swap)
FILE* fopen64(const char* path, const char* mode) {
  using fn = FILE* (*)(const char*, const char*);
  static fn real = (fn)dlsym(RTLD_NEXT, "fopen64");
  if (path && strcmp(path, "/proc/swaps") == 0) return real("/dev/null", mode);
  return real(path, mode);
}
FILE* fopen(const char* path, const char* mode) { return fopen64(path, mode); }

int pthread_kill(pthread_t, int) { return 0; }

int sigtimedwait(const sigset_t*, siginfo_t*, const struct timespec*) {
  if (!g_ml_on) { errno = EAGAIN; return -1; }
  if (g_ml_started) g_ml_end();
  g_ml_started = true;
  if (!g_ml_begin()) return SIGTERM;
  errno = EAGAIN;
  return -1;
}
}

int main() {
  std::string sock = vh::scratchRoot() + "/stats-" + std::to_string(getpid()) + ".sock";
  vh::mkdirs(vh::scratchRoot());
  vh::g_vclock_on = false;
  Stats::init(sock);
  vh::g_vclock_on = true;
  vh::lineLoop(runScenario);
  rmTree(vh::scratchRoot() + "/dropin-" + std::to_string(getpid()) + "-0");
  ::unlink(sock.c_str());
  vh::finish(0);
}

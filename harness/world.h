// Materialises a scenario's cgroup tree as ordinary directories / files under a scratch directory.
// JSON node: {"name": "a", "files": {"memory.current": "123\n", ...}, "xattrs": {"trusted.oomd_prefer": "1"},
//             "children": [ ... ]}.  The root node's name is ignored.  A file value of null means "absent".
// Not kernfs: no d_type quirks, no inode recycling - harnesses inject those where a property needs them.
#pragma once
#include <sys/stat.h>
#include <sys/xattr.h>
#include <string>
#include "common.h"

namespace vh {

inline void materialize(const std::string& dir, const Json::Value& node) {
  mkdirs(dir);
  const Json::Value& files = node["files"];
  for (auto it = files.begin(); it != files.end(); ++it) {
    if (it->isNull()) {
      ::unlink((dir + "/" + it.key().asString()).c_str());
      continue;
    }
    writeFile(dir + "/" + it.key().asString(), it->asString());
  }
  const Json::Value& xs = node["xattrs"];
  for (auto it = xs.begin(); it != xs.end(); ++it) {
    std::string v = it->asString();
    ::setxattr(dir.c_str(), it.key().asString().c_str(), v.data(), v.size(), 0);
  }
  for (const auto& ch : node["children"]) {
    materialize(dir + "/" + ch["name"].asString(), ch);
  }
}

// Applies a per-tick delta: {"rm": ["a/b", ...], "mk": [ {"path": "a/b", "node": {...}} ],
//                           "write": {"a/b/memory.current": "5\n", "a/x": null}}
inline void applyDelta(const std::string& root, const Json::Value& d) {
  for (const auto& p : d["rm"]) rmrf(root + "/" + p.asString());
  for (const auto& m : d["mk"]) materialize(root + "/" + m["path"].asString(), m["node"]);
  const Json::Value& w = d["write"];
  for (auto it = w.begin(); it != w.end(); ++it) {
    std::string p = root + "/" + it.key().asString();
    if (it->isNull()) ::unlink(p.c_str()); else writeFile(p, it->asString());
  }
}

} // namespace vh

// Engine h_path (C16): runs the real CgroupPath / Util::split / Fs::glob on generated inputs.
#include "common.h"

#include <fcntl.h>
#include <sys/socket.h>
#include <sys/stat.h>
#include <sys/sysmacros.h>
#include <sys/un.h>
#include <unistd.h>

#include <algorithm>

#include "oomd/include/CgroupPath.h"
#include "oomd/util/Fs.h"
#include "oomd/util/Util.h"

using namespace Oomd;

static Json::Value strs(const std::vector<std::string>& v) {
  Json::Value a(Json::arrayValue);
  for (auto& s : v) a.append(s);
  return a;
}

// a path obtained through getParent / getChild must be indistinguishable from the one constructed from its own
// (fs root, relative path): same absolute path, same parts, equal, same hash
static bool canonical(const CgroupPath& q) {
  CgroupPath fresh(q.cgroupFs(), q.relativePath());
  return fresh.absolutePath() == q.absolutePath() && fresh.relativePath() == q.relativePath() &&
      fresh.relativePathParts() == q.relativePathParts() && fresh.cgroupFs() == q.cgroupFs() && fresh == q &&
      !(fresh != q) && std::hash<CgroupPath>()(fresh) == std::hash<CgroupPath>()(q) && fresh.isRoot() == q.isRoot();
}

static void doPath(const Json::Value& sc, Json::Value& out) {
  CgroupPath p(sc["fs"].asString(), sc["s"].asString());
  out["parts"] = strs(p.relativePathParts());
  out["abs"] = p.absolutePath();
  out["rel"] = p.relativePath();
  out["fs"] = p.cgroupFs();
  out["root"] = p.isRoot();
  try {
    CgroupPath par = p.getParent();
    out["parent"] = par.relativePath();
    out["parent_abs"] = par.absolutePath();
    out["parent_canon"] = canonical(par);
  } catch (const std::invalid_argument&) {
    out["parent"] = Json::nullValue;
  }
  CgroupPath ch = p.getChild(sc["child"].asString());
  out["child_canon"] = canonical(ch);
  out["child_rel"] = ch.relativePath();
  out["child_parts"] = strs(ch.relativePathParts());
  out["child_abs"] = ch.absolutePath();
  // re-parse the relative path under the same fs root
  CgroupPath again(sc["fs"].asString(), p.relativePath());
  out["reparse_eq"] = (again == p) && again.relativePathParts() == p.relativePathParts() &&
      again.cgroupFs() == p.cgroupFs();
  // as many parents as the child string has components
  size_t n = ch.relativePathParts().size() - p.relativePathParts().size();
  CgroupPath back = ch;
  bool threw = false;
  for (size_t i = 0; i < n; i++) {
    try {
      back = back.getParent();
    } catch (...) {
      threw = true;
    }
  }
  if (threw) {
    out["child_back"] = Json::nullValue;
  } else {
    out["child_back"] = back.relativePath();
    out["child_back_abs"] = back.absolutePath();
    out["child_back_canon"] = canonical(back) && back == p && std::hash<CgroupPath>()(back) == std::hash<CgroupPath>()(p);
  }
}

static void doPair(const Json::Value& sc, Json::Value& out) {
  CgroupPath a(sc["fsa"].asString(), sc["a"].asString());
  CgroupPath b(sc["fsb"].asString(), sc["b"].asString());
  out["eq"] = (a == b);
  out["ne"] = (a != b);
  out["hash_eq"] = std::hash<CgroupPath>()(a) == std::hash<CgroupPath>()(b);
  out["abs_a"] = a.absolutePath();
  out["abs_b"] = b.absolutePath();
  out["parts_a"] = strs(a.relativePathParts());
  out["parts_b"] = strs(b.relativePathParts());
  out["prefix"] = a.hasDescendantWithPrefixMatching(b);
}

// a non-directory of another file type than "regular": unix socket (st_mode shares the S_IFDIR bit), fifo, block device when
// mknod is permitted; falls back to a regular file
static void mkSpecial(const std::string& path, const std::string& kind) {
  size_t sl = path.rfind('/');
  std::string dir = path.substr(0, sl), base = path.substr(sl + 1);
  bool ok = false;
  if (kind == "fifo") {
    ok = ::mkfifo(path.c_str(), 0644) == 0;
  } else if (kind == "blk") {
    ok = ::mknod(path.c_str(), S_IFBLK | 0600, makedev(7, 200)) == 0;
    if (!ok) ok = false;
  }
  if (kind == "sock" || (kind == "blk" && !ok)) {
    int cwd = ::open(".", O_RDONLY | O_DIRECTORY);
    if (cwd >= 0 && ::chdir(dir.c_str()) == 0 && base.size() < 100) {
      int s = ::socket(AF_UNIX, SOCK_STREAM, 0);
      struct sockaddr_un a;
      memset(&a, 0, sizeof(a));
      a.sun_family = AF_UNIX;
      strcpy(a.sun_path, base.c_str());
      ok = s >= 0 && ::bind(s, (struct sockaddr*)&a, sizeof(a)) == 0;
      if (s >= 0) ::close(s);
      if (::fchdir(cwd) != 0) abort();
    }
    if (cwd >= 0) ::close(cwd);
  }
  if (!ok) vh::writeFile(path, "x");
}

static void doResolve(const Json::Value& sc, Json::Value& out) {
  std::string top = vh::freshDir("path");
  for (auto& d : sc["dirs"]) vh::mkdirs(top + "/" + d.asString());
  const Json::Value& fk = sc["fkinds"];
  for (auto& f : sc["files"]) {
    std::string k = fk.isObject() ? fk.get(f.asString(), "reg").asString() : "reg";
    if (k == "reg") vh::writeFile(top + "/" + f.asString(), "x"); else mkSpecial(top + "/" + f.asString(), k);
  }
  std::string fs = top + "/" + sc["fsAt"].asString();
  if (sc.get("fs_trailing_slash", false).asBool()) fs += "/";
  CgroupPath pat(fs, sc["pattern"].asString());
  auto res = pat.resolveWildcard();
  std::vector<std::string> rel;
  bool fs_ok = true;
  for (auto& r : res) {
    rel.push_back(r.relativePath());
    if (r.cgroupFs() != pat.cgroupFs()) fs_ok = false;
    if (!Fs::isDir(r.absolutePath())) fs_ok = false;
    // a resolved path is a path like any other: canonical, and a copy of it equals and hashes like it
    CgroupPath copy(r);
    CgroupPath assigned(pat);
    assigned = r;
    if (!canonical(r) || !(copy == r) || !(assigned == r) || assigned.relativePathParts() != r.relativePathParts() ||
        std::hash<CgroupPath>()(copy) != std::hash<CgroupPath>()(r))
      fs_ok = false;
  }
  std::sort(rel.begin(), rel.end());
  out["resolved"] = strs(rel);
  out["fs_ok"] = fs_ok;
  vh::rmrf(top);
}

int main() {
  return vh::lineLoop([](const Json::Value& sc, Json::Value& out) {
    std::string k = sc["kind"].asString();
    if (k == "path") doPath(sc, out);
    else if (k == "pair") doPair(sc, out);
    else if (k == "resolve") doResolve(sc, out);
    else out["outcome"] = "bad-kind";
  });
}

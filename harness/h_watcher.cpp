// Engine h_watcher (C14): the real FsDropInService (+ DropInServiceAdaptor + JsonConfigParser +
// ConfigCompiler + Engine) against a scratch drop-in directory with REAL inotify and REAL time, built
// with ThreadSanitizer.  Scripted detector / action plugins are registered in the real plugin registry
// (copied from h_engine.cpp and reduced); every drop-in file carries plugin instances with distinct
// `inst` ids (cid*100 + ruleset-index*10 + j), so one probe tick (Engine::prerun) shows exactly which
// file contents are active and in which order per base ruleset.
//
// Scenario:
//  {"id":..,
//   "contents": {"<cid>": {"text": "<file bytes>", ...labels used by the driver only...}},
//   "init": [["name", cid], ...]      files present before the service is created (null: directory absent)
//   "probe0": bool                    tick + probe right after construction (start-up order)
//   "yield_us": n                     (with the hooks only) pause up to n us between reading a file and scheduling it;
//   "yield_main_us"/"yield_watcher_us": the same bound per thread (default: yield_us)
//   "mode": "seq" | "par"             seq: ops and ticks in script order on the main thread;
//                                     par: file ops on a helper thread, main thread ticks continuously
//   "ops": [{"op":"write","name":n,"cid":c}            open(O_TRUNC|O_CREAT) + write + close
//           {"op":"write2","name":n,"cid":c,"at":k,"us":u}   same, in two write(2) calls
//           {"op":"movein","name":n,"cid":c}           written outside the directory, rename(2)d in
//           {"op":"rename","from":a,"to":b}            inside the directory
//           {"op":"moveout","name":n}  {"op":"delete","name":n}  {"op":"trunc","name":n}
//           {"op":"rmdir"}  (unlink everything, rmdir)  {"op":"mkdir"}  {"op":"mvdir"} (rename the directory away)
//           {"op":"mksub","name":n} {"op":"rmsub","name":n}
//           {"op":"bg","us":d,"do":{file op}}          seq mode: a helper thread performs the file op d us from now while
//                                                      the main thread goes on with the script (joined before quiescence)
//           {"op":"tick"} (updateDropIns + prerun + runOnce)  {"op":"wait"} (watcher idle)  {"op":"us","n":u}]}
// Trace:
//  {"outcome":"ok","hooks":bool,"probe0":[[inst..]..]|null,"probe":[[inst..]..],"probe_b":[[..]..],
//   "final_dir":[[name,cid],..]|null,"rc":[0/1 per op],"items":[["add",tag,cid,qlen]|["rem",tag,qlen]|
//   ["swap",n]|["fail",tag,cid]] (only with the OOMD_VERIF hooks of fixes/C14-hooks.patch), "ticks":n,
//   "idle_ok":bool, "fd_leak":n}
#include "common.h"

#include <dirent.h>
#include <fcntl.h>
#include <sys/file.h>
#include <sys/ioctl.h>
#include <sys/stat.h>
#include <sys/syscall.h>

#include <atomic>
#include <chrono>
#include <map>
#include <memory>
#include <mutex>
#include <set>
#include <thread>

#include "oomd/Log.h"
#include "oomd/OomdContext.h"
#include "oomd/PluginRegistry.h"
#include "oomd/Stats.h"
#include "oomd/config/ConfigCompiler.h"
#include "oomd/config/ConfigTypes.h"
#include "oomd/config/JsonConfigParser.h"
#include "oomd/dropin/FsDropInService.h"
#include "oomd/engine/BasePlugin.h"
#include "oomd/engine/Engine.h"

using namespace Oomd;

namespace {

// ---------------------------------------------------------------------------------------------
// scripted plugins (prerun log only; run() returns CONTINUE so that the whole chain executes)
// ---------------------------------------------------------------------------------------------
std::mutex g_ev_mu;
std::vector<std::pair<char, int>>* g_events = nullptr; // main thread, probe ticks only

class Scripted : public Engine::BasePlugin {
 public:
  int init(const Engine::PluginArgs& args, const PluginConstructionContext&) override {
    auto it = args.find("inst");
    if (it == args.end()) return 1;
    inst_ = atoi(it->second.c_str());
    if (args.count("fail_init")) return 1;
    return 0;
  }
  void prerun(OomdContext&) override {
    std::lock_guard<std::mutex> l(g_ev_mu);
    if (g_events) g_events->emplace_back(getName() == "vaction" ? 'a' : 'd', inst_);
  }
  Engine::PluginRet run(OomdContext&) override { return Engine::PluginRet::CONTINUE; }
  static Scripted* create() { return new Scripted(); }

 private:
  int inst_{-1};
};

bool reg1 = getPluginRegistry().add("vdetector", Scripted::create);
bool reg2 = getPluginRegistry().add("vaction", Scripted::create);

constexpr auto kBase = R"JSON({
  "rulesets": [
    {"name": "r0",
     "drop-in": {"detectors": true, "actions": true, "disable-on-drop-in": true},
     "detectors": [["g0", {"name": "vdetector", "args": {"inst": "1"}}]],
     "actions": [{"name": "vaction", "args": {"inst": "2"}}]},
    {"name": "r1",
     "drop-in": {"detectors": false, "actions": true, "disable-on-drop-in": false},
     "detectors": [["g1", {"name": "vdetector", "args": {"inst": "3"}}]],
     "actions": [{"name": "vaction", "args": {"inst": "4"}}]}
  ]
})JSON";

// ---------------------------------------------------------------------------------------------
// optional trace hooks (fixes/C14-hooks.patch): called inside the adaptor's critical sections
// ---------------------------------------------------------------------------------------------
std::mutex g_tr_mu;
Json::Value g_items(Json::arrayValue);
std::atomic<bool> g_hooks_seen{false};

int cidOfIR(const Config2::IR::Root* r) {
  if (!r) return -1;
  auto look = [](const Engine::PluginArgs& a) {
    auto it = a.find("inst");
    return it == a.end() ? -1 : atoi(it->second.c_str()) / 100;
  };
  for (const auto& rs : r->rulesets) {
    for (const auto& dg : rs.dgs)
      for (const auto& d : dg.detectors) {
        int c = look(d.args);
        if (c > 0) return c;
      }
    for (const auto& a : rs.acts) {
      int c = look(a.args);
      if (c > 0) return c;
    }
  }
  return 0; // a unit without plugins of ours: "empty" content
}

} // namespace

extern "C" void oomd_verif_dropin_trace(const char* what, const char* tag, const void* ir, unsigned long n) {
  g_hooks_seen = true;
  std::lock_guard<std::mutex> l(g_tr_mu);
  Json::Value e(Json::arrayValue);
  std::string w(what);
  e.append(w);
  if (w == "add") {
    e.append(tag);
    e.append(cidOfIR(static_cast<const Config2::IR::Root*>(ir)));
    e.append((Json::UInt64)n);
  } else if (w == "rem") {
    e.append(tag);
    e.append((Json::UInt64)n);
  } else if (w == "swap") {
    e.append((Json::UInt64)n);
  } else {
    e.append(tag ? tag : "");
    e.append(cidOfIR(static_cast<const Config2::IR::Root*>(ir)));
  }
  g_items.append(e);
}

// schedule widening (fixes/C14-hooks.patch): a pseudo-random pause of up to g_yield_us between reading a
// drop-in file and scheduling it, on whichever thread does the load
std::atomic<unsigned> g_yield_main_us{0}, g_yield_watcher_us{0};
pthread_t g_main_thread;
extern "C" void oomd_verif_dropin_yield(const char*) {
  g_hooks_seen = true;
  unsigned m = pthread_equal(pthread_self(), g_main_thread) ? g_yield_main_us.load() : g_yield_watcher_us.load();
  if (!m) return;
  thread_local unsigned x = 2463534242u ^ (unsigned)(uintptr_t)&x;
  x ^= x << 13;
  x ^= x >> 17;
  x ^= x << 5;
  std::this_thread::sleep_for(std::chrono::microseconds(x % m));
}

namespace {

// ---------------------------------------------------------------------------------------------
// watchdog: a scenario that makes no progress for 30 s is reported as a deadlock
// ---------------------------------------------------------------------------------------------
std::atomic<long> g_beat{0};
std::atomic<bool> g_in_scenario{false};
std::string g_cur_id;

void watchdog() {
  long last = -1;
  int stale = 0;
  for (;;) {
    std::this_thread::sleep_for(std::chrono::milliseconds(500));
    if (!g_in_scenario) {
      stale = 0;
      continue;
    }
    long b = g_beat.load();
    if (b == last) {
      if (++stale >= 60) {
        Json::Value out(Json::objectValue);
        out["id"] = g_cur_id;
        out["outcome"] = "deadlock";
        std::string s = vh::compact(out) + "\n";
        if (::write(1, s.data(), s.size())) {}
        _exit(3);
      }
    } else {
      stale = 0;
      last = b;
    }
  }
}

// ---------------------------------------------------------------------------------------------
// quiescence of the watcher thread, observed from outside: its inotify queue is empty and the
// thread sits in epoll_wait
// ---------------------------------------------------------------------------------------------
std::set<int> listTasks() {
  std::set<int> r;
  DIR* d = opendir("/proc/self/task");
  if (!d) return r;
  while (auto* e = readdir(d)) {
    if (e->d_name[0] != '.') r.insert(atoi(e->d_name));
  }
  closedir(d);
  return r;
}

int inotifyPending() { // bytes unread over all inotify fds of this process; -1: cannot tell
  int total = 0;
  DIR* d = opendir("/proc/self/fd");
  if (!d) return -1;
  while (auto* e = readdir(d)) {
    if (e->d_name[0] == '.') continue;
    char buf[256];
    std::string p = std::string("/proc/self/fd/") + e->d_name;
    ssize_t n = readlink(p.c_str(), buf, sizeof(buf) - 1);
    if (n <= 0) continue;
    buf[n] = 0;
    if (strstr(buf, "inotify")) {
      int avail = 0;
      if (ioctl(atoi(e->d_name), FIONREAD, &avail) == 0) total += avail;
    }
  }
  closedir(d);
  return total;
}

int countInotifyFds() {
  int c = 0;
  DIR* d = opendir("/proc/self/fd");
  if (!d) return -1;
  while (auto* e = readdir(d)) {
    if (e->d_name[0] == '.') continue;
    char buf[256];
    std::string p = std::string("/proc/self/fd/") + e->d_name;
    ssize_t n = readlink(p.c_str(), buf, sizeof(buf) - 1);
    if (n <= 0) continue;
    buf[n] = 0;
    if (strstr(buf, "inotify")) c++;
  }
  closedir(d);
  return c;
}

int inEpollWait(int tid) { // 1 yes, 0 no, -1 cannot tell
  std::string p = "/proc/self/task/" + std::to_string(tid) + "/syscall";
  FILE* f = fopen(p.c_str(), "r");
  if (!f) return -1;
  char buf[128] = {0};
  if (!fgets(buf, sizeof(buf), f)) {
    fclose(f);
    return -1;
  }
  fclose(f);
  if (!isdigit((unsigned char)buf[0])) return 0; // "running" or "-1 ..."
  long nr = atol(buf);
  return (nr == SYS_epoll_wait || nr == SYS_epoll_pwait || nr == 441) ? 1 : 0;
}

bool g_idle_reliable = true;

// true when the watcher was seen idle (twice in a row); false on timeout
bool waitIdle(int tid, int max_ms) {
  auto t0 = std::chrono::steady_clock::now();
  int consecutive = 0;
  for (;;) {
    g_beat++;
    int pend = inotifyPending();
    int ep = tid > 0 ? inEpollWait(tid) : -1;
    if (pend < 0 || ep < 0) {
      g_idle_reliable = false;
      std::this_thread::sleep_for(std::chrono::milliseconds(40));
      return true;
    }
    if (pend == 0 && ep == 1) {
      if (++consecutive >= 2) return true;
    } else {
      consecutive = 0;
    }
    if (std::chrono::steady_clock::now() - t0 > std::chrono::milliseconds(max_ms)) return false;
    std::this_thread::sleep_for(std::chrono::microseconds(150));
  }
}

// ---------------------------------------------------------------------------------------------
// file operations
// ---------------------------------------------------------------------------------------------
bool writeAll(int fd, const char* p, size_t n) {
  while (n) {
    ssize_t w = ::write(fd, p, n);
    if (w <= 0) return false;
    p += w;
    n -= (size_t)w;
  }
  return true;
}

bool writeFileAt(const std::string& path, const std::string& text, long split, long us) {
  int fd = ::open(path.c_str(), O_WRONLY | O_CREAT | O_TRUNC | O_CLOEXEC, 0644);
  if (fd < 0) return false;
  bool ok = true;
  if (split > 0 && (size_t)split < text.size()) {
    ok = writeAll(fd, text.data(), (size_t)split);
    if (us > 0) std::this_thread::sleep_for(std::chrono::microseconds(us));
    ok = ok && writeAll(fd, text.data() + split, text.size() - (size_t)split);
  } else if (!text.empty()) {
    ok = writeAll(fd, text.data(), text.size());
  }
  ::close(fd);
  return ok;
}

std::vector<std::string> listDir(const std::string& dir, bool* exists) {
  std::vector<std::string> r;
  DIR* d = opendir(dir.c_str());
  *exists = d != nullptr;
  if (!d) return r;
  while (auto* e = readdir(d)) {
    std::string n = e->d_name;
    if (n == "." || n == "..") continue;
    r.push_back(n);
  }
  closedir(d);
  std::sort(r.begin(), r.end());
  return r;
}

bool removeDirTree(const std::string& dir) {
  bool ex;
  for (const auto& n : listDir(dir, &ex)) {
    std::string p = dir + "/" + n;
    if (::unlink(p.c_str()) != 0) ::rmdir(p.c_str());
  }
  return ex && ::rmdir(dir.c_str()) == 0;
}

std::string readWhole(const std::string& p, bool* ok) {
  std::ifstream f(p, std::ios::binary);
  *ok = f.is_open();
  std::stringstream ss;
  ss << f.rdbuf();
  return ss.str();
}

struct Ctx {
  std::string dir, stage;
  std::map<int, std::string> text;
  std::atomic<int> stageNo{0};
};

bool doFileOp(Ctx& c, const Json::Value& op) {
  std::string k = op["op"].asString();
  auto path = [&](const char* key) { return c.dir + "/" + op[key].asString(); };
  if (k == "write") return writeFileAt(path("name"), c.text[op["cid"].asInt()], 0, 0);
  if (k == "write2") return writeFileAt(path("name"), c.text[op["cid"].asInt()], op["at"].asInt64(), op["us"].asInt64());
  if (k == "movein") {
    std::string tmp = c.stage + "/s" + std::to_string(c.stageNo++);
    if (!writeFileAt(tmp, c.text[op["cid"].asInt()], 0, 0)) return false;
    return ::rename(tmp.c_str(), path("name").c_str()) == 0;
  }
  if (k == "rename") return ::rename(path("from").c_str(), path("to").c_str()) == 0;
  if (k == "moveout") {
    std::string tmp = c.stage + "/o" + std::to_string(c.stageNo++);
    return ::rename(path("name").c_str(), tmp.c_str()) == 0;
  }
  if (k == "delete") return ::unlink(path("name").c_str()) == 0;
  if (k == "trunc") return ::truncate(path("name").c_str(), 0) == 0;
  if (k == "rmdir") return removeDirTree(c.dir);
  if (k == "mvdir") {
    // the whole directory is renamed away, files and all (IN_MOVE_SELF, no event per file); the path is free again
    static std::atomic<int> n{0};
    return ::rename(c.dir.c_str(), (c.dir + ".moved-" + std::to_string(n.fetch_add(1))).c_str()) == 0;
  }
  if (k == "mkdir") return ::mkdir(c.dir.c_str(), 0755) == 0;
  if (k == "mksub") return ::mkdir(path("name").c_str(), 0755) == 0;
  if (k == "rmsub") return ::rmdir(path("name").c_str()) == 0;
  if (k == "us") {
    std::this_thread::sleep_for(std::chrono::microseconds(op["n"].asInt64()));
    return true;
  }
  return false;
}

Json::Value segments(const std::vector<std::pair<char, int>>& ev) {
  Json::Value segs(Json::arrayValue);
  Json::Value cur(Json::arrayValue);
  char prev = 'd';
  for (const auto& [role, inst] : ev) {
    if (role == 'd' && prev == 'a' && !cur.empty()) {
      segs.append(cur);
      cur = Json::Value(Json::arrayValue);
    }
    cur.append(inst);
    prev = role;
  }
  if (!cur.empty()) segs.append(cur);
  return segs;
}

void runScenario(const Json::Value& sc, Json::Value& out) {
  g_cur_id = sc["id"].asString();
  g_beat++;
  g_in_scenario = true;
  {
    std::lock_guard<std::mutex> l(g_tr_mu);
    g_items = Json::Value(Json::arrayValue);
  }
  g_idle_reliable = true;
  g_yield_main_us = sc.get("yield_main_us", sc.get("yield_us", 0)).asUInt();
  g_yield_watcher_us = sc.get("yield_watcher_us", sc.get("yield_us", 0)).asUInt();
  Ctx c;
  std::string top = vh::freshDir("watcher");
  vh::rmrf(top); // pids are reused (pid_max 32768): a crashed earlier process may have left this very path behind
  vh::mkdirs(top);
  c.dir = top + "/dropin";
  c.stage = top + "/stage";
  vh::mkdirs(c.stage);
  std::string cgfs = top + "/cg";
  vh::mkdirs(cgfs);
  const Json::Value& contents = sc["contents"];
  for (auto it = contents.begin(); it != contents.end(); ++it) {
    c.text[atoi(it.key().asString().c_str())] = (*it)["text"].asString();
  }
  if (!sc["init"].isNull()) {
    vh::mkdirs(c.dir);
    for (const auto& f : sc["init"]) {
      writeFileAt(c.dir + "/" + f[0].asString(), c.text[f[1].asInt()], 0, 0);
    }
  }
  int inotifyBefore = countInotifyFds();

  // the base configuration goes through the real parser and compiler, as in Main.cpp
  Config2::JsonConfigParser parser;
  auto root = parser.parse(kBase);
  PluginConstructionContext pcc(cgfs);
  auto engine = Config2::compile(*root, pcc);
  if (!engine) {
    out["outcome"] = "base-compile-failed";
    g_in_scenario = false;
    vh::rmrf(top);
    return;
  }

  OomdContext ctx;
  int ticks = 0;
  auto before = listTasks();
  // "queue_limit": n - the service's inotify instance gets a queue of n events (fs.inotify.max_queued_events is read when an
  // instance is created), so that a short burst of file operations overflows it and the kernel delivers IN_Q_OVERFLOW.  The
  // sysctl is changed only while the instance is created; harness processes serialise on a lock file (shared for ordinary
  // creations) so that no other scenario gets the small queue.  Needs a writable /proc/sys; reported in `queue_limit_ok`.
  int qlimit = sc.get("queue_limit", 0).asInt();
  std::string lockPath = std::string(getenv("VERIF_SCRATCH") ? getenv("VERIF_SCRATCH") : "/var/tmp/oomd-verif") + "/inotify-sysctl.lock";
  int lockFd = ::open(lockPath.c_str(), O_RDWR | O_CREAT, 0644);
  if (lockFd >= 0) ::flock(lockFd, qlimit > 0 ? LOCK_EX : LOCK_SH);
  std::string savedLimit;
  bool limitOk = false;
  const char* kSysctl = "/proc/sys/fs/inotify/max_queued_events";
  if (qlimit > 0) {
    if (FILE* f = ::fopen(kSysctl, "r")) {
      char b[64] = {0};
      if (::fgets(b, sizeof(b), f)) savedLimit = b;
      ::fclose(f);
    }
    // a harness process that died between the two writes of an earlier run would have left the small value behind: never
    // take such a value for the system's own (the kernel default is 16384)
    if (!savedLimit.empty() && atol(savedLimit.c_str()) < 1024) savedLimit = "16384\n";
    if (!savedLimit.empty()) {
      if (FILE* f = ::fopen(kSysctl, "w")) {
        limitOk = ::fprintf(f, "%d\n", qlimit) > 0;
        limitOk = (::fclose(f) == 0) && limitOk;
      }
    }
    out["queue_limit_ok"] = limitOk;
  }
  // trailing '/' exercises the constructor's sanitising
  auto svc = FsDropInService::create(cgfs, *root, *engine, c.dir + (sc.get("slash", false).asBool() ? "/" : ""));
  if (limitOk) {
    if (FILE* f = ::fopen(kSysctl, "w")) {
      ::fputs(savedLimit.c_str(), f);
      ::fclose(f);
    }
  }
  if (lockFd >= 0) {
    ::flock(lockFd, LOCK_UN);
    ::close(lockFd);
  }
  if (!svc) {
    out["outcome"] = "create-failed";
    g_in_scenario = false;
    vh::rmrf(top);
    return;
  }
  int wtid = -1;
  for (int t : listTasks()) {
    if (!before.count(t)) wtid = t;
  }

  auto tick = [&]() {
    g_beat++;
    svc->updateDropIns();
    engine->prerun(ctx);
    engine->runOnce(ctx);
    ticks++;
  };
  auto probe = [&]() {
    std::vector<std::pair<char, int>> ev;
    g_beat++;
    svc->updateDropIns();
    {
      std::lock_guard<std::mutex> l(g_ev_mu);
      g_events = &ev;
    }
    engine->prerun(ctx);
    {
      std::lock_guard<std::mutex> l(g_ev_mu);
      g_events = nullptr;
    }
    engine->runOnce(ctx);
    ticks++;
    return segments(ev);
  };

  if (sc.get("probe0", false).asBool()) {
    out["probe0"] = probe();
  } else {
    out["probe0"] = Json::Value();
  }

  Json::Value rcs(Json::arrayValue);
  bool idleOk = true;
  const Json::Value& ops = sc["ops"];
  if (sc.get("mode", "seq").asString() == "par") {
    std::atomic<bool> done{false};
    std::vector<int> rc(ops.size(), 0);
    std::thread helper([&]() {
      for (Json::ArrayIndex i = 0; i < ops.size(); i++) {
        std::string k = ops[i]["op"].asString();
        if (k == "tick" || k == "wait") {
          std::this_thread::yield();
          rc[i] = 1;
          continue;
        }
        rc[i] = doFileOp(c, ops[i]) ? 1 : 0;
      }
      done = true;
    });
    while (!done) {
      tick();
      std::this_thread::sleep_for(std::chrono::microseconds(sc.get("tick_us", 100).asInt64()));
    }
    helper.join();
    for (int r : rc) rcs.append(r);
  } else {
    std::vector<std::thread> bg;
    std::vector<std::pair<Json::ArrayIndex, std::shared_ptr<std::atomic<int>>>> bgrc;
    for (const auto& op : ops) {
      std::string k = op["op"].asString();
      g_beat++;
      if (k == "tick") {
        tick();
        rcs.append(1);
      } else if (k == "bg") {
        auto res = std::make_shared<std::atomic<int>>(0);
        bgrc.emplace_back(rcs.size(), res);
        rcs.append(0);
        Json::Value inner = op["do"];
        long us = op["us"].asInt64();
        bg.emplace_back([&c, inner, us, res]() {
          if (us > 0) std::this_thread::sleep_for(std::chrono::microseconds(us));
          *res = doFileOp(c, inner) ? 1 : 0;
        });
      } else if (k == "wait") {
        bool ok = waitIdle(wtid, 3000);
        idleOk = idleOk && ok;
        rcs.append(ok ? 1 : 0);
      } else {
        rcs.append(doFileOp(c, op) ? 1 : 0);
      }
    }
    for (auto& t : bg) t.join();
    for (auto& [i, r] : bgrc) rcs[i] = r->load();
  }

  // the file system is quiet from here on: wait for the watcher, run a few ticks, probe
  for (int i = 0; i < 3; i++) {
    idleOk = waitIdle(wtid, 15000) && idleOk;
    tick();
  }
  idleOk = waitIdle(wtid, 15000) && idleOk;
  out["probe"] = probe();
  // once more after a pause: the converged state must not drift
  std::this_thread::sleep_for(std::chrono::milliseconds(sc.get("settle_ms", 15).asInt64()));
  idleOk = waitIdle(wtid, 15000) && idleOk;
  tick();
  out["probe_b"] = probe();

  bool exists = false;
  auto names = listDir(c.dir, &exists);
  if (exists) {
    Json::Value fd(Json::arrayValue);
    for (const auto& n : names) {
      struct stat st;
      std::string p = c.dir + "/" + n;
      if (::stat(p.c_str(), &st) != 0 || !S_ISREG(st.st_mode)) continue;
      bool ok;
      std::string txt = readWhole(p, &ok);
      int cid = txt.empty() ? -2 : -1; // -2: zero bytes (truncated), -1: bytes the scenario never wrote
      for (const auto& [id, t] : c.text) {
        if (t == txt) {
          cid = id;
          break;
        }
      }
      Json::Value e(Json::arrayValue);
      e.append(n);
      e.append(cid);
      fd.append(e);
    }
    out["final_dir"] = fd;
  } else {
    out["final_dir"] = Json::Value();
  }
  out["rc"] = rcs;
  out["ticks"] = ticks;
  out["idle_ok"] = idleOk;
  out["idle_reliable"] = g_idle_reliable;

  svc.reset(); // joins the watcher thread
  engine.reset();
  out["fd_leak"] = countInotifyFds() - inotifyBefore;
  {
    std::lock_guard<std::mutex> l(g_tr_mu);
    out["hooks"] = g_hooks_seen.load();
    out["items"] = g_items;
  }
  g_in_scenario = false;
  vh::rmrf(top);
}

} // namespace

int main() {
  g_main_thread = pthread_self();
  // production logging: asynchronous, through the Log singleton's io thread
  ::unsetenv("INLINE_LOGGING");
  vh::mkdirs(vh::scratchRoot());
  std::string base = vh::scratchRoot() + "/watcher-" + std::to_string(getpid());
  Log::init(base + ".kmsg");
  std::string sock = base + ".sock";
  Stats::init(sock);
  std::thread(watchdog).detach();
  vh::lineLoop(runScenario);
  ::unlink(sock.c_str());
  ::unlink((base + ".kmsg").c_str());
  fflush(stdout);
  _exit(0);
}

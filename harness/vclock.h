// Virtual CLOCK_MONOTONIC for single-threaded harnesses: include this header in exactly one
// translation unit of the harness executable.  std::chrono::steady_clock::now() inside the real oomd
// code then reads vh::g_now_ns.  Other clocks are passed through to libc.
// Do NOT use in threaded harnesses (condition-variable deadlines are evaluated by the kernel);
// end single-threaded harnesses with vh::finish() so static destructors do not wait on a frozen clock.
#pragma once
#include <dlfcn.h>
#include <time.h>
#include <unistd.h>
#include <cstdint>
#include <cstdio>
#include <iostream>

namespace vh {
inline int64_t g_now_ns = 1000LL * 1000000000LL;  // never 0: the code uses the epoch as "unset"
inline bool g_vclock_on = true;
inline void setNowNs(int64_t t) { g_now_ns = t; }
inline void advanceNs(int64_t d) { g_now_ns += d; }
[[noreturn]] inline void finish(int rc = 0) {
  std::cout.flush();
  fflush(nullptr);
  _exit(rc);
}
} // namespace vh

extern "C" int clock_gettime(clockid_t clk, struct timespec* ts) {
  using fn_t = int (*)(clockid_t, struct timespec*);
  static fn_t real = (fn_t)dlsym(RTLD_NEXT, "clock_gettime");
  if (clk == CLOCK_MONOTONIC && vh::g_vclock_on) {
    ts->tv_sec = vh::g_now_ns / 1000000000LL;
    ts->tv_nsec = vh::g_now_ns % 1000000000LL;
    return 0;
  }
  return real(clk, ts);
}

// Engine h_kill (C01, C03, C04, C17; C07 builds on it).
// Real kill plugins (and systemd_restart) created through the real plugin registry, run through
// BasePlugin::run(OomdContext&) on a scratch cgroup tree, observed at the libc boundary
// (kill_interpose.h).  One JSON scenario per line in, one JSON trace per line out.
//
// Scenario (see vlib/props/_kill.py for the generator):
//   cfg   {plugin, args{...}}                      plugin name + string arguments, as in a config file
//   ctx   {ruleset, group, deadline_s, silence, has_ruleset}   the ActionContext Ruleset::runOnceImpl would set
//   twin  bool                                      run the scenario twice on fresh worlds: dry=true, dry=false
//   kill / xfail / wfail / pidfd / mrelease / dbus / rm_at_kill   outcome scripts of the environment
//   hooks (optional, C07)                           see installHooks() below
//   ticks [ {advance_s, tree | delta+tree} ]        tick 0 materialises `tree`, later ticks apply `delta`;
//                                                   `tree` always names the cgroup ids of that tick
// Trace: runs[ {variant, ticks[ {listing, events[...], ret, kills_delta, restarts_delta, pause, outcome} ]} ]
#include <algorithm>
#include <chrono>
#include <cxxabi.h>
#include <dirent.h>
#include <functional>
#include <memory>
#include <optional>
#include <string>
#include <unordered_map>
#include <unordered_set>
#include <vector>

#include "common.h"
#include "world.h"
#include "kill_interpose.h"

// Ruleset keeps the pause deadline private; the harness has to read it to observe pause_actions().
#define private public
#include "oomd/engine/Ruleset.h"
#undef private

#include "oomd/Log.h"
#include "oomd/OomdContext.h"
#include "oomd/PluginRegistry.h"
#include "oomd/Stats.h"
#include "oomd/engine/BasePlugin.h"
#include "oomd/engine/PrekillHook.h"
#include "oomd/include/CoreStats.h"
#include "oomd/util/Util.h"

using namespace Oomd;

namespace {

std::string g_top; // per-process scratch directory (kmsg sink, stats socket)

void nodeFiles(const std::string& dir, const Json::Value& node) {
  // like vh::materialize for one node, plus cgroup.procs from "procs"
  vh::mkdirs(dir);
  const Json::Value& files = node["files"];
  for (auto it = files.begin(); it != files.end(); ++it) {
    if (it->isNull()) {
      ::unlink((dir + "/" + it.key().asString()).c_str());
    } else {
      vh::writeFile(dir + "/" + it.key().asString(), it->asString());
    }
  }
  const Json::Value& xs = node["xattrs"];
  for (auto it = xs.begin(); it != xs.end(); ++it) {
    std::string v = it->asString();
    ::setxattr(dir.c_str(), it.key().asString().c_str(), v.data(), v.size(), 0);
  }
  bool noProcs = files.isMember("cgroup.procs") && files["cgroup.procs"].isNull();
  if (!noProcs && node.isMember("procs") && !node["procs"].isNull()) {
    std::string c;
    for (auto& l : node["procs"]) c += l.asString() + "\n";
    vh::writeFile(dir + "/cgroup.procs", c);
  }
}

void materializeTree(const std::string& dir, const Json::Value& node) {
  nodeFiles(dir, node);
  for (const auto& ch : node["children"]) materializeTree(dir + "/" + ch["name"].asString(), ch);
}

// (re)build inode -> id, id -> path and the procs state from the tick's tree and the files on disk
void indexTree(const std::string& rel, const Json::Value& node, bool top) {
  std::string abs = vk::g_w.root + (rel.empty() ? "" : "/" + rel);
  struct stat st;
  if (!top && node.isMember("id") && ::stat(abs.c_str(), &st) == 0) {
    int id = node["id"].asInt();
    vk::g_w.ino2id[st.st_ino] = id;
    vk::g_w.id2path[id] = rel;
    std::ifstream f(abs + "/cgroup.procs");
    std::vector<std::string> lines;
    std::string l;
    if (f.is_open())
      while (std::getline(f, l)) lines.push_back(l);
    vk::g_w.procs[id] = lines;
  }
  for (const auto& ch : node["children"]) {
    indexTree(rel.empty() ? ch["name"].asString() : rel + "/" + ch["name"].asString(), ch, false);
  }
}

void applyDelta(const Json::Value& d) {
  const std::string& root = vk::g_w.root;
  for (const auto& p : d["rm"]) vh::rmrf(root + "/" + p.asString());
  for (const auto& m : d["mk"]) materializeTree(root + "/" + m["path"].asString(), m["node"]);
  const Json::Value& w = d["write"];
  for (auto it = w.begin(); it != w.end(); ++it) {
    std::string p = root + "/" + it.key().asString();
    if (it->isNull()) ::unlink(p.c_str()); else vh::writeFile(p, it->asString());
  }
  for (const auto& x : d["setx"]) {
    std::string v = x["val"].asString();
    ::setxattr((root + "/" + x["path"].asString()).c_str(), x["name"].asString().c_str(), v.data(), v.size(), 0);
  }
  for (const auto& x : d["rmx"]) {
    ::removexattr((root + "/" + x["path"].asString()).c_str(), x["name"].asString().c_str());
  }
  const Json::Value& pr = d["procs"];
  for (auto it = pr.begin(); it != pr.end(); ++it) {
    std::string c;
    for (auto& l : *it) c += l.asString() + "\n";
    vh::writeFile(root + "/" + it.key().asString() + "/cgroup.procs", c);
  }
}

// directory listing order as readdir() delivers it (the order of CgroupContext::children())
void listing(const std::string& rel, const Json::Value& node, bool top, Json::Value& out) {
  std::string abs = vk::g_w.root + (rel.empty() ? "" : "/" + rel);
  if (!top && node.isMember("id")) {
    Json::Value names(Json::arrayValue);
    if (DIR* d = ::opendir(abs.c_str())) {
      while (struct dirent* e = ::readdir(d)) {
        if (e->d_name[0] == '.') continue;
        if (e->d_type == DT_DIR) names.append(e->d_name);
      }
      ::closedir(d);
    }
    out[std::to_string(node["id"].asInt())] = names;
  }
  for (const auto& ch : node["children"]) {
    listing(rel.empty() ? ch["name"].asString() : rel + "/" + ch["name"].asString(), ch, false, out);
  }
}

std::string demangle(const char* n) {
  int st = 0;
  char* d = abi::__cxa_demangle(n, nullptr, nullptr, &st);
  std::string r = (st == 0 && d) ? d : n;
  free(d);
  return r;
}

const char* retName(Engine::PluginRet r) {
  switch (r) {
    case Engine::PluginRet::CONTINUE:
      return "CONTINUE";
    case Engine::PluginRet::STOP:
      return "STOP";
    case Engine::PluginRet::ASYNC_PAUSED:
      return "ASYNC_PAUSED";
  }
  return "?";
}

// ---- prekill hooks (extension point for C07) ------------------------------------------------------
// A scenario may carry "hooks": [ {"cgroup": "<patterns>", "finish_after": <polls>} ] ; the first hook whose
// patterns match the victim fires (list order = priority).  Every fire / didFinish / destroy is logged as an
// event.  C01/C03/C04/C17 scenarios carry no hooks; the handler is then not installed at all.
struct ScriptedInvocation : Engine::PrekillHookInvocation {
  int hook, cg, left;
  ScriptedInvocation(int h, int c, int l) : hook(h), cg(c), left(l) {}
  bool didFinish() override {
    bool fin = left <= 0;
    if (left > 0) left--;
    Json::Value e;
    e["ev"] = "hook_poll";
    e["hook"] = hook;
    e["cg"] = cg;
    e["finished"] = fin;
    vk::emit(std::move(e));
    return fin;
  }
  ~ScriptedInvocation() override {
    Json::Value e;
    e["ev"] = "hook_destroy";
    e["hook"] = hook;
    e["cg"] = cg;
    vk::emit(std::move(e));
  }
};

struct ScriptedHook : Engine::PrekillHook {
  int index{0};
  int finishAfter{0};
  std::unique_ptr<Engine::PrekillHookInvocation> fire(const CgroupContext& c, const ActionContext&) override {
    int cg = vk::cgOfFd(c.fd().fd());
    Json::Value e;
    e["ev"] = "hook_fire";
    e["hook"] = index;
    e["cg"] = cg;
    vk::emit(std::move(e));
    return std::make_unique<ScriptedInvocation>(index, cg, finishAfter);
  }
  static ScriptedHook* create() {
    return new ScriptedHook();
  }
};
bool scripted_hook_registered = getPrekillHookRegistry().add("verif_scripted_hook", ScriptedHook::create);

std::vector<std::unique_ptr<Engine::PrekillHook>> g_hooks;

void installHooks(OomdContext& ctx, const Json::Value& sc, const PluginConstructionContext& pcc) {
  g_hooks.clear();
  if (!sc.isMember("hooks")) return;
  int i = 0;
  for (const auto& h : sc["hooks"]) {
    std::unique_ptr<Engine::PrekillHook> hook(getPrekillHookRegistry().create("verif_scripted_hook"));
    hook->setName("verif_scripted_hook");
    Engine::PluginArgs args;
    args["cgroup"] = h["cgroup"].asString();
    if (hook->initPlugin(args, pcc) != 0) continue;
    auto* sh = static_cast<ScriptedHook*>(hook.get());
    sh->index = i++;
    sh->finishAfter = h.get("finish_after", 0).asInt();
    g_hooks.push_back(std::move(hook));
  }
  ctx.setPrekillHooksHandler(
      [](const CgroupContext& c) -> std::optional<std::unique_ptr<Engine::PrekillHookInvocation>> {
        for (auto& h : g_hooks) {
          if (h->canRunOnCgroup(c)) return h->fire(c, c.oomd_ctx().getActionContext());
        }
        return std::nullopt;
      });
}

// ---- one run of a scenario (one variant) ----------------------------------------------------------
void runVariant(const Json::Value& sc, const std::string& variant, Json::Value& run) {
  run["variant"] = variant;
  Json::Value ticksOut(Json::arrayValue);

  vk::g_w = vk::World();
  vk::g_w.root = vh::freshDir("kill");
  vk::g_wfds.clear();
  vk::g_pidfds.clear();
  const Json::Value& ks = sc["kill"];
  for (auto it = ks.begin(); it != ks.end(); ++it) {
    std::vector<std::string> v;
    for (auto& o : *it) v.push_back(o.asString());
    vk::g_w.killScript[it.key().asString()] = v;
  }
  for (auto& x : sc["xfail"]) vk::g_w.xfail.push_back(x.asString());
  for (auto& x : sc["wfail"]) vk::g_w.wfail.push_back(x.asString());
  vk::g_w.pidfdMode = sc.get("pidfd", "ok").asString();
  vk::g_w.mreleaseMode = sc.get("mrelease", "ok").asString();
  vk::g_w.dbusMode = sc.get("dbus", "ok").asString();
  if (sc.isMember("rm_at_kill")) {
    vk::g_w.rmAtKill = sc["rm_at_kill"]["n"].asInt();
    for (auto& p : sc["rm_at_kill"]["paths"]) vk::g_w.rmPaths.push_back(p.asString());
  }

  for (auto& x : sc["empty_at_attempt"]) vk::g_w.emptyAtAttempt.insert(x.asInt());
  vk::g_w.recordEventsReads = true;

  if (sc.isMember("swap_at_kill")) {
    // mid-run replacement of a cgroup: the directory oomd holds an fd of moves out of the tree (the fd keeps naming it), a
    // stranger with the same child names and other pids sits at its path from then on
    const Json::Value& sw = sc["swap_at_kill"];
    for (auto& p : sw["pids"]) vk::g_w.swapPids.insert(p.asString());
    std::string rel = sw["path"].asString();
    Json::Value stranger = sw["stranger"];
    vk::g_w.swapFn = [rel, stranger] {
      const std::string& root = vk::g_w.root;
      std::string away = root + ".away";
      if (::rename((root + "/" + rel).c_str(), away.c_str()) != 0) return;
      std::string awayRel = "../" + away.substr(away.rfind('/') + 1);
      for (auto& kv : vk::g_w.id2path)
        if (kv.second == rel || kv.second.compare(0, rel.size() + 1, rel + "/") == 0) kv.second = awayRel + kv.second.substr(rel.size());
      materializeTree(root + "/" + rel, stranger);
      std::function<void(const std::string&, const Json::Value&)> idx = [&](const std::string& dir, const Json::Value& n) {
        struct stat st;
        if (n.isMember("id") && ::stat(dir.c_str(), &st) == 0) vk::g_w.ino2id[st.st_ino] = n["id"].asInt();
        for (const auto& ch : n["children"]) idx(dir + "/" + ch["name"].asString(), ch);
      };
      idx(root + "/" + rel, stranger);
    };
  }

  // the plugin, as ConfigCompiler::compilePlugin makes it
  PluginConstructionContext pcc(vk::g_w.root);
  std::string pname = sc["cfg"]["plugin"].asString();
  Engine::PluginArgs args;
  const Json::Value& ja = sc["cfg"]["args"];
  for (auto it = ja.begin(); it != ja.end(); ++it) args[it.key().asString()] = it->asString();
  if (variant == "dry") args["dry"] = "true";
  if (variant == "wet") args["dry"] = "false";

  // the world of tick 0 must exist before init (kill_by_swap_usage reads meminfo at init)
  const Json::Value& ticks = sc["ticks"];
  materializeTree(vk::g_w.root, ticks[0]["tree"]);

  std::unique_ptr<Engine::BasePlugin> plugin(getPluginRegistry().create(pname));
  if (!plugin) {
    run["outcome"] = "no-such-plugin";
    vh::rmrf(vk::g_w.root);
    return;
  }
  plugin->setName(pname);
  if (plugin->initPlugin(args, pcc) != 0) {
    run["outcome"] = "init-failed";
    vh::rmrf(vk::g_w.root);
    return;
  }

  const Json::Value& jc = sc["ctx"];
  Engine::Ruleset ruleset(
      jc.get("ruleset", "rs").asString(),
      std::vector<std::unique_ptr<Engine::DetectorGroup>>(),
      std::vector<std::unique_ptr<Engine::BasePlugin>>());
  bool hasRuleset = jc.get("has_ruleset", true).asBool();
  bool silence = jc.get("silence", false).asBool();

  OomdContext ctx;
  installHooks(ctx, sc, pcc);
  std::optional<ActionContext> savedCtx; // kept while the action is ASYNC_PAUSED, as Ruleset does
  int64_t now = 1000LL * 1000000000LL;
  std::string worst = "ok";

  for (Json::ArrayIndex ti = 0; ti < ticks.size(); ti++) {
    const Json::Value& tk = ticks[ti];
    Json::Value to(Json::objectValue);
    if (ti > 0) applyDelta(tk["delta"]);
    now += (int64_t)tk.get("advance_s", 5).asInt() * 1000000000LL;
    if (vh::g_now_ns < now) vh::setNowNs(now); else now = vh::g_now_ns;
    vk::g_w.ino2id.clear();
    vk::g_w.id2path.clear();
    vk::g_w.procs.clear();
    indexTree("", tk["tree"], true);
    Json::Value lst(Json::objectValue);
    listing("", tk["tree"], true, lst);
    to["listing"] = lst;

    // Oomd::updateContext
    ctx.refresh();
    ctx.bumpCurrentTick();

    auto statsBefore = Oomd::getStats();
    vk::g_events = Json::Value(Json::arrayValue);
    vk::g_sleeps = 0;
    std::string outcome = "ok";
    std::string ret = "";
    // Engine::prerun, then Ruleset::runOnceImpl + run_action_chain around this one action
    ActionContext actx;
    if (savedCtx) {
      actx = *savedCtx;
    } else {
      actx.ruleset_name = jc.get("ruleset", "rs").asString();
      actx.detectorgroup = jc.get("group", "dg").asString();
      actx.action_group_run_uuid = Util::generateUuid();
      if (!jc["deadline_s"].isNull()) {
        actx.prekill_hook_timeout_ts =
            std::chrono::steady_clock::now() + std::chrono::seconds(jc.get("deadline_s", 5).asInt());
      }
    }
    ruleset.pause_actions_until_ = std::chrono::steady_clock::time_point();
    ruleset.plugin_overrode_post_action_delay_ = false;
    auto t0 = std::chrono::steady_clock::now();
    try {
      plugin->prerun(ctx);
      ctx.setActionContext(actx);
      if (hasRuleset) ctx.setInvokingRuleset(&ruleset);
      if (silence) OLOG << LogStream::Control::DISABLE;
      vk::g_rec = true;
      Engine::PluginRet r = plugin->run(ctx);
      vk::g_rec = false;
      ret = retName(r);
      if (r == Engine::PluginRet::ASYNC_PAUSED) savedCtx = actx; else savedCtx.reset();
    } catch (const std::exception& e) {
      vk::g_rec = false;
      outcome = "uncaught:" + demangle(typeid(e).name());
      to["what"] = e.what();
      savedCtx.reset();
    }
    if (silence) OLOG << LogStream::Control::ENABLE;
    ctx.setActionContext({"", "", "", std::nullopt});
    ctx.setInvokingRuleset(std::nullopt);

    auto statsAfter = Oomd::getStats();
    to["kills_delta"] = statsAfter[CoreStats::kKillsKey] - statsBefore[CoreStats::kKillsKey];
    to["restarts_delta"] = statsAfter["oomd.restarts"] - statsBefore["oomd.restarts"];
    if (ruleset.plugin_overrode_post_action_delay_) {
      // pause_actions(d) stores now()+d; sleeps inside the plugin advance the clock before the call
      auto d = std::chrono::duration_cast<std::chrono::seconds>(
          ruleset.pause_actions_until_ - std::chrono::steady_clock::now());
      to["pause"] = (Json::Int64)d.count();
    } else {
      to["pause"] = Json::nullValue;
    }
    // virtual steady clock: what the plugin slept inside run() (systemd_restart holds the engine off by sleeping)
    to["elapsed_ns"] = (Json::Int64)std::chrono::duration_cast<std::chrono::nanoseconds>(std::chrono::steady_clock::now() - t0).count();
    to["events"] = vk::g_events;
    to["ret"] = ret;
    to["sleeps"] = vk::g_sleeps;
    to["outcome"] = outcome;
    if (outcome != "ok") worst = outcome;
    ticksOut.append(to);
    now = vh::g_now_ns;
  }
  run["ticks"] = ticksOut;
  run["outcome"] = worst;
  plugin.reset();
  g_hooks.clear();
  run["swapped"] = vk::g_w.swapped;
  {
    Json::Value em(Json::arrayValue);
    for (int c : vk::g_w.emptied) em.append(c);
    run["emptied"] = em;
  }
  vh::rmrf(vk::g_w.root + ".away");
  vh::rmrf(vk::g_w.root);
  vk::g_w.root.clear();
}

} // namespace

int main() {
  vk::g_main = pthread_self();
  g_top = vh::freshDir("killtop");
  std::string kmsg = g_top + "/kmsg";
  vh::writeFile(kmsg, "");
  if (!Log::init(kmsg)) return 3;
  struct stat st;
  if (::stat(kmsg.c_str(), &st) == 0) {
    vk::g_kmsgIno = st.st_ino;
    vk::g_kmsgDev = st.st_dev;
  }
  if (!Stats::init(g_top + "/stats.sock")) return 3;

  vh::lineLoop([](const Json::Value& sc, Json::Value& out) {
    Json::Value runs(Json::arrayValue);
    std::vector<std::string> variants;
    if (sc.get("twin", false).asBool()) {
      variants = {"dry", "wet"};
    } else {
      variants = {"asis"};
    }
    for (auto& v : variants) {
      Json::Value run(Json::objectValue);
      runVariant(sc, v, run);
      if (run["outcome"].asString() != "ok") out["outcome"] = run["outcome"];
      runs.append(run);
    }
    out["runs"] = runs;
  });
  vh::rmrf(g_top);
  vh::finish(0);
}

// Config-level kinds of engine h_parse (C12): real plugin init(), ConfigCompiler::compile /
// compileDropIn, JsonConfigParser::parse, Main.cpp's parseConfig (the static function itself: Main.cpp
// is included below with `main` renamed) and FsDropInService's processing of a drop-in file.
//
// Private members of the real classes are read (never written) to report what a plugin / the engine
// actually holds after an accepted configuration: the headers of oomd are included with
// `private`/`protected` redefined.  Standard headers are included first, untouched.
#include "common.h"

#include <algorithm>
#include <array>
#include <atomic>
#include <chrono>
#include <cmath>
#include <condition_variable>
#include <csignal>
#include <cstring>
#include <cxxabi.h>
#include <deque>
#include <exception>
#include <filesystem>
#include <fstream>
#include <functional>
#include <future>
#include <iomanip>
#include <iostream>
#include <list>
#include <map>
#include <memory>
#include <mutex>
#include <optional>
#include <random>
#include <set>
#include <sstream>
#include <stdexcept>
#include <string>
#include <thread>
#include <typeinfo>
#include <unordered_map>
#include <unordered_set>
#include <utility>
#include <variant>
#include <vector>
#include <getopt.h>
#include <sys/epoll.h>
#include <sys/eventfd.h>
#include <sys/inotify.h>
#include <sys/stat.h>
#include <sys/types.h>
#include <unistd.h>

#define private public
#define protected public
#include "oomd/PluginRegistry.h"
#include "oomd/config/ConfigCompiler.h"
#include "oomd/config/ConfigTypes.h"
#include "oomd/config/JsonConfigParser.h"
#include "oomd/dropin/FsDropInService.h"
#include "oomd/engine/Engine.h"
#include "oomd/engine/PrekillHook.h"
#include "oomd/engine/Ruleset.h"
#include "oomd/engine/DetectorGroup.h"
#include "oomd/plugins/BaseKillPlugin.h"
#include "oomd/plugins/DumpCgroupOverview.h"
#include "oomd/plugins/Exists.h"
#include "oomd/plugins/KillIOCost.h"
#include "oomd/plugins/KillMemoryGrowth.h"
#include "oomd/plugins/KillPgScan.h"
#include "oomd/plugins/KillPressure.h"
#include "oomd/plugins/KillSwapUsage.h"
#include "oomd/plugins/MemoryAbove.h"
#include "oomd/plugins/MemoryReclaim.h"
#include "oomd/plugins/NrDyingDescendants.h"
#include "oomd/plugins/PressureAbove.h"
#include "oomd/plugins/PressureRisingBeyond.h"
#include "oomd/plugins/Senpai.h"
#include "oomd/plugins/SwapFree.h"
#include "oomd/plugins/systemd/SystemdRestart.h"
#undef private
#undef protected

#define main oomd_real_main
#include "oomd/Main.cpp"
#undef main

using namespace Oomd;

namespace {

std::string excName(const std::exception& e) {
  int st = 0;
  char* d = abi::__cxa_demangle(typeid(e).name(), nullptr, nullptr, &st);
  std::string n = (st == 0 && d) ? d : typeid(e).name();
  free(d);
  return n;
}

// ---------------------------------------------------------------- value encodings (see h_parse.cpp)
template <class F>
std::string fdesc(F x) {
  if (std::isnan(x)) return "nan";
  std::string neg = std::signbit(x) ? "1" : "0";
  if (std::isinf(x)) return "inf:" + neg;
  if (x == 0) return "fin:" + neg + ":0:0";
  int e = 0;
  long double fr = frexpl(fabsl(static_cast<long double>(x)), &e);
  uint64_t m = static_cast<uint64_t>(ldexpl(fr, 64));
  int ee = e - 64;
  while ((m & 1) == 0) { m >>= 1; ee++; }
  return "fin:" + neg + ":" + std::to_string(m) + ":" + std::to_string(ee);
}
Json::Value jv(int v) { return std::to_string(v); }
Json::Value jv(int64_t v) { return std::to_string(v); }
Json::Value jv(float v) { return fdesc(v); }
Json::Value jv(double v) { return fdesc(v); }
Json::Value jv(bool v) { return v ? "true" : "false"; }
Json::Value jv(const std::string& v) { return "s:" + v; }
Json::Value jv(std::chrono::milliseconds v) { return std::to_string(v.count()); }
Json::Value jv(ResourceType v) { return v == ResourceType::IO ? "io" : (v == ResourceType::MEMORY ? "memory" : "?"); }
Json::Value jv(const std::optional<int>& v) { return v ? Json::Value(std::to_string(*v)) : Json::Value("unset"); }
Json::Value jv(const std::unordered_set<CgroupPath>& s) {
  std::vector<std::string> v;
  for (auto& p : s) v.push_back(p.relativePath());
  std::sort(v.begin(), v.end());
  Json::Value a(Json::arrayValue);
  for (auto& x : v) a.append(x);
  return a;
}

// ---------------------------------------------------------------- what the real plugin instances hold
void dumpKillBase(BaseKillPlugin* k, Json::Value& o) {
  o["cgroup"] = jv(k->cgroups_);
  o["recursive"] = jv(k->recursive_);
  o["post_action_delay"] = jv(k->postActionDelay_);
  o["dry"] = jv(k->dry_);
  o["always_continue"] = jv(k->alwaysContinue_);
  o["debug"] = jv(k->debug_);
  o["kernelkill"] = jv(k->kernelKill_);
  o["reap_memory"] = jv(k->reapMemory_);
}

Json::Value dumpPluginVals(Engine::BasePlugin* p) {
  Json::Value o(Json::objectValue);
  if (auto* x = dynamic_cast<MemoryAbove*>(p)) {
    o["cgroup"] = jv(x->cgroups_);
    o[x->is_anon_ ? "threshold_anon" : "threshold"] = jv(x->threshold_);
    o["duration"] = jv(x->duration_);
    o["debug"] = jv(x->debug_);
  } else if (auto* x = dynamic_cast<PressureAbove*>(p)) {
    o["cgroup"] = jv(x->cgroups_);
    o["resource"] = jv(x->resource_);
    o["threshold"] = jv(x->threshold_);
    o["duration"] = jv(x->duration_);
  } else if (auto* x = dynamic_cast<PressureRisingBeyond*>(p)) {
    o["cgroup"] = jv(x->cgroups_);
    o["resource"] = jv(x->resource_);
    o["threshold"] = jv(x->threshold_);
    o["duration"] = jv(x->duration_);
    o["fast_fall_ratio"] = jv(x->fast_fall_ratio_);
  } else if (auto* x = dynamic_cast<MemoryReclaim*>(p)) {
    o["cgroup"] = jv(x->cgroups_);
    o["duration"] = jv(x->duration_);
  } else if (auto* x = dynamic_cast<SwapFree*>(p)) {
    o["threshold_pct"] = jv(x->threshold_pct_);
    o["swapout_bps_threshold"] = jv(x->swapout_bps_threshold_);
  } else if (auto* x = dynamic_cast<Exists*>(p)) {
    o["cgroup"] = jv(x->cgroups_);
    o["negate"] = jv(x->negate_);
    o["debug"] = jv(x->debug_);
  } else if (auto* x = dynamic_cast<NrDyingDescendants*>(p)) {
    o["cgroup"] = jv(x->cgroups_);
    o["count"] = jv(x->count_);
    o["lte"] = jv(x->lte_);
    o["debug"] = jv(x->debug_);
  } else if (auto* x = dynamic_cast<DumpCgroupOverview*>(p)) {
    o["cgroup"] = jv(x->cgroups_);
    o["always"] = jv(x->always_);
  } else if (auto* x = dynamic_cast<Senpai*>(p)) {
    o["cgroup"] = jv(x->cgroups_);
    o["limit_min_bytes"] = jv(x->limit_min_bytes_);
    o["limit_max_bytes"] = jv(x->limit_max_bytes_);
    o["interval"] = jv(x->interval_);
    o["pressure_ms"] = jv(x->pressure_ms_);
    o["pressure_pct"] = jv(x->mem_pressure_pct_);
    o["io_pressure_pct"] = jv(x->io_pressure_pct_);
    o["max_probe"] = jv(x->max_probe_);
    o["max_backoff"] = jv(x->max_backoff_);
    o["coeff_probe"] = jv(x->coeff_probe_);
    o["coeff_backoff"] = jv(x->coeff_backoff_);
    o["immediate_backoff"] = jv(x->immediate_backoff_);
    o["memory_high_timeout_ms"] = jv(x->memory_high_timeout_);
    o["swap_threshold"] = jv(x->swap_threshold_);
    o["swapout_bps_threshold"] = jv(x->swapout_bps_threshold_);
    o["swap_validation"] = jv(x->swap_validation_);
    o["modulate_swappiness"] = jv(x->modulate_swappiness_);
    o["log_interval"] = jv(x->log_interval_);
  } else if (auto* x = dynamic_cast<SystemdRestart<>*>(p)) {
    o["service"] = jv(x->service_);
    o["post_action_delay"] = jv(x->post_action_delay_);
    o["dry"] = jv(x->dry_);
  } else if (auto* k = dynamic_cast<BaseKillPlugin*>(p)) {
    dumpKillBase(k, o);
    if (auto* x = dynamic_cast<KillMemoryGrowth<>*>(p)) {
      o["size_threshold"] = jv(x->size_threshold_);
      o["growing_size_percentile"] = jv(x->growing_size_percentile_);
      o["min_growth_ratio"] = jv(x->min_growth_ratio_);
    } else if (auto* x = dynamic_cast<KillSwapUsage<>*>(p)) {
      o["threshold"] = jv(x->threshold_);
      o["biased_swap_kill"] = jv(x->biasedSwapKill_);
    } else if (auto* x = dynamic_cast<KillPressure<>*>(p)) {
      o["resource"] = jv(x->resource_);
    }
  }
  return o;
}

Json::Value argsJson(const Engine::PluginArgs& a) {
  Json::Value o(Json::objectValue);
  for (auto& [k, v] : a) o[k] = v;
  return o;
}

Json::Value dumpPlugin(Engine::BasePlugin* p) {
  Json::Value o(Json::objectValue);
  o["name"] = p->getName();
  o["args"] = argsJson(p->getPluginArgs());
  o["vals"] = dumpPluginVals(p);
  return o;
}

Json::Value dumpRuleset(Engine::Ruleset* r) {
  Json::Value o(Json::objectValue);
  o["name"] = r->name_;
  Json::Value dgs(Json::arrayValue);
  for (auto& dg : r->detector_groups_) {
    Json::Value g(Json::objectValue);
    g["name"] = dg->name_;
    Json::Value ds(Json::arrayValue);
    for (auto& d : dg->detectors_) ds.append(dumpPlugin(d.get()));
    g["detectors"] = ds;
    dgs.append(g);
  }
  o["dgs"] = dgs;
  Json::Value acts(Json::arrayValue);
  for (auto& a : r->action_group_) acts.append(dumpPlugin(a.get()));
  o["acts"] = acts;
  o["post_action_delay"] = std::to_string(r->post_action_delay_);
  o["prekill_hook_timeout"] = std::to_string(r->prekill_hook_timeout_);
  o["disable_on_drop_in"] = r->disable_on_drop_in_;
  o["dg_dropin"] = r->detectorgroups_dropin_enabled_;
  o["act_dropin"] = r->actiongroup_dropin_enabled_;
  o["silenced_logs"] = static_cast<Json::UInt>(r->silenced_logs_);
  o["xattr_filter"] = r->xattr_filter_;
  o["cgroup"] = (r->cgroup_ && *r->cgroup_) ? Json::Value((*r->cgroup_)->relativePath()) : Json::Value();
  return o;
}

Json::Value dumpEngine(Engine::Engine* e) {
  Json::Value o(Json::objectValue);
  Json::Value rs(Json::arrayValue);
  for (auto& b : e->rulesets_) {
    Json::Value r = dumpRuleset(b.ruleset.get());
    Json::Value dis(Json::arrayValue);
    for (auto& d : b.dropins) {
      Json::Value x = dumpRuleset(d.ruleset.get());
      x["tag"] = d.tag;
      dis.append(x);
    }
    r["dropins"] = dis;
    rs.append(r);
  }
  o["rulesets"] = rs;
  Json::Value hooks(Json::arrayValue); // reported in configuration order
  for (auto it = e->prekill_hooks_in_reverse_order_.rbegin(); it != e->prekill_hooks_in_reverse_order_.rend(); ++it) {
    Json::Value h(Json::objectValue);
    h["name"] = it->hook->getName();
    h["cgroup"] = jv(it->hook->cgroup_patterns_);
    h["tag"] = it->dropin_tag ? Json::Value(*it->dropin_tag) : Json::Value();
    hooks.append(h);
  }
  o["hooks"] = hooks;
  return o;
}

// ---------------------------------------------------------------- IR <-> JSON
template <class P>
P irPlugin(const Json::Value& j) {
  P p;
  p.name = j["name"].asString();
  for (const auto& k : j["args"].getMemberNames()) p.args[k] = j["args"][k].asString();
  return p;
}

Config2::IR::Root irFromJson(const Json::Value& j) {
  Config2::IR::Root root;
  for (const auto& r : j["rulesets"]) {
    Config2::IR::Ruleset rs;
    rs.name = r["name"].asString();
    for (const auto& g : r["dgs"]) {
      Config2::IR::DetectorGroup dg;
      dg.name = g["name"].asString();
      for (const auto& d : g["detectors"]) dg.detectors.push_back(irPlugin<Config2::IR::Detector>(d));
      rs.dgs.push_back(dg);
    }
    for (const auto& a : r["acts"]) rs.acts.push_back(irPlugin<Config2::IR::Action>(a));
    rs.dropin.disable_on_drop_in = r["dropin"].get("disable_on_drop_in", false).asBool();
    rs.dropin.detectorgroups_enabled = r["dropin"].get("detectorgroups_enabled", false).asBool();
    rs.dropin.actiongroup_enabled = r["dropin"].get("actiongroup_enabled", false).asBool();
    rs.silence_logs = r.get("silence_logs", "").asString();
    rs.post_action_delay = r.get("post_action_delay", "").asString();
    rs.prekill_hook_timeout = r.get("prekill_hook_timeout", "").asString();
    rs.xattr_filter = r.get("xattr_filter", "").asString();
    rs.cgroup = r.get("cgroup", "").asString();
    root.rulesets.push_back(rs);
  }
  for (const auto& h : j["prekill_hooks"]) root.prekill_hooks.push_back(irPlugin<Config2::IR::PrekillHook>(h));
  return root;
}

template <class P>
Json::Value irPluginJson(const P& p) {
  Json::Value o(Json::objectValue);
  o["name"] = p.name;
  Json::Value a(Json::objectValue);
  for (auto& [k, v] : p.args) a[k] = v;
  o["args"] = a;
  return o;
}

Json::Value irToJson(const Config2::IR::Root& root) {
  Json::Value o(Json::objectValue);
  Json::Value rs(Json::arrayValue);
  for (auto& r : root.rulesets) {
    Json::Value x(Json::objectValue);
    x["name"] = r.name;
    Json::Value dgs(Json::arrayValue);
    for (auto& g : r.dgs) {
      Json::Value y(Json::objectValue);
      y["name"] = g.name;
      Json::Value ds(Json::arrayValue);
      for (auto& d : g.detectors) ds.append(irPluginJson(d));
      y["detectors"] = ds;
      dgs.append(y);
    }
    x["dgs"] = dgs;
    Json::Value acts(Json::arrayValue);
    for (auto& a : r.acts) acts.append(irPluginJson(a));
    x["acts"] = acts;
    Json::Value di(Json::objectValue);
    di["disable_on_drop_in"] = r.dropin.disable_on_drop_in;
    di["detectorgroups_enabled"] = r.dropin.detectorgroups_enabled;
    di["actiongroup_enabled"] = r.dropin.actiongroup_enabled;
    x["dropin"] = di;
    x["silence_logs"] = r.silence_logs;
    x["post_action_delay"] = r.post_action_delay;
    x["prekill_hook_timeout"] = r.prekill_hook_timeout;
    x["xattr_filter"] = r.xattr_filter;
    x["cgroup"] = r.cgroup;
    rs.append(x);
  }
  o["rulesets"] = rs;
  Json::Value hs(Json::arrayValue);
  for (auto& h : root.prekill_hooks) hs.append(irPluginJson(h));
  o["prekill_hooks"] = hs;
  return o;
}

// ---------------------------------------------------------------- scripted plugins (init-call log)
std::vector<Json::Value>* g_initLog = nullptr;

class VerifPlugin : public Engine::BasePlugin {
 public:
  int init(const Engine::PluginArgs& args, const PluginConstructionContext&) override {
    if (g_initLog) {
      Json::Value o(Json::objectValue);
      o["name"] = getName();
      o["args"] = argsJson(args);
      g_initLog->push_back(o);
    }
    auto it = args.find("fail");
    return (it != args.end() && it->second == "1") ? 1 : 0;
  }
  Engine::PluginRet run(OomdContext&) override { return Engine::PluginRet::CONTINUE; }
  static VerifPlugin* create() { return new VerifPlugin(); }
};
bool reg1 = getPluginRegistry().add("verif_a", VerifPlugin::create);
bool reg2 = getPluginRegistry().add("verif_b", VerifPlugin::create);

const char* kFs = "/sys/fs/cgroup";

// vh::rmrf forks `rm -rf`, which is slow under ASan; the scratch directory is small and known
void rmTree(const std::string& d) {
  std::error_code ec;
  std::filesystem::remove_all(d, ec);
}

std::string meminfoFile(const std::string& dir, const Json::Value& sc) {
  std::string p = dir + "/meminfo";
  std::ostringstream s;
  s << "MemTotal:       " << sc.get("memtotal_kb", "16000000").asString() << " kB\n";
  s << "MemFree:        1000 kB\n";
  s << "SwapTotal:      " << sc.get("swaptotal_kb", "2000000").asString() << " kB\n";
  s << "SwapFree:       1000 kB\n";
  vh::writeFile(p, s.str());
  return p;
}

Engine::PluginArgs argsOf(const Json::Value& j, const std::string& meminfo) {
  Engine::PluginArgs a;
  for (const auto& k : j.getMemberNames()) {
    std::string v = j[k].asString();
    a[k] = (v == "@MEMINFO") ? meminfo : v;
  }
  return a;
}

void substMeminfo(Json::Value& j, const std::string& meminfo) {
  if (j.isObject() || j.isArray()) {
    for (auto& c : j) substMeminfo(c, meminfo);
  } else if (j.isString() && j.asString() == "@MEMINFO") {
    j = meminfo;
  }
}

std::string replaceAll(std::string s, const std::string& a, const std::string& b) {
  size_t i = 0;
  while ((i = s.find(a, i)) != std::string::npos) {
    s.replace(i, a.size(), b);
    i += b.size();
  }
  return s;
}

// one plugin: registry lookup + initPlugin exactly as ConfigCompiler's compilePluginGeneric does
void doInit(const Json::Value& sc, Json::Value& out) {
  std::string dir = vh::freshDir("cfg");
  std::string mi = meminfoFile(dir, sc);
  PluginConstructionContext ctx(kFs);
  auto args = argsOf(sc["args"], mi);
  std::string name = sc["plugin"].asString();
  try {
    if (sc.get("hook", false).asBool()) {
      std::unique_ptr<Engine::PrekillHook> h(getPrekillHookRegistry().create(name));
      if (!h) {
        out["r"] = "unknown-plugin";
      } else {
        h->setName(name);
        int rc = h->initPlugin(args, ctx);
        out["r"] = rc == 0 ? "accepted" : "rejected";
        if (rc == 0) {
          Json::Value v(Json::objectValue);
          v["cgroup"] = jv(h->cgroup_patterns_);
          out["vals"] = v;
        }
      }
    } else {
      std::unique_ptr<Engine::BasePlugin> p(getPluginRegistry().create(name));
      if (!p) {
        out["r"] = "unknown-plugin";
      } else {
        p->setName(name);
        int rc = p->initPlugin(args, ctx);
        out["r"] = rc == 0 ? "accepted" : "rejected";
        if (rc == 0) out["vals"] = dumpPluginVals(p.get());
      }
    }
  } catch (const std::exception& e) {
    out["r"] = "uncaught:" + excName(e);
  } catch (...) {
    out["r"] = "uncaught:unknown";
  }
  rmTree(dir);
}

void doCompile(const Json::Value& sc, Json::Value& out) {
  std::string dir = vh::freshDir("cfg");
  std::string mi = meminfoFile(dir, sc);
  Json::Value irj = sc["ir"];
  substMeminfo(irj, mi);
  auto root = irFromJson(irj);
  std::vector<Json::Value> log;
  g_initLog = &log;
  PluginConstructionContext ctx(kFs);
  try {
    auto engine = Config2::compile(root, ctx);
    out["r"] = engine ? "accepted" : "rejected";
    if (engine) out["engine"] = dumpEngine(engine.get());
  } catch (const std::exception& e) {
    out["r"] = "uncaught:" + excName(e);
  } catch (...) {
    out["r"] = "uncaught:unknown";
  }
  g_initLog = nullptr;
  Json::Value l(Json::arrayValue);
  for (auto& x : log) l.append(x);
  out["init_log"] = l;
  rmTree(dir);
}

// the daemon's start-up path: Main.cpp parseConfig(file) then compile
void doLoad(const Json::Value& sc, Json::Value& out) {
  std::string dir = vh::freshDir("cfg");
  std::string mi = meminfoFile(dir, sc);
  std::string text = replaceAll(sc["text"].asString(), "@MEMINFO", mi);
  std::string f = dir + "/oomd.json";
  vh::writeFile(f, text);
  std::vector<Json::Value> log;
  g_initLog = &log;
  PluginConstructionContext ctx(kFs);
  try {
    auto ir = parseConfig(f); // static function of the real Main.cpp
    if (!ir) {
      out["r"] = "rejected";
      out["stage"] = "parse";
    } else {
      Json::Value irj = irToJson(*ir);
      out["ir"] = irj;
      auto engine = Config2::compile(*ir, ctx);
      out["r"] = engine ? "accepted" : "rejected";
      out["stage"] = "compile";
      if (engine) out["engine"] = dumpEngine(engine.get());
    }
  } catch (const std::exception& e) {
    out["r"] = "uncaught:" + excName(e);
  } catch (...) {
    out["r"] = "uncaught:unknown";
  }
  g_initLog = nullptr;
  Json::Value l(Json::arrayValue);
  for (auto& x : log) l.append(x);
  out["init_log"] = l;
  // the parser on its own (its contract: throws std::exception on bad input, callers catch)
  try {
    Config2::JsonConfigParser p;
    auto ir = p.parse(text);
    out["parse"] = ir ? "ok" : "null";
  } catch (const std::exception& e) {
    out["parse"] = "E:" + excName(e);
  } catch (...) {
    out["parse"] = "X:unknown";
  }
  rmTree(dir);
}

// a drop-in file appearing in the watched directory of a running daemon: the real FsDropInService
// processes files already present in the directory from its constructor (same processDropInAdd as
// the watcher thread uses), then the main loop applies the queue with updateDropIns().
void doDropIn(const Json::Value& sc, Json::Value& out) {
  std::string dir = vh::freshDir("cfg");
  std::string mi = meminfoFile(dir, sc);
  std::string base = replaceAll(sc["base"].asString(), "@MEMINFO", mi);
  std::string drop = replaceAll(sc["dropin"].asString(), "@MEMINFO", mi);
  PluginConstructionContext ctx(kFs);
  std::unique_ptr<Config2::IR::Root> root;
  std::unique_ptr<Engine::Engine> engine;
  try {
    Config2::JsonConfigParser p;
    root = p.parse(base);
    if (root) engine = Config2::compile(*root, ctx);
  } catch (...) {
  }
  if (!engine) {
    out["r"] = "base-rejected";
    rmTree(dir);
    return;
  }
  Json::Value before = dumpEngine(engine.get());
  std::string ddir = dir + "/dropin.d";
  vh::mkdirs(ddir);
  vh::writeFile(ddir + "/10-verif.json", drop);
  std::vector<Json::Value> log;
  g_initLog = &log;
  try {
    auto svc = FsDropInService::create(kFs, *root, *engine, ddir);
    if (!svc) {
      out["r"] = "service-not-created";
    } else {
      size_t queued = 0;
      {
        std::lock_guard<std::mutex> lock(svc->queue_mutex_);
        for (auto& q : svc->drop_in_queue_) if (q.second) queued++;
      }
      svc->updateDropIns();
      out["queued"] = static_cast<Json::UInt>(queued);
      out["r"] = queued ? "accepted" : "rejected";
    }
  } catch (const std::exception& e) {
    out["r"] = "uncaught:" + excName(e);
  } catch (...) {
    out["r"] = "uncaught:unknown";
  }
  g_initLog = nullptr;
  Json::Value after = dumpEngine(engine.get());
  out["engine_unchanged"] = (vh::compact(before) == vh::compact(after));
  out["engine"] = after;
  Json::Value l(Json::arrayValue);
  for (auto& x : log) l.append(x);
  out["init_log"] = l;
  // compileDropIn on its own for the model comparison
  try {
    Config2::JsonConfigParser p;
    auto dr = p.parse(drop);
    if (!dr) {
      out["dropin_ir"] = Json::Value();
    } else {
      out["dropin_ir"] = irToJson(*dr);
    }
  } catch (const std::exception& e) {
    out["dropin_parse"] = "E:" + excName(e);
  }
  out["base_ir"] = irToJson(*root);
  rmTree(dir);
}

} // namespace

void configScenario(const std::string& kind, const Json::Value& sc, Json::Value& out) {
  // what a plugin without `meminfo_location` reads
  if (auto mi = Fs::getMeminfo()) {
    if (mi->count("MemTotal")) out["host_memtotal"] = std::to_string((*mi)["MemTotal"]);
    if (mi->count("SwapTotal")) out["host_swaptotal"] = std::to_string((*mi)["SwapTotal"]);
  }
  if (kind == "init") doInit(sc, out);
  else if (kind == "compile") doCompile(sc, out);
  else if (kind == "load") doLoad(sc, out);
  else if (kind == "dropin") doDropIn(sc, out);
  else out["outcome"] = "bad-kind";
}

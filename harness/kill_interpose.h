// libc-boundary interposition for engine h_kill (C01/C03/C04/C17; C07 builds on it).
// Include in exactly one translation unit of the harness executable.
//
// What is interposed (defined here, in the executable, so the real oomd objects linked into the same
// executable resolve to these definitions):
//   kill(2)            recorded, outcome from the scenario's script; a real signal is NEVER delivered
//   nanosleep          no real sleeping; advances the virtual clock (vclock.h)
//   setxattr           recorded with the value found on the file before the call ("old"); may be scripted to fail
//   openat / openat64  cgroup.procs reads recorded with the content the fd will deliver;
//                      O_WRONLY opens below the world root remembered so that write(2) can name (cgroup, file)
//   write              control-file writes below the world root and writes to the kmsg sink are recorded
//   syscall            pidfd_open / process_mrelease recorded and scripted, everything else passed through
//   sd_bus_*           stubbed (systemd_restart): the D-Bus call is recorded, never made
// Reads other than cgroup.procs are not part of the trace (DESIGN 2.2).
#pragma once
#include <dlfcn.h>
#include <errno.h>
#include <fcntl.h>
#include <signal.h>
#include <stdarg.h>
#include <sys/stat.h>
#include <sys/syscall.h>
#include <sys/xattr.h>
#include <systemd/sd-bus.h>
#include <time.h>
#include <unistd.h>

#include <map>
#include <set>
#include <string>
#include <vector>

#include "common.h"
#include "vclock.h"

#ifndef __NR_process_mrelease
#define __NR_process_mrelease 448
#endif

namespace vk {

struct World {
  std::string root; // absolute path of the simulated cgroup2 mount
  std::map<ino_t, int> ino2id; // directory inode -> scenario cgroup id
  std::map<int, std::string> id2path; // scenario id -> relative path
  std::map<int, std::vector<std::string>> procs; // current cgroup.procs lines per cgroup id
  // scripts
  std::map<std::string, std::vector<std::string>> killScript; // pid (decimal) -> outcomes, last repeats; "*" default
  std::map<std::string, size_t> killPos;
  std::vector<std::string> xfail; // setxattr on names with one of these prefixes fails with EPERM
  std::vector<std::string> wfail; // write(2) to control files with one of these names fails with EIO
  std::string pidfdMode{"ok"}; // ok | ESRCH | ENOSYS
  std::string mreleaseMode{"ok"}; // ok | ESRCH | EINVAL
  std::string dbusMode{"ok"}; // ok | fail
  // at the n-th kill(2) call of the scenario (1-based) remove these cgroup directories
  int rmAtKill{0};
  std::vector<std::string> rmPaths;
  int nKillCalls{0};
  // swap stream: inside the first kill(2) aimed at one of these pids the cgroup directory they live under is renamed out of
  // the tree and a stranger with the same layout appears at its path (swapFn, set by the harness)
  std::set<std::string> swapPids;
  std::function<void()> swapFn;
  bool swapped{false};
  // stale stream: these cgroups empty on their own (all their processes exit) between the tick's sample and the kill: at the
  // first kill-accounting xattr aimed at one of them its cgroup.procs / cgroup.events / pids.current are rewritten
  std::set<int> emptyAtAttempt;
  std::set<int> emptied;
  // record every read-open of cgroup.events with the file's lines (h_kill: the kernelkill branch reads the file afresh and
  // the model takes that answer from the trace)
  bool recordEventsReads{false};
};

inline World g_w;
inline bool g_rec = false; // record boundary events (only while the plugin under test runs)
inline Json::Value g_events(Json::arrayValue);
inline pthread_t g_main;
inline ino_t g_kmsgIno = 0;
inline dev_t g_kmsgDev = 0;
inline int g_sleeps = 0;
struct WFd {
  ino_t ino;
  int cg;
  std::string file;
};
inline std::map<int, WFd> g_wfds;
inline std::map<int, int> g_pidfds; // fake pidfd -> pid

inline bool recording() {
  return g_rec && pthread_equal(pthread_self(), g_main);
}

inline bool under(const std::string& p) {
  return !g_w.root.empty() && p.size() >= g_w.root.size() && p.compare(0, g_w.root.size(), g_w.root) == 0 &&
      (p.size() == g_w.root.size() || p[g_w.root.size()] == '/');
}

inline int cgOfPath(const std::string& abs) {
  struct stat st;
  if (::stat(abs.c_str(), &st) != 0) return -1;
  auto it = g_w.ino2id.find(st.st_ino);
  return it == g_w.ino2id.end() ? -1 : it->second;
}

inline int cgOfFd(int fd) {
  struct stat st;
  if (::fstat(fd, &st) != 0) return -1;
  auto it = g_w.ino2id.find(st.st_ino);
  return it == g_w.ino2id.end() ? -1 : it->second;
}

inline std::string fdPath(int fd) {
  char buf[4096];
  std::string l = "/proc/self/fd/" + std::to_string(fd);
  ssize_t n = ::readlink(l.c_str(), buf, sizeof(buf) - 1);
  if (n <= 0) return "";
  buf[n] = 0;
  return buf;
}

inline void emit(Json::Value&& e) {
  g_events.append(std::move(e));
}

inline std::vector<std::string> splitLines(const std::string& s) {
  std::vector<std::string> v;
  size_t i = 0;
  while (i < s.size()) {
    size_t j = s.find('\n', i);
    if (j == std::string::npos) {
      v.push_back(s.substr(i));
      break;
    }
    v.push_back(s.substr(i, j - i));
    i = j + 1;
  }
  return v;
}

inline void writeProcs(int id) {
  auto it = g_w.id2path.find(id);
  if (it == g_w.id2path.end()) return;
  std::string c;
  for (auto& l : g_w.procs[id]) c += l + "\n";
  bool r = g_rec;
  g_rec = false;
  vh::writeFile(g_w.root + "/" + it->second + "/cgroup.procs", c);
  g_rec = r;
}

inline std::string nextKillOutcome(pid_t pid) {
  std::string k = std::to_string(pid);
  auto it = g_w.killScript.find(k);
  if (it == g_w.killScript.end()) {
    k = "*";
    it = g_w.killScript.find(k);
  }
  if (it == g_w.killScript.end() || it->second.empty()) return "ok-dies";
  size_t& pos = g_w.killPos[k];
  std::string o = it->second[std::min(pos, it->second.size() - 1)];
  pos++;
  return o;
}

} // namespace vk

extern "C" {

int kill(pid_t pid, int sig) {
  // never forwarded to the kernel, whatever the arguments
  using namespace vk;
  g_w.nKillCalls++;
  std::string o = nextKillOutcome(pid);
  int rc = 0, err = 0;
  if (o == "ESRCH") {
    rc = -1;
    err = ESRCH;
  } else if (o == "EPERM") {
    rc = -1;
    err = EPERM;
  } else if (o == "ok-dies") {
    std::string s = std::to_string(pid);
    for (auto& kv : g_w.procs) {
      auto& v = kv.second;
      size_t before = v.size();
      v.erase(std::remove(v.begin(), v.end(), s), v.end());
      if (v.size() != before) writeProcs(kv.first);
    }
  }
  if (recording()) {
    Json::Value e;
    e["ev"] = "kill";
    e["pid"] = (Json::Int64)pid;
    e["sig"] = sig;
    e["rc"] = rc == 0 ? 0 : err;
    emit(std::move(e));
  }
  if (g_w.rmAtKill > 0 && g_w.nKillCalls == g_w.rmAtKill) {
    bool r = g_rec;
    g_rec = false;
    for (auto& p : g_w.rmPaths) vh::rmrf(g_w.root + "/" + p);
    g_rec = r;
  }
  if (!g_w.swapped && g_w.swapFn && g_w.swapPids.count(std::to_string(pid))) {
    g_w.swapped = true;
    bool r = g_rec;
    g_rec = false;
    g_w.swapFn();
    g_rec = r;
  }
  errno = err;
  return rc;
}

int nanosleep(const struct timespec* req, struct timespec* rem) {
  if (pthread_equal(pthread_self(), vk::g_main)) {
    vk::g_sleeps++;
    vh::advanceNs((int64_t)req->tv_sec * 1000000000LL + req->tv_nsec);
    if (rem) {
      rem->tv_sec = 0;
      rem->tv_nsec = 0;
    }
    return 0;
  }
  using fn_t = int (*)(const struct timespec*, struct timespec*);
  static fn_t real = (fn_t)dlsym(RTLD_NEXT, "nanosleep");
  return real(req, rem);
}

int setxattr(const char* path, const char* name, const void* value, size_t size, int flags) {
  using namespace vk;
  using fn_t = int (*)(const char*, const char*, const void*, size_t, int);
  static fn_t real = (fn_t)dlsym(RTLD_NEXT, "setxattr");
  if (!recording() || !under(path)) return real(path, name, value, size, flags);
  Json::Value e;
  e["ev"] = "setxattr";
  e["cg"] = cgOfPath(path);
  {
    int cg = e["cg"].asInt();
    if (g_w.emptyAtAttempt.count(cg) && !g_w.emptied.count(cg)) {
      g_w.emptied.insert(cg);
      g_w.procs[cg].clear();
      writeProcs(cg);
      bool r = g_rec;
      g_rec = false;
      std::string d = g_w.root + "/" + g_w.id2path[cg];
      struct stat st;
      if (::stat((d + "/cgroup.events").c_str(), &st) == 0) vh::writeFile(d + "/cgroup.events", "populated 0\nfrozen 0\n");
      if (::stat((d + "/pids.current").c_str(), &st) == 0) vh::writeFile(d + "/pids.current", "0\n");
      g_rec = r;
    }
  }
  e["name"] = name;
  e["val"] = std::string((const char*)value, size);
  char buf[4096];
  ssize_t n = ::getxattr(path, name, buf, sizeof(buf));
  if (n >= 0) e["old"] = std::string(buf, n); else e["old"] = Json::nullValue;
  int rc, err = 0;
  bool fail = false;
  for (auto& p : g_w.xfail)
    if (std::string(name).compare(0, p.size(), p) == 0) fail = true;
  if (fail) {
    rc = -1;
    err = EPERM;
  } else {
    rc = real(path, name, value, size, flags);
    err = errno;
  }
  e["rc"] = rc == 0 ? 0 : err;
  emit(std::move(e));
  errno = err;
  return rc;
}

static int vk_openat_common(int dirfd, const char* path, int flags, mode_t mode, const char* sym) {
  using namespace vk;
  using fn_t = int (*)(int, const char*, int, ...);
  static fn_t real = (fn_t)dlsym(RTLD_NEXT, "openat");
  int fd = real(dirfd, path, flags, mode);
  int err = errno;
  if (recording() && path) {
    std::string p(path);
    if (p == "cgroup.procs" && (flags & O_ACCMODE) == O_RDONLY) {
      Json::Value e;
      e["ev"] = "procs";
      e["cg"] = cgOfFd(dirfd);
      if (fd < 0) {
        e["lines"] = Json::nullValue;
      } else {
        std::string content;
        char buf[4096];
        off_t off = 0;
        ssize_t n;
        while ((n = ::pread(fd, buf, sizeof(buf), off)) > 0) {
          content.append(buf, n);
          off += n;
        }
        Json::Value ls(Json::arrayValue);
        for (auto& l : splitLines(content)) ls.append(l);
        e["lines"] = ls;
      }
      emit(std::move(e));
    } else if (g_w.recordEventsReads && p == "cgroup.events" && (flags & O_ACCMODE) == O_RDONLY) {
      Json::Value e;
      e["ev"] = "events";
      e["cg"] = cgOfFd(dirfd);
      if (fd < 0) {
        e["lines"] = Json::nullValue;
      } else {
        std::string content;
        char buf[4096];
        off_t off = 0;
        ssize_t n;
        while ((n = ::pread(fd, buf, sizeof(buf), off)) > 0) {
          content.append(buf, n);
          off += n;
        }
        Json::Value ls(Json::arrayValue);
        for (auto& l : splitLines(content)) ls.append(l);
        e["lines"] = ls;
      }
      emit(std::move(e));
    } else if ((flags & O_ACCMODE) == O_WRONLY && dirfd != AT_FDCWD && under(fdPath(dirfd))) {
      int cg = cgOfFd(dirfd);
      if (fd < 0) {
        Json::Value e;
        e["ev"] = "write";
        e["cg"] = cg;
        e["file"] = p;
        e["data"] = Json::nullValue;
        e["rc"] = -err;
        emit(std::move(e));
      } else {
        struct stat st;
        ::fstat(fd, &st);
        g_wfds[fd] = WFd{st.st_ino, cg, p};
      }
    }
  }
  errno = err;
  return fd;
}

int openat(int dirfd, const char* path, int flags, ...) {
  mode_t mode = 0;
  if (flags & (O_CREAT | O_TMPFILE)) {
    va_list ap;
    va_start(ap, flags);
    mode = va_arg(ap, mode_t);
    va_end(ap);
  }
  return vk_openat_common(dirfd, path, flags, mode, "openat");
}

int openat64(int dirfd, const char* path, int flags, ...) {
  mode_t mode = 0;
  if (flags & (O_CREAT | O_TMPFILE)) {
    va_list ap;
    va_start(ap, flags);
    mode = va_arg(ap, mode_t);
    va_end(ap);
  }
  return vk_openat_common(dirfd, path, flags, mode, "openat64");
}

ssize_t write(int fd, const void* buf, size_t count) {
  using namespace vk;
  using fn_t = ssize_t (*)(int, const void*, size_t);
  static fn_t real = (fn_t)dlsym(RTLD_NEXT, "write");
  if (!recording() || fd <= 2) return real(fd, buf, count);
  struct stat st;
  if (::fstat(fd, &st) != 0) return real(fd, buf, count);
  if (g_kmsgIno && st.st_ino == g_kmsgIno && st.st_dev == g_kmsgDev) {
    Json::Value e;
    e["ev"] = "kmsg";
    e["line"] = std::string((const char*)buf, count);
    emit(std::move(e));
    return real(fd, buf, count);
  }
  auto it = g_wfds.find(fd);
  if (it != g_wfds.end() && it->second.ino == st.st_ino) {
    Json::Value e;
    e["ev"] = "write";
    e["cg"] = it->second.cg;
    e["file"] = it->second.file;
    e["data"] = std::string((const char*)buf, count);
    if (it->second.file == "cgroup.kill" && g_w.emptied.count(it->second.cg)) {
      // (only for the cgroups the stale stream emptied: elsewhere the generator's trees may pair `populated 1` with an empty
      // cgroup.procs, which no kernel does, and the answer of cgroup.events is what counts)  cgroup.kill reaches the whole subtree
      size_t n = 0;
      auto me = g_w.id2path.find(it->second.cg);
      if (me != g_w.id2path.end())
        for (auto& kv : g_w.id2path)
          if (kv.second == me->second || kv.second.compare(0, me->second.size() + 1, me->second + "/") == 0) n += g_w.procs[kv.first].size();
      e["nprocs"] = (Json::UInt64)n;
    }
    bool fail = false;
    for (auto& f : g_w.wfail)
      if (f == it->second.file) fail = true;
    ssize_t rc;
    int err = 0;
    if (fail) {
      rc = -1;
      err = EIO;
    } else {
      rc = real(fd, buf, count);
      err = errno;
    }
    e["rc"] = rc >= 0 ? (Json::Int64)rc : (Json::Int64)-err;
    emit(std::move(e));
    g_wfds.erase(it);
    errno = err;
    return rc;
  }
  return real(fd, buf, count);
}

long syscall(long nr, ...) {
  using namespace vk;
  va_list ap;
  va_start(ap, nr);
  long a[6];
  for (int i = 0; i < 6; i++) a[i] = va_arg(ap, long);
  va_end(ap);
  using fn_t = long (*)(long, ...);
  static fn_t real = (fn_t)dlsym(RTLD_NEXT, "syscall");
  if (recording() && nr == SYS_pidfd_open) {
    Json::Value e;
    e["ev"] = "pidfd_open";
    e["pid"] = (Json::Int64)(int)a[0];
    long rc;
    int err = 0;
    if (g_w.pidfdMode == "ok") {
      bool r = g_rec;
      g_rec = false;
      rc = ::open("/dev/null", O_RDONLY);
      g_rec = r;
      g_pidfds[(int)rc] = (int)a[0];
      e["rc"] = 0;
    } else {
      rc = -1;
      err = g_w.pidfdMode == "ESRCH" ? ESRCH : ENOSYS;
      e["rc"] = err;
    }
    emit(std::move(e));
    errno = err;
    return rc;
  }
  if (recording() && nr == __NR_process_mrelease) {
    Json::Value e;
    e["ev"] = "mrelease";
    auto it = g_pidfds.find((int)a[0]);
    e["pid"] = it == g_pidfds.end() ? -1 : it->second;
    if (it != g_pidfds.end()) g_pidfds.erase(it);
    long rc = 0;
    int err = 0;
    if (g_w.mreleaseMode != "ok") {
      rc = -1;
      err = g_w.mreleaseMode == "ESRCH" ? ESRCH : EINVAL;
    }
    e["rc"] = err;
    emit(std::move(e));
    errno = err;
    return rc;
  }
  return real(nr, a[0], a[1], a[2], a[3], a[4], a[5]);
}

// ---- libsystemd stubs (systemd_restart): no bus is ever contacted ----
int sd_bus_open_system(sd_bus** ret) {
  *ret = (sd_bus*)0x1;
  return 0;
}
int sd_bus_call_method(sd_bus*, const char* dest, const char* path, const char* iface, const char* member,
                       sd_bus_error* err, sd_bus_message** reply, const char* types, ...) {
  using namespace vk;
  va_list ap;
  va_start(ap, types);
  const char* a1 = va_arg(ap, const char*);
  const char* a2 = va_arg(ap, const char*);
  va_end(ap);
  if (recording()) {
    Json::Value e;
    e["ev"] = "dbus";
    e["method"] = member ? member : "";
    e["service"] = a1 ? a1 : "";
    e["mode"] = a2 ? a2 : "";
    e["rc"] = g_w.dbusMode == "ok" ? 0 : 1;
    emit(std::move(e));
  }
  if (g_w.dbusMode != "ok") {
    if (err) err->message = "scripted failure";
    return -EIO;
  }
  *reply = (sd_bus_message*)0x1;
  return 0;
}
int sd_bus_message_read(sd_bus_message*, const char* types, ...) {
  va_list ap;
  va_start(ap, types);
  const char** out = va_arg(ap, const char**);
  va_end(ap);
  if (out) *out = "/org/freedesktop/systemd1/job/1";
  return 1;
}
void sd_bus_error_free(sd_bus_error*) {}
sd_bus_message* sd_bus_message_unref(sd_bus_message*) {
  return nullptr;
}
void sd_bus_close(sd_bus*) {}
sd_bus* sd_bus_unref(sd_bus*) {
  return nullptr;
}

} // extern "C"

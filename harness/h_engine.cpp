// Engine h_engine (C02, C05, C06, C11, C13): the real ConfigCompiler + Engine + Ruleset + DetectorGroup
// driven tick by tick with scripted plugins registered in the real plugin registry and a virtual
// CLOCK_MONOTONIC.  The trace is the scripted plugins' call log.
//
// Scenario:
//  {"id":..,
//   "rulesets":[{"rid":0,"delay":"15"|"" ,"hook_timeout":"5"|"","silence":"engine,plugins"|"",
//                "groups":[{"gid":0,"dets":[inst,...]}],"actions":[inst,...],
//                "cgroup":"s/*" (optional), "xattr_filter":"user.x" (optional),
//                "dropin":{"disable":bool,"dg":bool,"act":bool}}],
//   "tree": {...world.h node...} (optional, for ruleset cgroup),
//   "ticks":[{"gap":ns,
//             "calls":{"<inst>":[ret,adv_ns,pause_s|-1]},          // default [0,0,-1]
//             "delta":{...world.h applyDelta...},
//             "ops":[{"op":"add","tag":"t","rulesets":[...]},{"op":"remove","tag":"t"}]}]}   // drop-ins (C13)
// Trace: {"ticks":[[ev,...],...], "ops":[[tick,op-index,ok,{"stat":n}],...]}
//   ev = ["p",inst,key] | ["d",inst,now,key] | ["a",inst,now,ruleset,group,uuid#,deadline,invoking,target,key]
//   key = instance key: "" for the template/base instance, otherwise the `cgroup` argument the
//   per-cgroup copy was initialised with.
#include "common.h"
#include "vclock.h"
#include "world.h"

#include <map>

#include <dlfcn.h>
#include <signal.h>
#include <string.h>

#include "oomd/Log.h"
#include "oomd/Oomd.h"
#include "oomd/OomdContext.h"
#include "oomd/PluginRegistry.h"
#include "oomd/Stats.h"
#include "oomd/config/ConfigCompiler.h"
#include "oomd/config/ConfigTypes.h"
#include "oomd/engine/BasePlugin.h"
#include "oomd/engine/Engine.h"
#include "oomd/engine/Ruleset.h"
#include "oomd/include/CoreStats.h"

using namespace Oomd;

namespace {

struct Call {
  int ret{0};
  int64_t adv{0};
  int64_t pause{-1};
};

std::map<int, Call> g_calls; // this tick's script
Json::Value* g_events = nullptr;
std::map<std::string, int> g_uuid_ids;
int g_live_instances = 0;

int uuidId(const std::string& u) {
  if (u.empty()) return -1;
  auto it = g_uuid_ids.find(u);
  if (it != g_uuid_ids.end()) return it->second;
  int id = (int)g_uuid_ids.size();
  g_uuid_ids[u] = id;
  return id;
}

class Scripted : public Engine::BasePlugin {
 public:
  Scripted() { g_live_instances++; }
  ~Scripted() override { g_live_instances--; }
  int init(const Engine::PluginArgs& args, const PluginConstructionContext&) override {
    auto it = args.find("inst");
    if (it == args.end()) return 1;
    inst_ = std::stoi(it->second);
    auto c = args.find("cgroup");
    key_ = c == args.end() ? "" : c->second;
    if (args.count("fail_init")) return 1;
    return 0;
  }
  void prerun(OomdContext&) override {
    if (!g_events) return;
    Json::Value e(Json::arrayValue);
    e.append("p");
    e.append(inst_);
    e.append(key_);
    g_events->append(e);
  }
  Engine::PluginRet run(OomdContext& ctx) override {
    Call c;
    auto it = g_calls.find(inst_);
    if (it != g_calls.end()) c = it->second;
    const auto& ac = ctx.getActionContext();
    Json::Value e(Json::arrayValue);
    bool isAction = getName() == "vaction";
    e.append(isAction ? "a" : "d");
    e.append(inst_);
    e.append((Json::Int64)vh::g_now_ns);
    if (isAction) {
      e.append(ac.ruleset_name);
      e.append(ac.detectorgroup);
      e.append(uuidId(ac.action_group_run_uuid));
      if (ac.prekill_hook_timeout_ts) {
        e.append((Json::Int64)std::chrono::duration_cast<std::chrono::nanoseconds>(
                     ac.prekill_hook_timeout_ts->time_since_epoch())
                     .count());
      } else {
        e.append(-1);
      }
      e.append(ctx.getInvokingRuleset().has_value());
      e.append(ac.target_cgroup ? ac.target_cgroup->relativePath() : std::string("-"));
    }
    e.append(key_);
    if (g_events) g_events->append(e);
    vh::advanceNs(c.adv);
    if (c.pause >= 0) {
      auto rs = ctx.getInvokingRuleset();
      if (rs) (*rs)->pause_actions(std::chrono::seconds(c.pause));
    }
    switch (c.ret) {
      case 1: return Engine::PluginRet::STOP;
      case 2: return Engine::PluginRet::ASYNC_PAUSED;
      default: return Engine::PluginRet::CONTINUE;
    }
  }
  static Scripted* create() { return new Scripted(); }

 private:
  int inst_{-1};
  std::string key_;
};

bool reg1 = getPluginRegistry().add("vdetector", Scripted::create);
bool reg2 = getPluginRegistry().add("vaction", Scripted::create);

Config2::IR::Ruleset irRuleset(const Json::Value& r) {
  Config2::IR::Ruleset ir;
  ir.name = "r" + std::to_string(r["rid"].asInt());
  for (const auto& g : r["groups"]) {
    Config2::IR::DetectorGroup dg;
    dg.name = "g" + std::to_string(g["gid"].asInt());
    for (const auto& d : g["dets"]) {
      Config2::IR::Detector det;
      det.name = "vdetector";
      det.args["inst"] = std::to_string(d.asInt());
      dg.detectors.push_back(det);
    }
    ir.dgs.push_back(dg);
  }
  for (const auto& a : r["actions"]) {
    Config2::IR::Action act;
    act.name = "vaction";
    if (a.isObject()) {
      act.args["inst"] = std::to_string(a["inst"].asInt());
      if (a.isMember("cgroup")) act.args["cgroup"] = a["cgroup"].asString();
      if (a.get("fail_init", false).asBool()) act.args["fail_init"] = "1";
    } else {
      act.args["inst"] = std::to_string(a.asInt());
    }
    ir.acts.push_back(act);
  }
  ir.post_action_delay = r.get("delay", "").asString();
  ir.prekill_hook_timeout = r.get("hook_timeout", "").asString();
  ir.silence_logs = r.get("silence", "").asString();
  ir.cgroup = r.get("cgroup", "").asString();
  ir.xattr_filter = r.get("xattr_filter", "").asString();
  const auto& d = r["dropin"];
  ir.dropin.disable_on_drop_in = d.get("disable", false).asBool();
  ir.dropin.detectorgroups_enabled = d.get("dg", false).asBool();
  ir.dropin.actiongroup_enabled = d.get("act", false).asBool();
  return ir;
}

// ---- "main_loop": true - the ticks are iterations of the real Oomd::run loop (src/oomd/Oomd.cpp) ------------------------------
// The interposed sigtimedwait is the tick boundary: it closes the previous tick's event list, advances the virtual clock by
// the next tick's gap, installs its script and returns -1/EAGAIN; after the last tick it returns SIGTERM and Oomd::run leaves
// through the (interposed, no-op) pthread_kill.
const Json::Value* g_ml_ticks = nullptr;
Json::Value* g_ml_out = nullptr;
int g_ml_tick = -1;
Json::Value g_ml_cur(Json::arrayValue);

void installCalls(const Json::Value& t) {
  g_calls.clear();
  const Json::Value& calls = t["calls"];
  for (auto it = calls.begin(); it != calls.end(); ++it) {
    Call c;
    c.ret = (*it)[0].asInt();
    c.adv = (*it)[1].asInt64();
    c.pause = (*it)[2].asInt64();
    g_calls[std::stoi(it.key().asString())] = c;
  }
}

int64_t statOf(const std::string& key) {
  auto all = Oomd::getStats();
  auto it = all.find(key);
  return it == all.end() ? 0 : it->second;
}

void runScenario(const Json::Value& sc, Json::Value& out) {
  g_uuid_ids.clear();
  g_calls.clear();
  vh::setNowNs(1000LL * 1000000000LL);
  std::string top = vh::freshDir("eng");
  std::string cgfs = top + "/cg";
  vh::mkdirs(cgfs);
  if (sc.isMember("tree")) vh::materialize(cgfs, sc["tree"]);
  Oomd::resetStats();

  Config2::IR::Root root;
  for (const auto& r : sc["rulesets"]) root.rulesets.push_back(irRuleset(r));
  PluginConstructionContext pcc(cgfs);
  auto engine = Config2::compile(root, pcc);
  if (!engine) {
    out["outcome"] = "compile-failed";
    vh::rmrf(top);
    return;
  }
  Json::Value ticks(Json::arrayValue);
  Json::Value ops(Json::arrayValue);
  int tickNo = 0;
  if (sc.get("main_loop", false).asBool()) {
    g_ml_ticks = &sc["ticks"];
    g_ml_out = &ticks;
    g_ml_tick = -1;
    g_ml_cur = Json::Value(Json::arrayValue);
    g_events = &g_ml_cur;
    {
      auto ir = std::make_unique<Config2::IR::Root>(root);
      Oomd::Oomd oomd(std::move(ir), std::move(engine), 5, cgfs, "");
      sigset_t mask;
      sigemptyset(&mask);
      oomd.run(&mask);
    }
    g_events = nullptr;
    g_ml_ticks = nullptr;
    out["ticks"] = ticks;
    out["ops"] = ops;
    out["main_loop"] = true;
    out["leaked_instances"] = g_live_instances;
    vh::rmrf(top);
    return;
  }
  for (const auto& t : sc["ticks"]) {
    vh::advanceNs(t["gap"].asInt64());
    if (t.isMember("delta")) vh::applyDelta(cgfs, t["delta"]);
    // drop-in operations happen before the tick's prerun (Oomd::run: updateDropIns first)
    int opNo = 0;
    for (const auto& op : t["ops"]) {
      Json::Value o(Json::arrayValue);
      o.append(tickNo);
      o.append(opNo++);
      std::string tag = op["tag"].asString();
      if (op["op"].asString() == "add") {
        Config2::IR::Root droot;
        for (const auto& r : op["rulesets"]) droot.rulesets.push_back(irRuleset(r));
        // mirror DropInServiceAdaptor::updateDropIns: remove then add when the compile succeeded
        auto unit = Config2::compileDropIn(root, droot, pcc);
        if (unit.has_value()) {
          engine->removeDropInConfig(tag);
          bool ok = engine->addDropInConfig(tag, std::move(*unit));
          o.append(ok ? "added" : "add-failed");
        } else {
          o.append("compile-failed");
        }
      } else {
        engine->removeDropInConfig(tag);
        o.append("removed");
      }
      o.append((Json::Int64)statOf(CoreStats::kNumDropInAdds));
      ops.append(o);
    }
    g_calls.clear();
    const Json::Value& calls = t["calls"];
    for (auto it = calls.begin(); it != calls.end(); ++it) {
      Call c;
      c.ret = (*it)[0].asInt();
      c.adv = (*it)[1].asInt64();
      c.pause = (*it)[2].asInt64();
      g_calls[std::stoi(it.key().asString())] = c;
    }
    Json::Value evs(Json::arrayValue);
    g_events = &evs;
    OomdContext ctx;
    engine->prerun(ctx);
    engine->runOnce(ctx);
    g_events = nullptr;
    ticks.append(evs);
    tickNo++;
  }
  out["ticks"] = ticks;
  out["ops"] = ops;
  out["fired_stat"] = (Json::Int64)statOf(CoreStats::kNumDropInFired);
  engine.reset();
  out["leaked_instances"] = g_live_instances;
  vh::rmrf(top);
}

} // namespace

extern "C" {
// Oomd::updateContext (main_loop mode) parses /proc/swaps and insists on its own idea of the format; what the host's file looks
// like is none of the scenario's business: it reads as empty here (no swap)
FILE* fopen64(const char* path, const char* mode) {
  using fn = FILE* (*)(const char*, const char*);
  static fn real = (fn)dlsym(RTLD_NEXT, "fopen64");
  if (path && strcmp(path, "/proc/swaps") == 0) return real("/dev/null", mode);
  return real(path, mode);
}
FILE* fopen(const char* path, const char* mode) { return fopen64(path, mode); }

int pthread_kill(pthread_t, int) { return 0; }

int sigtimedwait(const sigset_t*, siginfo_t*, const struct timespec*) {
  if (!g_ml_ticks) { errno = EAGAIN; return -1; }
  if (g_ml_tick >= 0) {             // close the tick that just ran
    g_ml_out->append(g_ml_cur);
    g_ml_cur = Json::Value(Json::arrayValue);
  }
  g_ml_tick++;
  if (g_ml_tick >= (int)g_ml_ticks->size()) return SIGTERM;
  const Json::Value& t = (*g_ml_ticks)[g_ml_tick];
  vh::advanceNs(t["gap"].asInt64());
  installCalls(t);
  errno = EAGAIN;
  return -1;
}
}

int main() {
  std::string sock = vh::scratchRoot() + "/stats-" + std::to_string(getpid()) + ".sock";
  vh::mkdirs(vh::scratchRoot());
  vh::g_vclock_on = false;
  Stats::init(sock);
  vh::g_vclock_on = true;
  vh::lineLoop(runScenario);
  ::unlink(sock.c_str());
  vh::finish(0);
}

// Engine h_rank (C09): the five real kill plugins, created through the real plugin registry and
// initialised with generated arguments, rank sibling cgroups of a scratch cgroup tree whose control
// files (memory.current, memory.min/low, memory.swap.current, memory.pressure, io.pressure,
// memory.stat, io.stat, meminfo) are written per tick from the scenario.
//
// The whole ranked order is obtained by calling the plugin's own (virtual, protected)
// rankForKilling on the registry-created object, with the cgroup set BaseKillPlugin::run would pass
// (PluginArgParser::parseCgroup + OomdContext::addToCacheAndGet).  Tick protocol as in Oomd::run:
// refresh(), bumpCurrentTick(), prerun() every tick; kill_by_pg_scan additionally gets its first
// run() (which only collects data and answers ASYNC_PAUSED) on the tick before the ranking tick and the
// same sampling (BaseKillPlugin::prerunOnCgroups with pg_scan_rate) on earlier ticks.  Individual
// siblings can have a missed read on a tick (memory.stat / io.stat absent, pgscan line missing).
// After the ranking the statistics the plugin saw are read back from the same per-tick cache and
// printed bit-exactly (floating-point values as IEEE bit patterns).
#include "common.h"

#include <cmath>
#include <cstring>
#include <memory>

#include "oomd/OomdContext.h"
#include "oomd/PluginConstructionContext.h"
#include "oomd/PluginRegistry.h"
#include "oomd/plugins/BaseKillPlugin.h"
#include "oomd/util/PluginArgParser.h"

#include <sys/xattr.h>

using namespace Oomd;

namespace {

// rankForKilling is a protected virtual of BaseKillPlugin; a pointer to member formed through a
// derived class may be applied to any BaseKillPlugin object (virtual dispatch reaches the real plugin).
struct Access : BaseKillPlugin {
  static std::vector<OomdContext::ConstCgroupContextRef> rank(
      BaseKillPlugin& p,
      OomdContext& ctx,
      const std::vector<OomdContext::ConstCgroupContextRef>& v) {
    return (p.*(&Access::rankForKilling))(ctx, v);
  }
};

std::string u64bits(double d) {
  uint64_t u;
  memcpy(&u, &d, 8);
  return std::to_string(u);
}
std::string u32bits(float f) {
  uint32_t u;
  memcpy(&u, &f, 4);
  return std::to_string(u);
}

std::string S(const Json::Value& v, const char* k, const char* dflt) {
  return v.isMember(k) ? v[k].asString() : std::string(dflt);
}

// files of one cgroup directory for one tick
void writeTick(const std::string& dir, const Json::Value& t) {
  vh::mkdirs(dir);
  vh::writeFile(dir + "/cgroup.controllers", "memory io\n");
  vh::writeFile(dir + "/memory.current", S(t, "cur", "0") + "\n");
  vh::writeFile(dir + "/memory.min", S(t, "min", "0") + "\n");
  vh::writeFile(dir + "/memory.low", S(t, "low", "0") + "\n");
  vh::writeFile(dir + "/memory.swap.current", S(t, "swap", "0") + "\n");
  vh::writeFile(
      dir + "/memory.pressure",
      "some avg10=0.00 avg60=0.00 avg300=0.00 total=0\nfull avg10=" + S(t, "mp10", "0.00") +
          " avg60=" + S(t, "mp60", "0.00") + " avg300=0.00 total=1\n");
  vh::writeFile(
      dir + "/io.pressure",
      "some avg10=0.00 avg60=0.00 avg300=0.00 total=0\nfull avg10=" + S(t, "ip10", "0.00") +
          " avg60=" + S(t, "ip60", "0.00") + " avg300=0.00 total=1\n");
  // "miss": a missed read on this tick - "memstat" (memory.stat absent), "nopgscan" (no pgscan line),
  // "iostat" (io.stat absent); the cgroup itself stays valid
  std::string miss = S(t, "miss", "");
  if (miss == "memstat") {
    ::unlink((dir + "/memory.stat").c_str());
  } else if (miss == "nopgscan") {
    vh::writeFile(dir + "/memory.stat", "anon 0\nfile 0\npgsteal 0\n");
  } else {
    vh::writeFile(
        dir + "/memory.stat",
        "anon 0\nfile 0\npgscan " + S(t, "pgscan", "0") + "\npgsteal 0\n");
  }
  std::string io;
  // [[dev, rbytes, wbytes, rios, wios, dbytes, dios], ...] as strings, in file order
  for (const auto& a : t["io"]) {
    io += a[0].asString() + " rbytes=" + a[1].asString() + " wbytes=" + a[2].asString() +
        " rios=" + a[3].asString() + " wios=" + a[4].asString() + " dbytes=" + a[5].asString() +
        " dios=" + a[6].asString() + "\n";
  }
  if (miss == "iostat") {
    ::unlink((dir + "/io.stat").c_str());
  } else {
    vh::writeFile(dir + "/io.stat", io);
  }
}

void setPref(const std::string& dir, const std::string& pref) {
  auto set = [&](const char* n) { ::setxattr(dir.c_str(), n, "1", 1, 0); };
  if (pref == "prefer") set("trusted.oomd_prefer");
  else if (pref == "avoid") set("trusted.oomd_avoid");
  else if (pref == "both") { set("trusted.oomd_prefer"); set("trusted.oomd_avoid"); }
  else if (pref == "uprefer") set("user.oomd_prefer");
  else if (pref == "uavoid") set("user.oomd_avoid");
}

IOCostCoeffs coeffs(const Json::Value& a) {
  IOCostCoeffs c;
  if (a.size() == 6) {
    c.read_iops = strtod(a[0].asCString(), nullptr);
    c.readbw = strtod(a[1].asCString(), nullptr);
    c.write_iops = strtod(a[2].asCString(), nullptr);
    c.writebw = strtod(a[3].asCString(), nullptr);
    c.trim_iops = strtod(a[4].asCString(), nullptr);
    c.trimbw = strtod(a[5].asCString(), nullptr);
  }
  return c;
}

template <class T>
Json::Value optI(const std::optional<T>& o) {
  if (!o) return Json::nullValue;
  return std::to_string((int64_t)*o);
}

void runScenario(const Json::Value& sc, Json::Value& out, const std::string& top) {
  std::string fs = top + "/fs";
  int depth = sc.get("depth", 1).asInt();
  // depth 3: fs/g (grandparent, "gparent") / {w (parent, "parent"), u (its sibling, "uncle")} / siblings
  std::string base = depth == 3 ? fs + "/g/w" : depth == 2 ? fs + "/w" : fs;
  std::string rel = depth == 3 ? "g/w/" : depth == 2 ? "w/" : "";
  int nticks = sc.get("nticks", 1).asInt();
  const Json::Value& sibs = sc["sibs"];
  std::string plugin = sc["plugin"].asString();

  vh::mkdirs(fs);
  vh::writeFile(fs + "/cgroup.controllers", "memory io\n");
  // meminfo (kB values as decimal strings)
  std::string mi;
  const Json::Value& m = sc["meminfo"];
  for (auto it = m.begin(); it != m.end(); ++it) {
    mi += it.key().asString() + ":       " + it->asString() + " kB\n";
  }
  vh::writeFile(top + "/meminfo", mi);

  Engine::PluginArgs args;
  const Json::Value& a = sc["args"];
  for (auto it = a.begin(); it != a.end(); ++it) args[it.key().asString()] = it->asString();
  std::string cg;
  bool all = true;
  for (const auto& s : sibs) if (!s.get("target", true).asBool()) all = false;
  if (all) {
    cg = rel + "*";
  } else {
    for (const auto& s : sibs) {
      if (!s.get("target", true).asBool()) continue;
      if (!cg.empty()) cg += ",";
      cg += rel + s["name"].asString();
    }
  }
  args["cgroup"] = cg;
  args["dry"] = "true";
  if (plugin == "kill_by_swap_usage") args["meminfo_location"] = top + "/meminfo";

  PluginConstructionContext pcc(fs);
  std::unique_ptr<Engine::BasePlugin> bp(getPluginRegistry().create(plugin));
  auto* kp = dynamic_cast<BaseKillPlugin*>(bp.get());
  if (!kp) {
    out["outcome"] = "bad-plugin";
    return;
  }
  bp->setName(plugin);
  int rc = bp->init(args, pcc);
  out["init"] = rc;
  if (rc != 0) {
    return;
  }

  ContextParams params;
  params.io_devs["8:0"] = DeviceType::SSD;
  params.io_devs["8:16"] = DeviceType::HDD;
  params.ssd_coeffs = coeffs(sc["ssd"]);
  params.hdd_coeffs = coeffs(sc["hdd"]);
  OomdContext ctx(params);

  auto cgroups = PluginArgParser::parseCgroup(pcc, cg);

  for (int t = 0; t < nticks; t++) {
    if (depth >= 2) writeTick(base, sc["parent"][std::min<int>(t, (int)sc["parent"].size() - 1)]);
    if (depth == 3) {
      writeTick(fs + "/g", sc["gparent"][std::min<int>(t, (int)sc["gparent"].size() - 1)]);
      writeTick(fs + "/g/u", sc["uncle"][std::min<int>(t, (int)sc["uncle"].size() - 1)]);
    }
    for (const auto& s : sibs) {
      int born = s.get("born", 0).asInt();
      if (t < born) continue;
      std::string d = base + "/" + s["name"].asString();
      const Json::Value& tk = s["ticks"];
      writeTick(d, tk[std::min<int>(t - born, (int)tk.size() - 1)]);
      if (t == born) setPref(d, s.get("pref", "none").asString());
    }
    ctx.refresh();
    ctx.bumpCurrentTick();
    bp->prerun(ctx);
    if (plugin == "kill_by_pg_scan" && t == nticks - 2) {
      auto r = bp->run(ctx);
      out["first_run"] = (int)r;
    } else if (plugin == "kill_by_pg_scan" && t < nticks - 2) {
      // earlier firings of the action: the sampling statement of KillPgScan::run, on the plugin's own cgroup set
      // (calling run() itself here would already rank and dry-kill)
      kp->prerunOnCgroups(ctx, [](const auto& c) { c.pg_scan_rate(); });
    }
    if (t != nticks - 1) continue;

    auto input = ctx.addToCacheAndGet(cgroups);
    auto ranked = Access::rank(*kp, ctx, input);
    Json::Value order(Json::arrayValue);
    for (const CgroupContext& c : ranked) order.append(c.cgroup().relativePathParts().back());
    out["order"] = order;
    Json::Value in(Json::arrayValue);
    Json::Value stats(Json::objectValue);
    for (const CgroupContext& c : input) {
      std::string name = c.cgroup().relativePathParts().back();
      in.append(name);
      Json::Value st(Json::objectValue);
      st["cur"] = optI(c.current_usage());
      st["prot"] = optI(c.memory_protection());
      st["eff"] = optI(c.effective_usage());
      st["avg"] = optI(c.average_usage());
      if (auto g = c.memory_growth()) st["growth"] = u64bits(*g); else st["growth"] = Json::nullValue;
      st["swap"] = optI(c.swap_usage());
      if (const auto& p = c.mem_pressure()) { st["mp10"] = u32bits(p->sec_10); st["mp60"] = u32bits(p->sec_60); }
      if (const auto& p = c.io_pressure()) { st["ip10"] = u32bits(p->sec_10); st["ip60"] = u32bits(p->sec_60); }
      if (auto r = c.io_cost_rate()) st["iorate"] = u64bits(*r); else st["iorate"] = Json::nullValue;
      if (auto r = c.io_cost_cumulative()) st["iocum"] = u64bits(*r); else st["iocum"] = Json::nullValue;
      st["pgrate"] = optI(c.pg_scan_rate());
      st["pgcum"] = optI(c.pg_scan_cumulative());
      if (auto k = c.kill_preference()) st["pref"] = (int)*k; else st["pref"] = Json::nullValue;
      stats[name] = st;
    }
    out["input"] = in;
    out["stats"] = stats;
  }
}

} // namespace

int main() {
  return vh::lineLoop([](const Json::Value& sc, Json::Value& out) {
    std::string top = vh::freshDir("rank");
    try {
      runScenario(sc, out, top);
    } catch (const std::exception& e) {
      out["outcome"] = std::string("uncaught:") + e.what();
    }
    vh::rmrf(top);
  });
}

#!/bin/sh
# usage: tools/try_mutation.sh <patch-file|-> <prop> [<prop>...]
# Applies a patch (or a sed script given via MUT_SED='file:::s/a/b/') to a scratch worktree of /repo and
# runs the named checks against it (VERIF_REPO), then removes the worktree.  /repo is never touched.
set -e
P="$1"; shift
WT=/tmp/wt-mut-$$
git -C /repo worktree add --detach "$WT" HEAD >/dev/null 2>&1
trap 'git -C /repo worktree remove --force "$WT" >/dev/null 2>&1' EXIT
if [ "$P" != "-" ]; then git -C "$WT" apply "$P"; fi
if [ -n "$MUT_SED" ]; then
  f="${MUT_SED%%:::*}"; s="${MUT_SED#*:::}"
  sed -i "$s" "$WT/$f"
fi
git -C "$WT" diff --stat | tail -1
for prop in "$@"; do
  VERIF_REPO="$WT" "$(dirname "$0")/../check" "$prop" 2>&1 | grep -E "VIOLATION|KNOWN|INFRA|^\[$prop\]" | cut -c1-220
done

#!/usr/bin/env python3
"""Translator for the table-like part of oomd: regenerates OomdModel/Generated/*.lean from the
sources in --repo on every run.  Constants, enum values, file / xattr names, plugin argument
schemas.  The behavioural part of the code is tied by the correspondence check instead.

A table entry that can no longer be found in the source is emitted as a comment; theorems that
mention it then fail to build, which the check reports as a broken proof obligation.

Prints one JSON line (report) on stdout.
"""
import argparse
import json
import os
import re
import sys


def read(repo, rel):
    try:
        return open(os.path.join(repo, rel)).read()
    except OSError:
        return ""


def strip_comments(s):
    s = re.sub(r"/\*.*?\*/", "", s, flags=re.S)
    return re.sub(r"//[^\n]*", "", s)


# (lean name, file, regex with one group, kind)
NAT_CONSTS = [
    ("defaultPostActionDelay", "src/oomd/engine/Ruleset.h", r"#define\s+DEFAULT_POST_ACTION_DELAY\s+(\d+)"),
    ("defaultPrekillHookTimeout", "src/oomd/engine/Ruleset.h", r"#define\s+DEFAULT_PREKILL_HOOK_TIMEOUT\s+(\d+)"),
    ("logSourceEngine", "src/oomd/engine/EngineTypes.h", r"ENGINE\s*=\s*1\s*<<\s*(\d+)"),
    ("logSourcePlugins", "src/oomd/engine/EngineTypes.h", r"PLUGINS\s*=\s*1\s*<<\s*(\d+)"),
    ("killPidStreamSize", "src/oomd/plugins/BaseKillPlugin.cpp", r"stream_size\s*=\s*(\d+)"),
    ("killRetries", "src/oomd/plugins/BaseKillPlugin.cpp", r"int\s+tries\s*=\s*(\d+)"),
    ("statsMsgBufSize", "src/oomd/Stats.cpp", r"char\s+\w+\[(\d+)\]"),
    ("killStreamSize", "src/oomd/plugins/BaseKillPlugin.cpp", r"streamSize\s*=\s*(\d+)"),  # kill family
    # systemd_restart: default of post_action_delay (member initialiser); the plugin sleeps that long inside run()
    ("restartDefPostActionDelay", "src/oomd/plugins/systemd/SystemdRestart.h", r"int\s+post_action_delay_\{(\d+)\}"),
    # C19 stats service: read window, per-read socket timeout (s), destructor wait (s), sizeof(sun_path)
    ("statsReadWindow", "src/oomd/Stats.cpp", r"num_read\s*<\s*(\d+)"),
    ("statsIoTimeoutSec", "src/oomd/Stats.cpp", r"io_timeout\s*\{\s*\.tv_sec\s*=\s*(\d+)"),
    ("statsShutdownWaitSec", "src/oomd/Stats.cpp", r"wait_for\(\s*lock\s*,\s*std::chrono::seconds\((\d+)\)"),
    ("statsListenBacklog", "src/oomd/Stats.cpp", r"::listen\(\s*sockfd_\s*,\s*(\d+)\)"),
    ("sunPathSize", "/usr/include/x86_64-linux-gnu/sys/un.h", r"char\s+sun_path\[(\d+)\]"),
    # C18 senpai: member initialisers of Senpai.h (argument defaults) and the memory.high.tmp duration
    ("senpaiDefLimitMinMiB", "src/oomd/plugins/Senpai.h", r"limit_min_bytes_\{(\d+)ull\s*<<\s*20\}"),
    ("senpaiDefLimitMaxGiB", "src/oomd/plugins/Senpai.h", r"limit_max_bytes_\{(\d+)ull\s*<<\s*30\}"),
    ("senpaiDefInterval", "src/oomd/plugins/Senpai.h", r"int64_t\s+interval_\{(\d+)\}"),
    ("senpaiDefPressureMs", "src/oomd/plugins/Senpai.h", r"pressure_ms_\{(\d+)\}"),
    ("senpaiDefSwapoutBpsShift", "src/oomd/plugins/Senpai.h", r"swapout_bps_threshold_\{1ull\s*<<\s*(\d+)\}"),
    ("senpaiHighTmpSeconds", "src/oomd/plugins/Senpai.cpp", r"writeMemhightmpAt\(\s*cgroup_ctx\.fd\(\)\s*,\s*value\s*,\s*std::chrono::seconds\(([1-9]\d*)\)"),
    # C08 detectors: weights of the watched-cgroup score, initial `last_pressure_` of pressure_rising_beyond
    ("detectScoreW10", "src/oomd/plugins/PressureAbove.cpp", r"rp\.sec_10\s*\*\s*(\d+)\s*\+\s*rp\.sec_60"),
    ("detectScoreW60", "src/oomd/plugins/PressureAbove.cpp", r"rp\.sec_60\s*\*\s*(\d+)\s*\+\s*rp\.sec_300\s*>"),
    ("detectRisingScoreW10", "src/oomd/plugins/PressureRisingBeyond.cpp", r"rp\.sec_10\s*\*\s*(\d+)\s*\+\s*rp\.sec_60"),
    ("detectRisingScoreW60", "src/oomd/plugins/PressureRisingBeyond.cpp", r"rp\.sec_60\s*\*\s*(\d+)\s*\+\s*rp\.sec_300\s*>"),
    ("detectRisingInitLast10", "src/oomd/plugins/PressureRisingBeyond.h", r"last_pressure_\{\s*(\d+)\s*,"),
]

INT_CONSTS = [
    ("killPrefPrefer", "src/oomd/include/Types.h", r"PREFER\s*=\s*(-?\d+)"),
    ("killPrefNormal", "src/oomd/include/Types.h", r"NORMAL\s*=\s*(-?\d+)"),
    ("killPrefAvoid", "src/oomd/include/Types.h", r"AVOID\s*=\s*(-?\d+)"),
]

STR_CONSTS = [
    ("statKills", "src/oomd/include/CoreStats.h", r'kKillsKey\s*=\s*"([^"]*)"'),
    ("statDropInAdds", "src/oomd/include/CoreStats.h", r'kNumDropInAdds\s*=\s*"([^"]*)"'),
    ("statDropInFired", "src/oomd/include/CoreStats.h", r'kNumDropInFired\s*=\s*"([^"]*)"'),
    # kill family (C01/C03/C04/C17): accounting xattrs of BaseKillPlugin.cpp, preference xattrs of Fs.h
    ("xattrOomsTrusted", "src/oomd/plugins/BaseKillPlugin.cpp", r'kOomdKillInitiationTrustedXattr\s*=\s*"([^"]*)"'),
    ("xattrOomsUser", "src/oomd/plugins/BaseKillPlugin.cpp", r'kOomdKillInitiationUserXattr\s*=\s*"([^"]*)"'),
    ("xattrKillTrusted", "src/oomd/plugins/BaseKillPlugin.cpp", r'kOomdKillCompletionTrustedXattr\s*=\s*"([^"]*)"'),
    ("xattrKillUser", "src/oomd/plugins/BaseKillPlugin.cpp", r'kOomdKillCompletionUserXattr\s*=\s*"([^"]*)"'),
    ("xattrUuidTrusted", "src/oomd/plugins/BaseKillPlugin.cpp", r'kOomdKillUuidTrustedXattr\s*=\s*"([^"]*)"'),
    ("xattrUuidUser", "src/oomd/plugins/BaseKillPlugin.cpp", r'kOomdKillUuidUserXattr\s*=\s*"([^"]*)"'),
    ("xattrPreferTrusted", "src/oomd/util/Fs.h", r'kOomdSystemPreferXAttr\s*=\s*"([^"]*)"'),
    ("xattrPreferUser", "src/oomd/util/Fs.h", r'kOomdUserPreferXAttr\s*=\s*"([^"]*)"'),
    ("xattrAvoidTrusted", "src/oomd/util/Fs.h", r'kOomdSystemAvoidXAttr\s*=\s*"([^"]*)"'),
    ("xattrAvoidUser", "src/oomd/util/Fs.h", r'kOomdUserAvoidXAttr\s*=\s*"([^"]*)"'),
    ("fileCgroupKill", "src/oomd/util/Fs.h", r'kCgroupKill\s*=\s*"([^"]*)"'),
    ("fileCgroupFreeze", "src/oomd/util/Fs.h", r'kCgroupFreeze\s*=\s*"([^"]*)"'),
    ("fileCgroupProcs", "src/oomd/util/Fs.h", r'kProcsFile\s*=\s*"([^"]*)"'),
    # C18 senpai: control files written, double-typed argument defaults (decimal text)
    ("senpaiFileMemHigh", "src/oomd/util/Fs.h", r'kMemHighFile\s*=\s*"([^"]*)"'),
    ("senpaiFileMemHighTmp", "src/oomd/util/Fs.h", r'kMemHighTmpFile\s*=\s*"([^"]*)"'),
    ("senpaiFileMemReclaim", "src/oomd/util/Fs.h", r'kMemReclaimFile\s*=\s*"([^"]*)"'),
    ("senpaiDefPressurePct", "src/oomd/plugins/Senpai.h", r"mem_pressure_pct_\{([0-9.]+)\}"),
    ("senpaiDefIoPressurePct", "src/oomd/plugins/Senpai.h", r"io_pressure_pct_\{([0-9.]+)\}"),
    ("senpaiDefMaxProbe", "src/oomd/plugins/Senpai.h", r"max_probe_\{([0-9.]+)\}"),
    ("senpaiDefMaxBackoff", "src/oomd/plugins/Senpai.h", r"max_backoff_\{([0-9.]+)\}"),
    ("senpaiDefCoeffProbe", "src/oomd/plugins/Senpai.h", r"coeff_probe_\{([0-9.]+)\}"),
    ("senpaiDefCoeffBackoff", "src/oomd/plugins/Senpai.h", r"coeff_backoff_\{([0-9.]+)\}"),
    ("senpaiDefSwapThreshold", "src/oomd/plugins/Senpai.h", r"swap_threshold_\{([0-9.]+)\}"),
    # C08: default of pressure_rising_beyond's fast_fall_ratio (member initialiser)
    ("detectRisingDefFastFallRatio", "src/oomd/plugins/PressureRisingBeyond.h", r"fast_fall_ratio_\{([0-9.]+)\}"),
    # C15: control files read by CgroupContext (Fs.h), moving-average decay (OomdContext.h, decimal text)
    ("fsMemCurrent", "src/oomd/util/Fs.h", r'kMemCurrentFile\s*=\s*"([^"]*)"'),
    ("fsMemLow", "src/oomd/util/Fs.h", r'kMemLowFile\s*=\s*"([^"]*)"'),
    ("fsMemMin", "src/oomd/util/Fs.h", r'kMemMinFile\s*=\s*"([^"]*)"'),
    ("fsMemHigh", "src/oomd/util/Fs.h", r'kMemHighFile\s*=\s*"([^"]*)"'),
    ("fsMemHighTmp", "src/oomd/util/Fs.h", r'kMemHighTmpFile\s*=\s*"([^"]*)"'),
    ("fsMemMax", "src/oomd/util/Fs.h", r'kMemMaxFile\s*=\s*"([^"]*)"'),
    ("fsMemStat", "src/oomd/util/Fs.h", r'kMemStatFile\s*=\s*"([^"]*)"'),
    ("fsMemPressure", "src/oomd/util/Fs.h", r'kMemPressureFile\s*=\s*"([^"]*)"'),
    ("fsIoPressure", "src/oomd/util/Fs.h", r'kIoPressureFile\s*=\s*"([^"]*)"'),
    ("fsIoStat", "src/oomd/util/Fs.h", r'kIoStatFile\s*=\s*"([^"]*)"'),
    ("fsSwapCurrent", "src/oomd/util/Fs.h", r'kMemSwapCurrentFile\s*=\s*"([^"]*)"'),
    ("fsSwapMax", "src/oomd/util/Fs.h", r'kMemSwapMaxFile\s*=\s*"([^"]*)"'),
    ("fsEvents", "src/oomd/util/Fs.h", r'kEventsFile\s*=\s*"([^"]*)"'),
    ("fsCgroupStat", "src/oomd/util/Fs.h", r'kCgroupStatFile\s*=\s*"([^"]*)"'),
    ("fsOomGroup", "src/oomd/util/Fs.h", r'kMemOomGroupFile\s*=\s*"([^"]*)"'),
    ("fsControllers", "src/oomd/util/Fs.h", r'kControllersFile\s*=\s*"([^"]*)"'),
    ("ctxAverageSizeDecay", "src/oomd/OomdContext.h", r"average_size_decay\{([0-9.]+)\}"),
    # C11: the plugin argument a per-cgroup action copy gets by default (registerRunnableRulesetForCgroupPath)
    ("rulesetCgroupArgName", "src/oomd/engine/Ruleset.cpp", r'args\.try_emplace\(\s*"([^"\n]*)"'),
]

# free-form expressions evaluated by python (e.g. `1024 * 1024`)
EXPR_CONSTS = [
    ("logMaxSize", "src/oomd/Log.h", r"\bsize_t\s+maxSize\s*\{\s*([0-9*\s<]+)\}"),  # C20: AsyncLogState::maxSize
]


def enum_order(src, enum_name):
    m = re.search(r"enum\s+(?:class|struct)?\s*" + enum_name + r"\s*\{([^}]*)\}", src)
    if not m:
        return None
    names = []
    val = -1
    out = []
    for item in m.group(1).split(","):
        item = item.strip()
        if not item:
            continue
        if "=" in item:
            n, v = item.split("=")
            try:
                val = int(v.strip(), 0)
            except ValueError:
                return None
            n = n.strip()
        else:
            n = item
            val += 1
        out.append((n, val))
    return out


def lean_str(s):
    return '"' + s.replace("\\", "\\\\").replace('"', '\\"') + '"'


def plugin_schemas(repo):
    """(plugin name -> [(arg, required, kind)]) from argParser_.addArgument* calls in init()"""
    out = {}
    pdir = os.path.join(repo, "src/oomd/plugins")
    regs = {}
    for root, _, fs in os.walk(pdir):
        for f in sorted(fs):
            if not (f.endswith(".cpp") or f.endswith(".h")):
                continue
            src = strip_comments(open(os.path.join(root, f)).read())
            for m in re.finditer(r"REGISTER_(PLUGIN|PREKILL_HOOK)\(\s*(\w+)\s*,\s*([\w:<>]+)::create\s*\)", src):
                regs[m.group(2)] = (m.group(3), m.group(1), os.path.join(root, f))
    for name, (cls, kind, path) in sorted(regs.items()):
        base = re.sub(r"<.*", "", cls).split("::")[-1]
        args = []
        cands = [path]
        d = os.path.dirname(path)
        for ext in ("-inl.h", ".cpp", ".h"):
            p = os.path.join(d, base + ext)
            if os.path.exists(p) and p not in cands:
                cands.append(p)
        for p in cands:
            src = strip_comments(open(p).read())
            for m in re.finditer(r"argParser_\.addArgument(Custom)?\(\s*\"([^\"]+)\"\s*,\s*(\w+)(.*?)\)\s*;", src, re.S):
                rest = m.group(4)
                required = bool(re.search(r",\s*true\s*$", rest.strip()))
                args.append((m.group(2), required, "custom" if m.group(1) else "plain"))
        inherits_kill = False
        for p in cands:
            if re.search(r"BaseKillPlugin", open(p).read()):
                inherits_kill = True
        out[name] = {"class": cls, "kind": kind, "args": args, "kill": inherits_kill}
    return out


# ---- C12: typed argument schemas (Generated/ArgSchemas.lean) --------------------------------
# For every registered plugin: (argument name, required?, kind) in registration order, where kind is
# the parser the code attaches: the destination member's C++ type for addArgument (parseValue<T>),
# or a classification of the custom parser expression for addArgumentCustom.  Kill plugins get the
# arguments of BaseKillPlugin::init appended, prekill hooks those of PrekillHook::init.
C12_TYPE_KINDS = [
    (r"std::chrono::milliseconds", "ms"), (r"int64_t", "int64"), (r"ResourceType", "resource"),
    (r"std::string", "string"), (r"double", "double"), (r"float", "float"), (r"bool", "bool"), (r"int", "int"),
]
C12_KINDS = ["int", "int64", "bool", "double", "float", "string", "ms", "resource", "cgroup", "uint",
             "sizepct", "pct100", "nonempty", "unknown"]


def c12_member_kind(member, srcs):
    for src in srcs:
        m = re.search(r"^[ \t]*([\w:]+(?:\s*<[^;{}()]*>)?)\s+" + re.escape(member) + r"\s*(?:\{[^;]*\}|=[^;]*)?;", src, re.M)
        if m:
            ty = m.group(1)
            for rx, k in C12_TYPE_KINDS:
                if re.fullmatch(rx, ty):
                    return k
            return "unknown"
    return "unknown"


def c12_custom_kind(expr):
    if "parseCgroup" in expr:
        return "cgroup"
    if "parseSizeOrPercent" in expr:
        return "sizepct"
    if re.search(r">=\s*100", expr) and re.search(r"<\s*0", expr):
        return "pct100"
    if re.fullmatch(r"\s*PluginArgParser::parseUnsignedInt\s*", expr):
        return "uint"
    if re.search(r"\.empty\(\)", expr) and "return str" in expr:
        return "nonempty"
    return "unknown"


def c12_split_top(s):
    """split an argument list at top-level commas"""
    out, depth, cur, q = [], 0, "", None
    for ch in s:
        if q:
            cur += ch
            if ch == q:
                q = None
            continue
        if ch in "\"'":
            q = ch
            cur += ch
        elif ch in "([{":
            depth += 1
            cur += ch
        elif ch in ")]}":
            depth -= 1
            cur += ch
        elif ch == "," and depth == 0:
            out.append(cur)
            cur = ""
        else:
            cur += ch
    if cur.strip():
        out.append(cur)
    return [x.strip() for x in out]


def c12_calls(src):
    """every argParser_.addArgument[Custom](...) call of src as (custom?, [args])"""
    res = []
    for m in re.finditer(r"argParser_\s*\.\s*addArgument(Custom)?\s*\(", src):
        i, depth = m.end(), 1
        while i < len(src) and depth:
            depth += {"(": 1, ")": -1}.get(src[i], 0)
            i += 1
        res.append((bool(m.group(1)), c12_split_top(src[m.end():i - 1])))
    return res


def c12_args_of(src, decl_srcs):
    args = []
    for custom, parts in c12_calls(src):
        if len(parts) < 2:
            continue
        nm = parts[0]
        if nm.startswith('"'):
            name = nm.strip('"')
        else:
            m = re.search(r"\b" + re.escape(nm) + r"\s*=\s*\"([^\"]+)\"", src)
            name = m.group(1) if m else "?" + nm
        if custom:
            kind = c12_custom_kind(parts[2]) if len(parts) > 2 else "unknown"
            required = len(parts) > 3 and parts[3] == "true"
        else:
            kind = c12_member_kind(parts[1], decl_srcs)
            required = len(parts) > 2 and parts[2] == "true"
        args.append((name, required, kind))
    return args


def typed_arg_schemas(repo):
    """[(plugin, is_hook, is_kill, checks_args, [(arg, required, kind)])] - also used by vlib/props/C12.py"""
    sch = plugin_schemas(repo)
    pdir = os.path.join(repo, "src/oomd/plugins")
    base_kill = strip_comments(read(repo, "src/oomd/plugins/BaseKillPlugin.cpp"))
    base_kill_h = strip_comments(read(repo, "src/oomd/plugins/BaseKillPlugin.h"))
    hook_h = strip_comments(read(repo, "src/oomd/engine/PrekillHook.h"))
    # only plugins whose registering translation unit is part of the build are in the registry
    # (KernelPanic.cpp, for one, is not listed in meson.build)
    built = set(re.findall(r"(src/oomd/[\w/.-]+\.cpp)", read(repo, "meson.build")))
    items = []
    for name, d in sorted(sch.items()):
        base = re.sub(r"<.*", "", d["class"]).split("::")[-1]
        reg_unit = None
        for root, _, fs in os.walk(pdir):
            for f in sorted(fs):
                if f.endswith(".cpp") and re.search(r"REGISTER_(PLUGIN|PREKILL_HOOK)\(\s*" + re.escape(name) + r"\s*,",
                                                      strip_comments(open(os.path.join(root, f)).read())):
                    reg_unit = os.path.relpath(os.path.join(root, f), repo)
        if built and reg_unit not in built:
            continue
        srcs = []
        for root, _, fs in os.walk(pdir):
            for f in sorted(fs):
                if f in (base + ".cpp", base + ".h", base + "-inl.h"):
                    srcs.append(strip_comments(open(os.path.join(root, f)).read()))
        args = []
        for s in srcs:
            args += c12_args_of(s, srcs)
        if d["kill"]:
            args += c12_args_of(base_kill, [base_kill_h])
        if d["kind"] == "PREKILL_HOOK":
            args += c12_args_of(hook_h, [hook_h])
        # a plugin whose init never consults the argument parser accepts any argument
        checks = any(re.search(r"argParser_\s*\.\s*parse\s*\(", s) for s in srcs) or d["kill"] or d["kind"] == "PREKILL_HOOK"
        items.append((name, d["kind"] == "PREKILL_HOOK", d["kill"], checks, args))
    return items


def emit_arg_schemas(repo, out, report):
    items = typed_arg_schemas(repo)
    L = ["/-! GENERATED by tools/extract.py (C12): typed argument schemas of the registered plugins:",
         "(name, required, parser kind) per `argParser_.addArgument*` call in registration order; kill plugins",
         "include BaseKillPlugin::init's arguments, prekill hooks PrekillHook::init's. Do not edit. -/",
         "namespace OomdModel.Generated", "",
         "inductive ArgKind where", "  | " + " | ".join(C12_KINDS), "deriving Repr, DecidableEq, Inhabited", "",
         "structure TypedArg where", "  name : String", "  required : Bool", "  kind : ArgKind", "deriving Repr, DecidableEq", "",
         "/-- `checksArgs = false`: init() never calls argParser_.parse (any argument is accepted) -/",
         "structure TypedSchema where", "  plugin : String", "  isHook : Bool", "  isKill : Bool", "  checksArgs : Bool",
         "  args : List TypedArg", "deriving Repr, DecidableEq", "",
         "def typedSchemas : List TypedSchema := ["]
    rows = []
    for name, hook, kill, checks, args in items:
        al = ", ".join("⟨%s, %s, .%s⟩" % (lean_str(n), "true" if r else "false", k) for n, r, k in args)
        rows.append("  ⟨%s, %s, %s, %s, [%s]⟩" % (lean_str(name), "true" if hook else "false", "true" if kill else "false",
                                               "true" if checks else "false", al))
    L.append(",\n".join(rows))
    L += ["]", "", "end OomdModel.Generated", ""]
    write_if_changed(os.path.join(out, "ArgSchemas.lean"), "\n".join(L))
    report["typed_args"] = sum(len(a) for _, _, _, _, a in items)
    report["unknown_arg_kinds"] = [n + "." + a for n, _, _, _, args in items for a, _, k in args if k == "unknown"]


def main():
    ap = argparse.ArgumentParser()
    ap.add_argument("--repo", default="/repo")
    ap.add_argument("--out", required=True)
    a = ap.parse_args()
    os.makedirs(a.out, exist_ok=True)
    report = {"missing": [], "consts": {}}
    lines = ["/-! GENERATED by tools/extract.py from the oomd sources on every check run. Do not edit. -/",
             "namespace OomdModel.Generated", ""]
    for name, f, rx in NAT_CONSTS + INT_CONSTS:
        m = re.search(rx, strip_comments(read(a.repo, f)))
        ty = "Nat" if (name, f, rx) in NAT_CONSTS else "Int"
        if m:
            lines.append("def %s : %s := %s" % (name, ty, m.group(1)))
            report["consts"][name] = int(m.group(1))
        else:
            lines.append("-- MISSING %s (%s)" % (name, f))
            report["missing"].append(name)
    for name, f, rx in EXPR_CONSTS:
        m = re.search(rx, strip_comments(read(a.repo, f)))
        if m and re.fullmatch(r"[0-9*\s<]+", m.group(1)):
            v = eval(m.group(1))
            lines.append("def %s : Nat := %d" % (name, v))
            report["consts"][name] = v
        else:
            lines.append("-- MISSING %s (%s)" % (name, f))
            report["missing"].append(name)
    for name, f, rx in STR_CONSTS:
        m = re.search(rx, strip_comments(read(a.repo, f)))
        if m:
            lines.append("def %s : String := %s" % (name, lean_str(m.group(1))))
            report["consts"][name] = m.group(1)
        else:
            lines.append("-- MISSING %s (%s)" % (name, f))
            report["missing"].append(name)
    eo = enum_order(strip_comments(read(a.repo, "src/oomd/engine/BasePlugin.h")), "PluginRet")
    if eo:
        for n, v in eo:
            lines.append("def pluginRet_%s : Nat := %d" % (n, v))
            report["consts"]["pluginRet_" + n] = v
    else:
        report["missing"].append("PluginRet")
    lines += ["", "end OomdModel.Generated", ""]
    write_if_changed(os.path.join(a.out, "Consts.lean"), "\n".join(lines))

    sch = plugin_schemas(a.repo)
    sl = ["/-! GENERATED by tools/extract.py: argument schemas of the registered plugins",
          "(name, required) per `argParser_.addArgument*` call, in source order. Do not edit. -/",
          "namespace OomdModel.Generated", "",
          "structure ArgSpec where", "  name : String", "  required : Bool", "  custom : Bool", "deriving Repr, DecidableEq", "",
          "structure PluginSchema where", "  plugin : String", "  isKill : Bool", "  isHook : Bool", "  args : List ArgSpec", "deriving Repr, DecidableEq", "",
          "def schemas : List PluginSchema := ["]
    items = []
    for name, d in sorted(sch.items()):
        args = ", ".join("⟨%s, %s, %s⟩" % (lean_str(n), "true" if r else "false", "true" if k == "custom" else "false") for n, r, k in d["args"])
        items.append("  ⟨%s, %s, %s, [%s]⟩" % (lean_str(name), "true" if d["kill"] else "false", "true" if d["kind"] == "PREKILL_HOOK" else "false", args))
    sl.append(",\n".join(items))
    sl += ["]", "", "end OomdModel.Generated", ""]
    write_if_changed(os.path.join(a.out, "Schemas.lean"), "\n".join(sl))
    emit_arg_schemas(a.repo, a.out, report)  # C12
    emit_accessors(a.repo, a.out, report)    # C10 / C15
    emit_risky(a.repo, a.out, report)        # C10
    report["plugins"] = len(sch)
    print(json.dumps(report, sort_keys=True))


def emit_accessors(repo, out, report):
    """C10: the statistics CgroupContext offers - every PROXY / PROXY_CONST_REF field and every hand-written
    `std::optional<...> CgroupContext::name(Error*...) const` - so that an accessor added to the code without a row in the
    crash-point model's table (OomdModel.CtxFault.Acc) breaks a proof obligation (C10.every_accessor_modelled)."""
    src = strip_comments(read(repo, "src/oomd/CgroupContext.cpp"))
    fields = re.findall(r"^\s*PROXY(?:_CONST_REF)?\(\s*(\w+)\s*,", src, re.M)
    hand = re.findall(r"^std::optional<[^>]+>\s+CgroupContext::(\w+)\(\s*Error\*", src, re.M)
    hand = [h for h in hand if not h.startswith("get")]
    names = list(dict.fromkeys(fields + hand))
    lines = ["/-! GENERATED by tools/extract.py (C10): the accessors of CgroupContext (PROXY fields and hand-written optional-returning",
             "members of src/oomd/CgroupContext.cpp), in source order. Do not edit. -/",
             "namespace OomdModel.Generated", "",
             "def cgroupContextAccessors : List String := [" + ", ".join(lean_str(n) for n in names) + "]", "",
             "end OomdModel.Generated", ""]
    write_if_changed(os.path.join(out, "Accessors.lean"), "\n".join(lines))
    report["accessors"] = len(names)
    if not names:
        report["missing"].append("cgroupContextAccessors")


RISKY_FILES = ["src/oomd/Oomd.cpp", "src/oomd/OomdContext.cpp", "src/oomd/OomdContext.h", "src/oomd/CgroupContext.cpp",
               "src/oomd/util/Fs.cpp", "src/oomd/engine/Engine.cpp", "src/oomd/engine/Ruleset.cpp", "src/oomd/engine/DetectorGroup.cpp"]
RISKY_DIRS = ["src/oomd/plugins", "src/oomd/plugins/systemd"]
RISKY_RX = re.compile(r"\.value\(\)|\.at\(|std::sto(?:i|l|ll|ul|ull|f|d|ld)\(")


def risky_sites(repo):
    """(file, normalised source line) of every operation that throws / is undefined on an input it does not check itself:
    `.value()` of an optional / SystemMaybe, `.at(` of a container, `std::sto*`; in the files a tick executes"""
    files = list(RISKY_FILES)
    for d in RISKY_DIRS:
        full = os.path.join(repo, d)
        if os.path.isdir(full):
            for f in sorted(os.listdir(full)):
                if f.endswith((".cpp", ".h")) and not f.endswith("Test.cpp"):
                    files.append(d + "/" + f)
    out = []
    for f in files:
        src = strip_comments(read(repo, f))
        for line in src.splitlines():
            if RISKY_RX.search(line):
                out.append((f, re.sub(r"\s+", " ", line).strip()))
    return out


def emit_risky(repo, out, report):
    """C10: census of the unchecked-by-themselves operations, compared with the reviewed table tools/risky_reviewed.json
    (file, line text, how often, why it cannot fire in the fault domain).  A site that is not in the table - a new `.value()`,
    `.at(`, `std::sto*`, or one more copy of a reviewed line - is listed in `unreviewedRisky`; C10.no_unreviewed_risky_operation
    states that the list is empty."""
    here = os.path.dirname(os.path.abspath(__file__))
    try:
        table = json.load(open(os.path.join(here, "risky_reviewed.json")))
    except Exception:
        table = []
    allowed = {}
    for e in table:
        allowed[(e["file"], e["text"])] = allowed.get((e["file"], e["text"]), 0) + int(e.get("count", 1))
    seen = {}
    sites = risky_sites(repo)
    unrev = []
    for f, t in sites:
        seen[(f, t)] = seen.get((f, t), 0) + 1
        if seen[(f, t)] > allowed.get((f, t), 0):
            unrev.append((f, t))
    lines = ["/-! GENERATED by tools/extract.py (C10): census of `.value()` / `.at(` / `std::sto*` in the code a tick executes, and",
             "the sites among them that tools/risky_reviewed.json does not list. Do not edit. -/",
             "namespace OomdModel.Generated", "",
             "def riskySiteCount : Nat := %d" % len(sites), "",
             "def unreviewedRisky : List (String × String) := [" + ", ".join("(%s, %s)" % (lean_str(f), lean_str(t)) for f, t in unrev) + "]", "",
             "end OomdModel.Generated", ""]
    write_if_changed(os.path.join(out, "Risky.lean"), "\n".join(lines))
    report["risky_sites"] = len(sites)
    report["risky_unreviewed"] = ["%s: %s" % x for x in unrev]


def write_if_changed(path, content):
    try:
        if open(path).read() == content:
            return
    except OSError:
        pass
    tmp = path + ".tmp%d" % os.getpid()
    with open(tmp, "w") as f:
        f.write(content)
    os.replace(tmp, path)


if __name__ == "__main__":
    main()

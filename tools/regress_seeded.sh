#!/bin/bash
# usage: tools/regress_seeded.sh [-j N] [id-glob]        (default: all of /verif/seeded/*, one at a time)
# Re-runs every seeded change against the check of the property it was written for (scratch worktree, VERIF_REPO; /repo is
# never touched) and prints one line per change:  <id> <property> REPORTED|MISSED|NOT-A-VIOLATION [class of the first replay].
# Used after changes to generators / drivers to make sure nothing that was reported before is lost.
cd "$(dirname "$0")/.."
J=1
if [ "$1" = "-j" ]; then J="$2"; shift 2; fi
pat="${1:-*}"
one() {
  d="$1"
  id=$(basename "$d")
  prop=${id%%-*}
  [ -f "$d/patch.diff" ] || return
  out=$(tools/try_mutation.sh "$PWD/$d/patch.diff" "$prop" 2>&1)
  nav=""
  grep -q '"not_a_violation"' "$d/meta.json" 2>/dev/null && nav=" (judged not a violation)"
  if echo "$out" | grep -q "VIOLATION property=$prop"; then
    cls=$(echo "$out" | grep -m1 "VIOLATION property=$prop" | sed -E 's/.*replays\/[^-]*-[0-9]+-//; s/\.json//')
    echo "$id $prop REPORTED $cls$nav"
  elif echo "$out" | grep -q "INFRA"; then
    echo "$id $prop INFRA-ERROR"
  else
    echo "$id $prop MISSED$nav"
  fi
}
export -f one
ls -d seeded/$pat/ | xargs -P "$J" -I{} bash -c 'one {}'

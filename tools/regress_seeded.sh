#!/bin/bash
# usage: tools/regress_seeded.sh [id-glob]        (default: all of /verif/seeded/*)
# Re-runs every seeded change against the check of the property it was written for (scratch worktree, VERIF_REPO; /repo is
# never touched) and prints one line per change:  <id> <property> REPORTED|MISSED [class of the first replay].
# Used after changes to generators / drivers to make sure nothing that was reported before is lost.
cd "$(dirname "$0")/.."
pat="${1:-*}"
for d in seeded/$pat/; do
  id=$(basename "$d")
  prop=${id%%-*}
  [ -f "$d/patch.diff" ] || continue
  out=$(tools/try_mutation.sh "$PWD/$d/patch.diff" "$prop" 2>&1)
  if echo "$out" | grep -q "VIOLATION property=$prop"; then
    cls=$(echo "$out" | grep -m1 "VIOLATION property=$prop" | sed -E 's/.*replays\/[^-]*-[0-9]+-//; s/\.json//')
    echo "$id $prop REPORTED $cls"
  elif echo "$out" | grep -q "INFRA"; then
    echo "$id $prop INFRA-ERROR"
  else
    echo "$id $prop MISSED"
  fi
done

#!/usr/bin/env python3
"""tools/mk_prompt.py <Cxx-N> : writes /tmp/mut-out/prompt-<id>.txt (agents/MUTATOR.md + the property line + an avoid-list of
the titles of earlier seeded changes for the property + the sub-agent's paths) and creates the scratch worktree /tmp/mut/<id>.
Nothing from /verif besides the property text and those one-line titles reaches the sub-agent."""
import json, os, subprocess, sys, glob
V = os.path.dirname(os.path.dirname(os.path.abspath(__file__)))
sys.path.insert(0, os.path.join(V, "tools"))
from design_tables import first_heading
sid = sys.argv[1]
prop = sid.split("-")[0]
props = [json.loads(l) for l in open(os.path.join(V, "properties.jsonl")) if l.strip()]
p = [x for x in props if x["id"] == prop][0]
titles = []
for d in sorted(glob.glob(os.path.join(V, "seeded", prop + "-*"))):
    n = os.path.join(d, "NOTES.md")
    t = first_heading(open(n).read()) if os.path.exists(n) else ""
    t = t.lstrip('—- ').strip()
    if t and len(t.split()) >= 4 and not t.lower().startswith(('seeded change', 'property clause')):
        titles.append(t[:160])
hint = ("No area is prescribed: read the code the property is anchored in and pick a spot nobody has touched yet. The following "
        "ideas were used before - do NOT repeat or vary them, find a different mechanism in different lines:\n" +
        "\n".join(" - " + t for t in titles))
os.makedirs("/tmp/mut-out", exist_ok=True)
os.makedirs("/tmp/mut", exist_ok=True)
txt = open(os.path.join(V, "agents", "MUTATOR.md")).read().rstrip() + "\n\n== PROPERTY ==\n" + json.dumps(p, indent=1) + \
    "\n\n== HINT ==\n" + hint + "\n\n== YOUR PATHS ==\nworktree: /tmp/mut/%s\noutput directory: /tmp/mut-out/%s\n" % (sid, sid)
open("/tmp/mut-out/prompt-%s.txt" % sid, "w").write(txt)
wt = "/tmp/mut/" + sid
if not os.path.exists(wt):
    subprocess.check_call(["git", "-C", "/repo", "worktree", "add", "--detach", "-q", wt, "HEAD"])
print("/tmp/mut-out/prompt-%s.txt" % sid)

#!/usr/bin/env python3
"""tools/fingerprint.py [--update]   - list the source files of /repo (VERIF_REPO) that differ from lean/fingerprints.json,
or rewrite that file from the current tree (do this after a `fix:` / hook commit once the checks pass on it)."""
import json
import os
import sys

sys.path.insert(0, os.path.dirname(os.path.dirname(os.path.abspath(__file__))))
from vlib import core  # noqa: E402

if "--update" in sys.argv:
    with open(core.FINGERPRINTS, "w") as f:
        json.dump(core.source_fingerprints(), f, indent=1, sort_keys=True)
    print("wrote", core.FINGERPRINTS)
else:
    print("\n".join(core.changed_sources()) or "(no source file differs from the validated tree)")

#!/bin/bash
# usage: tools/record_strengthening.sh <Cxx-N> <prop> "<what was strengthened>"
# After a check that missed a seeded change was strengthened: re-run it against the stored patch (scratch worktree), keep the
# output as checks_after_strengthening.log and record the first result / the strengthening in meta.json.
ID="$1"; PROP="$2"; TXT="$3"
cd "$(dirname "$0")/.."
D=seeded/$ID
tools/try_mutation.sh "$PWD/$D/patch.diff" "$PROP" 2>&1 | grep -v "^KNOWN-FINDING" > "$D/checks_after_strengthening.log"
python3 - "$D" "$PROP" "$TXT" <<'PY'
import json, sys
d, prop, txt = sys.argv[1:4]
m = json.load(open(d + "/meta.json"))
log = open(d + "/checks_after_strengthening.log").read()
if "checks_result_initial" not in m:
    m["checks_result_initial"] = dict(m["checks_result"])
m["checks_result"][prop] = ("VIOLATION property=%s" % prop) in log
m["strengthening"] = txt
json.dump(m, open(d + "/meta.json", "w"), indent=1)
print(d, m["checks_result"], [l for l in log.splitlines() if l.startswith("VIOLATION")][:3])
PY

#!/usr/bin/env python3
"""tools/manifest_add.py <Cxx> <engine> <harness> "<level text>" "<level note>" [technique]  - add / replace a check entry"""
import json, sys
pid, engine, harness, text, note = sys.argv[1:6]
tech = sys.argv[6] if len(sys.argv) > 6 else "Lean 4 proof + differential correspondence check against the real code"
m = json.load(open('/verif/MANIFEST.json'))
e = {"property_id": pid, "quick_cmd": "./check %s --tier quick" % pid, "thorough_cmd": "./check %s --tier thorough" % pid,
     "evidence_file": "/verif/evidence/%s.json" % pid, "replay_cmd_template": "./check %s --replay {path}" % pid, "engine": harness,
     "level_claimed": {"category": "proof", "text": text, "design_ref": "DESIGN.md section 5, %s" % pid},
     "level_note": note, "technique": tech}
m["checks"] = sorted([c for c in m["checks"] if c["property_id"] != pid] + [e], key=lambda c: c["property_id"])
m["not_applicable"] = [n for n in m.get("not_applicable", []) if n["property_id"] != pid]
eng = [x for x in m["engines"] if x["name"] == harness]
if eng:
    if pid not in eng[0]["serves_properties"]:
        eng[0]["serves_properties"].append(pid)
else:
    m["engines"].append({"name": harness, "path": "harness/%s.cpp" % harness, "serves_properties": [pid], "kind_free_text": "real oomd code vs Lean model, driver drv_%s" % engine})
json.dump(m, open('/verif/MANIFEST.json', 'w'), indent=1)

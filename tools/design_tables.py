#!/usr/bin/env python3
"""tools/design_tables.py  - regenerate the generated parts of DESIGN.md (between the BEGIN/END GENERATED markers):
   * section 11: one row per seeded change under /verif/seeded (what it changes, what it needs, which checks report it, how)
   * section 12: the property theorems per property (from lean/pins) and the per-check assumptions / trusted parts
Only documentation: nothing here decides anything."""
import glob
import importlib
import json
import os
import re
import sys

V = os.path.dirname(os.path.dirname(os.path.abspath(__file__)))
sys.path.insert(0, V)


def first_heading(notes):
    for line in notes.splitlines():
        line = line.strip()
        if line.startswith("#"):
            t = line.lstrip("#").strip()
            t = re.sub(r"^(Mutant\s+)?C\d\d-\d\s*[-:–]*\s*", "", t)
            if t and not re.match(r"^(the\s+)?change\b|^mutant$", t, re.I):
                return t
    for line in notes.splitlines():
        line = line.strip()
        if line and not line.startswith(("#", "`", "-", "+")):
            return line[:140]
    return ""


def seeded_table():
    rows = []
    for d in sorted(glob.glob(os.path.join(V, "seeded", "*"))):
        mp = os.path.join(d, "meta.json")
        if not os.path.exists(mp):
            continue
        m = json.load(open(mp))
        sid = m["id"]
        notes = open(os.path.join(d, "NOTES.md")).read() if os.path.exists(os.path.join(d, "NOTES.md")) else m.get("needs_to_manifest", "")
        title = first_heading(notes) or "(see NOTES.md)"
        files = []
        pp = os.path.join(d, "patch.diff")
        if os.path.exists(pp):
            files = sorted({os.path.basename(x) for x in re.findall(r"^\+\+\+ b/(\S+)", open(pp).read(), re.M)})
        logs = ""
        for f in ("checks_after_strengthening.log", "checks.log"):
            if os.path.exists(os.path.join(d, f)):
                logs += open(os.path.join(d, f)).read()
        logs += m.get("checks_output", "")
        how = []
        for prop, ok in sorted(m.get("checks_result", {}).items()):
            if not ok:
                how.append("%s: %s" % (prop, ("not reported - superseded by a later fix: commit" if m.get("superseded") else "not reported - not a violation of the property as stated") if m.get("not_a_violation") else "not reported"))
                continue
            cls = sorted({re.sub(r"^%s-\d+-" % prop, "", os.path.basename(x))[:-5] for x in re.findall(r"VIOLATION property=%s replay=(\S+)" % prop, logs)})
            nf = "no-failing-input-found" in logs and any("correspondence" in c or "proof" in c for c in cls)
            how.append("%s: %s%s" % (prop, ", ".join(c for c in cls[:3]) or "VIOLATION", " (no failing input)" if nf and len(cls) == 1 else ""))
        init = m.get("checks_result_initial")
        st = ""
        if init and any(not v for v in init.values()) or m.get("strengthening"):
            st = (m.get("strengthening") or "").strip()
        rows.append((sid, ", ".join(files), title, "; ".join(how), st))
    out = ["| id | file(s) | change | reported by (class of the replay) | strengthening it caused |", "|---|---|---|---|---|"]
    for r in rows:
        out.append("| " + " | ".join(x.replace("|", "\\|").replace("\n", " ") for x in r) + " |")
    n = len(rows)
    nav = [r[0] for r in rows if "not a violation" in r[3] or "superseded" in r[3]]
    rows_j = [r for r in rows if r[0] not in nav]
    missed = [r[0] for r in rows_j if "not reported" in r[3] and not any(p.split(":")[0] == r[0].split("-")[0] and "not reported" not in p for p in r[3].split("; "))]
    head = ("%d seeded changes, each written by an independent sub-agent that saw only the property text and a scratch worktree, "
            "each confirmed here (demonstration fails with the change, passes without, pinned suite passes with it). "
            "Reported by the check of the property it was written against: %d of %d.%s%s\n" %
            (n, len(rows_j) - len(missed), len(rows_j), (" Not reported by that check: " + ", ".join(missed) + ".") if missed else "",
             (" Judged not to break the property as stated, or superseded by a later repair of the code they edit (and therefore not reported): " + ", ".join(nav) + ".") if nav else ""))
    return head + "\n" + "\n".join(out) + "\n"


def theorem_table():
    out = []
    for pf in sorted(glob.glob(os.path.join(V, "lean", "pins", "C*.json"))):
        prop = os.path.basename(pf)[:-5]
        names = sorted(json.load(open(pf)))
        try:
            mod = importlib.import_module("vlib.props." + prop)
        except Exception:
            mod = None
        out.append("**%s** - %d theorems: %s." % (prop, len(names), ", ".join("`%s`" % n.split(".", 1)[1] for n in names)))
        if mod is not None:
            a = getattr(mod, "ASSUMPTIONS", [])
            t = getattr(mod, "TRUSTED", [])
            if a:
                out.append("  Assumes: " + " / ".join(a))
            if t:
                out.append("  Trusted besides the common base: " + " / ".join(t))
        out.append("")
    return "\n".join(out)


def splice(text, tag, body):
    b, e = "<!-- BEGIN GENERATED %s -->" % tag, "<!-- END GENERATED %s -->" % tag
    if b not in text:
        raise SystemExit("marker %s missing in DESIGN.md" % tag)
    pre, rest = text.split(b, 1)
    _, post = rest.split(e, 1)
    return pre + b + "\n" + body + "\n" + e + post


if __name__ == "__main__":
    p = os.path.join(V, "DESIGN.md")
    s = open(p).read()
    s = splice(s, "seeded", seeded_table())
    s = splice(s, "theorems", theorem_table())
    open(p, "w").write(s)
    print("DESIGN.md tables regenerated")

#!/bin/bash
# usage: tools/confirm_seed.sh <Cxx-N> <prop-to-check> [<more props>...]
# Confirms a mutator's change (worktree /tmp/mut/<id>, output /tmp/mut-out/<id>): demo fails with the
# change, suite passes with it, demo passes without it; then runs our checks against the patch and
# stores everything under /verif/seeded/<id>/.  Removes the worktree afterwards.
ID="$1"; shift
WT=/tmp/mut/$ID; OUT=/tmp/mut-out/$ID; DST=/verif/seeded/$ID
set -u
mkdir -p "$DST"
cd "$WT" || exit 2
git diff > "$DST/patch.diff.actual"
echo "== demo WITH change"; (bash "$OUT/run_demo.sh" "$WT" > "$DST/demo_with.log" 2>&1); RC_WITH=$?; tail -3 "$DST/demo_with.log"; echo "rc=$RC_WITH"
echo "== suite WITH change"; (meson compile -C _build -j8 >/dev/null 2>&1; meson test -C _build 2>&1 | grep -E "^(Ok|Fail|Timeout):" ) | tee "$DST/suite_with.log"
git diff > /tmp/confirm-$ID.diff; git checkout -q -- .
echo "== demo WITHOUT change"; (meson compile -C _build -j8 >/dev/null 2>&1; bash "$OUT/run_demo.sh" "$WT" > "$DST/demo_without.log" 2>&1); RC_WO=$?; tail -3 "$DST/demo_without.log"; echo "rc=$RC_WO"
git apply /tmp/confirm-$ID.diff; rm -f /tmp/confirm-$ID.diff
cp "$OUT/patch.diff" "$DST/patch.diff"; cp -r "$OUT"/* "$DST/" 2>/dev/null
cd /verif
echo "== our checks"; tools/try_mutation.sh "$DST/patch.diff" "$@" | tee "$DST/checks.log"
python3 - "$ID" "$RC_WITH" "$RC_WO" "$@" <<'PY'
import json,sys,re
id_,rcw,rcwo=sys.argv[1],int(sys.argv[2]),int(sys.argv[3]); props=sys.argv[4:]
d='/verif/seeded/%s/'%id_
notes=open(d+'NOTES.md').read() if __import__('os').path.exists(d+'NOTES.md') else ''
checks=open(d+'checks.log').read()
suite=open(d+'suite_with.log').read()
meta={"id":id_,"breaks_property":id_.split('-')[0],"needs_to_manifest":notes[:1500],
 "confirmed":{"demo_rc_with_change":rcw,"demo_rc_without_change":rcwo,"suite_with_change":suite.strip()},
 "what_i_ran":["bash run_demo.sh <worktree> (with and without the change)","meson test -C _build (with the change)","tools/try_mutation.sh patch.diff "+" ".join(props)],
 "checks_result":{p:("VIOLATION property=%s"%p in checks) for p in props},
 "checks_output":checks}
json.dump(meta,open(d+'meta.json','w'),indent=1)
print("confirmed" if rcw!=0 and rcwo==0 and "Fail:               0" in suite else "NOT CONFIRMED", meta["checks_result"])
PY
git -C /repo worktree remove --force "$WT"

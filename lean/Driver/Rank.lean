import Driver.Json

/-! Driver glue for engine `rank` (stub: not built yet). -/
namespace Driver.Rank
open Lean

def handle (j : Json) : Json :=
  Json.mkObj [("id", Json.str (jstr (jobj j "s") "id")), ("error", Json.str "engine rank not implemented")]

end Driver.Rank

def main : IO UInt32 := Driver.runMain Driver.Rank.handle

import Driver.Json
import OomdModel.Rank

/-! Driver glue for engine `rank` (C09).

`accepts`: the statistics the implementation reports equal the model's (`Float`/`Float32` instance,
bit for bit) and the implementation's order is one `sortDescWithKillPrefs` may produce from the
model's `(preference, key)` entries.

`holds`: decided on the implementation's order alone by an oracle in exact rational arithmetic that
restates the documented policy and does not use the model's key functions: the first choice is a
maximum of the documented order among the equally-preferred siblings passing the filter, and no
cgroup failing the filter appears.  Where the code legitimately rounds (double/float arithmetic,
truncation to whole bytes) the oracle works with intervals, so a decision that depends on rounding is
tolerated; such scenarios are counted (`rounding`). -/
namespace Driver.Rank
open Lean OomdModel.Rank

/-! ### parsing -/

def sInt (s : String) : Int :=
  if s == "max" then int64Max else (s.trimAscii.toString.toInt?).getD 0

def fInt (j : Json) (k : String) (dflt : Int := 0) : Int :=
  match jstr? j k with
  | some s => sInt s
  | none => dflt

/-- "10.93" ↦ (1093, 2) -/
def parseDec (s : String) : Nat × Nat :=
  match s.splitOn "." with
  | [a] => (a.toNat?.getD 0, 0)
  | [a, b] => ((a ++ b).toNat?.getD 0, b.length)
  | _ => (0, 0)

def fDec (j : Json) (k : String) : Nat × Nat :=
  match jstr? j k with
  | some s => parseDec s
  | none => (0, 0)

def decRat (d : Nat × Nat) : Rat := (d.1 : Rat) / ((10 ^ d.2 : Nat) : Rat)

structure Sib where
  name : String
  idx : Nat
  prefS : Int
  target : Bool
  born : Nat
  ticks : List Json

def prefOf (s : String) : Int :=
  match s with
  | "prefer" => killPreference true false false false
  | "uprefer" => killPreference false true false false
  | "avoid" => killPreference false false true false
  | "uavoid" => killPreference false false false true
  | "both" => killPreference true false true false
  | _ => killPreference false false false false

def sibsOf (sc : Json) : List Sib :=
  (jarr sc "sibs").zipIdx.map fun (j, i) =>
    { name := jstr j "name", idx := i, prefS := prefOf (jstr j "pref"),
      target := (jbool? j "target").getD true, born := jnat j "born", ticks := jarr j "ticks" }

/-- files of the sibling at tick `t` (harness: index `min (t - born) (len - 1)`) -/
def Sib.at (s : Sib) (t : Nat) : Json :=
  s.ticks.getD (Nat.min (t - s.born) (s.ticks.length - 1)) Json.null

/-- the read the plugin's statistic depends on fails for this sibling on tick `t` -/
def Sib.missed (s : Sib) (plugin : String) (t : Nat) : Bool :=
  let m := jstr (s.at t) "miss"
  match plugin with
  | "kill_by_pg_scan" => m == "memstat" || m == "nopgscan"
  | "kill_by_io_cost" => m == "iostat"
  | _ => false

def tickAt (l : List Json) (t : Nat) : Json := l.getD (Nat.min t (l.length - 1)) Json.null

/-! ### model statistics, generic in the number instance -/

section
variable (D F : Type) [Num D] [Num F] [Narrow D F]

def coeffsOf (a : List Json) : List D := a.map fun j => let d := parseDec (asStr j); Num.ofDec d.1 d.2

def ioLines (sc : Json) (tick : Json) : List (IoLine D) :=
  (jarr tick "io").filterMap fun l =>
    let a := asArr l
    let dev := asStr (a.getD 0 Json.null)
    let cs : Option (List D) :=
      if dev == "8:0" then some (coeffsOf D (jarr sc "ssd"))
      else if dev == "8:16" then some (coeffsOf D (jarr sc "hdd")) else none
    cs.map fun c =>
      let g := fun (i : Nat) => sInt (asStr (a.getD i Json.null))
      let z : D := Num.zero
      { rbytes := g 1, wbytes := g 2, rios := g 3, wios := g 4, dbytes := g 5, dios := g 6,
        readIops := c.getD 0 z, readBw := c.getD 1 z, writeIops := c.getD 2 z, writeBw := c.getD 3 z,
        trimIops := c.getD 4 z, trimBw := c.getD 5 z }

def rawOf (t : Json) : Int := rawProtection (fInt t "cur") (fInt t "min") (fInt t "low")

def statOf (sc : Json) (all : List Sib) (s : Sib) : Stat D F :=
  let n := jnat sc "nticks"
  let last := n - 1
  let t := s.at last
  let cur := fInt t "cur"
  let raw := rawOf t
  let prot :=
    if jnat sc "depth" == 2 then
      let pp := rawOf (tickAt (jarr sc "parent") last)
      let sum := (all.map fun x => rawOf (x.at last)).foldl (· + ·) 0
      normalizedProtection (D := D) raw pp sum
    else if jnat sc "depth" == 3 then
      -- the parent's own share: P(parent) = R(parent) * min(1, P(grandparent) / (R(parent) + R(uncle))), P(grandparent) = R
      let rp := rawOf (tickAt (jarr sc "parent") last)
      let ru := rawOf (tickAt (jarr sc "uncle") last)
      let pg := rawOf (tickAt (jarr sc "gparent") last)
      let pp := normalizedProtection (D := D) rp pg (rp + ru)
      let sum := (all.map fun x => rawOf (x.at last)).foldl (· + ·) 0
      normalizedProtection (D := D) raw pp sum
    else raw
  let curs := (List.range (n - s.born)).map fun i => fInt (s.at (s.born + i)) "cur"
  let avg :=
    if jstr sc "plugin" == "kill_by_memory_size_or_growth" then averageOver (Num.ofInt 4 : D) 0 curs
    else averageUsage (Num.ofInt 4 : D) 0 cur
  let plugin := jstr sc "plugin"
  -- the archive holds exactly the previous tick's sample (CgroupContext::refresh), if that read succeeded
  let hasPrev := n ≥ 2 && s.born + 1 ≤ last && !s.missed plugin (last - 1)
  let nowOK := !s.missed plugin last
  let cumNow : D := ioCostCumulative (ioLines D sc t)
  let cumPrev : Option D := if hasPrev then some (ioCostCumulative (ioLines D sc (s.at (last - 1)))) else none
  let pgPrev : Option Int := if hasPrev then some (fInt (s.at (last - 1)) "pgscan") else none
  let dec := fun (k : String) => let d := fDec t k; (Num.ofDec d.1 d.2 : F)
  { id := s.idx, pref := s.prefS, cur := cur, prot := prot, avg := avg, swap := fInt t "swap",
    mp10 := dec "mp10", mp60 := dec "mp60", ip10 := dec "ip10", ip60 := dec "ip60",
    ioRate := if nowOK then ioCostRate cumPrev cumNow else Num.zero     -- `io_cost_rate().value_or(0)`
    pgRate := if nowOK then pgScanRate pgPrev (fInt t "pgscan") else none }

end

def thresholdArg (args : Json) : ThresholdArg :=
  match jstr? args "threshold" with
  | none => .default
  | some s =>
    if s.endsWith "%" then .percent (sInt (s.dropEnd 1).toString)
    else
      let last := s.toList.getLast?.getD '0'
      let num := sInt (s.dropEnd 1).toString
      match last.toLower with
      | 'k' => .bytes (num * 2 ^ 10)
      | 'm' => .bytes (num * 2 ^ 20)
      | 'g' => .bytes (num * 2 ^ 30)
      | 't' => .bytes (num * 2 ^ 40)
      | _ => .bytes (sInt s * 2 ^ 20)

def memKB (sc : Json) (k : String) : Option Int := (jstr? (jobj sc "meminfo") k).map fun s => sInt s * 1024

def swapParams (sc : Json) : SwapParams :=
  let args := jobj sc "args"
  { threshold := thresholdArg args
    biased := (jstr? args "biased_swap_kill").map (fun s => s == "true" || s == "True" || s == "1") |>.getD false
    swapTotal := memKB sc "SwapTotal", memTotal := memKB sc "MemTotal" }

def ratioDec (sc : Json) : Nat × Nat :=
  match jstr? (jobj sc "args") "min_growth_ratio" with
  | some s => parseDec s
  | none => (125, 2)

def growthParams (F : Type) [Num F] (v : Variant) (sc : Json) : GrowthParams F :=
  let args := jobj sc "args"
  let r := ratioDec sc
  { sizeThreshold := fInt args "size_threshold" 50, percentile := fInt args "growing_size_percentile" 80,
    minGrowthRatio := if jhas args "min_growth_ratio" then parseMinGrowthRatio v r.1 r.2 else Num.ofDec 125 2 }

def resourceOf (sc : Json) : Resource := if jstr (jobj sc "args") "resource" == "io" then .io else .memory

def ltOf {α : Type} [Num α] (a b : α) : Bool := Num.lt a b

/-- does the model (variant `v`, number instance `D`/`F`) admit the implementation's order? -/
def modelAdmits (D F : Type) [Num D] [Num F] [Narrow D F] (v : Variant) (sc : Json) (stats : List (Stat D F))
    (order : List Nat) : Bool :=
  match jstr sc "plugin" with
  | "kill_by_memory_size_or_growth" =>
    admitsIds ltGrowthKey (growthEntries (growthParams F v sc) stats) order
  | "kill_by_swap_usage" => admitsIds ltInt (swapEntries v (swapParams sc) stats) order
  | "kill_by_pressure" =>
    if v.pressureInt then admitsIds ltInt (pressureEntriesLegacy (resourceOf sc) stats) order
    else admitsIds (ltOf (α := F)) (pressureEntries (resourceOf sc) stats) order
  | "kill_by_io_cost" => admitsIds (ltOf (α := D)) (ioCostEntries stats) order
  | "kill_by_pg_scan" => admitsIds ltInt (pgScanEntries stats) order
  | _ => false

/-! ### comparison of the reported statistics with the model's (Float instance) -/

def optIntJ (j : Json) (k : String) : Option Int := (jstr? j k).map sInt

def statDiffs (plugin : String) (m : Stat Float Float32) (r : Json) (nowOK : Bool := true) : List String :=
  let ck := fun (name : String) (ok : Bool) => if ok then [] else [name]
  let i := fun (k : String) (v : Int) => ck k (optIntJ r k == some v)
  let f32 := fun (k : String) (v : Float32) => ck k (optIntJ r k == some (v.toBits.toNat : Int))
  let pref := ck "pref" ((jint? r "pref") == some m.pref)
  pref ++
  match plugin with
  | "kill_by_memory_size_or_growth" =>
    i "cur" m.cur ++ i "prot" m.prot ++ i "eff" m.eff ++ i "avg" m.avg ++
      ck "growth" (optIntJ r "growth" == some ((memoryGrowth (D := Float) m.cur m.avg).toBits.toNat : Int))
  | "kill_by_swap_usage" => i "swap" m.swap ++ i "cur" m.cur ++ i "prot" m.prot
  | "kill_by_pressure" => f32 "mp10" m.mp10 ++ f32 "mp60" m.mp60 ++ f32 "ip10" m.ip10 ++ f32 "ip60" m.ip60
  | "kill_by_io_cost" =>
    if nowOK then ck "iorate" (optIntJ r "iorate" == some (m.ioRate.toBits.toNat : Int))
    else ck "iorate" (optIntJ r "iorate" == none)
  | "kill_by_pg_scan" => ck "pgrate" (optIntJ r "pgrate" == m.pgRate)
  | _ => []

/-! ### the oracle: documented policy in exact arithmetic, on intervals -/

inductive Tri | yes | no | maybe
deriving DecidableEq, Repr

/-- one sibling as the documentation sees it: eligibility and an interval for the ranking quantity -/
structure Cand where
  idx : Nat
  pref : Int
  elig : Tri
  lo : Rat
  hi : Rat

def rmax (a b : Rat) : Rat := if a < b then b else a
def rmin (a b : Rat) : Rat := if b < a then b else a
def rabs (a : Rat) : Rat := if a < 0 then -a else a
def pow2 (n : Nat) : Rat := ((2 ^ n : Nat) : Rat)

/-- first choice `c` is acceptable: possibly eligible and not certainly below a certainly eligible peer -/
def headOKCand (cands : List Cand) (c : Cand) : Bool :=
  c.elig != Tri.no && (cands.filter fun j => j.pref == c.pref && j.elig == Tri.yes).all fun j => decide (j.lo ≤ c.hi)

structure Verdict where
  viol : List String := []
  cls : String := ""
  rounding : Bool := false
  info : String := ""

/-- generic single-key plugins: `cands` with margins, `exact` with zero-width intervals -/
def judgeSimple (what : String) (filtering : Bool) (cands exact : List Cand) (order : List Nat) : Verdict :=
  let find := fun (l : List Cand) (i : Nat) => l.find? (·.idx == i)
  let filterBad := filtering && order.any fun i => match find cands i with | some c => c.elig == Tri.no | none => true
  let filterBadExact := filtering && order.any fun i => match find exact i with | some c => c.elig != Tri.yes | none => true
  match order with
  | [] =>
    let someone := cands.any fun c => c.elig == Tri.yes
    let someoneExact := exact.any fun c => c.elig == Tri.yes
    { viol := if someone then [what ++ ".nothing_chosen"] else [], rounding := !someone && someoneExact }
  | h :: _ =>
    match find cands h, find exact h with
    | some c, some ce =>
      let ok := headOKCand cands c
      let okE := headOKCand exact ce && ce.elig == Tri.yes
      { viol := (if ok then [] else [what ++ ".head_is_max"]) ++ (if filterBad then [what ++ ".filter"] else []),
        rounding := (ok && !okE) || (!filterBad && filterBadExact) }
    | _, _ => { viol := [what ++ ".unknown_cgroup"] }

structure Raw where
  s : Sib
  cur : Int
  prot : Int
  avg : Int
  swap : Int
  mpMean : Rat
  ipMean : Rat
  ioNow : Rat
  ioPrev : Option Rat
  pgNow : Int
  pgPrev : Option Int
  nowOK : Bool := true      -- this tick's sample could be read

def ioExact (sc : Json) (tick : Json) : Rat :=
  ((ioLines Rat sc tick).map fun l =>
    (l.rios : Rat) * l.readIops + (l.rbytes : Rat) * l.readBw + (l.wios : Rat) * l.writeIops
      + (l.wbytes : Rat) * l.writeBw + (l.dios : Rat) * l.trimIops + (l.dbytes : Rat) * l.trimBw).foldl (· + ·) 0

def rawOfSib (sc tr : Json) (s : Sib) : Raw :=
  let n := jnat sc "nticks"
  let last := n - 1
  let t := s.at last
  let rep := jobj (jobj tr "stats") s.name
  let plugin := jstr sc "plugin"
  let hasPrev := n ≥ 2 && s.born + 1 ≤ last && !s.missed plugin (last - 1)
  let mean := fun (a b : String) => (decRat (fDec t a) + decRat (fDec t b)) / 2
  { s := s, cur := fInt t "cur", prot := (optIntJ rep "prot").getD 0, avg := (optIntJ rep "avg").getD 0,
    swap := fInt t "swap", mpMean := mean "mp10" "mp60", ipMean := mean "ip10" "ip60",
    ioNow := ioExact sc t, ioPrev := if hasPrev then some (ioExact sc (s.at (last - 1))) else none,
    pgNow := fInt t "pgscan", pgPrev := if hasPrev then some (fInt (s.at (last - 1)) "pgscan") else none
    nowOK := !s.missed plugin last }

def point (r : Raw) (e : Tri) (k : Rat) : Cand := { idx := r.s.idx, pref := r.s.prefS, elig := e, lo := k, hi := k }

/-- kill_by_swap_usage: "the largest swap user above `threshold` (bytes or % of SwapTotal, optionally biased by protection)" -/
def judgeSwap (sc : Json) (raws : List Raw) (order : List Nat) : Verdict :=
  let p := swapParams sc
  let st : Rat := ((p.swapTotal.getD 0 : Int) : Rat)
  let mt : Rat := ((p.memTotal.getD 0 : Int) : Rat)
  let thr : Rat := match p.threshold with
    | .default => 1
    | .percent pct => st * pct / 100
    | .bytes b => b
  let ratio : Rat := if p.memTotal.isSome && decide (0 < mt) then st / mt else 0
  let mk := fun (margin : Bool) => raws.map fun r =>
    let e := if (r.swap : Rat) > thr then Tri.yes else Tri.no
    if p.biased then
      let bias := ratio * r.prot
      let x := (r.swap : Rat) - bias
      let m : Rat := if margin then 1 + rabs bias / pow2 20 else 0
      { idx := r.s.idx, pref := r.s.prefS, elig := e, lo := rmax 0 (x - m), hi := rmax 0 (x + m) : Cand }
    else point r e r.swap
  let v := judgeSimple "swap" true (mk true) (mk false) order
  let big := decide (st ≥ pow2 31) || decide (mt ≥ pow2 31)
  { v with cls := if v.viol.isEmpty then "" else if big then "swap-total-beyond-int32" else (v.viol.headD "").replace "." "-" }

/-- kill_by_pressure: "the highest mean of 10 s and 60 s pressure" -/
def judgePressure (sc : Json) (raws : List Raw) (order : List Nat) : Verdict :=
  let io := resourceOf sc == .io
  let mean := fun (r : Raw) => if io then r.ipMean else r.mpMean
  let mk := fun (margin : Bool) => raws.map fun r =>
    let m : Rat := if margin then 1 / 10000 else 0
    { idx := r.s.idx, pref := r.s.prefS, elig := Tri.yes, lo := mean r - m, hi := mean r + m : Cand }
  let v := judgeSimple "pressure" false (mk true) (mk false) order
  -- input class of the known shape: the chosen one and a better peer have the same integer part of the mean
  let sameBucket : Bool := match order with
    | h :: _ => match raws.find? (·.s.idx == h) with
      | some c => raws.any fun r => r.s.prefS == c.s.prefS && decide (mean c < mean r) && (mean r).floor == (mean c).floor
      | none => false
    | [] => false
  { v with cls := if v.viol.isEmpty then "" else if sameBucket then "pressure-int-truncation-tie" else (v.viol.headD "").replace "." "-" }

/-- kill_by_io_cost: "the largest io-cost increase": the difference to the PREVIOUS tick's value; a sibling
    without a sample on this or on the previous tick has no increase (0) -/
def judgeIoCost (raws : List Raw) (order : List Nat) : Verdict :=
  let mk := fun (margin : Bool) => raws.map fun r =>
    match r.nowOK, r.ioPrev with
    | true, some p =>
      let d := r.ioNow - p
      let m : Rat := if margin then (rabs r.ioNow + rabs p) / pow2 45 else 0
      { idx := r.s.idx, pref := r.s.prefS, elig := Tri.yes, lo := d - m, hi := d + m : Cand }
    | _, _ => point r Tri.yes 0
  let v := judgeSimple "iocost" false (mk true) (mk false) order
  let gap := raws.any fun r => !r.nowOK || r.ioPrev.isNone
  { v with cls := if v.viol.isEmpty then "" else if gap then "iocost-increase-not-to-previous-tick" else (v.viol.headD "").replace "." "-" }

/-- kill_by_pg_scan: "the largest positive pgscan increase": the difference to the PREVIOUS tick's value; a sibling
    without a sample on this or on the previous tick has no increase and fails the filter -/
def judgePgScan (raws : List Raw) (order : List Nat) : Verdict :=
  let cands := raws.map fun r =>
    match r.nowOK, r.pgPrev with
    | true, some p => point r (if r.pgNow - p > 0 then Tri.yes else Tri.no) ((r.pgNow - p : Int) : Rat)
    | _, _ => point r Tri.no 0
  let v := judgeSimple "pgscan" true cands cands order
  let gap := raws.any fun r => !r.nowOK || r.pgPrev.isNone
  { v with cls := if v.viol.isEmpty then "" else if gap then "pgscan-increase-not-to-previous-tick" else (v.viol.headD "").replace "." "-" }

def insertDescR (x : Int) : List Int → List Int
  | [] => [x]
  | y :: ys => if x ≥ y then x :: y :: ys else y :: insertDescR x ys

structure GrowthOracle where
  raws : List Raw
  tEx : Rat                 -- size threshold in bytes, exact
  total : Int
  cut : Option Int          -- effective usage of the last member of the top percentile
  r : Rat                   -- configured min_growth_ratio, exact
  reprF : Bool              -- ... exactly representable as a float

namespace GrowthOracle
def effOf (x : Raw) : Int := x.cur - x.prot
def inTop (o : GrowthOracle) (e : Int) : Bool := match o.cut with | some c => decide (e ≥ c) | none => true

def sz (o : GrowthOracle) (margin : Bool) (x : Raw) : Tri :=
  let mu : Rat := if margin && decide ((o.total : Rat) ≥ pow2 50) then (o.total : Rat) / pow2 50 else 0
  let below : Rat := if margin then 2 + mu else 0
  if (x.cur : Rat) ≥ o.tEx + mu then Tri.yes else if (x.cur : Rat) < o.tEx - below then Tri.no else Tri.maybe

/-- growth eligibility and the interval of the growth ratio -/
def gr (o : GrowthOracle) (margin : Bool) (x : Raw) : Tri × Rat × Rat :=
  let eps : Rat := if margin then 1 / pow2 22 else 0
  if !o.inTop (effOf x) then (Tri.no, 0, 0)
  else if x.avg == 0 then
    -- usage / 0: the text does not say; tolerated either way
    (if margin then Tri.maybe else (if decide (o.r ≤ 0) then Tri.yes else Tri.no), 0, if margin then pow2 80 else 0)
  else
    let g : Rat := (x.cur : Rat) / (x.avg : Rat)
    let smallInts := decide ((x.cur : Rat) < pow2 53) && decide ((x.avg : Rat) < pow2 53)
    let el :=
      if g ≥ o.r * (1 + eps) then Tri.yes
      -- usage / average equal to the configured decimal is decisive ("ratios act at exactly the configured value"):
      -- with exact int -> double conversions the correctly rounded quotient narrows to the same float as the
      -- parsed decimal, so the unchanged code agrees; no rounding margin is granted here
      else if g == o.r && smallInts then Tri.yes
      else if g < o.r * (1 - eps) then Tri.no
      else Tri.maybe
    (el, g * (1 - eps), g * (1 + eps))

/-- (first choice acceptable, no certainly size-eligible peer has positive effective usage) -/
def judge (o : GrowthOracle) (margin : Bool) (c : Raw) : Bool × Bool × String :=
  let peers := o.raws.filter fun j => j.s.prefS == c.s.prefS
  let sy := peers.filter fun j => o.sz margin j == Tri.yes
  let caseA := o.sz margin c != Tri.no && sy.all fun j => decide (effOf c ≥ effOf j)
  let gc := o.gr margin c
  let gy := peers.filter fun j => (o.gr margin j).1 == Tri.yes
  let caseB := sy.isEmpty && gc.1 != Tri.no && gy.all fun j => decide ((o.gr margin j).2.1 ≤ gc.2.2)
  let caseC := sy.isEmpty && gy.isEmpty && peers.all fun j => decide (effOf c ≥ effOf j)
  let zeroEff := !sy.isEmpty && sy.all fun j => decide (effOf j ≤ 0)
  (caseA || caseB || caseC, zeroEff,
    if caseA then "size" else if caseB then "growth" else if caseC then "fallback" else "none")
end GrowthOracle

/-- kill_by_memory_size_or_growth: "the largest by (usage - protection) among those holding at least
    size_threshold % of the siblings' total, else the fastest grower (usage / moving average >=
    min_growth_ratio) among the top growing_size_percentile by size, else the largest" -/
def judgeGrowth (sc : Json) (raws : List Raw) (order : List Nat) : Verdict :=
  let args := jobj sc "args"
  let thrPct : Rat := ((fInt args "size_threshold" 50 : Int) : Rat)
  let pctl := fInt args "growing_size_percentile" 80
  let rd := ratioDec sc
  let r : Rat := decRat rd
  let total : Int := (raws.map (·.cur)).foldl (· + ·) 0
  let n := raws.length
  let effs := raws.map GrowthOracle.effOf
  let k : Nat := (((n : Int) * (100 - pctl) + 99) / 100).toNat
  let sorted := effs.foldr insertDescR []
  let o : GrowthOracle :=
    { raws := raws, tEx := (total : Rat) * thrPct / 100, total := total
      cut := if pctl > 0 && n > 0 then sorted[k - 1]? else none
      r := r
      reprF := (List.range 24).any fun s => let x := r * pow2 s; x.den == 1 && decide (x < pow2 24) }
  match order with
  | [] => { viol := if raws.isEmpty then [] else ["growth.nothing_chosen"], cls := "growth-nothing-chosen" }
  | h :: _ =>
    match raws.find? (·.s.idx == h) with
    | none => { viol := ["growth.unknown_cgroup"], cls := "growth-unknown-cgroup" }
    | some c =>
      let (ok, zeroEff, phase) := o.judge true c
      let (okE, _, _) := o.judge false c
      let frac := jhas args "min_growth_ratio" && rd.2 > 0 && rd.1 % (10 ^ rd.2) != 0
      { viol := if ok then [] else ["growth.head_is_documented_choice"]
        cls := if ok then "" else if zeroEff then "growth-size-eligible-zero-effective-usage"
               else if frac then "growth-fractional-min-growth-ratio" else "growth-head-is-documented-choice"
        rounding := ok && !okE
        info := phase }

/-! ### glue -/

def handle (j : Json) : Json :=
  let sc := jobj j "s"
  let tr := jobj j "t"
  let id := jstr sc "id"
  let plugin := jstr sc "plugin"
  if jstr tr "outcome" != "ok" then
    verdict id false false ["outcome:" ++ jstr tr "outcome"] ("outcome:" ++ jstr tr "outcome")
  else if (jint? tr "init") != some 0 then
    verdict id false false ["init_rejected_valid_arguments"] "init-rejected"
  else
    let all := sibsOf sc
    let targets := all.filter (·.target)
    let nameIdx := fun (n : String) => (all.find? (·.name == n)).map (·.idx)
    let order? := (jstrs tr "order").mapM nameIdx
    let input? := (jstrs tr "input").mapM nameIdx
    match order?, input? with
    | some order, some input =>
      let inputOK := input.isPerm (targets.map (·.idx))
      let statsF : List (Stat Float Float32) := targets.map (statOf Float Float32 sc all)
      let statsR : List (Stat Rat Rat) := targets.map (statOf Rat Rat sc all)
      let diffs := (targets.zip statsF).flatMap fun (s, m) =>
        (statDiffs plugin m (jobj (jobj tr "stats") s.name) (!s.missed plugin (jnat sc "nticks" - 1))).map (s.name ++ "." ++ ·)
      let admF := modelAdmits Float Float32 Variant.fixed sc statsF order
      let admLegacy := modelAdmits Float Float32 Variant.legacy sc statsF order
      let admR := modelAdmits Rat Rat Variant.fixed sc statsR order
      let raws := targets.map (rawOfSib sc tr)
      let judge := fun (rs : List Raw) => match plugin with
        | "kill_by_memory_size_or_growth" => judgeGrowth sc rs order
        | "kill_by_swap_usage" => judgeSwap sc rs order
        | "kill_by_pressure" => judgePressure sc rs order
        | "kill_by_io_cost" => judgeIoCost rs order
        | "kill_by_pg_scan" => judgePgScan rs order
        | _ => ({ viol := ["unknown_plugin"] } : Verdict)
      let v0 : Verdict := judge raws
      -- the policy is stated over the *documented* protection and moving average (hierarchically distributed protection,
      -- C15's formulas over the files): when the implementation reports other values for them, the choice is judged again
      -- with the reference values - a victim that is only right for wrongly computed statistics is not the documented one
      let raws2 := (raws.zip statsF).map fun (r, m) => { r with prot := m.prot, avg := m.avg }
      let differ := (raws.zip raws2).any fun (a, b) => a.prot != b.prot || a.avg != b.avg
      let v2 : Verdict := if differ then judge raws2 else v0
      let v : Verdict :=
        if v0.viol.isEmpty && !v2.viol.isEmpty && !v2.rounding then
          { v2 with viol := v2.viol.map (· ++ ".with_documented_statistics"), cls := v2.cls ++ "-with-documented-statistics" }
        else v0
      let accepts := inputOK && diffs.isEmpty && admF
      verdict id accepts v.viol.isEmpty v.viol v.cls
        [("stat_diffs", mkStrs diffs), ("model_admits", Json.bool admF), ("legacy_admits", Json.bool admLegacy),
         ("rat_admits", Json.bool admR), ("rounding", Json.bool v.rounding), ("input_ok", Json.bool inputOK), ("info", Json.str v.info),
         ("n_out", Json.num order.length)]
    | _, _ => verdict id false false ["unknown_cgroup_in_trace"] "unknown-cgroup"

end Driver.Rank

def main : IO UInt32 := Driver.runMain Driver.Rank.handle

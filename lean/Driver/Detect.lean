import Driver.Json

/-! Driver glue for engine `detect` (stub: not built yet). -/
namespace Driver.Detect
open Lean

def handle (j : Json) : Json :=
  Json.mkObj [("id", Json.str (jstr (jobj j "s") "id")), ("error", Json.str "engine detect not implemented")]

end Driver.Detect

def main : IO UInt32 := Driver.runMain Driver.Detect.handle

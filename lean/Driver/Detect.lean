import Driver.Json
import OomdModel.Path
import OomdModel.Detect
import OomdModel.Generated.Consts

/-! Driver glue for engine `h_detect` (C08).  Scenario + implementation trace in, verdict out.

`accepts`: the trace is one the state-machine model (`OomdModel.Detect`) can produce.  The only
nondeterminism is the iteration order of the resolved-cgroup set, which matters when several
cgroups tie for the maximal weighted pressure score: the acceptor keeps the set of model states
reachable under the observed verdicts (`C08.watched_pressure_sound/complete` show that trying the
elements of `watchCands` is the same as trying every order).

`holds`: the documented predicate of each detector evaluated declaratively over the whole history
(index-quantified formulas over arrays, written here independently of the model's step functions;
pattern resolution by the component-wise characterisation proved in `C16.resolve_exact`, not by the
model's glob walk), on the implementation's verdicts.  Interpretation choices are listed at the top
of `OomdProps/C08.lean`. -/
namespace Driver.Detect
open Lean OomdModel OomdModel.Detect

abbrev Str := Path.Str

/-- one cgroup directory of a tick, as the scenario describes it -/
structure CgIn where
  path : List Str
  memP : Option P3
  ioP : Option P3
  cur : Option Nat
  statAnon : Option Nat      -- memory.stat readable and has `anon`
  statPgscan : Option Nat    -- memory.stat readable and has `pgscan`
  dying : Option Nat         -- cgroup.stat readable (missing key reads as 0)
deriving Inhabited

structure TickIn where
  clock : Nat
  cgs : List CgIn
  swTotal : Nat
  swUsed : Nat
  swRate : Int
deriving Inhabited

def comps (s : String) : List Str := Path.split s.toList '/'

def p3Of (j : Json) : Option P3 :=
  match j with
  | Json.arr a => if a.size == 3 then some ⟨asNat a[0]!, asNat a[1]!, asNat a[2]!⟩ else none
  | _ => none

def cgOf (j : Json) : CgIn :=
  let st := jobj j "stat"
  let dy := jobj j "dying"
  { path := comps (jstr j "path")
    memP := p3Of (jobj j "mp")
    ioP := p3Of (jobj j "iop")
    cur := jnat? j "cur"
    statAnon := if isNull st then none else jnat? st "anon"
    statPgscan := if isNull st then none else jnat? st "pgscan"
    dying := if isNull dy then none else some (if jbool j "dying_nokey" then 0 else asNat dy) }

def tickOf (j : Json) : TickIn :=
  let s := jobj j "sys"
  { clock := jnat j "clock"
    cgs := (jarr j "cgs").map cgOf
    swTotal := jnat s "swaptotal"
    swUsed := jnat s "swapused"
    swRate := jint s "swapout_bps" }

/-! ### which cgroups a tick's patterns resolve to -/

def prefixesOf (p : List Str) : List (List Str) := (List.range (p.length + 1)).map (fun n => p.take n)

def treeOf (tk : TickIn) : Path.Tree :=
  { dirs := ([] :: tk.cgs.flatMap (fun c => prefixesOf c.path)).eraseDups, files := [] }

def patternsOf (arg : String) : List Path.CgPath :=
  (Path.split arg.toList ',').map (fun c => Path.mk [] c)

/-- model: `resolveWildcard` per pattern (glob walk of `OomdModel.Path`) -/
def resolveModel (tk : TickIn) (pats : List Path.CgPath) : List (List (List Str)) :=
  let t := treeOf tk
  pats.map (fun p => (Path.resolve t [] p).eraseDups)

/-- oracle: a directory matches a pattern iff it has as many components and each component
`fnmatch`es (patterns of the generator contain no `.` / `..`) -/
def matchesPat (pat dir : List Str) : Bool :=
  pat.length == dir.length && (List.zip pat dir).all (fun pd => Path.fnmatch pd.1 pd.2)

def resolveOracle (tk : TickIn) (pats : List Path.CgPath) : List (List (List Str)) :=
  let dirs := (treeOf tk).dirs
  pats.map (fun p => dirs.filter (fun d => matchesPat p.parts d))

def viewsOf (tk : TickIn) (resolved : List (List (List Str))) : List CgIn :=
  (resolved.flatten.eraseDups).filterMap (fun p => tk.cgs.find? (fun c => c.path == p))

/-! ### argument helpers -/

def argInt (args : Json) (k : String) (dflt : Int) : Int :=
  match jstr? args k with
  | some s => (s.trimAscii.toString.toInt?).getD dflt
  | none => dflt

def argBool (args : Json) (k : String) (dflt : Bool) : Bool :=
  match jstr? args k with
  | some "true" | some "True" | some "1" => true
  | some "false" | some "False" | some "0" => false
  | _ => dflt

/-- decimal string "d.ddd" → (mantissa, number of decimals) -/
def parseDecimal (s : String) : Nat × Nat :=
  match s.splitOn "." with
  | [a] => (a.toNat?.getD 0, 0)
  | [a, b] => ((a ++ b).toNat?.getD 0, b.length)
  | _ => (0, 0)

/-! ### nondeterministic acceptor -/

/-- states reachable while reproducing the observed verdicts; also the index of the first tick at
which no model state reproduces the observation -/
def acceptND {σ : Type} [BEq σ] (opts : σ → Nat → List (σ × Bool)) (init : σ) (obs : List Bool) : Bool × Nat :=
  let rec go (states : List σ) (i : Nat) : List Bool → Bool × Nat
    | [] => (true, i)
    | o :: rest =>
      let next := (states.flatMap (fun st => ((opts st i).filter (fun r => r.2 == o)).map (·.1))).eraseDups
      if next.isEmpty then (false, i) else go next (i + 1) rest
  go [init] 0 obs

/-- one model trace (first candidate at every tie), for display in replays -/
def someTrace {σ : Type} (opts : σ → Nat → List (σ × Bool)) (init : σ) (n : Nat) : List Bool :=
  let rec go (st : σ) (i : Nat) : Nat → List Bool
    | 0 => []
    | k + 1 =>
      match opts st i with
      | [] => []
      | (st', v) :: _ => v :: go st' (i + 1) k
  go init 0 n

/-! ### declarative oracles over the whole history -/

def nsI : Int := (NS : Int)

/-- ∃ j ≤ n, (∀ k, j ≤ k ≤ n → ex k) ∧ dur·10⁹ ≤ t n − t j -/
def docWindow (t : Array Nat) (ex : Array Bool) (dur : Int) (n : Nat) : Bool :=
  (List.range (n + 1)).any fun j =>
    ((List.range (n + 1)).all fun k => k < j || ex[k]!) && decide (dur * nsI ≤ (t[n]! : Int) - (t[j]! : Int))

/-- all ways of picking one element per tick, capped -/
def choiceCap : Nat := 512

def choices {α : Type} : List (List α) → List (List α)
  | [] => [[]]
  | o :: rest => let tl := choices rest; (o.flatMap fun x => tl.map (x :: ·)).take (choiceCap + 1)

def maxScoreO (l : List P3) : Nat := (l.map P3.score).foldl max 0

/-- the possible watched pressures of a tick: the cgroups whose score is the largest, or the zero
default when no score is positive -/
def watchedO (l : List P3) : List P3 :=
  let m := maxScoreO l
  if m == 0 then [P3.zero] else (l.filter (fun p => p.score == m)).eraseDups

def boolsJ (l : List Bool) : Json := Json.arr (l.map Json.bool).toArray

structure Out where
  accepts : Bool
  holds : Bool
  violated : List String
  cls : String
  extra : List (String × Json)

def mkOut (det : String) (acc : Bool × Nat) (model : List Bool) (badTicks : List Nat) (clause : String)
    (cls : String := "") (notes : List (String × Json) := []) : Out :=
  { accepts := acc.1
    holds := badTicks.isEmpty
    violated := if badTicks.isEmpty then [] else [det ++ "." ++ clause]
    cls := if badTicks.isEmpty then "" else (if cls.isEmpty then det ++ "." ++ clause else cls)
    extra := [("model", boolsJ model), ("model_first_bad_tick", if acc.1 then Json.null else Json.num (JsonNumber.fromNat acc.2)),
              ("holds_bad_ticks", Json.arr (badTicks.map (fun n => Json.num (JsonNumber.fromNat n))).toArray)] ++ notes }

/-- evaluate a per-choice-sequence oracle over all choice sequences; `ok w n` says whether the
observed verdict of tick `n` is allowed when the watched values are `w`.  Returns the bad ticks of
the best choice sequence (empty = some sequence explains every verdict). -/
def bestChoice {α : Type} (opts : List (List α)) (nTicks : Nat) (ok : Array α → Nat → Bool) [Inhabited α] :
    Option (List Nat) :=
  let cs := choices opts
  if cs.length > choiceCap then none else
  let bads := cs.map fun w =>
    let wa := w.toArray
    (List.range nTicks).filter fun n => !ok wa n
  some ((bads.foldl (fun best b => match best with
    | none => some b
    | some b0 => if b.length < b0.length then some b else some b0) none).getD [])

/-! ### the seven detectors -/

def resPressure (args : Json) (c : CgIn) : P3 :=
  (if jstr args "resource" == "io" then c.ioP else c.memP).getD P3.zero

instance : Inhabited P3 := ⟨P3.zero⟩

/-- an iteration order under which the selection loop of the model ends with the candidate `w`
(`watchP (candList w) = w`): the model's step functions are run on it -/
def candList (w : P3) : List P3 := if w == P3.zero then [] else [w]

def doPressureAbove (args : Json) (ticks : List TickIn) (obs : List Bool) : Out :=
  let thr := argInt args "threshold" 0
  let dur := argInt args "duration" 0
  let pats := patternsOf (jstr args "cgroup")
  let ta := ticks.toArray
  -- model
  let cg := fun (i : Nat) => (viewsOf ta[i]! (resolveModel ta[i]! pats)).map (resPressure args)
  let opts := fun (hit : Nat) (i : Nat) =>
    (watchCands (cg i)).eraseDups.map fun w => pressureAboveStep thr dur hit ta[i]!.clock (candList w)
  let acc := acceptND opts 0 obs
  -- oracle
  let t := (ticks.map (·.clock)).toArray
  let oa := obs.toArray
  let exOpts := ticks.map fun tk =>
    ((watchedO ((viewsOf tk (resolveOracle tk pats)).map (resPressure args))).map
      (fun w => decide (100 * thr < (w.s10 : Int)))).eraseDups
  match bestChoice exOpts ticks.length (fun ex n => oa[n]! == docWindow t ex dur n) with
  | some bad => mkOut "pressure_above" acc (someTrace opts 0 ticks.length) bad "window"
  | none => mkOut "pressure_above" acc (someTrace opts 0 ticks.length) (if acc.1 then [] else [acc.2]) "window" ""
      [("tie_overflow", Json.bool true)]

def usageOf (anon : Bool) (c : CgIn) : Nat := (if anon then c.statAnon else c.cur).getD 0

def doMemoryAbove (sc args : Json) (ticks : List TickIn) (obs : List Bool) : Out :=
  let anon := jhas args "threshold_anon"
  let thrS := if anon then jstr args "threshold_anon" else jstr args "threshold"
  let memTotal := jnat sc "memtotal_kb" * 1024
  match parseThreshold thrS memTotal with
  | none => { accepts := false, holds := true, violated := [], cls := "", extra := [("error", Json.str ("threshold outside the modelled grammar: " ++ thrS))] }
  | some thr =>
  let dur := argInt args "duration" 0
  let pats := patternsOf (jstr args "cgroup")
  let ta := ticks.toArray
  let opts := fun (hit : Nat) (i : Nat) =>
    [memoryAboveStep thr dur hit ta[i]!.clock ((viewsOf ta[i]! (resolveModel ta[i]! pats)).map (usageOf anon))]
  let acc := acceptND opts 0 obs
  let t := (ticks.map (·.clock)).toArray
  let oa := obs.toArray
  let ex := (ticks.map fun tk =>
    let us := (viewsOf tk (resolveOracle tk pats)).map (usageOf anon)
    decide (thr < ((us.foldl max 0 : Nat) : Int))).toArray
  let bad := (List.range ticks.length).filter fun n => oa[n]! != docWindow t ex dur n
  mkOut "memory_above" acc (someTrace opts 0 ticks.length) bad "window" ""
    [("threshold_bytes", Json.num (JsonNumber.fromInt thr))]

/-- (watched 60 s exceeds, watched 10 s value) -/
abbrev RiseObs := Bool × Nat

def doRising (args : Json) (ticks : List TickIn) (obs : List Bool) : Out :=
  let thr := argInt args "threshold" 0
  let dur := argInt args "duration" 0
  let (mant, decs) := parseDecimal ((jstr? args "fast_fall_ratio").getD OomdModel.Generated.detectRisingDefFastFallRatio)
  let pats := patternsOf (jstr args "cgroup")
  let ta := ticks.toArray
  let cg := fun (i : Nat) => (viewsOf ta[i]! (resolveModel ta[i]! pats)).map (resPressure args)
  let opts := fun (st : RiseSt) (i : Nat) =>
    (watchCands (cg i)).eraseDups.map fun w =>
      risingStep (fallingF32 mant decs) thr dur st ta[i]!.clock (candList w)
  let acc := acceptND opts RiseSt.init obs
  -- oracle
  let t := (ticks.map (·.clock)).toArray
  let oa := obs.toArray
  let den := 10 ^ decs
  let wOpts : List (List RiseObs) := ticks.map fun tk =>
    ((watchedO ((viewsOf tk (resolveOracle tk pats)).map (resPressure args))).map
      (fun w => (decide (100 * thr < (w.s60 : Int)), w.s10))).eraseDups
  let ok := fun (w : Array RiseObs) (n : Nat) =>
    let win := docWindow t (w.map (·.1)) dur n
    let above := decide (100 * thr < ((w[n]!).2 : Int))
    if !(win && above) then oa[n]! == false
    else if n == 0 then true      -- no previous sample: the text does not decide the fall test
    else
      let lhs := (w[n]!).2 * den
      let rhs := (w[n - 1]!).2 * mant
      let diff := if lhs < rhs then rhs - lhs else lhs - rhs
      if diff * 100000 ≤ max lhs rhs then true     -- inside the float rounding margin
      else oa[n]! == !(decide (lhs < rhs))
  match bestChoice wOpts ticks.length ok with
  | some bad => mkOut "pressure_rising_beyond" acc (someTrace opts RiseSt.init ticks.length) bad "rising"
  | none => mkOut "pressure_rising_beyond" acc (someTrace opts RiseSt.init ticks.length) (if acc.1 then [] else [acc.2]) "rising" ""
      [("tie_overflow", Json.bool true)]

def doReclaim (args : Json) (ticks : List TickIn) (obs : List Bool) : Out :=
  let dur := argInt args "duration" 0
  let pats := patternsOf (jstr args "cgroup")
  let ta := ticks.toArray
  let opts := fun (st : RecSt) (i : Nat) =>
    [reclaimStep dur st ta[i]!.clock ((viewsOf ta[i]! (resolveModel ta[i]! pats)).filterMap (·.statPgscan))]
  let acc := acceptND opts RecSt.init obs
  let t := (ticks.map (·.clock)).toArray
  let oa := obs.toArray
  let sums := (ticks.map fun tk => ((viewsOf tk (resolveOracle tk pats)).filterMap (·.statPgscan)).sum).toArray
  let grew := fun (j : Nat) => decide ((if j == 0 then 0 else sums[j - 1]!) < sums[j]!)
  let must := fun (n : Nat) => (List.range (n + 1)).any fun j =>
    grew j && decide ((t[n]! : Int) - (t[j]! : Int) ≤ dur * nsI)
  let may := fun (n : Nat) => (List.range (n + 1)).any fun j =>
    grew j && decide ((t[n]! : Int) - (t[j]! : Int) < (dur + 1) * nsI)
  let bad := (List.range ticks.length).filter fun n => (must n && !oa[n]!) || (oa[n]! && !may n)
  let neverGrew := bad.any fun n => !((List.range (n + 1)).any grew)
  mkOut "memory_reclaim" acc (someTrace opts RecSt.init ticks.length) bad "recent_growth"
    (if neverGrew then "memory_reclaim.never-grew" else "")

def doSwapFree (args : Json) (ticks : List TickIn) (obs : List Bool) : Out :=
  let pct := argInt args "threshold_pct" 0
  let bps := argInt args "swapout_bps_threshold" 0
  let ta := ticks.toArray
  let opts := fun (_ : Unit) (i : Nat) => [((), swapFreeVerdict pct bps ta[i]!.swTotal ta[i]!.swUsed ta[i]!.swRate)]
  let acc := acceptND opts () obs
  let oa := obs.toArray
  -- domain on which the text's exact percentage is what the code computes (C08.swap_free_iff)
  let inDom := fun (tk : TickIn) => tk.swTotal % 1024 == 0 && tk.swUsed % 1024 == 0 && tk.swUsed ≤ tk.swTotal &&
    decide (0 ≤ pct) && tk.swTotal * pct.toNat < 2 ^ 64
  let bad := (List.range ticks.length).filter fun n =>
    let tk := ta[n]!
    inDom tk && (oa[n]! != (decide ((tk.swTotal - tk.swUsed) * 100 < tk.swTotal * pct.toNat) && decide (bps ≤ tk.swRate)))
  mkOut "swap_free" acc (someTrace opts () ticks.length) bad "instant" ""
    [("outside_domain", Json.num (JsonNumber.fromNat (ticks.filter (fun tk => !inDom tk)).length))]

def doExists (args : Json) (ticks : List TickIn) (obs : List Bool) : Out :=
  let neg := argBool args "negate" false
  let pats := patternsOf (jstr args "cgroup")
  let ta := ticks.toArray
  let opts := fun (_ : Unit) (i : Nat) => [((), existsVerdict neg (resolveModel ta[i]! pats))]
  let acc := acceptND opts () obs
  let oa := obs.toArray
  let bad := (List.range ticks.length).filter fun n =>
    let some_ := (resolveOracle ta[n]! pats).any (fun r => !r.isEmpty)
    oa[n]! != (if neg then !some_ else some_)
  mkOut "exists" acc (someTrace opts () ticks.length) bad "instant"

def doDying (args : Json) (ticks : List TickIn) (obs : List Bool) : Out :=
  let lte := argBool args "lte" true
  let count := argInt args "count" 0
  let pats := patternsOf (jstr args "cgroup")
  let ta := ticks.toArray
  let opts := fun (_ : Unit) (i : Nat) =>
    [((), dyingVerdict lte count ((viewsOf ta[i]! (resolveModel ta[i]! pats)).filterMap (·.dying)))]
  let acc := acceptND opts () obs
  let oa := obs.toArray
  let bad := (List.range ticks.length).filter fun n =>
    let nrs := (viewsOf ta[n]! (resolveOracle ta[n]! pats)).filterMap (·.dying)
    oa[n]! != nrs.any (fun k => if lte then decide ((k : Int) ≤ count) else decide (count < (k : Int)))
  mkOut "nr_dying_descendants" acc (someTrace opts () ticks.length) bad "instant"

def handle (j : Json) : Json :=
  let sc := jobj j "s"
  let tr := jobj j "t"
  let id := jstr sc "id"
  let det := jstr sc "det"
  let args := jobj sc "args"
  let ticks := (jarr sc "ticks").map tickOf
  if jstr tr "outcome" != "ok" then
    -- crash / exception / rejected configuration: reported through the outcome by the check runner
    verdict id false true [] ("outcome:" ++ jstr tr "outcome")
  else
  let rets := jstrs tr "rets"
  if rets.length != ticks.length || rets.any (fun r => r != "CONTINUE" && r != "STOP") then
    verdict id false false [det ++ ".verdict_domain"] (det ++ ".verdict_domain")
  else
  let obs := rets.map (· == "CONTINUE")
  let out? : Option Out :=
    match det with
    | "pressure_above" => some (doPressureAbove args ticks obs)
    | "memory_above" => some (doMemoryAbove sc args ticks obs)
    | "pressure_rising_beyond" => some (doRising args ticks obs)
    | "memory_reclaim" => some (doReclaim args ticks obs)
    | "swap_free" => some (doSwapFree args ticks obs)
    | "exists" => some (doExists args ticks obs)
    | "nr_dying_descendants" => some (doDying args ticks obs)
    | _ => none
  match out? with
  | none => Json.mkObj [("id", Json.str id), ("error", Json.str ("unknown detector " ++ det))]
  | some o =>
    match o.extra.find? (fun e => e.1 == "error") with
    | some (_, e) => Json.mkObj [("id", Json.str id), ("error", e)]
    | none => verdict id o.accepts o.holds o.violated o.cls o.extra

end Driver.Detect

def main : IO UInt32 := Driver.runMain Driver.Detect.handle

import Driver.Json
import OomdModel.DropIn

/-! Driver glue for engine `h_dropin` (C13).

`accepts`: the operational model (`OomdModel.DropIn.step` from the compiled engine) reproduces the
implementation's per-operation results, `oomd.dropin.added` values, scripted-plugin call log of
every tick and the hook fired for every probe cgroup.

`holds`: the clauses of C13 evaluated on the implementation's observations against a *declarative*
reference computed from the operation list (`Ref` below: the last effective operation per tag decides
whether it is active; recency orders the active tags) - it never calls the model's `addDropInConfig` /
`removeDropInConfig` / `compileDropIn`.  Clauses: `refused_as_whole` / `accepted_when_permitted` (result of
every operation), `added_count`, `failed_add_leaves_nothing`, `lifo_before_base` (detector sequence of
every tick = drop-ins newest first, then the base), `enabled_iff`, `scoped_replacement` (prerun sequence:
which parts every ruleset has), `fresh_copy` (every ruleset of the evaluation order pauses / suspends /
resumes on its own, with the base's post_action_delay, name and prekill-hook time-out; a re-added
drop-in starts from scratch), `hook_priority` (hook fired per probe cgroup).  The reversibility clause
compares two implementation traces (the history and its twin without the removed tag) and needs no
reference at all.  Not compared anywhere: log text, which hooks were asked (`canRunOnCgroup` calls),
plugin construction / init order, `oomd.dropin.fired`. -/
namespace Driver.Dropin
open Lean OomdModel.Engine OomdModel.DropIn

/-! ### scenario parsing -/

structure PlugJ where
  inst : Nat
  bad : Bool

def parsePlug (j : Json) : PlugJ :=
  match j with
  | Json.obj _ => { inst := jnat j "inst", bad := jbool j "fail_init" || jbool j "unknown" }
  | _ => { inst := asNat j, bad := false }

structure RsJ where
  /-- identity of this IR ruleset inside the scenario (base index / tick, operation, position) -/
  key : String := ""
  rid : Nat
  groups : List (Nat × List PlugJ)
  actions : List PlugJ
  delay : String
  hookTimeout : String
  silence : String
  perm : Perm

def parseRsJ (j : Json) : RsJ :=
  let d := jobj j "dropin"
  { rid := jnat j "rid"
    groups := (jarr j "groups").map fun g => (jnat g "gid", (jarr g "dets").map parsePlug)
    actions := (jarr j "actions").map parsePlug
    delay := jstr j "delay"
    hookTimeout := jstr j "hook_timeout"
    silence := jstr j "silence"
    perm := { disable := jbool d "disable", dg := jbool d "dg", act := jbool d "act" } }

def silenceOk (s : String) : Bool :=
  s.isEmpty || ((s.trimAscii.toString.splitOn ",").all fun p =>
    let q := p.trimAscii.toString
    q == "engine" || q == "plugins")

def secOk (s : String) : Bool := s.isEmpty || s.toNat?.isSome

def RsJ.malformed (r : RsJ) : Bool := !(silenceOk r.silence && secOk r.delay && secOk r.hookTimeout)

def RsJ.plugs (r : RsJ) : List PlugJ := r.groups.flatMap (·.2) ++ r.actions

def RsJ.toIR (r : RsJ) : RsIR :=
  { rid := r.rid
    groups := r.groups.map fun g => { gid := g.1, dets := g.2.map (·.inst) }
    actions := r.actions.map (·.inst)
    delay := (if r.delay.isEmpty then 15 else r.delay.toNat?.getD 0) * NS
    hookTimeout := (if r.hookTimeout.isEmpty then 5 else r.hookTimeout.toNat?.getD 0) * NS
    perm := r.perm
    malformed := r.malformed }

structure HookJ where
  hid : Nat
  pats : List String
  bad : Bool

def parseHook (j : Json) : HookJ :=
  { hid := jnat j "hid", pats := jstrs j "match", bad := jbool j "fail_init" || jbool j "unknown" }

inductive OpJ
  | add (tag : String) (rss : List RsJ) (hooks : List HookJ)
  | remove (tag : String)

def OpJ.tag : OpJ → String
  | .add t _ _ => t
  | .remove t => t

def parseOp (j : Json) : OpJ :=
  if jstr j "op" == "add" then .add (jstr j "tag") ((jarr j "rulesets").map parseRsJ) ((jarr j "hooks").map parseHook)
  else .remove (jstr j "tag")

structure TickJ where
  gap : Nat
  calls : List (Nat × Call)
  ops : List OpJ

def callOf (calls : List (Nat × Call)) (i : Nat) : Call := (calls.lookup i).getD {}

def parseCall (j : Json) : Call :=
  let a := asArr j
  let r := match asNat (a.getD 0 Json.null) with | 1 => Ret.stop | 2 => Ret.async | _ => Ret.cont
  let p := asInt (a.getD 2 Json.null)
  { ret := r, adv := asNat (a.getD 1 Json.null), pause := if p < 0 then none else some (p.toNat * NS) }

def keyOp (pfx : String) (o : OpJ) : OpJ :=
  match o with
  | .add t rss hs => .add t ((List.range rss.length).zip rss |>.map fun (k, r) => { r with key := s!"{pfx}k{k}" }) hs
  | o => o

def parseTick (idx : Nat) (j : Json) : TickJ :=
  let calls := match jobj j "calls" with
    | Json.obj kvs => kvs.toList.map fun (k, v) => (k.toNat!, parseCall v)
    | _ => []
  let ops := (jarr j "ops").map parseOp
  { gap := jnat j "gap", calls := calls
    ops := (List.range ops.length).zip ops |>.map fun (i, o) => keyOp s!"t{idx}o{i}" o }

structure Scn where
  base : List RsJ
  root : List RsJ
  hooks : List HookJ
  probes : List String
  ticks : List TickJ

def parseScn (sc : Json) (ticksKey : String := "ticks") : Scn :=
  let base0 := (jarr sc "rulesets").map parseRsJ
  let base := (List.range base0.length).zip base0 |>.map fun (i, r) => { r with key := s!"b{i}" }
  let tks := jarr sc ticksKey
  { base := base
    root := if jhas sc "root" then (jarr sc "root").map parseRsJ else base
    hooks := (jarr sc "hooks").map parseHook
    probes := jstrs sc "probes"
    ticks := (List.range tks.length).zip tks |>.map fun (i, t) => parseTick i t }

def Scn.allOps (s : Scn) : List OpJ := s.ticks.flatMap (·.ops)

def Scn.allHooks (s : Scn) : List HookJ :=
  s.hooks ++ s.allOps.flatMap fun o => match o with | .add _ _ hs => hs | _ => []

def Scn.allRs (s : Scn) : List RsJ :=
  s.base ++ s.root ++ s.allOps.flatMap fun o => match o with | .add _ rs _ => rs | _ => []

def Scn.tagId (s : Scn) (t : String) : Nat := ((s.allOps.map (·.tag)).eraseDups.idxOf? t).getD 0

/-! ### implementation trace -/

inductive IEv
  | p (inst : Nat)
  | d (inst : Nat) (now : Nat)
  | a (inst : Nat) (now : Nat) (rs grp : String) (uuid : Int) (deadline : Int) (inv : Bool)
deriving BEq, Repr

def parseIEv (j : Json) : IEv :=
  let a := asArr j
  match asStr (a.getD 0 Json.null) with
  | "p" => IEv.p (asNat (a.getD 1 Json.null))
  | "d" => IEv.d (asNat (a.getD 1 Json.null)) (asNat (a.getD 2 Json.null))
  | _ => IEv.a (asNat (a.getD 1 Json.null)) (asNat (a.getD 2 Json.null)) (asStr (a.getD 3 Json.null))
      (asStr (a.getD 4 Json.null)) (asInt (a.getD 5 Json.null)) (asInt (a.getD 6 Json.null)) (asBool (a.getD 7 Json.null))

def evJ : IEv → Json
  | IEv.p i => Json.arr #["p", i]
  | IEv.d i n => Json.arr #["d", i, n]
  | IEv.a i n r g u d inv => Json.arr #["a", i, n, r, g, Json.num u, Json.num d, inv]

structure ITrace where
  ticks : List (List IEv)
  ops : List (String × Int)              -- result, stat; in order
  probes : List (List (String × Int))    -- per tick: probe, fired hid or -1
  finalStat : Int
deriving BEq

def parseTrace (tr : Json) : ITrace :=
  { ticks := (jarr tr "ticks").map fun t => (asArr t).map parseIEv
    ops := (jarr tr "ops").map fun o => let a := asArr o; (asStr (a.getD 2 Json.null), asInt (a.getD 3 Json.null))
    probes := (jarr tr "probes").map fun t => (asArr t).map fun p =>
      let a := asArr p; (asStr (a.getD 0 Json.null), asInt (a.getD 1 Json.null))
    finalStat := jint tr "final_stat" }

/-! ### the operational model on the scenario -/

def renameUuids (ticks : List (List Ev)) : List (List IEv) :=
  let step (acc : List Nat × List IEv) (e : Ev) : List Nat × List IEv :=
    match e with
    | Ev.prerun i => (acc.1, acc.2 ++ [IEv.p i])
    | Ev.det i n => (acc.1, acc.2 ++ [IEv.d i n])
    | Ev.act i n c inv =>
      let (seen, idx) := match acc.1.idxOf? c.uuid with
        | some k => (acc.1, k)
        | none => (acc.1 ++ [c.uuid], acc.1.length)
      (seen, acc.2 ++ [IEv.a i n s!"r{c.ruleset}" s!"g{c.group}" idx c.deadline inv])
  let rec go (seen : List Nat) : List (List Ev) → List (List IEv)
    | [] => []
    | t :: ts =>
      let r := t.foldl step (seen, [])
      r.2 :: go r.1 ts
  go [] ticks

def resStr : OpRes → String
  | .compileFailed => "compile-failed"
  | .added => "added"
  | .addFailed => "add-failed"
  | .removed => "removed"

def runModel (s : Scn) (inv : Bool) : Option ITrace :=
  let badP := (s.allRs.flatMap (·.plugs)).filter (·.bad) |>.map (·.inst)
  let badH := s.allHooks.filter (·.bad) |>.map (·.hid)
  let reg : Reg := { badPlugin := fun i => badP.contains i, badHook := fun h => badH.contains h }
  let env : Env := { reg := reg, root := { rulesets := s.root.map (·.toIR), hooks := [] }, inv := inv }
  let canRun (probe : String) (hid : Nat) : Bool :=
    match s.allHooks.find? (·.hid == hid) with
    | some h => h.pats.contains probe
    | none => false
  match compile reg { rulesets := s.base.map (·.toIR), hooks := s.hooks.map (·.hid) } with
  | none => none
  | some eng =>
    let toOp (o : OpJ) : Op := match o with
      | .add t rs hs => Op.add (s.tagId t) { rulesets := rs.map (·.toIR), hooks := hs.map (·.hid) }
      | .remove t => Op.remove (s.tagId t)
    let rec goOps (w : OomdModel.DropIn.World) (acc : List (String × Int)) : List OpJ → OomdModel.DropIn.World × List (String × Int)
      | [] => (w, acc)
      | o :: os =>
        let r := step env w (toOp o)
        match r.2 with
        | Out.op res st => goOps r.1 (acc ++ [(resStr res, if res == OpRes.compileFailed then -1 else st)]) os
        | _ => goOps r.1 acc os
    let rec go (w : OomdModel.DropIn.World) (tk : List (List Ev)) (ops : List (String × Int)) (pr : List (List (String × Int))) :
        List TickJ → ITrace
      | [] => { ticks := renameUuids tk, ops := ops, probes := pr, finalStat := w.eng.added }
      | t :: ts =>
        let (w1, ops1) := goOps w ops t.ops
        let r := step env w1 (Op.tick { gap := t.gap, sc := callOf t.calls })
        let evs := match r.2 with | Out.tick e => e | _ => []
        let p := s.probes.map fun pb => (pb, match firePrekillHook r.1.eng (canRun pb) with | some h => Int.ofNat h | none => -1)
        go r.1 (tk ++ [evs]) ops1 (pr ++ [p]) ts
    some (go { eng := eng, now := 1000 * NS, ctr := 0 } [] [] [] s.ticks)

/-! ### declarative reference (property clauses) -/

namespace Ref

/-- the parts a ruleset contributes to the call log -/
structure Parts where
  dets : List Nat
  acts : List Nat
  /-- identity (a re-added drop-in is a new ruleset), detector groups, and what a copy keeps from the base -/
  key : String := ""
  groups : List (List Nat) := []
  delay : Nat := 0
  hookTimeout : Nat := 0
  rname : String := ""
deriving BEq, Repr

def secs (s : String) (dflt : Nat) : Nat := (if s.isEmpty then dflt else s.toNat?.getD 0) * NS

def partsOf (r : RsJ) : Parts :=
  { dets := r.groups.flatMap fun g => g.2.map (·.inst), acts := r.actions.map (·.inst)
    key := r.key, groups := r.groups.map fun g => g.2.map (·.inst)
    delay := secs r.delay 15, hookTimeout := secs r.hookTimeout 5, rname := s!"r{r.rid}" }

/-- a base-IR ruleset can be instantiated -/
def baseOk (r : RsJ) : Bool :=
  !r.malformed && !r.groups.isEmpty && !r.actions.isEmpty && r.groups.all (fun g => !g.2.isEmpty) && r.plugs.all (!·.bad)

/-- C13 "refused as a whole if it targets an unknown ruleset or overrides a part the base did not open
up" (plus: a plugin / hook of the drop-in cannot be instantiated, a malformed field) -/
def compiles (root : List RsJ) (rss : List RsJ) (hooks : List HookJ) : Bool :=
  rss.all (fun d =>
    match root.find? (·.rid == d.rid) with
    | none => false
    | some b =>
      baseOk b && !d.malformed && d.groups.all (fun g => !g.2.isEmpty) && d.plugs.all (!·.bad) &&
      (d.groups.isEmpty || b.perm.dg) && (d.actions.isEmpty || b.perm.act)) &&
  hooks.all (!·.bad)

/-- effect of an operation on the engine: `none` = no effect at all; `some (tag, none)` = tag absent
afterwards; `some (tag, some content)` = tag present with this content, as the newest -/
def effect (s : Scn) (o : OpJ) : Option (String × Option (List RsJ × List HookJ)) × String :=
  match o with
  | .remove t => (some (t, none), "removed")
  | .add t rss hooks =>
    if !compiles s.root rss hooks then (none, "compile-failed")
    else if rss.all fun d => s.base.any (·.rid == d.rid) then (some (t, some (rss, hooks)), "added")
    else (some (t, none), "add-failed")

/-- active drop-ins, newest first: scan the history backwards; the last effective operation on a tag
decides -/
def active (s : Scn) : List OpJ → List String → List (String × List RsJ × List HookJ)
  | [], _ => []
  | o :: earlier, seen =>
    match (effect s o).1 with
    | none => active s earlier seen
    | some (t, c) =>
      if seen.contains t then active s earlier seen
      else match c with
        | none => active s earlier (t :: seen)
        | some x => (t, x) :: active s earlier (t :: seen)

def activeAfter (s : Scn) (ops : List OpJ) := active s ops.reverse []

/-- expected rulesets of one tick, in evaluation order; `force` overrides the enablement of the base
rulesets (used only to classify a mismatch) -/
def orderWith (s : Scn) (act : List (String × List RsJ × List HookJ)) (force : Option (List Bool)) : List Parts :=
  -- newest first; inside one drop-in file later rulesets were added later
  let flat : List RsJ := act.flatMap fun a => a.2.1.reverse
  let idxs := List.range s.base.length
  (idxs.zip s.base).flatMap fun (i, b) =>
    let first := (s.base.findIdx? (·.rid == b.rid)) == some i
    let mine := if first then flat.filter (·.rid == b.rid) else []
    let bp := partsOf b
    let ds := mine.map fun d =>
      let dp := partsOf d
      -- a copy of the base: only the supplied parts come from the drop-in
      { bp with dets := if d.groups.isEmpty then bp.dets else dp.dets, acts := if d.actions.isEmpty then bp.acts else dp.acts
                groups := if d.groups.isEmpty then bp.groups else dp.groups, key := d.key }
    let on := match force with
      | some m => m.getD i true
      | none => !(b.perm.disable && !mine.isEmpty)
    ds ++ (if on then [bp] else [])

def order (s : Scn) (act : List (String × List RsJ × List HookJ)) : List Parts := orderWith s act none

def masks : Nat → List (List Bool)
  | 0 => [[]]
  | n + 1 => (masks n).flatMap fun m => [true :: m, false :: m]

def count (s : Scn) (act : List (String × List RsJ × List HookJ)) : Int :=
  Int.ofNat ((act.flatMap fun a => a.2.1).filter fun d => s.base.any (·.rid == d.rid)).length

def hookPriority (s : Scn) (act : List (String × List RsJ × List HookJ)) : List HookJ :=
  (act.flatMap fun a => a.2.2) ++ s.hooks

def fired (s : Scn) (act : List (String × List RsJ × List HookJ)) (probe : String) : Int :=
  match (hookPriority s act).find? (·.pats.contains probe) with
  | some h => Int.ofNat h.hid
  | none => -1

end Ref

/-! "fresh copy of the base": every ruleset of the evaluation order behaves as a ruleset of its own -
own pause deadline (with the base's post_action_delay), own suspended chain, the base's name and
prekill-hook time-out in the action context; a re-added drop-in starts from scratch -/

structure Abs where
  pauseUntil : Nat := 0
  susp : Option Nat := none

def takeThrough (sc : Nat → Call) : List Nat → List Nat
  | [] => []
  | a :: as => if (sc a).ret == Ret.cont then a :: takeThrough sc as else [a]

def iNow : IEv → Nat
  | IEv.d _ n => n
  | IEv.a _ n _ _ _ _ _ => n
  | _ => 0
def iInst : IEv → Nat
  | IEv.p i => i
  | IEv.d i _ => i
  | IEv.a i _ _ _ _ _ _ => i
def isA : IEv → Bool
  | IEv.a .. => true
  | _ => false

/-- cut the run-phase events into one segment per expected ruleset (its detectors, then the actions
that follow); `none` if the events do not have that shape -/
def segments : List Ref.Parts → List IEv → Option (List (List IEv × List IEv))
  | [], [] => some []
  | [], _ => none
  | p :: ps, evs =>
    let ds := evs.take p.dets.length
    let rest := evs.drop p.dets.length
    if ds.map iInst != p.dets || ds.any isA then none
    else
      let as := rest.takeWhile isA
      (segments ps (rest.dropWhile isA)).map fun r => (ds, as) :: r

def checkFresh (sc : Nat → Call) (p : Ref.Parts) (ds as : List IEv) (A : Abs) : Bool × Abs × Bool :=
  let T := match ds.getLast? with | some e => iNow e + (sc (iInst e)).adv | none => 0
  let paused := decide (T < A.pauseUntil)
  let firedIdx := p.groups.findIdx? fun g => g.all fun d => (sc d).ret != Ret.stop
  let expected :=
    if paused then []
    else match A.susp with
      | some i => takeThrough sc (p.acts.drop i)
      | none => if firedIdx.isSome then takeThrough sc p.acts else []
  let got := as.map iInst
  let nameOk := as.all fun e => match e with | IEv.a _ _ r _ _ _ _ => r == p.rname | _ => true
  -- a chain started on this tick carries the deadline "fired + the base's prekill_hook_timeout"
  let dlOk := match (if paused then none else A.susp), firedIdx, as.head? with
    | none, some gi, some (IEv.a _ _ _ _ _ dl _) =>
      let upto := ((p.groups.take (gi + 1)).map List.length).foldl (· + ·) 0
      match ds[upto - 1]? with
      | some e => dl == Int.ofNat (iNow e + (sc (iInst e)).adv + p.hookTimeout)
      | none => true
    | _, _, _ => true
  let A' : Abs := match as.getLast? with
    | none => A
    | some e =>
      let c := sc (iInst e)
      let tEnd := iNow e + c.adv
      match c.ret with
      | Ret.stop => { pauseUntil := tEnd + c.pause.getD p.delay, susp := none }
      | Ret.async => { A with susp := some ((p.acts.idxOf? (iInst e)).getD 0) }
      | Ret.cont => { A with susp := none }
  -- third component: a suspended chain was due to be resumed (C06: also after ticks on which the ruleset was disabled by a
  -- drop-in, and for a ruleset-cgroup base whose instance has to survive those ticks) and something else happened
  (got == expected && nameOk && dlOk, A', A.susp.isSome && !paused && got != expected)

def detSeq (evs : List IEv) : List Nat := evs.filterMap fun e => match e with | IEv.d i _ => some i | _ => none
def preSeq (evs : List IEv) : List Nat := evs.filterMap fun e => match e with | IEv.p i => some i | _ => none

/-- clauses on the implementation trace -/
def check (s : Scn) (t : ITrace) (cgMode : Bool := false) : List String := Id.run do
  let mut v : List String := []
  let mut done : List OpJ := []
  let mut opRes := t.ops
  let mut lastOpFailed := false
  let mut prevOk := true
  let mut abs : List (String × Abs) := []
  for (tk, (evs, pr)) in s.ticks.zip (t.ticks.zip t.probes) do
    lastOpFailed := false
    for o in tk.ops do
      done := done ++ [o]
      let act := Ref.activeAfter s done
      let exp := (Ref.effect s o).2
      match opRes with
      | [] => v := v ++ ["trace.missing_ops"]
      | (res, stat) :: rest =>
        opRes := rest
        if res != exp then
          v := v ++ [if exp == "added" then "C13.accepted_when_permitted" else "C13.refused_as_whole"]
        if exp == "compile-failed" || exp == "add-failed" then lastOpFailed := true
        -- a drop-in that does not compile never reaches the engine: no statistic is reported for it
        if res != "compile-failed" && stat != Ref.count s act then
          v := v ++ [if exp == "add-failed" then "C13.failed_add_leaves_nothing" else "C13.added_count"]
    let act := Ref.activeAfter s done
    let exp := Ref.order s act
    -- how often each detector ran against how often the reference semantics says it runs (every enabled ruleset, base or
    -- drop-in copy, exactly once; with ruleset-cgroup bases: once per matching cgroup that passes the filter - the generated
    -- trees have exactly one such cgroup).  Named for the passes of C02 and C11 on this engine.
    let cntOf (l : List Nat) (x : Nat) := (l.filter (· == x)).length
    let exD := exp.flatMap (·.dets)
    let gotD := detSeq evs
    if (exD ++ gotD).eraseDups.any fun d => cntOf exD d != cntOf gotD d then
      v := v ++ [if cgMode then "C11.dropin_world_once_per_matching_cgroup" else "C02.enabled_rulesets_run_exactly_once"]
    if detSeq evs != exp.flatMap (·.dets) then
      if (Ref.masks s.base.length).any fun m => detSeq evs == (Ref.orderWith s act (some m)).flatMap (·.dets) then
        v := v ++ ["C13.enabled_iff"]
      else if lastOpFailed && prevOk then v := v ++ ["C13.failed_add_leaves_nothing"]
      else v := v ++ ["C13.lifo_before_base"]
      prevOk := false
    else if !cgMode && preSeq evs != exp.flatMap (fun p => p.dets ++ p.acts) then
      v := v ++ ["C13.scoped_replacement"]
    else
      let runEvs := evs.filter fun e => match e with | IEv.p _ => false | _ => true
      match segments exp runEvs with
      | none => v := v ++ ["C13.scoped_replacement"]
      | some segs =>
        let mut abs' : List (String × Abs) := []
        for (p, (ds, as)) in exp.zip segs do
          let (ok, A', resumeBad) := checkFresh (callOf tk.calls) p ds as ((abs.lookup p.key).getD {})
          if !ok then v := v ++ ["C13.fresh_copy"]
          if resumeBad then v := v ++ ["C06.suspended_chain_resumes"]
          abs' := abs' ++ [(p.key, A')]
        -- a disabled base ruleset does not run but keeps its state
        abs := abs' ++ abs.filter fun kv => !(abs'.any fun kv' => kv'.1 == kv.1)
    for (pb, f) in pr do
      if f != Ref.fired s act pb then v := v ++ ["C13.hook_priority"]
  if t.ticks.length != s.ticks.length then v := v ++ ["trace.missing_ticks"]
  return v.eraseDups

/-- reversibility, implementation against implementation: from tick `k` on (the tick whose operations
remove the tag for good) the history and its twin without any operation on that tag must show the
same rulesets in the same order (detector and prerun sequences), the same hook for every probe and
the same final `oomd.dropin.added` -/
def checkTwin (k : Nat) (a b : ITrace) (cgMode : Bool := false) : List String :=
  let sameFrom (x y : List (List IEv)) (f : List IEv → List Nat) := (x.drop k).map f == (y.drop k).map f
  (if sameFrom a.ticks b.ticks detSeq && (cgMode || sameFrom a.ticks b.ticks preSeq) then [] else ["C13.remove_reversible.order"]) ++
  (if a.probes.drop k == b.probes.drop k then [] else ["C13.remove_reversible.hooks"]) ++
  (if a.finalStat == b.finalStat then [] else ["C13.remove_reversible.count"])

/-- C02 with drop-ins coming and going: on every tick each detector instance is run exactly as often as it was prerun - the set
of rulesets (base + drop-ins) that `prerun` walks is the set `runOnce` evaluates; a drop-in applied or removed between the two
passes of one tick breaks this.  (Detectors only: they run on every tick whatever fires.) -/
def checkC02 (t : ITrace) : List String :=
  let cnt (l : List Nat) (x : Nat) := (l.filter (· == x)).length
  let allDets := (t.ticks.flatMap detSeq).eraseDups
  let bad := t.ticks.any fun evs =>
    let ds := detSeq evs
    let ps := preSeq evs
    allDets.any fun i => cnt ds i != cnt ps i
  if bad then ["C02.same_rulesets_prerun_and_run"] else []

def handle (j : Json) : Json :=
  let sc := jobj j "s"
  let tr := jobj j "t"
  let id := jstr sc "id"
  let s := parseScn sc
  -- scenarios with ruleset-cgroup bases (`tree`): such a ruleset is evaluated through a per-cgroup instance, and both its
  -- template and the instance are prerun (C11); the prerun events are left out of the comparison and of the clauses there,
  -- everything about what *runs* (order, replacement, enablement, hooks, counts) is decided as for plain rulesets
  let cgMode := jhas sc "tree"
  let noPre (t : ITrace) : ITrace :=
    if cgMode then { t with ticks := t.ticks.map fun evs => evs.filter fun e => match e with | IEv.p _ => false | _ => true } else t
  let impl := noPre (parseTrace tr)
  let inv := !(jbool sc "model_unfixed")
  match (runModel s inv).map noPre with
  | none => verdict id (jstr tr "outcome" == "compile-failed") true [] ""
  | some m =>
    let twinOk : Bool × List String :=
      if jhas sc "twin_ticks" then
        let s2 := parseScn sc "twin_ticks"
        let impl2 := noPre (parseTrace (jobj tr "twin"))
        let acc2 := match (runModel s2 inv).map noPre with | some m2 => m2 == impl2 | none => false
        (acc2, check s2 impl2 cgMode ++ checkTwin (jnat sc "twin_from") impl impl2 cgMode)
      else (true, [])
    let accepts := m == impl && twinOk.1
    -- the scenario's `prop` says whose clauses decide `holds` (C13 by default; C02 runs this engine as a second pass)
    let viol := if jstr sc "prop" == "C02" then checkC02 impl ++ (check s impl cgMode).filter (·.startsWith "C02.")
      else if jstr sc "prop" == "C06" then (check s impl cgMode).filter (·.startsWith "C06.")
      else if jstr sc "prop" == "C11" then (check s impl cgMode).filter (·.startsWith "C11.")
      else ((check s impl cgMode ++ twinOk.2).eraseDups).filter (fun c => c.startsWith "C13." || c.startsWith "trace.")
    let firstDiff := ((m.ticks.zip impl.ticks).findIdx? fun (a, b) => a != b).getD (min m.ticks.length impl.ticks.length)
    verdict id accepts viol.isEmpty viol ""
      [("first_diff_tick", firstDiff),
       ("model_tick", Json.arr ((m.ticks.getD firstDiff []).map evJ).toArray),
       ("model_ops", Json.arr (m.ops.map fun (r, st) => Json.arr #[Json.str r, Json.num st]).toArray),
       ("model_probes", Json.arr (m.probes.map fun t => Json.arr (t.map fun (p, f) => Json.arr #[Json.str p, Json.num f]).toArray).toArray)]

end Driver.Dropin

def main : IO UInt32 := Driver.runMain Driver.Dropin.handle

import Driver.Json

/-! Driver glue for engine `dropin` (stub: not built yet). -/
namespace Driver.Dropin
open Lean

def handle (j : Json) : Json :=
  Json.mkObj [("id", Json.str (jstr (jobj j "s") "id")), ("error", Json.str "engine dropin not implemented")]

end Driver.Dropin

def main : IO UInt32 := Driver.runMain Driver.Dropin.handle

import Driver.Json
import OomdModel.Hook

/-! Driver glue for engine `h_hook` (C07).  Scenario + implementation trace in, verdict out.

`accepts`: the model (`OomdModel.Hook.runHistory`) run on the scenario's ticks - with the environment answers found in the
implementation's trace (kill(2)/xattr/… results, `didFinish` answers, the clock reading at every `pastPrekillHookTimeout`
call as reconstructed from the clock stamps of the events), an admissible ranking that resolves ties the way the trace
suggests, and the hook priority list computed from the scenario's drop-in operations - produces, tick by tick, exactly the
implementation's hook events (fire / poll / destroy with hook, cgroup, invocation), its boundary events and its return value,
and sees the same ActionContext deadline.

`holds`: the clauses of C07 evaluated on the implementation's stamped events and the scenario alone (no model run involved);
see `holdsC07`.

The first half of this file (scenario → views, ranking hints, parsing of boundary events) is the same glue as `Driver.Kill`
(which cannot be imported: it defines `main`). -/
namespace Driver.Hook
open Lean OomdModel OomdModel.Kill OomdModel.Hook

/-! ## scenario → views (as Driver.Kill) -/

structure Meta where
  id : Nat
  path : String
  comps : List String
  parent : Option Nat
deriving Repr

def semBool? (j : Json) (k : String) : Option Bool :=
  match j.getObjVal? k with
  | .ok (Json.bool b) => some b
  | .ok v => match v.getInt? with
    | .ok n => some (n != 0)
    | _ => none
  | _ => none

partial def parseNode (listing : Json) (parentPath : List String) (j : Json) : View :=
  let name := jstr j "name"
  let comps := parentPath ++ [name]
  let sem := jobj j "sem"
  let xs := jobj j "xattrs"
  let marks : Marks := {
    trustedPrefer := jhas xs Generated.xattrPreferTrusted
    userPrefer := jhas xs Generated.xattrPreferUser
    trustedAvoid := jhas xs Generated.xattrAvoidTrusted
    userAvoid := jhas xs Generated.xattrAvoidUser }
  let info : Info := {
    id := jnat j "id"
    path := "/".intercalate comps
    populated := semBool? sem "populated"
    oomGroup := semBool? sem "oom_group"
    marks := marks
    key := jint sem "key"
    eligible := (semBool? sem "eligible").getD true
    pidsCurrent := jint? sem "pids_current" }
  let kids := jarr j "children"
  let order := jstrs listing (toString info.id)
  let listed := order.filterMap fun n => kids.find? (fun c => jstr c "name" == n)
  let rest := kids.filter fun c => !(order.contains (jstr c "name"))
  View.mk info ((listed ++ rest).map (parseNode listing comps))

partial def metas (parent : Option Nat) (parentPath : List String) (j : Json) : List Meta :=
  let name := jstr j "name"
  let comps := parentPath ++ [name]
  let id := jnat j "id"
  { id := id, path := "/".intercalate comps, comps := comps, parent := parent } ::
    (jarr j "children").flatMap (metas (some id) comps)

partial def allViews (v : View) : List View := v :: v.children.flatMap allViews

def findView (vs : List View) (id : Nat) : Option View := vs.find? (fun v => v.id == id)

def argBool (args : Json) (k : String) (dflt : Bool) : Bool :=
  match jstr? args k with
  | some "true" => true
  | some "True" => true
  | some "1" => true
  | some "false" => false
  | some "False" => false
  | some "0" => false
  | _ => dflt

def cfgOf (sc : Json) : KillCfg :=
  let args := jobj (jobj sc "cfg") "args"
  { recursive := argBool args "recursive" false
    dry := argBool args "dry" false
    alwaysContinue := argBool args "always_continue" false
    kernelKill := argBool args "kernelkill" false
    reapMemory := argBool args "reap_memory" true
    postActionDelay := (jstr? args "post_action_delay").bind String.toNat?
    hasRuleset := (jbool? (jobj sc "ctx") "has_ruleset").getD true }

def patterns (sc : Json) : List String :=
  ((jstr (jobj (jobj sc "cfg") "args") "cgroup").splitOn ",").filter (· ≠ "")

def rootsOf (ms : List Meta) (views : List View) (pats : List String) : List View :=
  let t : OomdModel.Path.Tree := { dirs := [] :: ms.map (fun m => m.comps.map String.toList), files := [] }
  let paths := pats.flatMap fun p => OomdModel.Path.resolve t [] (OomdModel.Path.mk [] p.toList)
  let norm (cs : List (List Char)) : List String :=
    cs.foldl (fun acc c =>
      if c == ['.'] then acc else if c == ['.', '.'] then acc.dropLast else acc ++ [String.ofList c]) []
  let rel := (paths.map norm).eraseDups
  rel.filterMap fun cs => (ms.find? (fun m => m.comps == cs)).bind (fun m => findView views m.id)

/-! ## ranking: lexicographic (preference, key), descending; ties resolved by the observed order (as Driver.Kill) -/

def rk (v : View) : Int × Int := (v.pref.toInt, v.info.key)
def rkGe (a b : View) : Bool := (rk a).1 > (rk b).1 || ((rk a).1 == (rk b).1 && (rk a).2 ≥ (rk b).2)

def insertBy (le : α → α → Bool) (x : α) : List α → List α
  | [] => [x]
  | y :: ys => if le x y then x :: y :: ys else y :: insertBy le x ys
def sortBy (le : α → α → Bool) (l : List α) : List α := l.foldr (insertBy le) []

def indexOf? (l : List Nat) (x : Nat) : Option Nat :=
  let rec go : List Nat → Nat → Option Nat
    | [], _ => none
    | y :: ys, i => if y == x then some i else go ys (i + 1)
  go l 0

/-- position of the first touched path that is `p` or lies below it -/
def pathIdx (tp : List String) (p : String) : Nat :=
  let rec go : List String → Nat → Nat
    | [], _ => 1000000
    | q :: qs, i => if q == p || q.startsWith (p ++ "/") then i else go qs (i + 1)
  go tp 0

partial def hintOf (cfg : KillCfg) (touched : List Nat) (tp : List String) (v : View) : Nat :=
  -- (a cgroup that is descended into on the tick it is ranked can be attempted itself on a later tick of the same kill cycle,
  -- when its children are gone by the time the serialised stack is resumed - its own position in the trace counts too - or be
  -- descended into then, into children that did not exist (or were other incarnations) when it was ranked: whatever the trace
  -- touches at or below its path counts, `tp` = the paths of `touched`)
  let own := min ((indexOf? touched v.id).getD 1000000)
    (if mayRecurse cfg v then pathIdx tp v.info.path else 1000000)
  if descends cfg v then (v.children.map (hintOf cfg touched tp)).foldl min own
  else own

def rankHint (cfg : KillCfg) (touched : List Nat) (tp : List String) (rev : Bool) (l : List View) : List View :=
  let el := l.filter (·.info.eligible)
  let el := if rev then el.reverse else el
  let byHint := sortBy (fun a b => hintOf cfg touched tp a ≤ hintOf cfg touched tp b) el
  sortBy rkGe byHint

def sortedDesc : List View → Bool
  | [] => true
  | [_] => true
  | a :: b :: r => rkGe a b && sortedDesc (b :: r)

def permIds (a b : List View) : Bool :=
  sortBy (· ≤ ·) (a.map (·.id)) == sortBy (· ≤ ·) (b.map (·.id))

def rankOKb (rank : List View → List View) (l : List View) : Bool :=
  permIds (rank l) (l.filter (·.info.eligible)) && sortedDesc (rank l)

/-! ## hook priority list from the scenario's operations (the specification reading of C13: a remove deletes the tag, an
add deletes the tag and puts the unit in front; base hooks in configuration order come last) -/

structure HookDef where
  hid : Nat
  pats : List String
deriving Repr

def hookDefs (j : Json) : List HookDef :=
  (jarr j "hooks").map fun h => { hid := jnat h "hid", pats := ((jstr h "cgroup").splitOn ",").filter (· ≠ "") }

def prioOf (sc : Json) : List HookDef :=
  let ops := jarr sc "hook_ops"
  let base := (ops.filter (fun o => jstr o "op" == "base")).flatMap hookDefs
  let active : List (String × List HookDef) := ops.foldl (fun act o =>
    let op := jstr o "op"
    let tag := jstr o "tag"
    if op == "add" then (tag, hookDefs o) :: act.filter (fun p => p.1 != tag)
    else if op == "remove" then act.filter (fun p => p.1 != tag)
    else act) []
  active.flatMap (·.2) ++ base

/-- the three documented match cases, written out (not the model's `prefixMatchParts`): equal length and component-wise
    match, or the path is a proper prefix-match of the pattern (ancestor), or the pattern is one of the path (descendant) -/
def compOK (c p : String) : Bool := c == p || p == "*"
def matches3 (path pat : List String) : Bool :=
  let n := min path.length pat.length
  ((path.take n).zip (pat.take n)).all fun (c, p) => compOK c p

def expectedHook (prio : List HookDef) (path : String) : Option Nat :=
  let comps := (path.splitOn "/").filter (· ≠ "")
  (prio.find? fun h => h.pats.any fun p => matches3 comps ((p.splitOn "/").filter (· ≠ ""))).map (·.hid)

/-! ## implementation trace → stamped events -/

inductive IEv
  | fire (hook : Nat) (cg : Int) (path : String) (inv : Nat) (ctxDl : Option Nat)
  | poll (inv : Nat) (fin : Bool)
  | destroy (inv : Nat)
  | k (e : Ev) (cg : Option Nat) (attemptStart : Bool) (signal : Bool)
deriving Repr

structure SEv where
  ev : IEv
  now : Nat
deriving Repr

structure ImplTick where
  evs : List SEv := []
  unknown : List String := []
  sigBad : Bool := false
  ret : String := ""
  deadline : Option Nat := none
  fresh : Bool := true
  now0 : Nat := 0
  pause : Option Nat := none
  killsDelta : Int := 0
deriving Inhabited

def decimal? (s : String) : Option Int :=
  if s.isEmpty || !(s.toList.all Char.isDigit) then none else s.toNat?.map Int.ofNat

def xname? (s : String) : Option XName :=
  if s == Generated.xattrUuidTrusted then some .uuidT
  else if s == Generated.xattrUuidUser then some .uuidU
  else if s == Generated.xattrOomsTrusted then some .oomsT
  else if s == Generated.xattrOomsUser then some .oomsU
  else if s == Generated.xattrKillTrusted then some .killT
  else if s == Generated.xattrKillUser then some .killU
  else none

def kmsgPath (line : String) : Option (String × Bool) :=
  let l := line.trimAscii.toString
  let pre := "oomd kill: "
  if !l.startsWith pre then none else
  match ((l.drop pre.length).toString.splitOn " ") with
  | [_, _, _, path, _, _, _, killer, _] => some (path, (killer.drop 7).toString.startsWith "(dry)")
  | _ => none

def implTick (ms : List Meta) (tk : Json) : ImplTick := Id.run do
  let mut unknown : List String := []
  let mut sigBad := false
  let mut evs : Array SEv := #[]
  let mut uuids : List String := []
  let killsDelta := jint tk "kills_delta"
  let mut statPlaced := false
  for e in jarr tk "events" do
    let ev := jstr e "ev"
    let now := jnat e "now"
    if ev == "hook_fire" then
      evs := evs.push ⟨.fire (jnat e "hook") (jint e "cg") (jstr e "path") (jnat e "inv") (jnat? e "ctx_deadline"), now⟩
    else if ev == "hook_poll" then
      evs := evs.push ⟨.poll (jnat e "inv") (jbool e "finished"), now⟩
    else if ev == "hook_destroy" then
      evs := evs.push ⟨.destroy (jnat e "inv"), now⟩
    else if ev == "setxattr" then
      let old := jstr? e "old"
      let rc := jnat e "rc"
      match xname? (jstr e "name") with
      | none => unknown := unknown ++ ["setxattr:" ++ jstr e "name"]
      | some n =>
        let cg := (jint e "cg").toNat
        if jint e "cg" < 0 then unknown := unknown ++ ["setxattr:unknown-cgroup"]
        let mut start := false
        let val ← match n with
          | .uuidT | .uuidU =>
            let u := jstr e "val"
            match uuids.findIdx? (· == u) with
            | some i => pure (XVal.uuid i)
            | none =>
              uuids := uuids ++ [u]
              start := true
              pure (XVal.uuid (uuids.length - 1))
          | _ =>
            match (jstr e "val").toInt? with
            | some v => pure (XVal.num v)
            | none =>
              unknown := unknown ++ ["setxattr:nonint-value"]
              pure (XVal.num 0)
        evs := evs.push ⟨.k (.setxattr cg n val old rc) (some cg) start false, now⟩
    else if ev == "procs" then
      let cg := (jint e "cg").toNat
      if jint e "cg" < 0 then unknown := unknown ++ ["procs:unknown-cgroup"]
      if isNull (jobj e "lines") then
        evs := evs.push ⟨.k (.procs cg none) (some cg) false false, now⟩
      else
        let ls := jstrs e "lines"
        if ls.any (fun l => (decimal? l).isNone) then unknown := unknown ++ ["procs:nondecimal"]
        evs := evs.push ⟨.k (.procs cg (some (ls.map (fun l => (decimal? l).getD 0)))) (some cg) false false, now⟩
    else if ev == "kill" then
      if jint e "sig" != 9 then sigBad := true
      evs := evs.push ⟨.k (.kill (jint e "pid") (jnat e "rc")) none false true, now⟩
    else if ev == "write" then
      let f := jstr e "file"
      let cg := (jint e "cg").toNat
      let rc := jint e "rc"
      if jint e "cg" < 0 then unknown := unknown ++ ["write:unknown-cgroup"]
      if rc ≥ 0 && jstr e "data" != "1" then unknown := unknown ++ ["write:data"]
      if f == Generated.fileCgroupFreeze then
        evs := evs.push ⟨.k (.write cg .freeze rc) (some cg) false false, now⟩
      else if f == Generated.fileCgroupKill then
        evs := evs.push ⟨.k (.write cg .kill rc) (some cg) false true, now⟩
      else unknown := unknown ++ ["write:" ++ f]
    else if ev == "pidfd_open" then
      evs := evs.push ⟨.k (.pidfdOpen (jint e "pid") (jnat e "rc")) none false false, now⟩
    else if ev == "mrelease" then
      evs := evs.push ⟨.k (.mrelease (jint e "pid") (jnat e "rc")) none false false, now⟩
    else if ev == "kmsg" then
      match kmsgPath (jstr e "line") with
      | none => unknown := unknown ++ ["kmsg:unparsed"]
      | some (path, dry) =>
        match ms.find? (fun m => m.path == path) with
        | none => unknown := unknown ++ ["kmsg:unknown-cgroup"]
        | some m =>
          if killsDelta == 1 && !statPlaced then
            evs := evs.push ⟨.k .statKills none false false, now⟩
            statPlaced := true
          -- a dry attempt has no other event: its record is where the attempt shows
          evs := evs.push ⟨.k (.kmsg m.id dry) (some m.id) dry false, now⟩
    else
      unknown := unknown ++ ["event:" ++ ev]
  if killsDelta != 0 && !statPlaced then
    for _ in [0:killsDelta.toNat] do evs := evs.push ⟨.k .statKills none false false, 0⟩
  return { evs := evs.toList, unknown := unknown, sigBad := sigBad, ret := jstr tk "ret",
           deadline := jnat? tk "deadline", fresh := jbool tk "fresh", now0 := jnat tk "now0",
           pause := (jint? tk "pause").map Int.toNat, killsDelta := killsDelta }

/-! ## the model's inputs from the trace -/

/-- cgroups in the order the plugin touched them (fires and attempt starts) on one tick -/
def touchedTick (t : ImplTick) : List Nat :=
  t.evs.filterMap fun s =>
    match s.ev with
    | .fire _ cg _ _ _ => if cg ≥ 0 then some cg.toNat else none
    | .k _ (some cg) true _ => some cg
    | _ => none

/-- the ranking hint for tick `i`: what was touched on this tick and on the following ticks up to the end of the kill cycle
    (the order of a serialised stack shows only when it is resumed); later cycles rank afresh -/
def touchedOf (ticks : List ImplTick) (i : Nat) : List Nat :=
  let rest := ticks.drop i
  let n := (rest.findIdx? (fun t => t.ret != "ASYNC_PAUSED")).getD rest.length
  ((rest.take (n + 1)).flatMap touchedTick).eraseDups

/-- the clock reading of every `pastPrekillHookTimeout` call, in call order.  A fire is directly preceded by one (the stamp of
    the fire); so is an attempt that no fire of its own and no resume precedes (its first event's stamp); an unfinished poll at the
    head of a resumed `run()` is directly followed by one (the poll's stamp is taken when `didFinish` returns). -/
def clockOf (ticks : List ImplTick) : List Nat := Id.run do
  let mut out : Array Nat := #[]
  let mut resumed := false          -- previous tick returned ASYNC_PAUSED
  for t in ticks do
    let mut gated := false          -- a fire (or the resume) since the last attempt start
    let mut first := true
    for s in t.evs do
      match s.ev with
      | .fire _ _ _ _ _ => out := out.push s.now; gated := true
      | .poll _ fin =>
        if first && resumed then
          if !fin then out := out.push s.now
          gated := true
      | .destroy _ => pure ()
      | .k _ _ start _ =>
        if start then
          if !gated then out := out.push s.now
          gated := false
      first := false
    resumed := t.ret == "ASYNC_PAUSED"
  return out.toList

def envOf (ticks : List ImplTick) : HEnv := Id.run do
  let mut procs : Array (Option (List Int)) := #[]
  let mut killRc : Array Nat := #[]
  let mut xattr : Array (Option String × Nat) := #[]
  let mut writes : Array Int := #[]
  let mut pidfd : Array Nat := #[]
  let mut mrel : Array Nat := #[]
  let mut polls : Array Bool := #[]
  for t in ticks do
    for s in t.evs do
      match s.ev with
      | .poll _ fin => polls := polls.push fin
      | .k (.setxattr _ _ _ old rc) _ _ _ => xattr := xattr.push (old, rc)
      | .k (.procs _ p) _ _ _ => procs := procs.push p
      | .k (.kill _ rc) _ _ _ => killRc := killRc.push rc
      | .k (.write _ _ rc) _ _ _ => writes := writes.push rc
      | .k (.pidfdOpen _ rc) _ _ _ => pidfd := pidfd.push rc
      | .k (.mrelease _ rc) _ _ _ => mrel := mrel.push rc
      | _ => pure ()
  return { kenv := { procs := procs.toList, killRc := killRc.toList, xattr := xattr.toList, writes := writes.toList,
                     pidfd := pidfd.toList, mrelease := mrel.toList },
           clock := clockOf ticks, polls := polls.toList, nextInv := 0 }

/-! ## comparing -/

inductive CEv
  | fire (hook cg inv : Nat)
  | poll (inv : Nat) (fin : Bool)
  | destroy (inv : Nat)
  | k (e : Ev)
deriving DecidableEq, Repr

def cevStr (e : CEv) : String := toString (repr e)

def ofModel (evs : List HEv) : List CEv :=
  evs.flatMap fun e =>
    match e with
    | .now _ _ => []
    | .fire h cg _ inv => [.fire h cg inv]
    | .poll inv fin => [.poll inv fin]
    | .destroy inv => [.destroy inv]
    | .attempt _ _ es _ => es.map .k
    | .k e => [.k e]
    | .ret _ => []

def ofImpl (t : ImplTick) : List CEv :=
  (t.evs.map fun s =>
    match s.ev with
    | .fire h cg _ inv _ => CEv.fire h cg.toNat inv
    | .poll inv fin => .poll inv fin
    | .destroy inv => .destroy inv
    | .k e _ _ _ => .k e) ++ (match t.pause with | some d => [.k (.pause d)] | none => [])

/-- the position of the in-process effects (stat counter, `pause_actions`) is not observable at the boundary -/
def sameEvents (a b : List CEv) : Bool :=
  let inproc (e : CEv) : Bool := match e with
    | .k .statKills | .k (.pause _) => true
    | _ => false
  let (ia, oa) := a.partition inproc
  let (ib, ob) := b.partition inproc
  oa == ob && sortBy (fun x y => cevStr x ≤ cevStr y) ia == sortBy (fun x y => cevStr x ≤ cevStr y) ib

def retOfStr (s : String) : Option Ret :=
  if s == "CONTINUE" then some .cont else if s == "STOP" then some .stop
  else if s == "ASYNC_PAUSED" then some .async else none

/-! ## holds: the clauses of C07 on the implementation's events -/

structure Gate where
  inv : Nat
  cg : Int
  done : Bool := false
  destroyed : Bool := false

structure Live where
  inv : Nat
  cg : Int
  path : String
  tick : Nat

structure HS where
  live : Option Live := none
  gate : Option Gate := none             -- the fire since the last attempt start / start of the kill cycle
  attemptGate : Option Gate := none      -- the gate of the attempt in progress
  spared : List Nat := []                -- cgroups re-created under the path of a victim whose hook ran: not to be touched this tick
  failedAttempt : Bool := false          -- an attempt was made in this cycle before (a later fire is a fallback fire)
  viol : List String := []
  cov : List String := []

def HS.bad (s : HS) (c : String) : HS := { s with viol := s.viol ++ [c] }
def HS.tag (s : HS) (c : String) : HS := { s with cov := s.cov ++ [c] }

def holdsC07 (prio : List HookDef) (wet : Bool) (trees : List (List Meta)) (ticks : List ImplTick) : HS := Id.run do
  let mut st : HS := {}
  for (t, i) in ticks.zipIdx do
    let ms := trees.getD i []
    let dl := t.deadline
    if t.fresh then
      -- a new kill cycle: what happened before the last final return does not gate anything any more
      st := { st with gate := none, attemptGate := none, failedAttempt := false }
    st := { st with spared := [] }
    for s in t.evs do
      match s.ev with
      | .fire hook cg path inv ctxDl =>
        st := st.tag "hook_fires"
        if st.live.isSome then st := st.bad "at_most_one_outstanding"
        -- the hook fired is the first in priority order whose patterns match the victim
        let want := expectedHook prio path
        if want != some hook then st := st.bad "priority"
        if (prio.map (·.hid)).head? != some hook then st := st.tag "fires_not_first_in_list"
        -- the victim handed to the hook is the cgroup at that path
        match ms.find? (fun m => m.path == path) with
        | some m => if (m.id : Int) != cg then st := st.bad "priority.victim_path"
        | none => st := st.bad "priority.victim_path"
        -- only inside the window; the context carries the deadline fixed at chain fire
        match dl with
        | some d =>
          if s.now > d then st := st.bad "fire_only_inside_window"
          if s.now == d then st := st.tag "exact_deadline_readings"
        | none => pure ()
        if ctxDl != dl then st := st.bad "fire_only_inside_window.context_deadline"
        -- at most one hook per victim
        match st.gate with
        | some g => if g.cg == cg then st := st.bad "one_hook_per_victim"
        | none => pure ()
        if st.failedAttempt then st := st.tag "fallback_fires"
        st := { st with live := some { inv := inv, cg := cg, path := path, tick := i }, gate := some { inv := inv, cg := cg } }
      | .poll inv fin =>
        match st.live with
        | some l =>
          if l.inv != inv then st := st.bad "at_most_one_outstanding.poll_of_other"
          else
            if fin then st := { st with gate := st.gate.map fun g => if g.inv == inv then { g with done := true } else g }
            match dl with
            | some d => if !fin && s.now == d then st := st.tag "exact_deadline_readings"
            | none => pure ()
        | none => st := st.bad "at_most_one_outstanding.poll_after_destroy"
      | .destroy inv =>
        match st.live with
        | some l =>
          if l.inv != inv then st := st.bad "at_most_one_outstanding.destroy_of_other"
          else
            st := { st with live := none, gate := st.gate.map fun g => if g.inv == inv then { g with destroyed := true } else g }
            if l.tick != i then
              st := st.tag "ticks_waited"
              let finished := (st.gate.map (·.done)).getD false
              if !finished then st := st.tag "timeouts"
              -- removed or re-created while the hook ran?
              match ms.find? (fun m => m.path == l.path) with
              | some m =>
                if (m.id : Int) != l.cg then
                  st := { st with spared := m.id :: st.spared }
                  st := st.tag "victim_gone_or_recreated"
              | none => st := st.tag "victim_gone_or_recreated"
        | none => st := st.bad "at_most_one_outstanding.destroy_twice"
      | .k e cg start signal =>
        -- a victim re-created under the same path while its hook ran is not touched
        match cg with
        | some c => if st.spared.contains c then st := st.bad "recreated_not_killed"
        | none => pure ()
        if start then
          let c : Int := (cg.getD 0 : Nat)
          let mine := match st.gate with
            | some g => if g.cg == c then some g else none
            | none => none
          if wet && mine.isNone then
            -- no hook was fired for this victim: admissible only if none matches it or the window is over
            let path := (ms.find? (fun m => (m.id : Int) == c)).map (·.path)
            let want := path.bind (expectedHook prio)
            let over := match dl with
              | some d => s.now ≥ d
              | none => false
            if want.isSome && !over then
              st := st.bad (if st.failedAttempt then "fallback_fires_again" else "hook_fired_for_victim")
          st := { st with attemptGate := mine, gate := none, failedAttempt := true }
        if signal then
          -- destroyed before the first signal
          if st.live.isSome then st := st.bad "no_signal_before_done.destroyed"
          match st.attemptGate with
          | some g =>
            if !g.destroyed then st := st.bad "no_signal_before_done.destroyed"
            let over := match dl with
              | some d => s.now ≥ d
              | none => false
            if !g.done && !over then st := st.bad "no_signal_before_done.done"
          | none => pure ()
        let _ := e
    -- C17 (return value) / C07 (async_iff_outstanding): run() answers ASYNC_PAUSED exactly when it leaves an invocation
    -- outstanding - a kill cycle that waits for its hook must suspend the chain, one that does not must not
    if t.ret == "ASYNC_PAUSED" && st.live.isNone then st := st.bad "return_async_iff_hook_outstanding.async_without_hook"
    if t.ret != "ASYNC_PAUSED" && t.ret != "" && st.live.isSome then st := st.bad "return_async_iff_hook_outstanding"
  return st

/-! ## C03 on kill cycles that wait for a hook: the fallback order survives the serialised stack

A kill cycle ranks its candidates on the tick it starts; when a hook defers it, the remaining candidates are serialised and
restored on the tick the hook is done.  The attempts of one cycle, over all its ticks, must still come in rank order
(preference, then key; ties free) - evaluated on the implementation's attempts and the views of the cycle's first tick. -/

structure Leaf where
  v : View
  chain : List View

partial def leavesOf (cfg : KillCfg) (anc : List View) (v : View) : List Leaf :=
  if cfg.recursive && !(v.info.oomGroup.getD false) && !v.children.isEmpty then
    (v.children.filter (·.info.eligible)).flatMap (leavesOf cfg (anc ++ [v]))
  else if v.info.populated.getD true then [{ v := v, chain := anc ++ [v] }] else []

def diverge : List View → List View → Option (View × View)
  | a :: as, b :: bs => if a.id == b.id then diverge as bs else some (a, b)
  | _, _ => none

def attemptStarts (t : ImplTick) : List Nat :=
  t.evs.filterMap fun s => match s.ev with
    | .k _ (some cg) true _ => some cg
    | _ => none

def holdsC03Cycles (cfg : KillCfg) (firstViews : List (List View)) (ticks : List ImplTick) : List String := Id.run do
  let mut viol : List String := []
  let mut cur : Option (List View × List Nat) := none       -- roots of the cycle's first tick, attempts so far
  for (t, i) in ticks.zipIdx do
    let roots := firstViews.getD i []
    let (r0, att0) := match cur with
      | some c => if t.fresh then (roots, []) else c
      | none => (roots, [])
    let att := att0 ++ attemptStarts t
    cur := some (r0, att)
    if t.ret != "ASYNC_PAUSED" then
      let leaves := (r0.filter (·.info.eligible)).flatMap (leavesOf cfg [])
      let ambiguous (id : Nat) : Bool := (leaves.filter (·.v.id == id)).length > 1
      let attLeaves := att.eraseDups.filterMap fun id => if ambiguous id then none else leaves.find? (·.v.id == id)
      let n := attLeaves.length
      for a in [0:n] do
        for b in [a+1:n] do
          match attLeaves[a]?, attLeaves[b]? with
          | some la, some lb =>
            match diverge la.chain lb.chain with
            | some (x, y) =>
              if !(rkGe x y) then
                viol := viol ++ [if x.pref != y.pref then "C03.prefer_normal_avoid_across_hook_wait" else "C03.fallback_in_rank_order_across_hook_wait"]
            | none => pure ()
          | _, _ => pure ()
      cur := none
  return viol.eraseDups

/-! ## C01 on kill cycles that wait for a hook: containment on the resume path

The victim of a resumed kill is restored from a (path, id) reference; its pids are read through the directory descriptors of
the *resuming* tick's contexts.  Clauses (on the implementation's events and the tree of the tick they happen in): every
signal goes to a positive pid listed by a `cgroup.procs` read of the same attempt; every such read, xattr write and control
file write of an attempt names the victim or a cgroup inside its subtree; the victim was a candidate when the cycle started. -/

partial def subIds : View → List Nat
  | v => v.id :: v.children.flatMap subIds

def holdsC01Cycles (cfg : KillCfg) (perTick : List (List View × List View)) (ticks : List ImplTick) : List String := Id.run do
  let mut viol : List String := []
  let mut cands : List Nat := []             -- candidate ids of the cycle in progress (roots, + descendants if recursive)
  for (t, i) in ticks.zipIdx do
    let (views, roots) := perTick.getD i ([], [])
    if t.fresh then
      cands := roots.map (·.id)              -- the resolved roots of the tick the cycle started on
    -- with recursive targeting: any cgroup that is now below one of those roots (children are listed when the loop descends)
    let below : List Nat := if cfg.recursive then (cands.filterMap (findView views)).flatMap subIds else []
    let mut victim : Option Nat := none
    let mut seen : List Int := []
    for s in t.evs do
      match s.ev with
      | .k e cg start _ =>
        if start then
          victim := cg
          seen := []
          match cg with
          | some c => if !(cands.contains c || below.contains c) then viol := viol ++ ["C01.victim_matched_across_hook_wait"]
          | none => pure ()
        let inSub (c : Nat) : Bool := match victim.bind (findView views) with
          | some v => (subIds v).contains c
          | none => false
        match e with
        | .procs c pids =>
          if !(inSub c) then viol := viol ++ ["C01.signals_contained_across_hook_wait.other_cgroup_procs"]
          else seen := seen ++ pids.getD []
        | .kill pid _ =>
          if pid ≤ 0 then viol := viol ++ ["C01.signals_contained_across_hook_wait.positive_pid"]
          else if !(seen.contains pid) then viol := viol ++ ["C01.signals_contained_across_hook_wait.listed"]
        | .setxattr c _ _ _ _ => if victim != some c then viol := viol ++ ["C01.writes_contained_across_hook_wait.xattr"]
        | .write c _ _ => if victim != some c then viol := viol ++ ["C01.writes_contained_across_hook_wait.control_file"]
        | _ => pure ()
      | _ => pure ()
  return viol.eraseDups

/-- C04 on the hook path: a dry kill plugin has no effect at the libc boundary on any tick of a deferred kill cycle either -/
def holdsC04Dry (cfg : KillCfg) (ticks : List ImplTick) : List String :=
  if !cfg.dry then [] else
  let bad := ticks.any fun t => t.evs.any fun s => match s.ev with
    | .k (.kill _ _) _ _ _ | .k (.setxattr _ _ _ _ _) _ _ _ | .k (.write _ _ _) _ _ _
    | .k (.pidfdOpen _ _) _ _ _ | .k (.mrelease _ _) _ _ _ | .k .statKills _ _ _ => true
    | _ => false
  if bad then ["C04.dry_no_effects_across_hook_wait"] else []

/-! ## one scenario -/

def count (l : List String) (x : String) : Nat := (l.filter (· == x)).length

def handle (j : Json) : Json := Id.run do
  let sc := jobj j "s"
  let tr := jobj j "t"
  let id := jstr sc "id"
  let ticks := jarr sc "ticks"
  let runs := jarr tr "runs"
  match runs.head? with
  | none => return verdict id false true [] ("outcome:" ++ jstr tr "outcome") []
  | some run =>
  let rticks := jarr run "ticks"
  let kcfg := cfgOf sc
  let prio := prioOf sc
  let hcfg : HCfg := {
    kill := kcfg
    prio := prio.map (·.hid)
    pats := fun h => match prio.find? (·.hid == h) with
      | some d => d.pats.map fun p => OomdModel.Path.mk [] p.toList
      | none => [] }
  let timeoutNs : Option Nat := (jnat? (jobj sc "ctx") "timeout_s").map (· * 1000000000)
  -- per tick: tree, impl
  let mut impls : List ImplTick := []
  let mut trees : List (List Meta) := []
  let mut tins0 : List (List View × List View × List View) := []       -- top, all, roots
  let mut notes : List Json := []
  let mut accepts := true
  for (tkS, i) in ticks.zipIdx do
    match rticks[i]? with
    | none =>
      accepts := false
      notes := notes ++ [Json.str s!"tick {i} missing ({jstr run "outcome"})"]
    | some tk =>
      let tree := jobj tkS "tree"
      let listing := jobj tk "listing"
      let top := (jarr tree "children").map (parseNode listing [])
      let ms := (jarr tree "children").flatMap (metas none [])
      let views := top.flatMap allViews
      let im := implTick ms tk
      if jstr tk "outcome" != "ok" then
        accepts := false
        notes := notes ++ [Json.str s!"tick {i} outcome {jstr tk "outcome"}"]
      impls := impls ++ [im]
      trees := trees ++ [ms]
      tins0 := tins0 ++ [(top, views, rootsOf ms views (patterns sc))]
  -- holds
  let hs := holdsC07 prio (!kcfg.dry) trees impls
  -- the scenario's `prop` says whose clauses decide `holds` (C07 by default; C03 / C17 run this engine as a second pass)
  let prop := jstr sc "prop"
  -- C04 "exactly as a wet run does": a dry kill cycle goes through the prekill-hook protocol like a wet one - before it settles
  -- on a victim (its `(dry)` record) the hook that matches the victim has been fired, unless the window is over
  let dryHooks : List String :=
    if kcfg.dry then
      ((holdsC07 prio true trees impls).viol.filter fun c => c == "hook_fired_for_victim" || c == "fallback_fires_again").map
        fun _ => "C04.dry_fires_hooks_like_wet"
    else []
  let allViol := (hs.viol ++ holdsC03Cycles kcfg (tins0.map fun (_, _, roots) => roots) impls ++
    holdsC01Cycles kcfg (tins0.map fun (_, views, roots) => (views, roots)) impls ++ holdsC04Dry kcfg impls ++ dryHooks).eraseDups
  let viol := allViol.filter fun c =>
    if prop == "C03" then c.startsWith "C03."
    else if prop == "C01" then c.startsWith "C01."
    else if prop == "C04" then c.startsWith "C04."
    else if prop == "C17" then c.startsWith "return_async_iff_hook_outstanding"
    else !(c.startsWith "C03." || c.startsWith "C01." || c.startsWith "C04.")
  -- accepts: run the model
  let env := envOf impls
  -- cgroups of tick i that are gone (removed / re-created) on some later tick: where the trace leaves the order of a
  -- serialised stack open (the loop stops at the first entry it cannot deserialise), such a cgroup may have been next
  let goneIds (i : Nat) : List Nat :=
    let later := (trees.drop (i + 1)).map fun ms => ms.map (·.id)
    ((trees.getD i []).map (·.id)).filter fun id => later.any fun ids => !ids.contains id
  let runModel (mode : Nat) : List TickOut × Bool :=
    let rev := mode % 2 == 1
    let tins : List TickIn := ((tins0.zip ((ticks.zip impls))).zipIdx).map fun (((top, views, roots), (tkS, im)), i) =>
      let pre := jnat tkS "pre_adv_ms" * 1000000
      -- an unpopulated candidate is skipped without leaving any event: inside its tie class it may have been anywhere, in
      -- particular before the candidates the trace shows (modes 4, 5)
      let silent := (views.filter fun v => v.info.populated == some false).map (·.id)
      let hint :=
        if mode ≥ 4 then (silent ++ touchedOf impls i ++ goneIds i).eraseDups
        else if mode ≥ 2 then (touchedOf impls i ++ goneIds i).eraseDups else touchedOf impls i
      { top := top, roots := roots, freshDl := timeoutNs.map fun t => im.now0 - pre + t,
        rank := rankHint kcfg hint (hint.map fun cid => ((trees.flatten.find? (fun (m : Meta) => m.id == cid)).map (·.path)).getD "\x00") rev }
    let ok := (tins0.zip tins).all fun ((_, views, roots), ti) =>
      rankOKb ti.rank roots && views.all (fun v => rankOKb ti.rank v.children)
    (runHistory hcfg none none tins env, ok)
  let cmp (outs : List TickOut) : Bool :=
    outs.length == impls.length &&
    (outs.zip impls).all fun (o, im) =>
      sameEvents (ofModel o.evs) (ofImpl im) && some o.ret == retOfStr im.ret && o.dl == im.deadline
  let first := runModel 0
  let (outs, rankOk) := Id.run do
    if cmp first.1 then return first
    for mode in [1, 2, 3, 4, 5] do
      let r := runModel mode
      if cmp r.1 then return r
    return first
  let mut saved := false
  for ((o, im), i) in (outs.zip impls).zipIdx do
    let same := sameEvents (ofModel o.evs) (ofImpl im) && some o.ret == retOfStr im.ret && o.dl == im.deadline &&
      im.unknown.isEmpty && im.fresh == !saved
    saved := o.ret == .async
    if !same then
      accepts := false
      if notes.length < 3 then
        notes := notes ++ [Json.mkObj [("tick", Json.num i),
          ("model", mkStrs ((ofModel o.evs).map cevStr)), ("impl", mkStrs ((ofImpl im).map cevStr)),
          ("model_ret", Json.str (toString (repr o.ret))), ("impl_ret", Json.str im.ret),
          ("model_dl", toJson o.dl), ("impl_dl", toJson im.deadline), ("unknown", mkStrs im.unknown),
          ("model_now", mkStrs (o.evs.filterMap fun e => match e with | .now t b => some s!"{t}:{b}" | _ => none))]]
  if outs.length != impls.length || !rankOk then
    accepts := false
    notes := notes ++ [Json.str s!"ticks model {outs.length} impl {impls.length} rank_ok {rankOk}"]
  -- an invocation still outstanding when the scenario ends is destroyed with the plugin (observed, not a clause)
  let covKeys := ["hook_fires", "ticks_waited", "timeouts", "victim_gone_or_recreated", "fallback_fires",
                  "fires_not_first_in_list", "exact_deadline_readings"]
  let cov := Json.mkObj (covKeys.map fun k => (k, Json.num (count hs.cov k)))
  let tags := covKeys.filter fun k => count hs.cov k > 0
  return verdict id accepts viol.isEmpty viol (viol.head?.getD "")
    [("notes", Json.arr notes.toArray), ("cov", cov), ("tags", mkStrs tags)]

end Driver.Hook

def main : IO UInt32 := Driver.runMain Driver.Hook.handle

import Driver.Json

/-! Driver glue for engine `watcher` (stub: not built yet). -/
namespace Driver.Watcher
open Lean

def handle (j : Json) : Json :=
  Json.mkObj [("id", Json.str (jstr (jobj j "s") "id")), ("error", Json.str "engine watcher not implemented")]

end Driver.Watcher

def main : IO UInt32 := Driver.runMain Driver.Watcher.handle

import Driver.Json
import OomdModel.Watcher

/-! Driver glue for engine `watcher` (C14): scenario + trace of the real FsDropInService in, verdict out.

`holds`   – the clauses of C14 evaluated on what the harness saw, with an oracle that does not use the model:
            after quiescence the drop-ins the probe tick shows, per base ruleset and as a multiset, are exactly
            those of the valid non-dot files in the FINAL DIRECTORY LISTING (read back from the file system by the
            harness; validity and targets are the generator's labels), each with its latest content; the start-up
            probe shows the valid start-up files in reverse name order (LIFO of a name-ordered load).
            A crash / `std::terminate` / TSan report / deadlock is a bad outcome (handled by the check runner and
            repeated here as clause `alive`).
`accepts` – the model can produce the trace.  With the trace hooks (`fixes/C14-hooks.patch`) the recorded order of
            scheduled items and swaps is replayed: queue lengths must be those of a FIFO queue, every load must have been
            decided as the generator labelled its content, and the probe must equal `OomdModel.Watcher.lww` of the
            recorded items, in order.  Without hooks the file-operation script
            is turned into the canonical schedule (every event handled at once, ticks where the script has them)
            and run through `OomdModel.Watcher.run Fixes.all`; the probe must equal the model's engine, in order –
            except when the directory itself was removed (the moment of re-registration is a scheduling choice),
            then as multisets. -/
namespace Driver.Watcher
open Lean OomdModel.Watcher

structure Content where
  cid : Nat
  valid : Bool
  kind : String
  targets : List Nat
deriving Repr

def parseContents (j : Json) : List Content :=
  match j with
  | Json.obj kvs => kvs.toList.map fun (k, v) =>
      { cid := k.toNat!, valid := jbool v "valid", kind := jstr v "kind", targets := (jarr v "targets").map asNat }
  | _ => []

def findC (cs : List Content) (cid : Nat) : Option Content := cs.find? (·.cid == cid)

def targetsOf (cs : List Content) (cid : Nat) : List Nat :=
  match findC cs cid with
  | some c => if c.valid then c.targets else []
  | none => []

def dotName (n : String) : Bool := n.isEmpty || n.front == '.'

/-- a probe segment (the prerun calls of one ruleset) → (cid, ruleset index in the file), none = a base ruleset -/
def segKey (seg : Json) : Option (Nat × Nat) :=
  match (asArr seg).map asNat |>.find? (· ≥ 100) with
  | some i => some (i / 100, (i / 10) % 10)
  | none => none

/-- per base ruleset: the drop-in segments in evaluation order; `none` when an instance cannot be attributed -/
def observedPerBase (cs : List Content) (probe : Json) : Option (List (Nat × Nat) × List (Nat × Nat)) :=
  let keys := (asArr probe).filterMap segKey
  let withBase := keys.map fun (c, r) => ((findC cs c).bind fun k => k.targets[r]?, (c, r))
  if withBase.any (fun p => p.1.isNone) then none else
  some ((withBase.filter (fun p => p.1 == some 0)).map (·.2), (withBase.filter (fun p => p.1 == some 1)).map (·.2))

def lePair (a b : Nat × Nat) : Bool := a.1 < b.1 || (a.1 == b.1 && a.2 ≤ b.2)
def sortPairs (l : List (Nat × Nat)) : List (Nat × Nat) := l.mergeSort lePair

/-- the oracle: what the valid non-dot files of a directory listing contribute to base `b` (as a multiset) -/
def expectedOfDir (cs : List Content) (dir : List (String × Nat)) (b : Nat) : List (Nat × Nat) :=
  dir.flatMap fun (n, c) =>
    if dotName n then [] else
    ((targetsOf cs c).zipIdx.filter (fun q => q.1 == b)).map fun q => (c, q.2)

/-- start-up oracle: files loaded in name order, each ruleset put in front -/
def expectedStartup (cs : List Content) (dir : List (String × Nat)) (b : Nat) : List (Nat × Nat) :=
  let sorted := dir.mergeSort (fun a b => decide (a.1 ≤ b.1))
  (expectedOfDir cs sorted b).reverse

def emptyCid : Nat := 999999   -- a truncated file (no table entry: loads as bad JSON)
def unknownCid : Nat := 999998 -- bytes the scenario never wrote (harness problem)

def parseDir (j : Json) : Option (List (String × Nat)) :=
  match j with
  | Json.arr a => some (a.toList.map fun e =>
      let c := asInt ((asArr e).getD 1 Json.null)
      (asStr ((asArr e).getD 0 Json.null), if c == -2 then emptyCid else if c < 0 then unknownCid else c.toNat))
  | _ => none

/-! ## model side -/

def loadOf (cs : List Content) (cid : Nat) : Load Nat :=
  match findC cs cid with
  | some c =>
    if c.valid then .unit cid
    else if c.kind == "badnum" then .badNumber
    else if c.kind == "json" || c.kind == "empty" || c.kind == "partial" || c.kind == "shape" then .badJson
    else .rejected
  | none => .badJson

def modelPerBase (cs : List Content) (b : Nat) (act : List (String × Nat)) : List (Nat × Nat) :=
  perBase (targetsOf cs) b act

/-- simulated directory: exists?, files -/
structure Fs where
  present : Bool
  files : List (String × Nat)

def Fs.set (f : Fs) (n : String) (c : Nat) : Fs := { f with files := (f.files.filter (·.1 != n)) ++ [(n, c)] }
def Fs.del (f : Fs) (n : String) : Fs := { f with files := f.files.filter (·.1 != n) }
def Fs.get (f : Fs) (n : String) : Option Nat := (f.files.find? (·.1 == n)).map (·.2)
def Fs.listing (cs : List Content) (f : Fs) : Option (List (String × Load Nat)) :=
  if f.present then some (f.files.map fun (n, c) => (n, loadOf cs c)) else none

def runSteps (s : St Nat) (steps : List (Step Nat)) : St Nat :=
  match run Fixes.all s steps with
  | .ok s' => s'
  | .fatal => s

/-- watcher events reach the service only while the watch is registered -/
def watcher (s : St Nat) (steps : List (Step Nat)) : St Nat := if s.deleted then s else runSteps s steps

/-- one whole `updateDropIns` (bounded loop until the main thread is back at `top`) -/
def fullTick (cs : List Content) (fs : Fs) (s : St Nat) : St Nat :=
  let d := fs.listing cs
  let s1 := runSteps s [.main d]
  let rec go (fuel : Nat) (s : St Nat) : St Nat :=
    match fuel with
    | 0 => s
    | fuel + 1 => if s.pc == .top then s else go fuel (runSteps s [.main d])
  go (s1.queue.length + s1.batch.length + 4) s1

def canonical (cs : List Content) (ops : List Json) (rc : List Nat) (fs0 : Fs) (s0 : St Nat) : Fs × St Nat :=
  (ops.zip rc).foldl (fun (acc : Fs × St Nat) (p : Json × Nat) =>
    let (fs, s) := acc
    let (op, ok) := p
    let k := jstr op "op"
    let name := jstr op "name"
    let cid := jnat op "cid"
    if k == "tick" then (fs, fullTick cs fs s)
    else if ok == 0 then acc
    else if k == "write" || k == "write2" then
      let fs' := fs.set name cid
      (fs', watcher s [.evAdd name .badJson, .evAdd name (loadOf cs cid)])
    else if k == "movein" then
      (fs.set name cid, watcher s [.evAdd name (loadOf cs cid)])
    else if k == "rename" then
      let a := jstr op "from"
      let b := jstr op "to"
      if a == b then acc else   -- rename(2) onto itself: success, nothing happens, no event
      match fs.get a with
      | some c => ((fs.del a).set b c, watcher s [.evRemove a, .evAdd b (loadOf cs c)])
      | none => acc
    else if k == "moveout" || k == "delete" then (fs.del name, watcher s [.evRemove name])
    else if k == "trunc" then (fs.set name emptyCid, watcher s [.evAdd name .badJson])
    else if k == "rmdir" then
      ({ present := false, files := [] }, watcher s (fs.files.map (fun f => Step.evRemove f.1) ++ [.evSelf]))
    else if k == "mvdir" then
      -- renamed away with its files: the watcher learns it through IN_MOVE_SELF alone
      ({ present := false, files := [] }, watcher s [.evSelf])
    else if k == "mkdir" then ({ fs with present := true }, s)
    else if k == "rmsub" then (fs, watcher s [.evRemove name])
    else acc) (fs0, s0)

/-- hook trace → (items, fifo ok) -/
def replayItems (items : List Json) : List (Item Nat) × Bool :=
  let r := items.foldl (fun (acc : List (Item Nat) × Nat × Bool) (e : Json) =>
    let (sched, qlen, ok) := acc
    let a := asArr e
    let w := asStr (a.getD 0 Json.null)
    if w == "add" then
      let tag := asStr (a.getD 1 Json.null)
      let cid := (asInt (a.getD 2 Json.null)).toNat
      (sched ++ [(tag, some cid)], qlen + 1, ok && asNat (a.getD 3 Json.null) == qlen + 1)
    else if w == "rem" then
      let tag := asStr (a.getD 1 Json.null)
      (sched ++ [(tag, none)], qlen + 1, ok && asNat (a.getD 2 Json.null) == qlen + 1)
    else if w == "swap" then (sched, 0, ok && asNat (a.getD 1 Json.null) == qlen)
    else acc) ([], 0, true)
  (r.1, r.2.2 && r.2.1 == 0)

/-- the generator's labels against what the real parser + compiler decided for every load the hooks saw:
an item was scheduled only for content labelled valid, a compile failed only for content labelled invalid
(cid 0 = a unit without scripted plugins: "empty" contents and real plugins, not labelled) -/
def labelsOk (cs : List Content) (items : List Json) : Bool :=
  items.all fun e =>
    let a := asArr e
    let w := asStr (a.getD 0 Json.null)
    let cid := (asInt (a.getD 2 Json.null)).toNat
    if cid == 0 then true
    else if w == "add" then (findC cs cid).map (·.valid) == some true
    else if w == "fail" then (findC cs cid).map (·.valid) == some false
    else true

def pairsJson (l : List (Nat × Nat)) : Json := Json.arr (l.map fun p => Json.arr #[Json.num p.1, Json.num p.2]).toArray

def handle (j : Json) : Json :=
  let s := jobj j "s"
  let t := jobj j "t"
  let id := jstr s "id"
  let cs := parseContents (jobj s "contents")
  -- (the async logger's stderr lines can land inside the runtime's "terminate called ... instance of '…'" message)
  let outcome0 := jstr t "outcome"
  let outcome := if outcome0.startsWith "uncaught:" && (outcome0.splitOn "\n").length > 1
                 then "uncaught:" ++ ((outcome0.splitOn "\n").getLast?.getD "") else outcome0
  let hasBadnum := cs.any (fun c => c.kind == "badnum")
  if outcome != "ok" then
    let cls := if outcome.startsWith "uncaught:" && hasBadnum then "stoi-escape" else "outcome:" ++ outcome
    Driver.verdict id false false ["alive"] cls
  else
  -- a background op ("bg") is the wrapped file op, performed some microseconds later by a helper thread
  let ops := (jarr s "ops").map fun o => if jstr o "op" == "bg" then jobj o "do" else o
  let rc := (jarr t "rc").map asNat
  let initDir := parseDir (jobj s "init")
  let recreate := ops.any (fun o => jstr o "op" == "rmdir" || jstr o "op" == "mvdir") || initDir.isNone
  let hooks := jbool t "hooks"
  -- ---------------- holds: oracle from the final directory listing
  let finalDir := (parseDir (jobj t "final_dir")).getD []
  let unknownFinal := finalDir.any fun (_, c) => c == unknownCid
  let obsB := observedPerBase cs (jobj t "probe_b")
  let obsA := observedPerBase cs (jobj t "probe")
  let exp0 := expectedOfDir cs finalDir 0
  let exp1 := expectedOfDir cs finalDir 1
  let (conv, extra, missing) := match obsB with
    | none => (false, true, false)
    | some (o0, o1) =>
      let e := sortPairs exp0 ++ sortPairs exp1
      let o := sortPairs o0 ++ sortPairs o1
      (sortPairs o0 == sortPairs exp0 && sortPairs o1 == sortPairs exp1,
       o.any (fun p => !e.contains p), e.any (fun p => !o.contains p))
  let startupOk := match jobj t "probe0", initDir with
    | Json.null, _ => true
    | p0, some d =>
      (match observedPerBase cs p0 with
       | some (o0, o1) => o0 == expectedStartup cs d 0 && o1 == expectedStartup cs d 1
       | none => false)
    | p0, none => (observedPerBase cs p0) == some ([], [])
  let invalidPresent := finalDir.any fun (n, c) => !dotName n && (targetsOf cs c).isEmpty && ((findC cs c).map (·.valid)) != some true
  let violated := (if conv then [] else ["converged"]) ++ (if startupOk then [] else ["startup_sorted"])
    ++ (if unknownFinal then ["harness_final_dir"] else [])
  let cls :=
    if !conv then
      (if extra && !missing && invalidPresent then "invalid-rewrite-keeps-previous"
       else if extra && missing then "extra-and-missing" else if extra then "extra-active"
       else if missing then "missing-active"
       else if (match obsB with | some (a, b) => a.length + b.length | none => 0) < exp0.length + exp1.length
         then "missing-active"   -- one of several files with byte-identical content is not active
       else "duplicate-active")
    else if !startupOk then "startup-order" else ""
  -- ---------------- accepts: model
  let (accepts, how, modelOut) :=
    if hooks then
      let (sched, fifo) := replayItems (jarr t "items")
      let act := lww sched
      let m0 := modelPerBase cs 0 act
      let m1 := modelPerBase cs 1 act
      (fifo && labelsOk cs (jarr t "items") && obsB == some (m0, m1), "hooks", m0 ++ m1)
    else
      let fs0 : Fs := match initDir with | some d => { present := true, files := d } | none => { present := false, files := [] }
      match init Fixes.all (fs0.listing cs) with
      | .fatal => (false, "canonical", [])
      | .ok s0 =>
        let s0 := if jbool s "probe0" then fullTick cs fs0 s0 else s0
        let (fs, s1) := canonical cs ops rc fs0 s0
        let s2 := fullTick cs fs (fullTick cs fs s1)
        let m0 := modelPerBase cs 0 s2.active
        let m1 := modelPerBase cs 1 s2.active
        let ok := match obsB with
          | none => false
          | some (o0, o1) =>
            if recreate then sortPairs o0 == sortPairs m0 && sortPairs o1 == sortPairs m1
            else o0 == m0 && o1 == m1
        (ok && s2.queue.isEmpty, "canonical", m0 ++ m1)
  Driver.verdict id accepts violated.isEmpty violated cls
    [("how", Json.str how), ("recreate", Json.bool recreate), ("drift", Json.bool (obsA != obsB)),
     ("active", Json.num ((exp0 ++ exp1).length)), ("model", pairsJson modelOut),
     ("observed", match obsB with | some (a, b) => pairsJson (a ++ b) | none => Json.null),
     ("expected", pairsJson (exp0 ++ exp1))]

end Driver.Watcher

def main : IO UInt32 := Driver.runMain Driver.Watcher.handle

import Driver.Json

/-! Driver glue for engine `statsvc` (stub: not built yet). -/
namespace Driver.Statsvc
open Lean

def handle (j : Json) : Json :=
  Json.mkObj [("id", Json.str (jstr (jobj j "s") "id")), ("error", Json.str "engine statsvc not implemented")]

end Driver.Statsvc

def main : IO UInt32 := Driver.runMain Driver.Statsvc.handle

import Driver.Json
import OomdModel.StatsSvc
import Std.Data.HashSet

/-! Driver glue for engine `statsvc` (C19).  Scenario + implementation trace in, verdict out.

`accepts` = the observations are ones the model `OomdModel.StatsSvc` (fixed = true) can produce:
API histories are linearisable w.r.t. `StatsSvc.step`; each session's reply is the model handler's reply;
init succeeds iff `copyPath` accepts the path.
`holds`   = the clauses of property C19 evaluated on the implementation's observations with an oracle
written separately here (sorted association lists, a direct scan of the request bytes).  -/
namespace Driver.Statsvc
open Lean OomdModel

abbrev KV := List (String × Int)

def sortKV (l : KV) : KV := (l.toArray.qsort (fun a b => a.1 < b.1)).toList

/-- a JSON object of integers → sorted association list; none if it is not one -/
def objToKV (j : Json) : Option KV :=
  match j with
  | Json.obj kvs =>
    let ps := kvs.toList
    if ps.all (fun (p : String × Json) => (p.2.getInt?).toOption.isSome) then
      some (sortKV (ps.map (fun (p : String × Json) => (p.1, (p.2.getInt?).toOption.getD 0))))
    else none
  | _ => none

def kvJson (m : KV) : Json := Json.mkObj (m.map (fun p => (p.1, Json.num (JsonNumber.fromInt p.2))))

def hexVal (c : Char) : Nat :=
  if c.isDigit then c.toNat - 48 else if 'a' ≤ c ∧ c ≤ 'f' then c.toNat - 87 else if 'A' ≤ c ∧ c ≤ 'F' then c.toNat - 55 else 0

def hexBytes (s : String) : List Nat :=
  let rec go : List Char → List Nat
    | a :: b :: r => (hexVal a * 16 + hexVal b) :: go r
    | _ => []
  go s.toList

def bytesToString (bs : List Nat) : Option String :=
  if bs.all (· < 128) then some (String.ofList (bs.map Char.ofNat)) else none

/-- a reply on the wire: nothing, or exactly one well-formed `{"error":e,"body":{k:int,...}}` -/
inductive Reply where
  | nothing
  | one (error : Int) (body : KV)
  | malformed (why : String)
deriving Repr, BEq

def parseReply (hex : String) : Reply :=
  let bs := hexBytes hex
  if bs.isEmpty then .nothing else
  match bytesToString bs with
  | none => .malformed "non-ascii bytes"
  | some str =>
    match Json.parse str with
    | .error e => .malformed ("not exactly one JSON value: " ++ e)
    | .ok j =>
      match j with
      | Json.obj kvs =>
        if kvs.toList.length != 2 then .malformed "keys other than error/body" else
        match (j.getObjValAs? Int "error").toOption, (j.getObjVal? "body").toOption.bind objToKV with
        | some e, some b => .one e b
        | _, _ => .malformed "error not an integer or body not an object of integers"
      | _ => .malformed "not an object"

/-! ## sequential specification used by `holds` (independent of OomdModel: sorted association list) -/

def specGet (m : KV) (k : String) : Option Int := (m.find? (·.1 == k)).map (·.2)
def specPut (m : KV) (k : String) (v : Int) : KV := sortKV ((k, v) :: m.filter (·.1 != k))

inductive AOp where
  | inc (k : String) (v : Int)
  | set (k : String) (v : Int)
  | reset
  | get
  | cget
  | creset
  | nop
deriving Repr, BEq

def parseOp (j : Json) : AOp :=
  match asArr j with
  | Json.str "inc" :: k :: v :: _ => .inc (asStr k) (asInt v)
  | Json.str "set" :: k :: v :: _ => .set (asStr k) (asInt v)
  | Json.str "reset" :: _ => .reset
  | Json.str "get" :: _ => .get
  -- the same operations through the real `StatsClient` (request, reply framing and JSON decoding included)
  | Json.str "scget" :: _ => .get
  | Json.str "screset" :: _ => .reset
  | Json.str "cget" :: _ => .cget
  | Json.str "creset" :: _ => .creset
  | _ => .nop

/-- what the implementation returned for one call -/
inductive Obs where
  | rc (n : Int)
  | snap (m : KV)
  | reply (r : Reply)
  | none
deriving Repr, BEq

structure Call where
  op : AOp
  inv : Nat
  res : Nat
  obs : Obs
deriving Repr

/-- spec step: new state if the observation is the one the spec gives, none otherwise -/
def specStep (m : KV) (c : Call) : Option KV :=
  match c.op, c.obs with
  | .inc k v, .rc 0 => some (specPut m k ((specGet m k).getD 0 + v))
  | .set k v, .rc 0 => some (specPut m k v)
  | .reset, .rc 0 => some (m.map (fun p => (p.1, 0)))
  | .get, .snap s => if s == m then some m else none
  | .cget, .reply (.one 0 b) => if b == m then some m else none
  | .creset, .reply (.one 0 []) => some (m.map (fun p => (p.1, 0)))
  | .nop, _ => some m
  | _, _ => none

/-- model step (OomdModel.StatsSvc.step on `CMap String`) -/
def modelStep (m : StatsSvc.CMap String) (c : Call) : Option (StatsSvc.CMap String) :=
  let chk (op : StatsSvc.Op String) (want : StatsSvc.Ret String → Bool) : Option (StatsSvc.CMap String) :=
    let r := StatsSvc.step m op
    if want r.2 then some r.1 else none
  match c.op, c.obs with
  | .inc k v, .rc n => chk (.inc k v) (fun r => r == .rc n.toNat && n ≥ 0)
  | .set k v, .rc n => chk (.set k v) (fun r => r == .rc n.toNat && n ≥ 0)
  | .reset, .rc n => chk .reset (fun r => r == .rc n.toNat && n ≥ 0)
  | .get, .snap s => chk .getAll (fun r => match r with | .snap x => sortKV x == s | _ => false)
  | .cget, .reply rp =>
    -- the handler for "g\n": model reply is `reply 0 (getAll m)`
    match StatsSvc.replies (StatsSvc.handler true ⟨[103, 10], false⟩ m).2, rp with
    | [(e, b)], .one e' b' => if (e : Int) == e' && sortKV b == b' then some m else none
    | _, _ => none
  | .creset, .reply rp =>
    let h := StatsSvc.handler true ⟨[114, 10], false⟩ m
    match StatsSvc.replies h.2, rp with
    | [(e, b)], .one e' b' => if (e : Int) == e' && sortKV b == b' then some h.1 else none
    | _, _ => none
  | .nop, _ => some m
  | _, _ => none

/-- Linearisability search (Wing & Gong with memoisation).  `threads`: per thread the calls in program
    order.  A thread's next call may be linearised next iff no other thread's next call returned before
    it was invoked.  `norm` canonicalises a state for the final comparison. -/
partial def linSearch {σ : Type} [BEq σ] [Hashable σ] (step : σ → Call → Option σ) (final : σ → Bool)
    (threads : Array (Array Call)) : σ → Bool := fun init =>
  let n := threads.size
  let rec go (stack : List (Array Nat × σ)) (seen : Std.HashSet (Array Nat × σ)) (fuel : Nat) : Bool :=
    match fuel, stack with
    | 0, _ => true            -- budget exhausted: undecided, do not alarm
    | _, [] => false
    | fuel + 1, (pos, st) :: rest =>
      if seen.contains (pos, st) then go rest seen fuel else
      let seen := seen.insert (pos, st)
      let nexts : List (Nat × Call) := (List.range n).filterMap fun t =>
        (threads[t]!)[pos[t]!]?.map (fun c => (t, c))
      if nexts.isEmpty then
        if final st then true else go rest seen fuel
      else
        let minRes := nexts.foldl (fun acc p => min acc p.2.res) ((nexts.head?.map (·.2.res)).getD 0)
        let cands := nexts.filter (fun p => p.2.inv < minRes || p.2.res == minRes)
        let succs := cands.filterMap fun (t, c) => (step st c).map (fun st' => (pos.set! t (pos[t]! + 1), st'))
        go (succs ++ rest) seen fuel
  go [(Array.replicate n 0, init)] {} 400000

def applyInitSpec (init : List Json) : KV :=
  init.foldl (fun m j => match parseOp j with
    | .inc k v => specPut m k ((specGet m k).getD 0 + v)
    | .set k v => specPut m k v
    | .reset => m.map (fun p => (p.1, 0))
    | _ => m) []

def applyInitModel (init : List Json) : StatsSvc.CMap String :=
  init.foldl (fun m j => match parseOp j with
    | .inc k v => (StatsSvc.step m (.inc k v)).1
    | .set k v => (StatsSvc.step m (.set k v)).1
    | .reset => (StatsSvc.step m .reset).1
    | _ => m) []

def badOutcome (tr : Json) : Option String :=
  let oc := jstr tr "outcome"
  if oc == "ok" || oc == "" then none else some oc

/-- class key for known_findings.txt: the violated clause; scenarios generated for one specific known
    finding carry their tag in the key so that the finding cannot excuse anything else -/
def classKey (tag clause : String) : String :=
  if tag == "trickle-shutdown" then tag ++ ":" ++ clause else clause

def crashVerdict (id tag oc : String) : Json :=
  verdict id false false ["no_crash"] (classKey tag ("no_crash:" ++ oc.replace " " "_")) [("outcome", Json.str oc)]

def dtorClause (tr : Json) : List String :=
  let d := jstr tr "destructor"
  if d == "ok" || d == "skipped" then [] else ["shutdown_completes"]

def tagOf (sc : Json) : String := let t := jstr sc "tag"; if t.isEmpty then jstr sc "kind" else t

def mkVerdict (sc : Json) (accepts : Bool) (viol : List String) (extra : List (String × Json) := []) : Json :=
  let v := viol.eraseDups
  verdict (jstr sc "id") accepts v.isEmpty v (if v.isEmpty then "" else classKey (tagOf sc) v.head!) extra

/-! ## kind api -/

def handleApi (sc tr : Json) : Json :=
  if jstr tr "init" != "ok" then mkVerdict sc false ["init_usable_path"] else
  let thrOps : List (List AOp) := (jarr sc "threads").map (fun t => (asArr t).map parseOp)
  let hist := jarr tr "hist"
  let obsOf (op : AOp) (h : Json) : Obs :=
    match op with
    | .get => match objToKV (jobj h "map") with | some m => .snap m | none => .none
    | .cget | .creset => .reply (parseReply (jstr h "reply"))
    | .nop => .none
    | _ => .rc (jint h "ret")
  let calls : Array (Array Call) := (thrOps.zipIdx.map fun (ops, t) =>
    (ops.zipIdx.map fun (op, i) =>
      let h := (hist.find? (fun h => jnat h "th" == t && jnat h "i" == i)).getD Json.null
      ({ op := op, inv := jnat h "inv", res := jnat h "res", obs := obsOf op h } : Call)).toArray).toArray
  let all := calls.toList.flatMap (·.toList)
  let complete := all.all (fun c => c.res > c.inv && c.inv > 0)
  let finalKV := (objToKV (jobj tr "final")).getD []
  let init := jarr sc "init"
  -- model
  let acc := complete && linSearch modelStep (fun m => sortKV m == finalKV) calls (applyInitModel init)
  -- property oracle
  let s0 := applyInitSpec init
  let lin := complete && linSearch specStep (fun m => m == finalKV) calls s0
  let v1 := if all.all (fun c => match c.op, c.obs with
      | .inc _ _, .rc n | .set _ _, .rc n | .reset, .rc n => n == 0
      | .cget, .reply (.one 0 _) | .creset, .reply (.one 0 []) => true
      | .cget, _ | .creset, _ => false
      | _, _ => true) then [] else ["call_succeeds"]
  let noOverwrite := all.all (fun c => match c.op with | .set _ _ | .reset | .creset => false | _ => true)
  let touched := (all.filterMap (fun c => match c.op with | .inc k _ | .set k _ => some k | _ => none)).eraseDups
  let expectSum : KV := sortKV ((s0.map (·.1) ++ touched).eraseDups.map fun k =>
    (k, (specGet s0 k).getD 0 + (all.foldl (fun a c => match c.op with | .inc k' v => if k' == k then a + v else a | _ => a) 0)))
  let v2 := if noOverwrite && finalKV != expectSum then ["increments_not_lost"] else []
  let allKeys := (s0.map (·.1) ++ touched).eraseDups
  let snaps : List KV := finalKV :: all.filterMap (fun c => match c.obs with
    | .snap m => some m | .reply (.one _ b) => (match c.op with | .cget => some b | _ => none) | _ => none)
  let v3 := if snaps.all (fun m => s0.all (fun p => (specGet m p.1).isSome) && m.all (fun p => allKeys.contains p.1))
            && allKeys.all (fun k => (specGet finalKV k).isSome)
            then [] else ["reset_keeps_keys"]
  let v4 := if lin then [] else ["linearisable"]
  mkVerdict sc acc (v1 ++ v2 ++ v3 ++ v4 ++ dtorClause tr) [("expect_sum", kvJson expectSum)]

/-! ## kind sess -/

structure Sess where
  bytes : List Nat          -- what reaches the server before it gives up / the client ends
  stalls : Bool             -- server sees no EOF after them (client keeps the connection open)
  endMode : String

def sessOf (j : Json) : Sess :=
  let em := let e := jstr j "end"; if e.isEmpty then "read" else e
  if jhas j "chunks" then
    -- a pause of 2 s or more before a chunk is a stall at that point (generator avoids 1.2 s … 2 s)
    let rec go (cs : List Json) (acc : List Nat) : List Nat × Bool :=
      match cs with
      | [] => (acc, false)
      | c :: r =>
        match asArr c with
        | h :: d :: _ => if asNat d ≥ 2000 then (acc, true) else go r (acc ++ hexBytes (asStr h))
        | _ => go r acc
    let (bs, cut) := go (jarr j "chunks") []
    { bytes := bs, stalls := cut || em == "read", endMode := em }
  else { bytes := hexBytes (jstr j "hex"), stalls := em == "read", endMode := em }

/-- oracle, written without the model: first byte, and whether the request is complete -/
def oracleAnswered (s : Sess) : Bool :=
  let w := s.bytes.take 32
  w.any (fun b => b == 10 || b == 0) || w.length == 32 || !s.stalls

def oracleFirst (s : Sess) : Option Nat :=
  match s.bytes with
  | b :: _ => if b == 10 || b == 0 then none else some b
  | [] => none

def handleSess (sc tr : Json) : Json :=
  if jstr tr "init" != "ok" then mkVerdict sc false ["init_usable_path"] else
  let init := jarr sc "init"
  let s0 := applyInitSpec init
  let zeros : KV := s0.map (fun p => (p.1, 0))
  let m0 := applyInitModel init
  let ss := (jarr sc "sessions").map sessOf
  let rs := jarr tr "sess"
  let pendingAtDtor := jhas sc "dtor_at_ms"
  let anyReset := ss.any (fun s => oracleAnswered s && oracleFirst s == some 114)
  let pairs := ss.zip rs
  -- model acceptance
  let modelResetSeen := ss.any (fun s => (StatsSvc.handler true ⟨s.bytes, s.stalls⟩ m0).1 != m0)
  let accOne (p : Sess × Json) : Bool :=
    let (s, r) := p
    if s.endMode == "reset" then true else
    let c : StatsSvc.Conn := ⟨s.bytes, s.stalls⟩
    let obs := parseReply (jstr r "reply")
    let want (m : StatsSvc.CMap String) : Reply :=
      match StatsSvc.replies (StatsSvc.handler true c m).2 with
      | [] => .nothing
      | (e, b) :: _ => .one e (sortKV b)
    obs == want m0 || (modelResetSeen && obs == want (StatsSvc.reset m0))
      || (pendingAtDtor && obs == .nothing)
  let finalKV := (objToKV (jobj tr "final")).getD []
  let accFinal := finalKV == sortKV m0 || (modelResetSeen && finalKV == sortKV (StatsSvc.reset m0))
  let acc := rs.length == ss.length && pairs.all accOne && accFinal
  -- property clauses
  let perSess (p : Sess × Json) : List String :=
    let (s, r) := p
    let obs := parseReply (jstr r "reply")
    let conn := if jbool r "connected" then [] else ["server_accepts"]
    if s.endMode == "reset" then conn else
    let wf := match obs with | .malformed _ => ["reply_well_formed"] | _ => []
    let kind := match obs with
      | .one e b =>
        let ok := match oracleFirst s with
          | some 103 => e == 0 && (b == s0 || (anyReset && b == zeros))
          | some 114 => e == 0 && b.isEmpty
          | some 48 => e == 0 && b.isEmpty
          | _ => e == 1 && b.isEmpty
        if ok then [] else ["reply_kind"]
      | _ => []
    let cooperative := oracleAnswered s && !pendingAtDtor
    let req := if cooperative && obs == .nothing then ["reply_required"] else []
    let e := jstr r "end"
    let closed := if e == "eof" || e == "reset" || (pendingAtDtor && e == "none") then [] else ["connection_closed"]
    conn ++ wf ++ kind ++ req ++ closed
  let v := pairs.flatMap perSess
  -- an aborting / hanging destructor ends the process before the sessions are reported
  let dtorBad := !(dtorClause tr).isEmpty
  let vlen := if rs.length == ss.length || dtorBad then [] else ["sessions_reported"]
  let vfin := if finalKV == s0 || (anyReset && finalKV == zeros) then [] else
              (if finalKV.map (·.1) == s0.map (·.1) then ["counters_unchanged_by_requests"] else ["reset_keeps_keys"])
  mkVerdict sc acc (dtorClause tr ++ vlen ++ v ++ vfin)

/-! ## kind path -/

def handlePath (sc tr : Json) : Json :=
  if jhas tr "skipped" then mkVerdict sc true [] [("skipped", Json.bool true)] else
  let L := jnat tr "path_len"
  let bad := jstr sc "bad"
  let who := let w := jstr sc "who"; if w.isEmpty then "server" else w
  let modelOk := match StatsSvc.copyPath true (List.replicate L 112) with | .ok _ => true | _ => false
  let initOk := jstr tr "init" == "ok"
  let clientGot := !isNull (jobj tr "client_get") && jhas tr "client_get"
  let evs := jarr tr "events" ++ jarr tr "client_events"
  let intact := evs.all (fun e => jbool e "fd_is_last_socket" && jbool e "path_matches" && jbool e "terminated")
  let vAddr := if intact then [] else ["address_intact"]
  let k7 : KV := [("k", 7)]
  if who == "client" then
    -- nobody listens: the client must report an error, and must not hand a mangled address to connect(2)
    let acc := !clientGot && (modelOk || evs.isEmpty)
    let v := (if clientGot then ["client_reports_error"] else []) ++ vAddr ++
             (if !modelOk && !evs.isEmpty then ["overlong_path_refused"] else [])
    mkVerdict sc acc v
  else if !bad.isEmpty then
    mkVerdict sc (!initOk) ((if initOk then ["unusable_path_reported"] else []) ++ vAddr)
  else if L ≥ 108 then
    let v := (if initOk then ["overlong_path_refused"] else []) ++ vAddr ++
             (if !evs.isEmpty then ["overlong_path_refused"] else [])
    mkVerdict sc (!modelOk && !initOk && evs.isEmpty) v
  else
    let rawOk := parseReply (jstr (jobj tr "raw_get") "reply") == .one 0 k7
    let cliOk := !jhas tr "client_get" || objToKV (jobj tr "client_get") == some k7
    let v := (if initOk then [] else ["fitting_path_works"]) ++
             (if initOk && !(rawOk && cliOk) then ["fitting_path_works"] else []) ++ vAddr ++
             (if initOk then dtorClause tr else [])
    mkVerdict sc (modelOk && initOk && rawOk && cliOk) v

/-! ## kind uninit -/

def handleUninit (sc tr : Json) : Json :=
  let pre := !jbool tr "pre_isinit" && jint tr "pre_inc" == 1 && jint tr "pre_set" == 1 && jint tr "pre_reset" == 1
             && objToKV (jobj tr "pre_get") == some []
  let post := jstr tr "init" == "ok" && jbool tr "post_isinit" && jint tr "post_inc" == 0 && jint tr "post_inc2" == 0
              && jint tr "post_set" == 0 && jint tr "post_reset" == 0
  -- model: inc a 2; inc a 3; set b 9; getAll; reset; getAll
  let m1 := StatsSvc.run ([] : StatsSvc.CMap String) [.inc "a" 2, .inc "a" 3, .set "b" 9]
  let m2 := StatsSvc.run m1 [.reset]
  let g1 := objToKV (jobj tr "post_get")
  let g2 := objToKV (jobj tr "post_get2")
  let acc := pre && post && g1 == some (sortKV m1) && g2 == some (sortKV m2)
  let v := (if pre then [] else ["uninitialised_calls_report_error"]) ++
           (if post then [] else ["call_succeeds"]) ++
           (if g1 == some [("a", 5), ("b", 9)] then [] else ["increments_not_lost"]) ++
           (if g2 == some [("a", 0), ("b", 0)] then [] else ["reset_keeps_keys"])
  mkVerdict sc acc v

def handle (j : Json) : Json :=
  let sc := jobj j "s"
  let tr := jobj j "t"
  match badOutcome tr with
  | some oc => crashVerdict (jstr sc "id") (tagOf sc) oc
  | none =>
    match jstr sc "kind" with
    | "api" => handleApi sc tr
    | "sess" => handleSess sc tr
    | "path" => handlePath sc tr
    | "uninit" => handleUninit sc tr
    | k => Json.mkObj [("id", Json.str (jstr sc "id")), ("error", Json.str s!"unknown kind {k}")]

end Driver.Statsvc

def main : IO UInt32 := Driver.runMain Driver.Statsvc.handle

import Driver.Json

/-! Driver glue for engine `log` (stub: not built yet). -/
namespace Driver.Log
open Lean

def handle (j : Json) : Json :=
  Json.mkObj [("id", Json.str (jstr (jobj j "s") "id")), ("error", Json.str "engine log not implemented")]

end Driver.Log

def main : IO UInt32 := Driver.runMain Driver.Log.handle

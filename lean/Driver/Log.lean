import Driver.Json
import OomdModel.Log

/-! Driver glue for engine `log` (C20): scenario + trace of the real logger in, verdict out.

`holds`   – the clauses of C20 evaluated on what the sink, the kmsg file and the backlog marks show,
            with an oracle written from the property text (which ops print a line), not from the model.
`accepts` – the model can produce the trace: the LogStream layer of the model offers exactly the lines the
            oracle expects; with trace hooks the recorded linearisation is replayed step by step through
            `OomdModel.Log.replay` and must end in a state whose sink equals the observed one; without hooks
            only the model's invariants that are visible from outside are checked. -/
namespace Driver.Log
open Lean OomdModel.Log

structure Op where
  kind : String
  n : Nat
deriving Repr

/-- sink entry -/
inductive Ent
  | line (tid : Nat) (seq : Int) (n : Nat)
  | drop (count n : Nat)
  | junk (n : Nat)
  | flush

def parseEnt (j : Json) : Ent :=
  match j with
  | Json.arr a =>
    Ent.line (asNat (a.getD 0 Json.null)) (asInt (a.getD 1 Json.null)) (asNat (a.getD 2 Json.null))
  | _ =>
    if jhas j "f" then Ent.flush
    else if jhas j "d" then Ent.drop (jnat j "d") (jnat j "n")
    else Ent.junk (jnat j "n")

def entLen : Ent → Nat
  | .line _ _ n => n
  | .drop _ n => n
  | .junk n => n
  | .flush => 0

def tinyLimit : Nat := 20

/-- the bound the property text names ("never exceed 1 MiB in total"); `holds` uses this literal, `accepts` the
model's `maxSize` (regenerated from Log.h) -/
def propertyCap : Nat := 1048576

/-- the oracle: which ops of one thread print a line (seq, size), which ask for a kmsg record; from the
property text: DISABLE silences the calling thread until ENABLE, a statement starting with ENABLE is printed,
`debugLog` called directly is not subject to silencing, kmsg records are never suppressed -/
def expectedOf (ops : List Op) : List (Nat × Nat) × List (Nat × Nat) × List Nat :=
  let rec go (i : Nat) (en : Bool) (ops : List Op) (lines kmsg : List (Nat × Nat)) (sil : List Nat) :
      List (Nat × Nat) × List (Nat × Nat) × List Nat :=
    match ops with
    | [] => (lines.reverse, kmsg.reverse, sil.reverse)
    | o :: r =>
      match o.kind with
      -- `nest`/`nestout`: a statement whose operand logs a line of its own; two lines, the operand's first
      | "log" | "nest" | "nestout" => if en then go (i + 1) en r ((i, o.n) :: lines) kmsg sil else go (i + 1) en r lines kmsg (i :: sil)
      | "raw" | "rush" => go (i + 1) en r ((i, o.n) :: lines) kmsg sil
      | "dis" => go (i + 1) false r lines kmsg sil
      | "en" => go (i + 1) true r lines kmsg sil
      | "dislog" => go (i + 1) false r lines kmsg (i :: sil)
      | "enlog" => go (i + 1) true r ((i, o.n) :: lines) kmsg sil
      | "mix" => go (i + 1) true r ((i, o.n) :: lines) kmsg sil
      | "kmsg" => go (i + 1) en r lines ((i, o.n) :: kmsg) sil
      | _ => go (i + 1) en r lines kmsg sil
  go 0 true ops [] [] []

/-- the same ops as steps of the model -/
def stepsOf (tid : Nat) (ops : List Op) : List Step :=
  let rec go (i : Nat) (ops : List Op) (acc : List Step) : List Step :=
    match ops with
    | [] => acc.reverse
    | o :: r =>
      let st : List Step := match o.kind with
        | "log" | "nest" | "nestout" => [.stmt tid i [.text (o.n - 1)]]
        | "raw" | "rush" => [.debugLog ⟨tid, i, o.n⟩]
        | "dis" => [.stmt tid i [.disable]]
        | "en" => [.stmt tid i [.enable]]
        | "dislog" => [.stmt tid i [.disable, .text (o.n - 1)]]
        | "enlog" => [.stmt tid i [.enable, .text (o.n - 1)]]
        | "mix" => [.stmt tid i [.disable, .text 16, .enable, .text (o.n - 1)]]
        | "kmsg" => [.kmsgWrite ⟨tid, i, o.n⟩]
        | _ => []
      go (i + 1) r (st ++ acc)
  go 0 ops []

/-- observed records of a thread are a subsequence of the expected lines (big ones matched by sequence
number and size, tiny anonymous ones by size) -/
def subseq : List (Int × Nat) → List (Nat × Nat) → Bool
  | [], _ => true
  | _ :: _, [] => false
  | (q, n) :: os, (eq, en) :: es =>
    let m := if q < 0 then (en < tinyLimit && en == n) else (q == Int.ofNat eq && en == n)
    if m then subseq os es else subseq ((q, n) :: os) es

def increasing : List Int → Bool
  | a :: b :: r => a < b && increasing (b :: r)
  | _ => true

def hasDup : List Int → Bool
  | [] => false
  | a :: r => r.contains a || hasDup r

def sumNat (l : List Nat) : Nat := l.foldl (· + ·) 0

/-- events of the trace hooks as observations for `replay` -/
def parseObs (j : Json) : Option Obs :=
  match j with
  | Json.arr a =>
    let g (i : Nat) : Nat := asNat (a.getD i Json.null)
    match asStr (a.getD 0 Json.null) with
    | "e" => some (.enq ⟨g 1, g 2, g 3⟩ true)
    | "d" => some (.enq ⟨g 1, g 2, g 3⟩ false)
    | "s" => some (.swap (g 1) (g 2) (g 3 != 0))
    | "c" => some .cleared
    | "r" => some .release
    | "x" => some .stop
    | _ => none
  | _ => none

/-- model sink against observed sink: lines in order (sequence number compared when the record carries one)
and drop reports with their counts, flushes ignored -/
def sinkMatches : List Out → List Ent → Bool
  | outs, .flush :: es => sinkMatches outs es
  | [], [] => true
  | .line m :: os, .line t q n :: es =>
    m.tid == t && m.size == n && (q < 0 || q == Int.ofNat m.seq) && sinkMatches os es
  | .report k :: os, .drop c _ :: es => k == c && sinkMatches os es
  | _, _ => false

structure PerThread where
  silHit : Bool
  unknown : Bool
  dup : Bool
  ord : Bool
  sub : Bool
  nExp : Nat

def checkThread (e : List (Nat × Nat) × List (Nat × Nat) × List Nat) (o : List (Int × Nat)) : PerThread :=
  let lines := e.1
  let sil := e.2.2
  let big : List Int := o.filterMap fun (q, _) => if q >= 0 then some q else none
  { silHit := big.any fun q => sil.contains q.toNat
    unknown := o.any fun (q, n) => q >= 0 && !(sil.contains q.toNat) && !(lines.contains (q.toNat, n))
    dup := hasDup big
    ord := increasing big
    sub := subseq o lines
    nExp := lines.length }

def variantName (v : Variant) : String :=
  if v == fixed then "fixed" else if v == fix25only then "release-at-swap" else "unfixed"

def handle (j : Json) : Json :=
  let sc := jobj j "s"
  let tr := jobj j "t"
  let id := jstr sc "id"
  let oc := jstr tr "outcome"
  if oc != "ok" then
    verdict id true true [] ("outcome:" ++ oc)
  else
  let prods : List (List Op) := (jarr sc "producers").map fun p => (asArr p).map fun o => ⟨jstr o "k", jnat o "n"⟩
  let done : List Nat := (jarr tr "done").map asNat
  let np := prods.length
  -- ops actually executed (shutdown may cut a script)
  let execd : List (List Op) := (List.range np).map fun t => (prods.getD t []).take (done.getD t 0)
  let exp := execd.map expectedOf
  let sink : List Ent := (jarr tr "sink").map parseEnt
  let recs : List (Nat × Int × Nat) := sink.filterMap fun e => match e with | .line t q n => some (t, q, n) | _ => none
  let obsOf (t : Nat) : List (Int × Nat) := recs.filterMap fun (tt, q, n) => if tt == t then some (q, n) else none
  -- bytes that are neither a whole logged line nor a drop report are not a violation by themselves (the property
  -- does not forbid extra output); a torn or corrupted line shows up as a missing line below
  let junkBytes := sumNat (sink.map fun e => match e with | .junk n => n | _ => 0)
  let vJunk : List String := []
  -- clause: silenced lines absent; only logged lines present; once; in order
  let perThread : List PerThread := (List.range np).map fun t =>
    checkThread (exp.getD t ([], [], [])) (obsOf t)
  let foreign := recs.any fun (t, _, _) => t >= np
  let vSil := if perThread.any (·.silHit) then ["silencing_per_thread"] else []
  let vUnk := if foreign || perThread.any (·.unknown) then ["only_logged_lines"] else []
  let vDup := if perThread.any (·.dup) then ["exactly_once"] else []
  let vOrd := if perThread.any (fun x => !x.dup && !x.ord) then ["per_thread_fifo"] else []
  let structural := vJunk ++ vSil ++ vUnk ++ vDup ++ vOrd
  let vSub := if structural.isEmpty && perThread.any (fun x => !x.sub) then ["exactly_once"] else []
  -- clause: what is missing has been reported as dropped, nothing else is missing
  let nExp := sumNat (perThread.map (·.nExp))
  let nObs := recs.length
  let missing := nExp - nObs
  let reportedN := sumNat (sink.filterMap fun e => match e with | .drop c _ => some c | _ => none)
  let countable := structural.isEmpty && vSub.isEmpty
  let vLost := if countable && reportedN < missing then ["flush_on_shutdown"] else []
  let vOver := if countable && reportedN > missing then ["drops_reported"] else []
  -- clause: nothing is dropped while everything ever logged fits under the cap
  let totalBytes := sumNat (exp.map fun e => sumNat (e.1.map (·.2)))
  let vEarly := if countable && missing > 0 && totalBytes ≤ propertyCap then ["drop_only_when_full"] else []
  -- clause: backlog.  At each mark: bytes of lines logged before the mark that the sink had not yet taken
  let offs : List (Ent × Nat) :=
    (sink.foldl (fun (acc : List (Ent × Nat) × Nat) e => ((e, acc.2) :: acc.1, acc.2 + entLen e)) ([], 0)).1
  let marks := jarr tr "marks"
  let unwr : List Nat := marks.map fun mk =>
    let pos := jnat mk "pos"
    let dn := (jarr mk "done").map asNat
    sumNat (offs.map fun (e, off) => match e with
      | .line t q n =>
        if q >= 0 && q.toNat < dn.getD t 0 && off + n > pos then off + n - (if off > pos then off else pos) else 0
      | _ => 0)
  let worst := unwr.foldl max 0
  let vBack := if worst > propertyCap then ["backlog_bounded"] else []
  -- clause: kmsg
  let km : List (Int × Int × Nat) := (jarr tr "kmsg").map fun e =>
    let a := asArr e
    (asInt (a.getD 0 Json.null), asInt (a.getD 1 Json.null), asNat (a.getD 2 Json.null))
  let kmOk := (List.range np).all fun t =>
    let ke : List (Nat × Nat) := (exp.getD t ([], [], [])).2.1
    let ko := km.filterMap fun (tt, q, n) => if tt == Int.ofNat t then some (q.toNat, n) else none
    ko == ke
  let kmForeign := km.any fun (t, _, _) => t < 0 || t >= Int.ofNat np
  let vKm := if kmOk && !kmForeign then [] else ["kmsg_not_suppressed"]
  let viol := structural ++ vSub ++ vLost ++ vOver ++ vEarly ++ vBack ++ vKm
  let cls := match viol with
    | [] => ""
    | "backlog_bounded" :: _ =>
      if worst > 2 * propertyCap then "backlog_bounded:cap-not-enforced" else "backlog_bounded:inflight-batch-not-counted"
    | c :: _ => c
  -- ---- accepts: the model as acceptor ----
  let steps : List (List Step) := (List.range np).map fun t => stepsOf t (execd.getD t [])
  let modelOffers : List (List Msg) := (List.range np).map fun t => threadOffers t true (steps.getD t [])
  let layerOk := (List.range np).all fun t =>
    let lines : List (Nat × Nat) := (exp.getD t ([], [], [])).1
    let ke : List (Nat × Nat) := (exp.getD t ([], [], [])).2.1
    (modelOffers.getD t []).map (fun m => (m.seq, m.size)) == lines
      && (kmsgAsked (steps.getD t [])).map (fun m => (m.seq, m.size)) == ke
  let hooks := jbool tr "hooks"
  let obs := (jarr tr "events").filterMap parseObs
  let tryVariant (v : Variant) : Bool :=
    match replay v St.init obs with
    | some s => s.pc == .exited && sinkMatches s.sink sink
        && (List.range np).all fun t =>
             s.offered.filter (·.tid == t) == modelOffers.getD t []
    | none => false
  let matching := if hooks then [fixed, fix25only, unfixed].filter tryVariant else []
  let replayOk := !hooks || (tryVariant fixed && !jbool tr "events_lost")
  let outsideOk := countable && reportedN == missing && worst ≤ maxSize && kmOk
  let accepts := layerOk && replayOk && outsideOk
  verdict id accepts viol.isEmpty viol cls
    [("worst_unwritten", Json.num worst), ("missing", Json.num missing), ("reported", Json.num reportedN),
     ("expected", Json.num nExp), ("delivered", Json.num nObs), ("hooks", Json.bool hooks),
     ("variants", mkStrs (matching.map variantName)), ("layer_ok", Json.bool layerOk),
     ("events", Json.num obs.length), ("junk_bytes", Json.num junkBytes)]

end Driver.Log

def main : IO UInt32 := Driver.runMain Driver.Log.handle

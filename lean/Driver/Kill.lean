import Driver.Json
import OomdModel.Kill
import OomdModel.Path
import OomdModel.FsRead

/-! Driver glue for engine `h_kill` (C01, C03, C04, C17).  Scenario + implementation trace in, verdict out.

`accepts`: the model (`OomdModel.Kill.runKill`) run against the environment answers extracted from the
implementation's trace, with a ranking that is admissible (`rankOKb`) and resolves ties the way the trace
suggests, produces exactly the implementation's boundary events and return value, tick by tick.

`holds`: the clauses of the property named by the scenario's `prop`, evaluated on the implementation's events and
the scenario alone (no model run involved). -/
namespace Driver.Kill
open Lean OomdModel OomdModel.Kill

/-! ## scenario → views -/

structure Meta where
  id : Nat
  path : String
  comps : List String
  parent : Option Nat
deriving Repr

def semBool? (j : Json) (k : String) : Option Bool :=
  match j.getObjVal? k with
  | .ok (Json.bool b) => some b
  | .ok v => match v.getInt? with
    | .ok n => some (n != 0)
    | _ => none
  | _ => none

partial def parseNode (listing : Json) (parentPath : List String) (j : Json) : View :=
  let name := jstr j "name"
  let comps := parentPath ++ [name]
  let sem := jobj j "sem"
  let xs := jobj j "xattrs"
  let marks : Marks := {
    trustedPrefer := jhas xs Generated.xattrPreferTrusted
    userPrefer := jhas xs Generated.xattrPreferUser
    trustedAvoid := jhas xs Generated.xattrAvoidTrusted
    userAvoid := jhas xs Generated.xattrAvoidUser }
  let info : Info := {
    id := jnat j "id"
    path := "/".intercalate comps
    populated := semBool? sem "populated"
    oomGroup := semBool? sem "oom_group"
    marks := marks
    key := jint sem "key"
    eligible := (semBool? sem "eligible").getD true
    pidsCurrent := jint? sem "pids_current" }
  let kids := jarr j "children"
  let order := jstrs listing (toString info.id)
  let listed := order.filterMap fun n => kids.find? (fun c => jstr c "name" == n)
  let rest := kids.filter fun c => !(order.contains (jstr c "name"))
  View.mk info ((listed ++ rest).map (parseNode listing comps))

partial def metas (parent : Option Nat) (parentPath : List String) (j : Json) : List Meta :=
  let name := jstr j "name"
  let comps := parentPath ++ [name]
  let id := jnat j "id"
  { id := id, path := "/".intercalate comps, comps := comps, parent := parent } ::
    (jarr j "children").flatMap (metas (some id) comps)

partial def allViews (v : View) : List View := v :: v.children.flatMap allViews

def findView (vs : List View) (id : Nat) : Option View := vs.find? (fun v => v.id == id)

/-! ## configuration -/

def argBool (args : Json) (k : String) (dflt : Bool) : Bool :=
  match jstr? args k with
  | some "true" => true
  | some "True" => true
  | some "1" => true
  | some "false" => false
  | some "False" => false
  | some "0" => false
  | _ => dflt

def cfgOf (sc : Json) (variant : String) : KillCfg :=
  let args := jobj (jobj sc "cfg") "args"
  let dry := if variant == "dry" then true else if variant == "wet" then false else argBool args "dry" false
  { recursive := argBool args "recursive" false
    dry := dry
    alwaysContinue := argBool args "always_continue" false
    kernelKill := argBool args "kernelkill" false
    reapMemory := argBool args "reap_memory" true
    postActionDelay := (jstr? args "post_action_delay").bind String.toNat?
    hasRuleset := (jbool? (jobj sc "ctx") "has_ruleset").getD true }

def patterns (sc : Json) : List String :=
  ((jstr (jobj (jobj sc "cfg") "args") "cgroup").splitOn ",").filter (· ≠ "")

/-- roots = `resolveWildcard` of every pattern (C16 model), duplicates removed -/
def rootsOf (ms : List Meta) (views : List View) (pats : List String) : List View :=
  let t : OomdModel.Path.Tree := { dirs := [] :: ms.map (fun m => m.comps.map String.toList), files := [] }
  let paths := pats.flatMap fun p => OomdModel.Path.resolve t [] (OomdModel.Path.mk [] p.toList)
  -- resolved component lists may contain `.`/`..`; normalise by walking
  let norm (cs : List (List Char)) : List String :=
    cs.foldl (fun acc c =>
      if c == ['.'] then acc else if c == ['.', '.'] then acc.dropLast else acc ++ [String.ofList c]) []
  let rel := (paths.map norm).eraseDups
  rel.filterMap fun cs => (ms.find? (fun m => m.comps == cs)).bind (fun m => findView views m.id)

/-! ## ranking: lexicographic (preference, key), descending -/

def rk (v : View) : Int × Int := (v.pref.toInt, v.info.key)
def rkGe (a b : View) : Bool := (rk a).1 > (rk b).1 || ((rk a).1 == (rk b).1 && (rk a).2 ≥ (rk b).2)
def rkGt (a b : View) : Bool := (rk a).1 > (rk b).1 || ((rk a).1 == (rk b).1 && (rk a).2 > (rk b).2)

def insertBy (le : α → α → Bool) (x : α) : List α → List α
  | [] => [x]
  | y :: ys => if le x y then x :: y :: ys else y :: insertBy le x ys
/-- stable insertion sort: equal elements keep their input order -/
def sortBy (le : α → α → Bool) (l : List α) : List α := l.foldr (insertBy le) []

mutual
partial def subIds : View → List Nat
  | v => v.id :: v.children.flatMap subIds
end

def indexOf? (l : List Nat) (x : Nat) : Option Nat :=
  let rec go : List Nat → Nat → Option Nat
    | [], _ => none
    | y :: ys, i => if y == x then some i else go ys (i + 1)
  go l 0

/-- position in the observed attempt sequence of the first attempt this candidate leads to: its own if it is
    attempted as a whole, the earliest one below it if the loop descends into it -/
partial def hintOf (cfg : KillCfg) (attempted : List Nat) (v : View) : Nat :=
  if descends cfg v then (v.children.map (hintOf cfg attempted)).foldl min 1000000
  else (indexOf? attempted v.id).getD 1000000

/-- an admissible ranking that breaks ties the way the observed attempts suggest (`rev`: the other stable order,
    for candidates the trace does not tell apart, e.g. overlapping root patterns) -/
def rankHint (cfg : KillCfg) (attempted : List Nat) (rev : Bool) (l : List View) : List View :=
  let el := l.filter (·.info.eligible)
  let el := if rev then el.reverse else el
  let byHint := sortBy (fun a b => hintOf cfg attempted a ≤ hintOf cfg attempted b) el
  sortBy rkGe byHint

def sortedDesc : List View → Bool
  | [] => true
  | [_] => true
  | a :: b :: r => rkGe a b && sortedDesc (b :: r)

def permIds (a b : List View) : Bool :=
  let ia := sortBy (· ≤ ·) (a.map (·.id))
  let ib := sortBy (· ≤ ·) (b.map (·.id))
  ia == ib

/-- `RankOK` on one call: a permutation of the eligible inputs, sorted non-increasingly -/
def rankOKb (rank : List View → List View) (l : List View) : Bool :=
  permIds (rank l) (l.filter (·.info.eligible)) && sortedDesc (rank l)

/-! ## implementation trace → events + environment -/

structure Impl where
  evs : List Ev := []
  env : Env := { procs := [], killRc := [], xattr := [], writes := [], pidfd := [], mrelease := [] }
  sigBad : Bool := false
  unknown : List String := []          -- things the vocabulary cannot express (⇒ not accepted)
  kmsgLines : List (Option Nat × String) := []
  uuids : List String := []
  attempted : List Nat := []           -- victims in order (uuid xattrs; kmsg for dry)
  emptyKills : List Nat := []          -- cgroups whose cgroup.kill was written while they held no process (stale stream)
deriving Inhabited

def decimal? (s : String) : Option Int :=
  if s.isEmpty || !(s.toList.all Char.isDigit) then none else s.toNat?.map Int.ofNat

def xname? (s : String) : Option XName :=
  if s == Generated.xattrUuidTrusted then some .uuidT
  else if s == Generated.xattrUuidUser then some .uuidU
  else if s == Generated.xattrOomsTrusted then some .oomsT
  else if s == Generated.xattrOomsUser then some .oomsU
  else if s == Generated.xattrKillTrusted then some .killT
  else if s == Generated.xattrKillUser then some .killU
  else none

/-- fields of the structured kill record: (path, ruleset, group, killer) -/
def parseKmsg (line : String) : Option (String × String × String × String) :=
  let l := line.trimAscii.toString
  let pre := "oomd kill: "
  if !l.startsWith pre then none else
  let body := (l.drop pre.length).toString
  let toks := body.splitOn " "
  -- p10 p60 p300 path current ruleset:[..] detectorgroup:[..] killer:.. v2
  match toks with
  | [_, _, _, path, _, rs, dg, killer, _] =>
    let strip (s pfx : String) : Option String :=
      if s.startsWith pfx && s.endsWith "]" then some ((s.drop pfx.length).toString.dropEnd 1).toString else none
    match strip rs "ruleset:[", strip dg "detectorgroup:[" with
    | some r, some g =>
      if killer.startsWith "killer:" then some (path, r, g, (killer.drop 7).toString) else none
    | _, _ => none
  | _ => none

def implOfTick (ms : List Meta) (tk : Json) : Impl := Id.run do
  let mut im : Impl := {}
  let mut evs : Array Ev := #[]
  let mut procs : Array (Option (List Int)) := #[]
  let mut killRc : Array Nat := #[]
  let mut xattr : Array (Option String × Nat) := #[]
  let mut writes : Array Int := #[]
  let mut pidfd : Array Nat := #[]
  let mut mrel : Array Nat := #[]
  let mut fresh : Array (Option Bool) := #[]      -- the kernelkill branch's own reads of cgroup.events
  let mut afterFreeze : Option Nat := none        -- a freeze write to this cgroup was the last effect
  let killsDelta := jint tk "kills_delta"
  let mut statPlaced := false
  for e in jarr tk "events" do
    let ev := jstr e "ev"
    if ev == "setxattr" then
      let old := jstr? e "old"
      let rc := jnat e "rc"
      match xname? (jstr e "name") with
      | none => im := { im with unknown := im.unknown ++ ["setxattr:" ++ jstr e "name"] }
      | some n =>
        let cg := (jint e "cg").toNat
        if jint e "cg" < 0 then im := { im with unknown := im.unknown ++ ["setxattr:unknown-cgroup"] }
        let val ← match n with
          | .uuidT | .uuidU =>
            let u := jstr e "val"
            let idx ← match im.uuids.findIdx? (· == u) with
              | some i => pure i
              | none =>
                im := { im with uuids := im.uuids ++ [u], attempted := im.attempted ++ [cg] }
                pure (im.uuids.length - 1)
            pure (XVal.uuid idx)
          | _ =>
            match (jstr e "val").toInt? with
            | some v => pure (XVal.num v)
            | none =>
              im := { im with unknown := im.unknown ++ ["setxattr:nonint-value"] }
              pure (XVal.num 0)
        evs := evs.push (.setxattr cg n val old rc)
        xattr := xattr.push (old, rc)
    else if ev == "procs" then
      let cg := (jint e "cg").toNat
      if jint e "cg" < 0 then im := { im with unknown := im.unknown ++ ["procs:unknown-cgroup"] }
      if isNull (jobj e "lines") then
        evs := evs.push (.procs cg none); procs := procs.push none
      else
        let ls := jstrs e "lines"
        if ls.any (fun l => (decimal? l).isNone) then im := { im with unknown := im.unknown ++ ["procs:nondecimal"] }
        let pids := ls.map (fun l => (decimal? l).getD 0)
        evs := evs.push (.procs cg (some pids)); procs := procs.push (some pids)
    else if ev == "kill" then
      if jint e "sig" != 9 then im := { im with sigBad := true }
      evs := evs.push (.kill (jint e "pid") (jnat e "rc")); killRc := killRc.push (jnat e "rc")
    else if ev == "write" then
      let f := jstr e "file"
      let cg := (jint e "cg").toNat
      let rc := jint e "rc"
      if jint e "cg" < 0 then im := { im with unknown := im.unknown ++ ["write:unknown-cgroup"] }
      if rc ≥ 0 && jstr e "data" != "1" then im := { im with unknown := im.unknown ++ ["write:data"] }
      if f == Generated.fileCgroupFreeze then
        evs := evs.push (.write cg .freeze rc); writes := writes.push rc
        afterFreeze := some cg
      else if f == Generated.fileCgroupKill then
        evs := evs.push (.write cg .kill rc); writes := writes.push rc
        if rc ≥ 0 && jhas e "nprocs" && jint e "nprocs" == 0 then im := { im with emptyKills := cg :: im.emptyKills }
      else im := { im with unknown := im.unknown ++ ["write:" ++ f] }
    else if ev == "events" then
      -- a read of cgroup.events: the one that follows the freeze write of the same cgroup is the kernelkill branch's fresh
      -- read (an answer of the environment, not an effect); the others fill the tick's cache, which the scenario describes
      if afterFreeze == some (jint e "cg").toNat then
        let r := if isNull (jobj e "lines") then none
          else (OomdModel.FsRead.readIsPopulated ((jstrs e "lines").map String.toList)).toOption
        fresh := fresh.push r
        afterFreeze := none
    else if ev == "pidfd_open" then
      evs := evs.push (.pidfdOpen (jint e "pid") (jnat e "rc")); pidfd := pidfd.push (jnat e "rc")
    else if ev == "mrelease" then
      evs := evs.push (.mrelease (jint e "pid") (jnat e "rc")); mrel := mrel.push (jnat e "rc")
    else if ev == "kmsg" then
      let line := jstr e "line"
      if line.startsWith "oomd kill: restarted systemd service=" then
        let dry := line.trimAscii.toString.endsWith "(dry)"
        evs := evs.push (.kmsgRestart dry)
        im := { im with kmsgLines := im.kmsgLines ++ [(none, line)] }
      else
      match parseKmsg line with
      | none => im := { im with unknown := im.unknown ++ ["kmsg:unparsed"], kmsgLines := im.kmsgLines ++ [(none, line)] }
      | some (path, _, _, killer) =>
        let dry := killer.startsWith "(dry)"
        match ms.find? (fun m => m.path == path) with
        | none => im := { im with unknown := im.unknown ++ ["kmsg:unknown-cgroup"], kmsgLines := im.kmsgLines ++ [(none, line)] }
        | some m =>
          if killsDelta == 1 && !statPlaced then
            evs := evs.push .statKills
            statPlaced := true
          evs := evs.push (.kmsg m.id dry)
          im := { im with kmsgLines := im.kmsgLines ++ [(some m.id, line)] }
          if dry then im := { im with attempted := im.attempted ++ [m.id] }
    else if ev == "dbus" then
      evs := evs.push (.dbus (jstr e "method" == "RestartUnit") (jnat e "rc"))
    else if ev.startsWith "hook_" then
      im := { im with unknown := im.unknown ++ ["hook"] }     -- C07 vocabulary, not modelled here
    else
      im := { im with unknown := im.unknown ++ ["event:" ++ ev] }
  if killsDelta != 0 && !statPlaced then
    for _ in [0:killsDelta.toNat] do evs := evs.push .statKills
  if jint tk "restarts_delta" != 0 then
    for _ in [0:(jint tk "restarts_delta").toNat] do evs := evs.push .statRestarts
  match jint? tk "pause" with
  | some d => evs := evs.push (.pause d.toNat)
  | none => pure ()
  return { im with evs := evs.toList,
                   env := { procs := procs.toList, killRc := killRc.toList, xattr := xattr.toList,
                            writes := writes.toList, pidfd := pidfd.toList, mrelease := mrel.toList,
                            events := fresh.toList } }

def retOfStr (s : String) : Option Ret :=
  if s == "CONTINUE" then some .cont else if s == "STOP" then some .stop
  else if s == "ASYNC_PAUSED" then some .async else none

def evStr (e : Ev) : String := toString (repr e)

/-! ## accepts -/

structure TickCtx where
  ms : List Meta
  views : List View          -- all views of the tick
  top : List View            -- top-level cgroups
  roots : List View
  cfg : KillCfg
  impl : Impl
  ret : String
  tk : Json

def tickCtx (sc : Json) (variant : String) (tree tk : Json) : TickCtx :=
  let listing := jobj tk "listing"
  let top := (jarr tree "children").map (parseNode listing [])
  let ms := (jarr tree "children").flatMap (metas none [])
  let views := top.flatMap allViews
  let roots := rootsOf ms views (patterns sc)
  { ms := ms, views := views, top := top, roots := roots, cfg := cfgOf sc variant,
    impl := implOfTick ms tk, ret := jstr tk "ret", tk := tk }

def isRestart (sc : Json) : Bool := jstr (jobj sc "cfg") "plugin" == "systemd_restart"
def isPgScan (sc : Json) : Bool := jstr (jobj sc "cfg") "plugin" == "kill_by_pg_scan"

/-- events are compared as multisets of (statKills / statRestarts / pause) + the ordered rest: the position of the
    three in-process effects is not observable at the boundary -/
def splitInproc (l : List Ev) : List Ev × List Ev :=
  l.partition fun e => match e with
    | .statKills | .statRestarts | .pause _ => true
    | _ => false

def sameEvents (a b : List Ev) : Bool :=
  let (ia, oa) := splitInproc a
  let (ib, ob) := splitInproc b
  oa == ob && sortBy (fun x y => evStr x ≤ evStr y) ia == sortBy (fun x y => evStr x ≤ evStr y) ib

/-- model events and return value for one tick -/
def modelTick (sc : Json) (c : TickCtx) (gateOpen : Bool) : List Ev × Ret × Bool :=
  if isRestart sc then
    let rc := match c.impl.evs.find? (fun e => match e with | .dbus _ _ => true | _ => false) with
      | some (.dbus _ rc) => rc
      | _ => 0
    let dly := ((jstr? (jobj (jobj sc "cfg") "args") "post_action_delay").bind String.toNat?).getD Generated.restartDefPostActionDelay
    let rcfg : RestartCfg := { dry := c.cfg.dry, delay := dly }
    let (evs, r) := runRestart rcfg rc
    -- third component: the time run() took is the model's sleep (virtual clock; nothing else in this plugin takes time)
    (evs, r, jint c.tk "elapsed_ns" == Int.ofNat (restartSleep rcfg rc) * 1000000000)
  else if !gateOpen then ([], .async, true)
  else
    let run (rev : Bool) : List Ev × Ret × Bool :=
      let rank := rankHint c.cfg c.impl.attempted rev
      -- admissibility of the ranking on every sibling set it can be asked about
      let ok := rankOKb rank c.roots && c.views.all (fun v => rankOKb rank v.children)
      let r := runKill c.cfg rank c.roots c.impl.env
      (r.evs, r.val, ok)
    let a := run false
    if sameEvents a.1 c.impl.evs then a else
      let b := run true
      if sameEvents b.1 c.impl.evs then b else a

/-! ## holds: C01 -/

def compMatch (name pat : String) : Bool :=
  OomdModel.Path.fnmatch pat.toList name.toList

/-- victim's path is matched by a pattern, or (recursive) has a matched proper prefix -/
def matched (pats : List String) (recursive : Bool) (comps : List String) : Bool :=
  pats.any fun p =>
    let pc := (p.splitOn "/").filter (· ≠ "")
    let full (cs : List String) : Bool := cs.length == pc.length && (cs.zip pc).all (fun (c, q) => compMatch c q)
    full comps || (recursive && (List.range comps.length).any (fun n => n > 0 && full (comps.take n)))

structure C01State where
  victim : Option Nat := none
  seen : List Int := []
  success : Bool := false
  viol : List String := []

def isUuid (n : XName) : Bool := n == .uuidT || n == .uuidU

def holdsC01Tick (sc : Json) (c : TickCtx) : List String := Id.run do
  let pats := patterns sc
  let mut st : C01State := {}
  if c.impl.sigBad then st := { st with viol := st.viol ++ ["signals_contained.sigkill"] }
  for e in c.impl.evs do
    match e with
    | .setxattr cg0 n _ _ _ =>
      -- swap stream: the kill-accounting xattrs are written by path; a cgroup that took the path of a candidate during the
      -- kill (ids from 100000 = id of the replaced cgroup + 100000) receives them.  That is one recorded finding with its own
      -- class; the attempt is then followed as the attempt on the replaced cgroup, whose directory the plugin still holds
      let stray := cg0 ≥ 100000
      let cg := if stray then cg0 - 100000 else cg0
      if stray then st := { st with viol := st.viol ++ ["writes_contained.xattr_by_path_after_swap"] }
      if isUuid n then
        if st.victim != some cg then
          if st.success then st := { st with viol := st.viol ++ ["stops_at_first_success"] }
          let okm := match c.ms.find? (fun m => m.id == cg) with
            | some m => matched pats c.cfg.recursive m.comps
            | none => false
          if !okm then st := { st with viol := st.viol ++ ["victim_matched"] }
          st := { st with victim := some cg, seen := [] }
      else if st.victim != some cg then st := { st with viol := st.viol ++ ["writes_contained.xattr"] }
    | .write cg f rc =>
      if st.victim != some cg then st := { st with viol := st.viol ++ ["writes_contained.control_file"] }
      if f == .kill && rc ≥ 0 then st := { st with success := true }
    | .procs cg pids =>
      let inSub := match st.victim.bind (findView c.views) with
        | some v => (subIds v).contains cg
        | none => false
      if !inSub then st := { st with viol := st.viol ++ ["signals_contained.other_cgroup_procs"] }
      else st := { st with seen := st.seen ++ pids.getD [] }
    | .kill pid rc =>
      if st.victim.isNone then st := { st with viol := st.viol ++ ["signals_contained.no_victim"] }
      if pid ≤ 0 then st := { st with viol := st.viol ++ ["signals_contained.positive_pid"] }
      else if !(st.seen.contains pid) then st := { st with viol := st.viol ++ ["signals_contained.listed"] }
      if rc == 0 then st := { st with success := true }
    | _ => pure ()
  return st.viol.eraseDups

/-! ## holds: C03 -/

structure Leaf where
  v : View
  chain : List View        -- ranked candidates from the root level down to the leaf (inclusive)

partial def leavesOf (cfg : KillCfg) (anc : List View) (v : View) : List Leaf :=
  if cfg.recursive && !(v.info.oomGroup.getD false) && !v.children.isEmpty then
    (v.children.filter (·.info.eligible)).flatMap (leavesOf cfg (anc ++ [v]))
  else if v.info.populated.getD true then [{ v := v, chain := anc ++ [v] }] else []

/-- first pair of siblings at which two chains part -/
def diverge : List View → List View → Option (View × View)
  | a :: as, b :: bs => if a.id == b.id then diverge as bs else some (a, b)
  | _, _ => none

def attemptSucceeded (evs : List Ev) (emptyKills : List Nat := []) : List (Nat × Bool) := Id.run do
  -- per wet attempt (uuid xattr starts it): did it signal / kernel-kill anything
  let mut out : Array (Nat × Bool) := #[]
  for e in evs do
    match e with
    | .setxattr cg n _ _ _ =>
      if isUuid n then
        if out.isEmpty || out.back!.1 != cg then out := out.push (cg, false)
    | .kill _ rc => if rc == 0 && !out.isEmpty then out := out.modify (out.size - 1) (fun (c, _) => (c, true))
    | .write cg f rc =>
      -- a cgroup.kill written into a cgroup that holds no process signals nobody
      if f == .kill && rc ≥ 0 && !out.isEmpty && !(emptyKills.contains cg) then out := out.modify (out.size - 1) (fun (c, _) => (c, true))
    | _ => pure ()
  return out.toList

def ancestorsOf (ms : List Meta) (id : Nat) : List Nat :=
  let rec go (fuel : Nat) (id : Nat) : List Nat :=
    match fuel with
    | 0 => []
    | f + 1 => match (ms.find? (fun m => m.id == id)).bind (·.parent) with
      | some p => p :: go f p
      | none => []
  go 64 id

def holdsC03Tick (sc : Json) (c : TickCtx) : List String := Id.run do
  let cfg := c.cfg
  let leaves := (c.roots.filter (·.info.eligible)).flatMap (leavesOf cfg [])
  let att : List (Nat × Bool) :=
    if cfg.dry then c.impl.attempted.map (fun i => (i, true)) else attemptSucceeded c.impl.evs c.impl.emptyKills
  let mut viol : List String := []
  -- (a) every attempted cgroup is a candidate leaf
  for (id, _) in att do
    if !(leaves.any (·.v.id == id)) then
      let v? := findView c.views id
      let ancs := (ancestorsOf c.ms id).filterMap (findView c.views)
      let belowRoot := ancs.any (fun a => c.roots.any (·.id == a.id)) || c.roots.any (·.id == id)
      if ancs.any (fun a => a.info.oomGroup == some true && (c.roots.any (·.id == a.id) || (ancestorsOf c.ms a.id).any (fun r => c.roots.any (·.id == r)))) then
        viol := viol ++ ["never_below_oom_group"]
      else if !cfg.recursive && !(c.roots.any (·.id == id)) && belowRoot then viol := viol ++ ["no_descent_without_recursive"]
      else if (v?.bind (·.info.populated)) == some false then viol := viol ++ ["unpopulated_skipped"]
      else if (v?.map (fun v => descends cfg v)).getD false then viol := viol ++ ["descends_into_children"]
      else if (v?.map (fun v => !v.info.eligible)).getD false then viol := viol ++ ["rank_filter"]
      else viol := viol ++ ["victim_not_candidate"]
  let attLeaves := att.filterMap fun (id, s) => (leaves.find? (·.v.id == id)).map (fun l => (l, s))
  -- (b) a cgroup reachable as a candidate in two ways (overlapping root patterns) may be attempted once per way;
  --     the trace does not say which way an attempt came from, so such cgroups are left out of the order clauses
  let ambiguous (id : Nat) : Bool := (leaves.filter (·.v.id == id)).length > 1
  let leaves := leaves.filter fun l => !(ambiguous l.v.id)
  let attLeaves := attLeaves.filter fun (l, _) => !(ambiguous l.v.id)
  -- (c) order of attempts respects (preference, key)
  let n := attLeaves.length
  for i in [0:n] do
    for j in [i+1:n] do
      match attLeaves[i]?, attLeaves[j]? with
      | some (li, _), some (lj, _) =>
        match diverge li.chain lj.chain with
        | some (a, b) =>
          if !(rkGe a b) then
            viol := viol ++ [if a.pref != b.pref then "prefer_normal_avoid" else "fallback_in_rank_order"]
        | none => pure ()
      | _, _ => pure ()
  -- (d) candidates left untried: only after a success, and only if not ranked strictly above an attempted one
  let succeeded := att.any (·.2)
  let untried := leaves.filter fun l => !(att.any (·.1 == l.v.id))
  if !untried.isEmpty && !succeeded && (c.ret == "CONTINUE" || c.ret == "STOP") then viol := viol ++ ["fallback_exhausts_candidates"]
  if succeeded then
    for u in untried do
      for (l, _) in attLeaves do
        match diverge u.chain l.chain with
        | some (a, b) =>
          if rkGt a b then
            viol := viol ++ [if a.pref != b.pref then "prefer_normal_avoid" else "fallback_in_rank_order"]
        | none => pure ()
  -- (e) a success is the last attempt
  match att.dropLast.find? (·.2) with
  | some _ => viol := viol ++ ["continues_after_success"]
  | none => pure ()
  return viol.eraseDups

/-! ## holds: C17 -/

structure Seg where
  cg : Nat
  evs : List Ev

/-- wet attempts: a uuid xattr for another cgroup than the current one (or the first) starts a segment -/
def segmentsOf (evs : List Ev) : List Seg × List Ev := Id.run do
  let mut segs : Array Seg := #[]
  let mut pre : Array Ev := #[]
  let mut lastUuid : Option XVal := none
  for e in evs do
    let start := match e with
      | .setxattr _ n val _ _ => isUuid n && lastUuid != some val
      | _ => false
    if start then
      match e with
      | .setxattr cg _ val _ _ =>
        segs := segs.push { cg := cg, evs := [e] }
        lastUuid := some val
      | _ => pure ()
    else if segs.isEmpty then pre := pre.push e
    else segs := segs.modify (segs.size - 1) (fun s => { s with evs := s.evs ++ [e] })
  return (segs.toList, pre.toList)

def countIntOf (old : Option String) : Option Int :=
  match old with
  | none => some 0
  | some s => if s == "" then some 0 else stoi? s

def holdsC17Tick (sc : Json) (c : TickCtx) : List String := Id.run do
  let cfg := c.cfg
  let jc := jobj sc "ctx"
  let plugin := jstr (jobj sc "cfg") "plugin"
  let mut viol : List String := []
  let (segs, pre) := segmentsOf c.impl.evs
  let effect (e : Ev) : Bool := match e with
    | .kill _ _ | .write _ _ _ | .pidfdOpen _ _ | .mrelease _ _ | .setxattr _ _ _ _ _ => true
    | _ => false
  if pre.any effect then viol := viol ++ ["uuid.before_effects"]
  let mut signalledSegs := 0
  let mut uuidVals : List XVal := []
  for s in segs do
    -- uuid: both attributes, same fresh value, before any signal
    let us := s.evs.filterMap fun e => match e with
      | .setxattr cg n v _ _ => if isUuid n then some (cg, n, v) else none
      | _ => none
    let firstSignal := s.evs.findIdx? (fun e => match e with | .kill _ _ => true | .write _ _ _ => true | _ => false)
    let uuidIdx := s.evs.zipIdx.filterMap fun (e, i) => match e with
      | .setxattr _ n _ _ _ => if isUuid n then some i else none
      | _ => none
    let haveBoth := us.any (fun (_, n, _) => n == .uuidT) && us.any (fun (_, n, _) => n == .uuidU)
    if !haveBoth then viol := viol ++ ["uuid.both_attributes"]
    if !(us.all (fun (cg, _, v) => cg == s.cg && some v == us.head?.map (·.2.2))) then viol := viol ++ ["uuid.same_value"]
    match firstSignal with
    | some fs => if uuidIdx.any (· > fs) || uuidIdx.isEmpty then viol := viol ++ ["uuid.before_signal"]
    | none => pure ()
    match us.head? with
    | some (_, _, v) =>
      if uuidVals.contains v then viol := viol ++ ["uuid.fresh"]
      uuidVals := v :: uuidVals
    | none => pure ()
    -- counters
    let nSig := (s.evs.filter fun e => match e with | .kill _ rc => rc == 0 | _ => false).length
    let kernelOk := s.evs.any fun e => match e with | .write cg f rc => f == .kill && rc ≥ 0 && !(c.impl.emptyKills.contains cg) | _ => false
    for e in s.evs do
      match e with
      | .setxattr cg n (.num v) old rc =>
        if cg != s.cg then viol := viol ++ ["xattr.other_cgroup"]
        match countIntOf old with
        | none => pure ()          -- pre-existing value is not an integer: outside what the clause speaks about
        | some o =>
          if n == .oomsT || n == .oomsU then
            if v != o + 1 then viol := viol ++ ["ooms_plus_one"]
          if (n == .killT || n == .killU) && !cfg.kernelKill then
            if v != o + nSig then viol := viol ++ ["kill_plus_signals"]
          -- kernelkill whose cgroup.kill write did not succeed (or was never made): nothing was signalled, the counter stays
          if (n == .killT || n == .killU) && cfg.kernelKill && !kernelOk then
            if v != o then viol := viol ++ ["kill_plus_signals.nothing_signalled"]
        let _ := rc
      | _ => pure ()
    let count (p : Ev → Bool) : Nat := (s.evs.filter p).length
    if count (fun e => match e with | .setxattr _ n _ _ _ => n == .oomsT | _ => false) != 1 then viol := viol ++ ["ooms_plus_one.once"]
    if count (fun e => match e with | .setxattr _ n _ _ _ => n == .oomsU | _ => false) != 1 then viol := viol ++ ["ooms_plus_one.once"]
    let kernelAbort := cfg.kernelKill && !kernelOk     -- kernelkill branch returns before the completion xattr
    if !kernelAbort then
      if count (fun e => match e with | .setxattr _ n _ _ _ => n == .killT | _ => false) != 1 then viol := viol ++ ["kill_plus_signals.once"]
      if count (fun e => match e with | .setxattr _ n _ _ _ => n == .killU | _ => false) != 1 then viol := viol ++ ["kill_plus_signals.once"]
    let signalled := nSig > 0 || kernelOk
    if signalled then signalledSegs := signalledSegs + 1
    -- kmsg record of this attempt
    let recs := s.evs.filter fun e => match e with | .kmsg _ _ => true | _ => false
    if signalled && recs != [.kmsg s.cg false] then viol := viol ++ ["stat_and_kmsg.record"]
    if !signalled && !recs.isEmpty then viol := viol ++ ["stat_and_kmsg.record_without_signal"]
  -- stat
  let killsDelta := jint c.tk "kills_delta"
  if cfg.dry then
    if killsDelta != 0 then viol := viol ++ ["stat_and_kmsg.dry_counts"]
    let recs := c.impl.evs.filter fun e => match e with | .kmsg _ _ => true | _ => false
    if recs.any (fun e => match e with | .kmsg _ d => !d | _ => false) then viol := viol ++ ["stat_and_kmsg.dry_marker"]
    if recs.length > 1 then viol := viol ++ ["stat_and_kmsg.dry_once"]
  else if killsDelta != signalledSegs then viol := viol ++ ["stat_and_kmsg.stat"]
  -- record names cgroup (checked above through the id), ruleset, detector group, plugin
  for (_, line) in c.impl.kmsgLines do
    match parseKmsg line with
    | some (_, r, g, k) =>
      if r != (jstr? jc "ruleset").getD "rs" then viol := viol ++ ["stat_and_kmsg.ruleset"]
      if g != (jstr? jc "group").getD "dg" then viol := viol ++ ["stat_and_kmsg.group"]
      if k != (if cfg.dry then "(dry)" else "") ++ plugin then viol := viol ++ ["stat_and_kmsg.plugin"]
    | none => viol := viol ++ ["stat_and_kmsg.format"]
  -- return value
  let didKill := if cfg.dry then !c.impl.kmsgLines.isEmpty else signalledSegs > 0
  let want := if didKill && !cfg.alwaysContinue then "STOP" else "CONTINUE"
  if c.ret != "ASYNC_PAUSED" && c.ret != want then viol := viol ++ ["return"]
  if c.ret == "ASYNC_PAUSED" && !(c.impl.evs.isEmpty) then viol := viol ++ ["return.async_with_effects"]
  return viol.eraseDups

/-! ## holds: C04 (dry run of the scenario vs wet run of the same scenario) -/

def effectEv (e : Ev) : Bool := match e with
  | .kill _ _ | .write _ _ _ | .pidfdOpen _ _ | .mrelease _ _ | .setxattr _ _ _ _ _ | .statKills | .dbus _ _ | .statRestarts => true
  | _ => false

def holdsC04Tick (sc : Json) (d w : TickCtx) : List String := Id.run do
  let mut viol : List String := []
  if d.impl.evs.any effectEv then viol := viol ++ ["dry_no_effects"]
  if isRestart sc then
    if !(d.impl.evs.any (fun e => e == .kmsgRestart true)) then viol := viol ++ ["dry_same_control.kmsg_marker"]
    if d.ret != "STOP" then viol := viol ++ ["dry_same_control.return"]
    -- systemd_restart holds its ruleset off by sleeping post_action_delay inside run(): a dry run pauses exactly like that
    let el (c : TickCtx) : Int := jint c.tk "elapsed_ns"
    match (jstr? (jobj (jobj sc "cfg") "args") "post_action_delay").bind String.toNat? with
    | some dly => if el d != Int.ofNat dly * 1000000000 then viol := viol ++ ["dry_same_control.pause"]
    | none => pure ()
    if jint w.tk "restarts_delta" == 1 && el w != el d then viol := viol ++ ["dry_same_control.differs_from_wet_success"]
    return viol.eraseDups
  if d.ret == "ASYNC_PAUSED" || w.ret == "ASYNC_PAUSED" then
    if d.ret != w.ret then viol := viol ++ ["dry_same_control.async"]
    return viol.eraseDups
  -- same first victim (up to ties of (preference, key), which the unstable sort may break differently)
  let wetFirst := (attemptSucceeded w.impl.evs).head?.map (·.1)
  let dryVictim := d.impl.attempted.head?
  let leaves := (d.roots.filter (·.info.eligible)).flatMap (leavesOf d.cfg [])
  match dryVictim, wetFirst with
  | none, none => pure ()
  | some a, some b =>
    if a != b then
      match leaves.find? (·.v.id == a), leaves.find? (·.v.id == b) with
      | some la, some lb =>
        match diverge la.chain lb.chain with
        | some (x, y) => if !(rkGe x y && rkGe y x) then viol := viol ++ ["dry_same_first_victim"]
        | none => pure ()
      | _, _ => viol := viol ++ ["dry_same_first_victim"]
  | _, _ => viol := viol ++ ["dry_same_first_victim"]
  -- control flow: as a wet run after a successful kill
  let recs := d.impl.evs.filter fun e => match e with | .kmsg _ _ => true | _ => false
  match dryVictim with
  | some v =>
    if recs != [.kmsg v true] then viol := viol ++ ["dry_same_control.kmsg_marker"]
    let want := if d.cfg.alwaysContinue then "CONTINUE" else "STOP"
    if d.ret != want then viol := viol ++ ["dry_same_control.return"]
    let wantPause : Option Nat := if d.cfg.alwaysContinue || !d.cfg.hasRuleset then none else d.cfg.postActionDelay
    let pauseOf (c : TickCtx) : Option Nat := (jint? c.tk "pause").map Int.toNat
    if pauseOf d != wantPause then viol := viol ++ ["dry_same_control.pause"]
    let wetSucceeded := (attemptSucceeded w.impl.evs).any (·.2)
    if wetSucceeded && (pauseOf w != pauseOf d || w.ret != d.ret) then viol := viol ++ ["dry_same_control.differs_from_wet_success"]
  | none =>
    if !recs.isEmpty then viol := viol ++ ["dry_same_control.kmsg_marker"]
    if d.ret != "CONTINUE" then viol := viol ++ ["dry_same_control.return"]
  return viol.eraseDups

/-! ## one scenario -/

def classOf (viol : List String) (c : Option TickCtx) : String :=
  if viol.contains "signals_contained.positive_pid" then
    match c with
    | some c =>
      if c.impl.evs.any (fun e => match e with | .kill p _ => p == 0 | _ => false) then "procs-line-0" else "procs-line-negative"
    | none => "procs-line-0"
  else
    -- the recorded by-path finding names a scenario only when nothing else is violated in it
    match viol.filter (· != "writes_contained.xattr_by_path_after_swap") with
    | v :: _ => v
    | [] => viol.head?.getD ""

def handle (j : Json) : Json := Id.run do
  let sc := jobj j "s"
  let tr := jobj j "t"
  let id := jstr sc "id"
  let prop := jstr sc "prop"
  let ticks := jarr sc "ticks"
  let runs := jarr tr "runs"
  if runs.isEmpty then
    -- the harness died on this scenario: nothing to compare; the outcome itself is the finding
    let oc := jstr tr "outcome"
    return verdict id false true [] ("outcome:" ++ oc) []
  let mut accepts := true
  let mut notes : List Json := []
  let mut viol : List String := []
  let mut firstBad : Option TickCtx := none
  let mut perRun : List (List TickCtx) := []
  for run in runs do
    let variant := jstr run "variant"
    let rticks := jarr run "ticks"
    let mut gate : Option Nat := none
    let mut ctxs : List TickCtx := []
    for (tkS, i) in ticks.zipIdx do
      match rticks[i]? with
      | none => accepts := false; notes := notes ++ [Json.str s!"{variant}: tick {i} missing ({jstr run "outcome"})"]
      | some tk =>
        let c := tickCtx sc variant (jobj tkS "tree") tk
        ctxs := ctxs ++ [c]
        if jstr tk "outcome" != "ok" then
          accepts := false
          notes := notes ++ [Json.str s!"{variant}: tick {i} outcome {jstr tk "outcome"}"]
          continue
        let (g', open_) := if isPgScan sc then pgScanGate gate (i + 1) else (none, true)
        gate := g'
        let (mevs, mret, rankOk) := modelTick sc c open_
        -- swap stream: the world changes while run() executes, which the model does not describe; only the property clauses
        -- are evaluated on such a trace
        let swapped := jhas sc "swap_at_kill" && jbool run "swapped"
        let same := swapped || (sameEvents mevs c.impl.evs && some mret == retOfStr c.ret && c.impl.unknown.isEmpty && rankOk)
        if !same then
          accepts := false
          notes := notes ++ [Json.mkObj [("variant", Json.str variant), ("tick", Json.num i),
            ("model", mkStrs (mevs.map evStr)), ("impl", mkStrs (c.impl.evs.map evStr)),
            ("model_ret", Json.str (toString (repr mret))), ("impl_ret", Json.str c.ret),
            ("unknown", mkStrs c.impl.unknown), ("rank_ok", Json.bool rankOk)]]
        -- per-tick clauses
        let v := if isRestart sc then []
          else if prop == "C01" then holdsC01Tick sc c
          else if prop == "C03" then holdsC03Tick sc c
          else if prop == "C17" then holdsC17Tick sc c
          else if prop == "C05" then
            -- the plugin protocol C05's engine theorems assume (OomdProps.C05): a kill plugin calls pause_actions only right
            -- before it returns STOP - the delay of an action that does not stop its chain must not reach the ruleset
            (if (jint? c.tk "pause").isSome && c.ret != "STOP" then ["C05.pause_only_before_stop"] else [])
          else []
        if !v.isEmpty && firstBad.isNone then firstBad := some c
        viol := viol ++ v
    perRun := perRun ++ [ctxs]
  if prop == "C04" then
    match perRun with
    | [ds, ws] =>
      for (d, w) in ds.zip ws do
        let v := holdsC04Tick sc d w
        if !v.isEmpty && firstBad.isNone then firstBad := some d
        viol := viol ++ v
    | _ => viol := viol ++ ["twin_runs_missing"]
  let violF := viol.eraseDups
  return verdict id accepts violF.isEmpty violF (classOf violF firstBad) [("notes", Json.arr notes.toArray)]

end Driver.Kill

def main : IO UInt32 := Driver.runMain Driver.Kill.handle

import Driver.Json

/-! Driver glue for engine `kill` (stub: not built yet). -/
namespace Driver.Kill
open Lean

def handle (j : Json) : Json :=
  Json.mkObj [("id", Json.str (jstr (jobj j "s") "id")), ("error", Json.str "engine kill not implemented")]

end Driver.Kill

def main : IO UInt32 := Driver.runMain Driver.Kill.handle

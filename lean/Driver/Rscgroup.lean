import Driver.Json
import OomdModel.RsCgroup
import OomdModel.Generated.Consts

/-! Driver glue for engine `h_rscgroup` (C11).

`accepts`: the model (`OomdModel.RsCgroup` for rulesets with a cgroup setting, `OomdModel.Engine.rsRun`
for plain ones) reproduces the implementation's call log.  The resolve order (glob with GLOB_NOSORT)
and the iteration order of `runnable_rulesets_` (unordered_map) are not fixed by the code: the
resolve order of each tick is read off the implementation trace (order of first appearance) and must
be a permutation of the scenario's matching set; the prerun phase is compared per instance, not as
one interleaving.  Object identity: the model's (ruleset, path, generation, plugin) and the
implementation's object serial numbers must be related by a bijection.

`holds`: the clauses of C11 evaluated on the implementation trace and the scenario only (an
independent reference checker; it never calls the model's functions). -/
namespace Driver.Rscgroup
open Lean OomdModel.Engine OomdModel.RsCgroup

/-! ### scenario -/

structure RsJ where
  idx : Nat
  cfg : Cfg
  isCg : Bool
  ownL : List (Nat × String)

structure CgJ where
  path : String
  isDir : Bool
  x : Bool
  openable : Bool
  xerr : Bool
  m : List Nat          -- how often glob yields it, per ruleset

structure TickJ where
  gap : Nat
  cgs : List CgJ
  calls : List (String × List (Nat × Call))

def parseCall (j : Json) : Call :=
  let a := asArr j
  let r := match asNat (a.getD 0 Json.null) with | 1 => Ret.stop | 2 => Ret.async | _ => Ret.cont
  let p := asInt (a.getD 2 Json.null)
  { ret := r, adv := asNat (a.getD 1 Json.null), pause := if p < 0 then none else some (p.toNat * NS) }

def parseRs (idx : Nat) (j : Json) : RsJ :=
  let d := jstr j "delay"
  let h := jstr j "hook_timeout"
  let acts := jarr j "actions"
  let ownL : List (Nat × String) := acts.filterMap fun a => match a with
    | Json.obj _ => (jstr? a "cgroup").map fun c => (jnat a "inst", c)
    | _ => none
  let rs : RsCfg :=
    { rid := jnat j "rid"
      groups := (jarr j "groups").map fun g => { gid := jnat g "gid", dets := (jarr g "dets").map asNat }
      actions := acts.map fun a => match a with | Json.obj _ => jnat a "inst" | _ => asNat a
      delay := (if d.isEmpty then OomdModel.Generated.defaultPostActionDelay else d.toNat!) * NS
      hookTimeout := (if h.isEmpty then OomdModel.Generated.defaultPrekillHookTimeout else h.toNat!) * NS }
  { idx := idx
    cfg := { rs := rs, filter := !(jstr j "xattr_filter").isEmpty, own := fun i => ownL.lookup i }
    isCg := !(jstr j "cgroup").isEmpty
    ownL := ownL }

def parseCg (j : Json) : CgJ :=
  { path := jstr j "path"
    isDir := (jstr? j "kind").getD "dir" == "dir"
    x := jbool j "x"
    openable := (jbool? j "open").getD true
    xerr := jbool j "xerr"
    m := (jarr j "m").map asNat }

def parseTick (j : Json) : TickJ :=
  let calls := match jobj j "calls" with
    | Json.obj kvs => kvs.toList.map fun (cg, v) =>
        (cg, match v with
          | Json.obj kv2 => kv2.toList.map fun (k, c) => (k.toNat!, parseCall c)
          | _ => [])
    | _ => []
  { gap := jnat j "gap", cgs := (jarr j "cgs").map parseCg, calls := calls }

def scriptOf (t : TickJ) (cg : String) : Script := fun i => (((t.calls.lookup cg).getD []).lookup i).getD {}

/-! ### implementation events -/

inductive IEv
  | i (inst serial : Nat) (arg : String) (resolved : List String)
  | p (inst serial : Nat)
  | d (inst serial now : Nat) (rcg : String)
  | a (inst serial now : Nat) (rcg rs grp : String) (uuid : Int) (deadline : Int) (inv : Bool) (target key : String)
  | x (inst serial : Nat)
deriving BEq, Repr, Inhabited

def parseIEv (j : Json) : IEv :=
  let a := asArr j
  let g (k : Nat) : Json := a.getD k Json.null
  match asStr (g 0) with
  | "i" => IEv.i (asNat (g 1)) (asNat (g 2)) (asStr (g 3)) ((asArr (g 4)).map asStr)
  | "p" => IEv.p (asNat (g 1)) (asNat (g 2))
  | "d" => IEv.d (asNat (g 1)) (asNat (g 2)) (asNat (g 3)) (asStr (g 4))
  | "x" => IEv.x (asNat (g 1)) (asNat (g 2))
  | _ => IEv.a (asNat (g 1)) (asNat (g 2)) (asNat (g 3)) (asStr (g 4)) (asStr (g 5)) (asStr (g 6)) (asInt (g 7))
      (asInt (g 8)) (asBool (g 9)) (asStr (g 10)) (asStr (g 11))

def IEv.inst : IEv → Nat
  | .i n _ _ _ => n | .p n _ => n | .d n _ _ _ => n | .a n _ _ _ _ _ _ _ _ _ _ => n | .x n _ => n
def IEv.serial : IEv → Nat
  | .i _ s _ _ => s | .p _ s => s | .d _ s _ _ => s | .a _ s _ _ _ _ _ _ _ _ _ => s | .x _ s => s
def IEv.isX : IEv → Bool | .x _ _ => true | _ => false
def IEv.isRun : IEv → Bool | .d _ _ _ _ => true | .a _ _ _ _ _ _ _ _ _ _ _ => true | _ => false
def IEv.rcg : IEv → String
  | .d _ _ _ r => r | .a _ _ _ r _ _ _ _ _ _ _ => r | _ => ""
def IEv.now : IEv → Nat
  | .d _ _ n _ => n | .a _ _ n _ _ _ _ _ _ _ _ => n | _ => 0

structure ITick where
  pre : List IEv
  run : List IEv

def evJ : IEv → Json
  | .i n s a _ => Json.arr #["i", n, s, a]
  | .p n s => Json.arr #["p", n, s]
  | .d n s t r => Json.arr #["d", n, s, t, r]
  | .a n s t r rs g u dl inv tg k => Json.arr #["a", n, s, t, r, rs, g, Json.num u, Json.num dl, inv, tg, k]
  | .x n s => Json.arr #["x", n, s]

/-! ### model run over all rulesets -/

/-- identity of a plugin object in the model: ruleset index, instance path ("<T>" for the template
or a plain ruleset), generation, plugin id -/
structure Obj where
  r : Nat
  path : String
  gen : Nat
  plugin : Nat
deriving BEq, Repr

/-- model event in the implementation's vocabulary, with `Obj` in place of the serial -/
inductive MEv
  | i (o : Obj) (arg : String)
  | p (o : Obj)
  | d (o : Obj) (now : Nat) (rcg : String)
  | a (o : Obj) (now : Nat) (rcg rs grp : String) (uuid : Nat) (deadline : Nat) (inv : Bool) (target key : String)
deriving Repr

def tmpl : String := "<T>"

def argS (o : Option String) : String := o.getD "-"

def ofEv (r : RsJ) (path : String) (gen : Nat) (rcg : String) (keyOf : Nat → String) : Ev → MEv
  | Ev.prerun i => MEv.p ⟨r.idx, path, gen, i⟩
  | Ev.det i n => MEv.d ⟨r.idx, path, gen, i⟩ n rcg
  | Ev.act i n c inv => MEv.a ⟨r.idx, path, gen, i⟩ n rcg s!"r{c.ruleset}" s!"g{c.group}" c.uuid c.deadline inv rcg (keyOf i)

def ofCEv (r : RsJ) : CEv → MEv
  | CEv.tpre i => MEv.p ⟨r.idx, tmpl, 0, i⟩
  | CEv.init p g i arg => MEv.i ⟨r.idx, p, g, i⟩ (argS arg)
  | CEv.pre p g i => MEv.p ⟨r.idx, p, g, i⟩
  | CEv.run p g e => ofEv r p g p (fun i => actionArg r.cfg p i) e

inductive RsSt
  | plain (st : RsState)
  | cg (insts : List (Path × Inst)) (nextGen : Nat)

structure MTick where
  pre : List (List MEv)        -- per ruleset
  run : List MEv
  dropped : List (Nat × String × Nat)   -- (ruleset, path, generation) of discarded instances
  ub : Bool

/-- the resolve list handed to the model: the implementation's order of first evaluation, then the
matching entries it did not evaluate, then the repeated occurrences -/
def resolveList (r : RsJ) (t : TickJ) (order : List String) : List MatchIn :=
  let mOf (c : CgJ) : Nat := if c.isDir then c.m.getD r.idx 0 else 0
  let toM (c : CgJ) : MatchIn :=
    { path := c.path, openable := c.openable, xattr := if c.xerr then XRes.err else if c.x then XRes.yes else XRes.no }
  let matching := t.cgs.filter fun c => mOf c > 0
  let first := order.filterMap fun p => (matching.find? fun c => c.path == p).map toM
  let rest := (matching.filter fun c => !order.contains c.path).map toM
  let dups := matching.flatMap fun c => List.replicate (mOf c - 1) (toM c)
  first ++ rest ++ dups

def modelTick (F : Fixes) (rss : List RsJ) (t : TickJ) (orders : List (List String)) (sts : List RsSt) (now ctr : Nat) :
    MTick × List RsSt × Nat × Nat := Id.run do
  let now0 := now + t.gap
  let mut pre : List (List MEv) := []
  for (r, st) in rss.zip sts do
    match st with
    | RsSt.plain _ => pre := pre ++ [(preruns r.cfg.rs).map (ofEv r tmpl 0 "-" (fun i => argS (r.cfg.own i)))]
    | RsSt.cg insts _ => pre := pre ++ [(prerunPhase F r.cfg insts).map (ofCEv r)]
  let mut run : List MEv := []
  let mut out : List RsSt := []
  let mut dropped : List (Nat × String × Nat) := []
  let mut ub := false
  let mut n := now0
  let mut c := ctr
  for (r, st) in rss.zip sts do
    match st with
    | RsSt.plain s =>
      let res := rsRun F.invOnResume r.cfg.rs (scriptOf t "") s n c
      run := run ++ res.2.1.map (ofEv r tmpl 0 "-" (fun i => argS (r.cfg.own i)))
      out := out ++ [RsSt.plain res.1]
      n := res.2.2.1
      c := res.2.2.2
    | RsSt.cg insts ng =>
      let ms := resolveList r t (orders.getD r.idx [])
      let res := runPhase F r.cfg { insts := insts, now := n, ctr := c, nextGen := ng } ms (scriptOf t)
      run := run ++ res.evs.map (ofCEv r)
      dropped := dropped ++ (insts.filter fun pi => (find pi.1 res.w.insts).isNone).map fun pi => (r.idx, pi.1, pi.2.gen)
      ub := ub || res.ub
      out := out ++ [RsSt.cg res.w.insts res.w.nextGen]
      n := res.w.now
      c := res.w.ctr
  return ({ pre := pre, run := run, dropped := dropped, ub := ub }, out, n, c)

/-! ### unification of model events with implementation events -/

structure Uni where
  objs : List (Obj × Nat) := []       -- bijection model object ↔ serial
  uuids : List Nat := []             -- model uuid counter values in order of first appearance
  ok : Bool := true
  why : String := ""

def Uni.fail (u : Uni) (w : String) : Uni := if u.ok then { u with ok := false, why := w } else u

def Uni.bind (u : Uni) (o : Obj) (s : Nat) : Uni :=
  match u.objs.find? fun p => p.1 == o with
  | some (_, s') => if s' == s then u else u.fail s!"object {repr o} has serial {s'} in earlier events, {s} now"
  | none =>
    match u.objs.find? fun p => p.2 == s with
    | some (o', _) => u.fail s!"serial {s} already stands for {repr o'}, now {repr o}"
    | none => { u with objs := u.objs ++ [(o, s)] }

def Uni.uuid (u : Uni) (m : Nat) : Uni × Int :=
  match u.uuids.idxOf? m with
  | some k => (u, k)
  | none => ({ u with uuids := u.uuids ++ [m] }, u.uuids.length)

def unify1 (u : Uni) (m : MEv) (e : IEv) : Uni :=
  match m, e with
  | MEv.i o arg, IEv.i n s arg' _ =>
    if o.plugin == n && arg == arg' then u.bind o s else u.fail s!"init differs: model {repr m} impl {repr e}"
  | MEv.p o, IEv.p n s => if o.plugin == n then u.bind o s else u.fail s!"prerun differs: model {repr m} impl {repr e}"
  | MEv.d o now rcg, IEv.d n s now' rcg' =>
    if o.plugin == n && now == now' && rcg == rcg' then u.bind o s else u.fail s!"detector run differs: model {repr m} impl {repr e}"
  | MEv.a o now rcg rs grp uu dl inv tg key, IEv.a n s now' rcg' rs' grp' uu' dl' inv' tg' key' =>
    let (u1, k) := u.uuid uu
    if o.plugin == n && now == now' && rcg == rcg' && rs == rs' && grp == grp' && k == uu' && Int.ofNat dl == dl'
        && inv == inv' && tg == tg' && key == key'
    then u1.bind o s else u.fail s!"action run differs: model {repr m} (uuid#{k}) impl {repr e}"
  | _, _ => u.fail s!"event kind differs: model {repr m} impl {repr e}"

/-- the order in which the plugin objects of a new instance are constructed is not observable:
maximal blocks of consecutive `init` events are compared in plugin-id order -/
def sortInitBlocks {α : Type} (isInit : α → Bool) (key : α → Nat) (l : List α) : List α :=
  let flush (blk : List α) : List α := (blk.toArray.qsort fun a b => key a < key b).toList
  let (out, blk) := l.foldl (fun (acc : List α × List α) e =>
    if isInit e then (acc.1, acc.2 ++ [e]) else (acc.1 ++ flush acc.2 ++ [e], [])) ([], [])
  out ++ flush blk

def unifySeq (u : Uni) : List MEv → List IEv → Uni
  | [], [] => u
  | m :: ms, e :: es => unifySeq (unify1 u m e) ms es
  | ms, es => u.fail s!"length differs: {ms.length} more model events, {es.length} more implementation events"

def mObj : MEv → Obj
  | .i o _ => o | .p o => o | .d o _ _ => o | .a o _ _ _ _ _ _ _ _ _ => o

/-- prerun phase of one ruleset: the template's preruns in order, then one block per instance; blocks
are compared per instance (iteration order of the unordered_map is free) -/
def unifyPre (u : Uni) (m : List MEv) (e : List IEv) : Uni :=
  let mt := m.filter fun x => (mObj x).path == tmpl
  let mi := m.filter fun x => (mObj x).path != tmpl
  let u1 := unifySeq u mt (e.take mt.length)
  let rest := e.drop mt.length
  if rest.length != mi.length then u1.fail s!"prerun phase: {mi.length} instance preruns in the model, {rest.length} in the implementation"
  else
    -- every implementation prerun must belong to a known object; per instance the sequences must agree
    let keysM := (mi.map fun x => ((mObj x).path, (mObj x).gen)).eraseDups
    keysM.foldl (fun u k =>
      let mseq := (mi.filter fun x => ((mObj x).path, (mObj x).gen) == k).map fun x => (mObj x).plugin
      let serials := (u.objs.filter fun p => (p.1.r, p.1.path, p.1.gen) == ((mi.head?.map fun x => (mObj x).r).getD 0, k.1, k.2)).map (·.2)
      let iseq := (rest.filter fun x => serials.contains x.serial).map (·.inst)
      if mseq == iseq then u else u.fail s!"prerun phase of instance {k.1} (generation {k.2}): model {mseq} implementation {iseq}") u1

/-! ### reference checker: the clauses of C11 on the implementation trace -/

structure ObjI where
  serial : Nat
  inst : Nat
  birth : Int          -- tick of init (−1: at compile time)
  death : Option Nat   -- tick of destruction
  arg : String
  resolved : List String := []   -- what the `cgroup` argument names when read as the plugins read it (at init time)

/-- per-instance abstract state for the behavioural clauses (pause deadline, suspended chain) -/
structure Abs where
  pauseUntil : Nat := 0
  susp : Option (Nat × (String × String × Int × Int)) := none

def takeThrough (sc : Nat → Call) : List Nat → List Nat
  | [] => []
  | a :: as => if (sc a).ret == Ret.cont then a :: takeThrough sc as else [a]

def groupFires (sc : Nat → Call) (g : Group) : Bool := g.dets.all fun d => (sc d).ret != Ret.stop

/-- is the path a current match of ruleset `r` at this tick, by the property's wording -/
def curMatches (r : RsJ) (t : TickJ) : List String :=
  (t.cgs.filter fun c => c.isDir && c.m.getD r.idx 0 > 0 && c.openable && (!r.cfg.filter || (c.x && !c.xerr))).map (·.path)

structure ChkSt where
  ident : List ((Nat × String) × List Nat) := []        -- (ruleset, path) ↦ detector object serials at the previous tick
  actSer : List ((Nat × String × Nat) × Nat) := []      -- (ruleset, path, action) ↦ object serial while present
  abs : List ((Nat × String) × Abs) := []
  pausedTicks : Nat := 0                                -- statistics: (instance, tick) pairs inside a pause

def checkTick (c05 : Bool) (c06 : Bool) (c07 : Bool) (rss : List RsJ) (objs : List ObjI) (k : Nat) (t : TickJ) (it : ITick) (prev : List (List String))
    (S : ChkSt) : List String × ChkSt × List (List String) := Id.run do
  let mut v : List String := []
  let mut S' : ChkSt := { pausedTicks := S.pausedTicks }
  let mut cur : List (List String) := []
  let all := it.pre ++ it.run
  for r in rss do
    if !r.isCg then
      cur := cur ++ [[]]
      continue
    let P := curMatches r t
    cur := cur ++ [P]
    let prevP := prev.getD r.idx []
    let detIds := r.cfg.rs.groups.flatMap (·.dets)
    let mine := it.run.filter fun e => e.isRun && (detIds.contains e.inst || r.cfg.rs.actions.contains e.inst)
    -- nothing runs for a path that is not a current match
    if mine.any fun e => !P.contains e.rcg then v := v ++ ["C11.once_per_match.only_matching"]
    for p in P do
      let evs := mine.filter fun e => e.rcg == p
      let dets := evs.filter fun e => match e with | IEv.d .. => true | _ => false
      let acts := evs.filter fun e => match e with | IEv.a .. => true | _ => false
      -- each detector exactly once (their order within the evaluation is C02's subject, not compared here)
      let sortN (l : List Nat) : List Nat := (l.toArray.qsort (· < ·)).toList
      let once := sortN (dets.map (·.inst)) == sortN detIds
      if !once then v := v ++ ["C11.once_per_match"]
      let ident := ((dets.toArray.qsort fun a b => a.inst < b.inst).toList).map (·.serial)
      let wasPresent := prevP.contains p
      let fresh := !wasPresent
      -- object identity: same objects while present, new objects after absence
      match S.ident.lookup (r.idx, p) with
      | some old =>
        if wasPresent && old != ident && once then v := v ++ ["C11.state_persists_while_present"]
      | none => pure ()
      if fresh then
        let born (s : Nat) : Bool := match objs.find? fun o => o.serial == s with
          | some o => o.birth == Int.ofNat k
          | none => false
        if !(ident.all born) || !(acts.all fun e => born e.serial) then v := v ++ ["C11.fresh_after_absence"]
      S' := { S' with ident := S'.ident ++ [((r.idx, p), ident)] }
      for e in acts do
        match (if wasPresent then S.actSer.lookup (r.idx, p, e.inst) else none) with
        | some s => if s != e.serial then v := v ++ ["C11.state_persists_while_present"]
        | none => pure ()
      -- action objects seen so far for this instance
      let carried := if wasPresent then S.actSer.filter fun q => q.1.1 == r.idx && q.1.2.1 == p else []
      let newSeen := (acts.map fun e => ((r.idx, p, e.inst), e.serial)).filter fun q => !(carried.any fun c => c.1 == q.1)
      S' := { S' with actSer := S'.actSer ++ carried ++ newSeen.eraseDups }
      -- default target: ActionContext.target_cgroup is the instance's cgroup; the `cgroup` argument is
      -- the instance's cgroup unless the action names its own
      for e in acts do
        match e with
        | IEv.a n ser _ rcg _ _ _ _ _ tg key =>
          -- an action that names no cgroup of its own acts on the instance's cgroup: its `cgroup` argument, read the way the
          -- core plugins read it (comma split, each part a pattern), names exactly that cgroup - whatever characters the
          -- cgroup's name contains
          let ownOk := match r.ownL.lookup n with
            | some c => key == c
            | none => (objs.find? fun o => o.serial == ser).map (·.resolved) == some [rcg]
          if tg != rcg || !ownOk then v := v ++ ["C11.default_target"]
        | _ => pure ()
      -- behaviour of the instance from its own state only (fresh state after absence)
      let sc := scriptOf t p
      let A : Abs := if wasPresent then (S.abs.lookup (r.idx, p)).getD {} else {}
      let firedG := r.cfg.rs.groups.find? (groupFires sc)
      let T? : Option Nat := dets.getLast?.map fun e => e.now + (sc e.inst).adv
      let paused := match T? with | some T => decide (T < A.pauseUntil) | none => false
      let startIdx : Option Nat :=
        if paused then none else match A.susp with
          | some (i, _) => some i
          | none => if firedG.isSome then some 0 else none
      let expected := match startIdx with | none => [] | some i => takeThrough sc (r.cfg.rs.actions.drop i)
      let got := acts.map (·.inst)
      let ctxOf : IEv → (String × String × Int × Int) := fun e => match e with
        | IEv.a _ _ _ _ rs g u d _ _ _ => (rs, g, u, d) | _ => ("", "", -1, -1)
      -- C05 for ruleset-cgroup rulesets, per matching cgroup (scenarios of C05's `percg` pass): while the instance is inside
      -- its pause its detectors still run and none of its actions does; from t+d on its actions run again
      if paused then S' := { S' with pausedTicks := S'.pausedTicks + 1 }
      if c05 then
        if !once then v := v ++ ["C05.percg_detectors_every_tick"]
        if T?.isSome && paused && !got.isEmpty then v := v ++ ["C05.percg_no_action_before_t_plus_d"]
        if T?.isSome && !paused && got.isEmpty && !expected.isEmpty then v := v ++ ["C05.percg_actions_again_from_t_plus_d"]
      -- C06 for ruleset-cgroup rulesets, per matching cgroup (scenarios of C06's `percg` pass): an instance that stayed resumes
      -- its own suspended chain at the paused action with the context it was fired with; an instance created after an absence
      -- starts clean (no inherited chain), whatever other instances are doing
      -- C07 for ruleset-cgroup rulesets (scenarios of C07's `percg` pass): a chain that starts in an instance carries the
      -- deadline "the firing group's check + the RULESET's prekill_hook_timeout" - the instance is a copy of its ruleset,
      -- time-out included
      if c07 && !paused && A.susp.isNone then
        match r.cfg.rs.groups.find? (groupFires sc), acts.head? with
        | some g, some (IEv.a _ _ _ _ _ _ _ dl _ _ _) =>
          match g.dets.getLast?.bind fun di => dets.find? fun e => e.inst == di with
          | some e => if dl != Int.ofNat (e.now + (sc e.inst).adv + r.cfg.rs.hookTimeout) then v := v ++ ["C07.percg_deadline_is_fire_plus_ruleset_timeout"]
          | none => pure ()
        | _, _ => pure ()
      if c06 && T?.isSome then
        if got != expected && (fresh || A.susp.isSome) then
          v := v ++ [if fresh then "C06.percg_clean_after_absence" else "C06.percg_resumes_paused_action"]
        else
          match acts.head?, (if paused then none else A.susp) with
          | some e0, some (_, c) =>
            if ctxOf e0 != c then v := v ++ ["C06.percg_same_context"]
            -- the target cgroup of the context is the instance's cgroup on the resumed run as on the firing one
            match e0 with
            | IEv.a _ _ _ rcg _ _ _ _ _ tg _ => if tg != rcg then v := v ++ ["C06.percg_same_context.target"]
            | _ => pure ()
          | _, _ => pure ()
      if T?.isSome && got != expected then
        v := v ++ [if fresh then "C11.fresh_after_absence.state" else "C11.state_persists_while_present.state"]
      else
        match acts.head?, (if paused then none else A.susp) with
        | some e0, some (_, c) => if ctxOf e0 != c then v := v ++ ["C11.state_persists_while_present.state"]
        | _, _ => pure ()
      let mut A' : Abs := A
      match acts.getLast? with
      | none => pure ()
      | some e =>
        let c := sc e.inst
        let tEnd := e.now + c.adv
        match c.ret with
        | Ret.stop => A' := { pauseUntil := tEnd + (c.pause.getD r.cfg.rs.delay), susp := none }
        | Ret.async => A' := { A' with susp := some ((r.cfg.rs.actions.idxOf? e.inst).getD 0, ctxOf e) }
        | Ret.cont => A' := { A' with susp := none }
      S' := { S' with abs := S'.abs ++ [((r.idx, p), A')] }
    -- instances of paths that stopped matching are discarded on this tick
    for ((ri, p), ident) in S.ident do
      if ri == r.idx && !P.contains p then
        let gone (s : Nat) : Bool := match objs.find? fun o => o.serial == s with
          | some o => (match o.death with | some d => d ≤ k | none => false)
          | none => false
        if !(ident.all gone) then v := v ++ ["C11.discarded_when_absent"]
    -- creation: the `cgroup` argument of new action objects
    for e in it.run do
      match e with
      | IEv.i n _ arg resolved =>
        if r.cfg.rs.actions.contains n then
          match r.ownL.lookup n with
          | some c => if arg != c then v := v ++ ["C11.default_target"]
          -- the default argument names exactly one cgroup, a current match (which one: checked when the action runs)
          | none => if !(match resolved with | [q] => P.contains q | _ => false) then v := v ++ ["C11.default_target"]
      | _ => pure ()
    -- prerun on every tick: every plugin object of an instance that exists after this tick was prerun on
    -- this tick, before it ran
    for o in objs do
      let mineO := detIds.contains o.inst || r.cfg.rs.actions.contains o.inst
      let alive := o.birth ≥ 0 && o.birth ≤ Int.ofNat k && (match o.death with | some d => d > k | none => true)
      if mineO && alive then
        let iP := all.findIdx? fun e => (match e with | IEv.p .. => true | _ => false) && e.serial == o.serial
        let iR := all.findIdx? fun e => e.isRun && e.serial == o.serial
        match iP, iR with
        | none, _ => v := v ++ ["C11.prerun_every_tick"]
        | some a, some b => if b < a then v := v ++ ["C11.prerun_every_tick"]
        | _, _ => pure ()
        -- ... and once: an instance's windows advance by its own ticks, not by what happens to other cgroups
        let nP := (all.filter fun e => (match e with | IEv.p .. => true | _ => false) && e.serial == o.serial).length
        if nP > 1 then v := v ++ ["C11.prerun_every_tick.once"]
  return (v, S', cur)

def collectObjs (compile : List IEv) (ticks : List ITick) : List ObjI := Id.run do
  let mut objs : List ObjI := compile.filterMap fun e => match e with
    | IEv.i n s a rs => some { serial := s, inst := n, birth := -1, death := none, arg := a, resolved := rs }
    | _ => none
  let mut k := 0
  for t in ticks do
    for e in t.pre ++ t.run do
      match e with
      | IEv.i n s a rs => objs := objs ++ [{ serial := s, inst := n, birth := Int.ofNat k, death := none, arg := a, resolved := rs }]
      | IEv.x _ s => objs := objs.map fun o => if o.serial == s then { o with death := some k } else o
      | _ => pure ()
    k := k + 1
  return objs

/-! ### entry point -/

def priority : List String :=
  ["C11.no_error", "trace", "C05.", "C06.", "C07.", "C11.once_per_match", "C11.prerun_every_tick", "C11.discarded_when_absent",
   "C11.fresh_after_absence", "C11.state_persists_while_present", "C11.default_target"]

def rank (c : String) : Nat := (priority.findIdx? fun p => c.startsWith p).getD priority.length

def handle (j : Json) : Json :=
  let sc := jobj j "s"
  let tr := jobj j "t"
  let id := jstr sc "id"
  let rss := (jarr sc "rulesets").zipIdx.map fun (r, i) => parseRs i r
  let ticks := (jarr sc "ticks").map parseTick
  let outcome := jstr tr "outcome"
  if outcome != "ok" then
    let c := s!"C11.no_error:{outcome}"
    verdict id false false [c] c [("model_ub", Json.null)]
  else
  let F : Fixes := if jbool sc "model_unfixed" then Fixes.none else {}
  let compile := (jarr tr "compile").map parseIEv
  let iticks : List ITick := (jarr tr "ticks").map fun t =>
    { pre := (jarr t "pre").map parseIEv, run := (jarr t "run").map parseIEv }
  -- model
  let instOwner (n : Nat) : Nat :=
    ((rss.find? fun r => (r.cfg.rs.groups.flatMap (·.dets)).contains n || r.cfg.rs.actions.contains n).map (·.idx)).getD 0
  let u0 : Uni := unifySeq {} (rss.flatMap fun r =>
      ((r.cfg.rs.groups.flatMap (·.dets)) ++ r.cfg.rs.actions).map fun i => MEv.i ⟨r.idx, tmpl, 0, i⟩ (argS (r.cfg.own i)))
    compile
  let init : List RsSt := rss.map fun r => if r.isCg then RsSt.cg [] 0 else RsSt.plain {}
  let step (acc : Uni × List RsSt × Nat × Nat × Nat × Bool) (ti : TickJ × ITick) : Uni × List RsSt × Nat × Nat × Nat × Bool :=
    let (u, sts, now, ctr, k, ub) := acc
    let (t, it) := ti
    let orders := rss.map fun r =>
      let detIds := r.cfg.rs.groups.flatMap (·.dets)
      ((it.run.filter fun e => (match e with | IEv.d .. => true | _ => false) && detIds.contains e.inst).map (·.rcg)).eraseDups
    let (m, sts', now', ctr') := modelTick F rss t orders sts now ctr
    let u := if u.ok then u else u
    let tag (u : Uni) : Uni := if u.ok then u else { u with why := if u.why.startsWith "tick" then u.why else s!"tick {k}: {u.why}" }
    -- prerun phase, per ruleset
    let u1 := (rss.zip m.pre).foldl (fun u (r, mp) => unifyPre u mp (it.pre.filter fun e => instOwner e.inst == r.idx)) u
    let ordered := ((it.pre.map fun e => instOwner e.inst).zip ((it.pre.map fun e => instOwner e.inst).drop 1)).all fun (a, b) => a ≤ b
    let u1 := if ordered then u1 else u1.fail "prerun phase not in ruleset order"
    -- run phase, one sequence
    let u2 := unifySeq (tag u1)
      (sortInitBlocks (fun e => match e with | MEv.i .. => true | _ => false) (fun e => (mObj e).plugin) m.run)
      (sortInitBlocks (fun e => match e with | IEv.i .. => true | _ => false) (·.inst) (it.run.filter fun e => !e.isX))
    -- discarded objects
    let xs := (it.run.filter (·.isX)).map (·.serial)
    let ds := (u2.objs.filter fun p => m.dropped.contains (p.1.r, p.1.path, p.1.gen)).map (·.2)
    let u3 := if xs.all ds.contains && ds.all xs.contains then u2 else (tag u2).fail s!"destroyed objects {xs}, the model discards {ds}"
    (tag u3, sts', now', ctr', k + 1, ub || m.ub)
  let (u, _, _, _, _, ub) := (ticks.zip iticks).foldl step (u0, init, 1000 * NS, 0, 0, false)
  let accepts := u.ok && iticks.length == ticks.length && !ub
  -- property clauses
  let objs := collectObjs compile iticks
  let chk (acc : List String × ChkSt × List (List String) × Nat) (ti : TickJ × ITick) :=
    let (v, S, prev, k) := acc
    let (v', S', cur) := checkTick (jstr sc "prop" == "C05") (jstr sc "prop" == "C06") (jstr sc "prop" == "C07") rss objs k ti.1 ti.2 prev S
    (v ++ v', S', cur, k + 1)
  let (viol0, Sfin, _, _) := (ticks.zip iticks).foldl chk ([], {}, [], 0)
  let viol1 := if iticks.length == ticks.length then viol0 else viol0 ++ ["trace.missing_ticks"]
  let viol := (viol1.eraseDups.toArray.qsort fun a b => rank a < rank b || (rank a == rank b && a < b)).toList
  let cls := (viol.head?.map fun c => (c.splitOn ".").take 2 |> ".".intercalate).getD ""
  verdict id accepts viol.isEmpty viol cls [("why", Json.str u.why), ("model_ub", Json.bool ub), ("paused_ticks", Json.num Sfin.pausedTicks)]

end Driver.Rscgroup

def main : IO UInt32 := Driver.runMain Driver.Rscgroup.handle

import Driver.Json

/-! Driver glue for engine `rscgroup` (stub: not built yet). -/
namespace Driver.Rscgroup
open Lean

def handle (j : Json) : Json :=
  Json.mkObj [("id", Json.str (jstr (jobj j "s") "id")), ("error", Json.str "engine rscgroup not implemented")]

end Driver.Rscgroup

def main : IO UInt32 := Driver.runMain Driver.Rscgroup.handle

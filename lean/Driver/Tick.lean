import Driver.Json

/-! Driver glue for engine `tick` (stub: not built yet). -/
namespace Driver.Tick
open Lean

def handle (j : Json) : Json :=
  Json.mkObj [("id", Json.str (jstr (jobj j "s") "id")), ("error", Json.str "engine tick not implemented")]

end Driver.Tick

def main : IO UInt32 := Driver.runMain Driver.Tick.handle

import Driver.Json
import OomdModel.Fault
import OomdModel.CtxFault

/-! Driver glue for engine `h_tick` (C10). -/
namespace Driver.Tick
open Lean OomdModel.Fault OomdModel.Path

def isSpace (c : Char) : Bool := c == ' ' || c == '\t' || c == '\n' || c == '\r' || c == '\x0b' || c == '\x0c'

/-- `std::stoll` / `std::stoi` (base 10): leading whitespace, optional sign, at least one digit;
trailing characters are ignored; out of range throws -/
def stoInt (lo hi : Int) (s : Str) : Option Int :=
  let s := s.dropWhile isSpace
  let (neg, s) := match s with
    | '-' :: r => (true, r)
    | '+' :: r => (false, r)
    | _ => (false, s)
  let ds := s.takeWhile Char.isDigit
  if ds.isEmpty then none else
  let v : Int := ds.foldl (fun acc c => acc * 10 + (c.toNat - '0'.toNat : Nat)) 0
  let v := if neg then -v else v
  if v < lo || v > hi then none else some v

def stoll : Num := stoInt (-9223372036854775808) 9223372036854775807
def stoi : Num := stoInt (-2147483648) 2147483647
def stoull (s : Str) : Option Int :=
  -- strtoull accepts a sign and wraps; only "no digits" and > 2^64-1 throw
  let t := s.dropWhile isSpace
  let t := match t with | '-' :: r => r | '+' :: r => r | _ => t
  let ds := t.takeWhile Char.isDigit
  if ds.isEmpty then none else
  let v : Int := ds.foldl (fun acc c => acc * 10 + (c.toNat - '0'.toNat : Nat)) 0
  if v > 18446744073709551615 then none else some v

/-- plain decimals as the kernel prints PSI averages; value not compared -/
def stofPlain (s : Str) : Option Int :=
  let t := s.dropWhile isSpace
  let t := match t with | '-' :: r => r | '+' :: r => r | _ => t
  let ip := t.takeWhile Char.isDigit
  let rest := t.dropWhile Char.isDigit
  let fp := match rest with | '.' :: r => r.takeWhile Char.isDigit | _ => []
  if ip.isEmpty && fp.isEmpty then none else some 0

/-- the `total=` field goes through stoull, the averages through stof -/
def psiNum (s : Str) : Option Int := if s.all Char.isDigit && !s.isEmpty then stoull s else stofPlain s

/-- getline semantics -/
def toLines (content : String) : List Str :=
  if content.isEmpty then [] else
  let parts := content.splitOn "\n"
  let parts := if content.endsWith "\n" then parts.dropLast else parts
  parts.map String.toList

def fileSt (sc : Json) : FileSt :=
  match jstr sc "state" with
  | "absent" => .absent
  | "denied" => .denied
  | "isdir" => .unreadable
  | "empty" => .lines []
  | _ => .lines (toLines (jstr sc "content"))

def scanKv (l : Str) : Option (Str × Int) :=
  -- sscanf("%255s %lu"): first whitespace-delimited token, then an unsigned number
  let t := l.dropWhile isSpace
  let k := t.takeWhile (fun c => !isSpace c)
  let r := (t.dropWhile (fun c => !isSpace c)).dropWhile isSpace
  let ds := r.takeWhile Char.isDigit
  if k.isEmpty || ds.isEmpty then none
  else some (k, ds.foldl (fun acc c => acc * 10 + (c.toNat - '0'.toNat : Nat)) 0)

def cls {α} : Res α → String
  | .ok _ => "ok" | .unavailable => "unavailable" | .throws => "throws" | .ub => "ub"

def showI {α} (f : α → String) : Res α → Option String
  | .ok a => some (f a) | _ => none

def joinBar (l : List Str) : String := String.join (l.map fun s => String.ofList s ++ "|")

/-- (class, optional value string to compare) -/
def modelReader (reader : String) (f : FileSt) : Option (String × Option String) :=
  let num (r : Res Int) := some (cls r, showI toString r)
  match reader with
  | "memcurrent" | "swapcurrent" | "pidscurrent" => num (firstLineNum stoll f)
  | "memlow" | "memhigh" | "memmax" | "memmin" | "swapmax" => num (minMaxLowHigh stoll f)
  | "memhightmp" => num (memHighTmp stoll f)
  | "controllers" => let r := controllers f; some (cls r, showI joinBar r)
  | "populated" => let r := populated f; some (cls r, showI (fun b => if b then "1" else "0") r)
  | "oomgroup" => let r := oomGroup f; some (cls r, showI (fun b => if b then "1" else "0") r)
  | "memstat" | "nrdying" => some (cls (kvFile scanKv f), none)
  | "vmstat" => some (cls (vmstat stoll f), none)
  | "mempressure" | "iopressure" => some (cls (pressure psiNum false f), none)
  | "mempressure_full" => some (cls (pressure psiNum true f), none)
  | "pgscan" => some (cls (pgScan (kvFile scanKv f)), showI toString (pgScan (kvFile scanKv f)))
  | _ => none

def valueReaders : List String :=
  ["memcurrent", "swapcurrent", "pidscurrent", "memlow", "memhigh", "memmax", "memmin", "swapmax", "memhightmp",
   "controllers", "populated", "mempressure", "mempressure_full", "iopressure"]

def crashed (tr : Json) : Bool := let oc := jstr tr "outcome"; oc != "ok" && oc != ""

def handleReader (sc tr : Json) : Json :=
  let id := jstr sc "id"
  let reader := jstr sc "reader"
  let st := jstr sc "state"
  let implCls := if crashed tr then "ub" else jstr tr "r"
  let faulty := st == "absent" || st == "denied" || st == "isdir" || st == "empty"
  let inDomain := faulty || jbool sc "wf"
  let v1 := if inDomain && !(implCls == "ok" || implCls == "unavailable") then ["C10.no_crash_in_fault_domain"] else []
  let v2 := if faulty && valueReaders.contains reader && implCls != "unavailable" then ["C10.faulty_is_unavailable"] else []
  let v3 := if jbool sc "wf" && valueReaders.contains reader && implCls != "ok" then ["C10.wellformed_is_ok"] else []
  let viol := v1 ++ v2 ++ v3
  match modelReader reader (fileSt sc) with
  | none => verdict id true viol.isEmpty viol s!"{reader}:{st}" [("model", "unmodelled")]
  | some (c, v) =>
    let okCls := c == implCls
    let okVal := match v with | some s => jstr tr "v" == s || implCls != "ok" | none => true
    verdict id (okCls && okVal) viol.isEmpty viol s!"{reader}:{st}" [("model", Json.str c), ("model_v", match v with | some s => Json.str s | none => Json.null)]

def handleDtype (sc tr : Json) : Json :=
  let id := jstr sc "id"
  let ents : List DirEnt := ((jstrs sc "dirs").map fun d => { name := d.toList, isDir := true, isReg := false }) ++
    ((jstrs sc "files").map fun d => { name := d.toList, isDir := false, isReg := true })
  let m := readDirUnknownType ents
  let srt (l : List String) := (l.toArray.qsort (· < ·)).toList
  let md := srt (m.1.map String.ofList); let mf := srt (m.2.map String.ofList)
  let ok := md == jstrs tr "dirs" && mf == jstrs tr "files" && !crashed tr
  -- property: directory entries without type information still yield the child directories
  let visDirs := srt ((jstrs sc "dirs").filter fun d => !d.startsWith ".")
  let holds := jstrs tr "dirs" == visDirs && !crashed tr
  verdict id ok holds (if holds then [] else ["C10.dtype_unknown_children_visible"]) "dtype-unknown"

def handleTick (sc tr : Json) : Json :=
  let id := jstr sc "id"
  let r := jstr tr "r"
  let lo := jint sc "targets_pid_lo"; let hi := jint sc "targets_pid_hi"
  let kills := (jarr tr "kills").map fun k => ((asArr k).getD 0 Json.null |> asInt, (asArr k).getD 1 Json.null |> asInt)
  let contained := kills.all fun (p, s) => (s == 9 || s == 0) && lo ≤ p && p ≤ hi
  -- a configuration rejected at start-up (e.g. a percent threshold with no MemTotal) is not a tick
  let v1 := if (r == "ok" || r == "config-rejected") && !crashed tr then [] else ["C10.tick_no_crash"]
  let v2 := if contained && !(jbool tr "mixed_incarnations") then [] else ["C10.containment_under_faults"]
  let viol := v1 ++ v2
  verdict id viol.isEmpty viol.isEmpty viol (if r == "throws" then s!"tick-throws:{jstr tr "what"}" else "tick")

/-! ### kind `ctx`: the accessor layer (OomdModel.CtxFault) against the real CgroupContext -/

open OomdModel.CtxFault in
/-- `sscanf("%d:%d rbytes=%ld wbytes=%ld rios=%ld wios=%ld dbytes=%ld dios=%ld")`: all eight conversions or nothing -/
def scanIoLine (l : Str) : Option IoLine :=
  let toks := (split l ' ').filter (fun t => !t.isEmpty)
  match toks with
  | dev :: rest =>
    let mm := split dev ':'
    let keys := ["rbytes", "wbytes", "rios", "wios", "dbytes", "dios"]
    if mm.length != 2 || !(mm.all fun x => (stoi x).isSome) || rest.length < 6 then none
    else
      let vals := (keys.zip rest).map fun (k, t) =>
        if (k ++ "=").toList.isPrefixOf t then stoll (t.drop (k.length + 1)) else none
      if vals.all Option.isSome then some { dev := dev, vals := vals.filterMap id } else none
  | [] => none

open OomdModel.CtxFault in
def ctxParsers : Parsers := { num := stoll, fnum := psiNum, scan := scanKv, scanIo := scanIoLine }

/-- state of `file` of cgroup `cg`: the scenario's content unless a fault names it -/
def ctxFileSt (sc : Json) (cg file : String) : FileSt :=
  match (jarr sc "faults").find? (fun f => jstr f "cg" == cg && jstr f "file" == file) with
  | some f =>
    match jstr f "state" with
    | "absent" => .absent
    | "denied" => .denied
    | "isdir" => .unreadable
    | "empty" => .lines []
    | _ => .lines (toLines (jstr f "content"))
  | none =>
    match jstr? (jobj (jobj sc "cgroups") cg) file with
    | some c => .lines (toLines c)
    | none => .absent

open OomdModel.CtxFault in
def ctxFiles (sc : Json) (cg : String) : CgFiles :=
  let f := ctxFileSt sc cg
  { memCurrent := f "memory.current", swapCurrent := f "memory.swap.current", swapMax := f "memory.swap.max",
    memLow := f "memory.low", memMin := f "memory.min", memHigh := f "memory.high", memHighTmp := f "memory.high.tmp",
    memMax := f "memory.max", memStat := f "memory.stat", cgStat := f "cgroup.stat", events := f "cgroup.events",
    oomGroupF := f "memory.oom.group", memPressure := f "memory.pressure", ioPressure := f "io.pressure", ioStat := f "io.stat" }

def parentOf (cg : String) : String :=
  match (cg.splitOn "/").dropLast with
  | [] => ""
  | ps => "/".intercalate ps

open OomdModel.CtxFault in
/-- chain from `cg` up to the top level; the siblings of a level are the scenario's cgroups with the same parent -/
partial def ctxChain (sc : Json) (names : List String) (cg : String) : List Level :=
  if cg.isEmpty then [] else
  let par := parentOf cg
  let sibs := names.filter fun n => parentOf n == par
  { r := readingsOf ctxParsers (ctxFiles sc cg), parentOpen := true, sibs := sibs.map fun n => readingsOf ctxParsers (ctxFiles sc n) }
    :: ctxChain sc names par

open OomdModel.CtxFault in
def accName : Acc → String
  | .currentUsage => "currentUsage" | .swapUsage => "swapUsage" | .swapMax => "swapMax" | .memoryLow => "memoryLow"
  | .memoryMin => "memoryMin" | .memoryHigh => "memoryHigh" | .memoryHighTmp => "memoryHighTmp" | .memoryMax => "memoryMax"
  | .nrDying => "nrDying" | .isPopulated => "isPopulated" | .oomGroup => "oomGroup" | .memPressure => "memPressure"
  | .memPressureSome => "memPressureSome" | .ioPressure => "ioPressure" | .ioPressureSome => "ioPressureSome"
  | .memoryStat => "memoryStat" | .ioStat => "ioStat" | .anonUsage => "anonUsage" | .fileUsage => "fileUsage"
  | .shmemUsage => "shmemUsage" | .pgScanCumulative => "pgScanCumulative" | .pgScanRate => "pgScanRate"
  | .ioCostCumulative => "ioCostCumulative" | .ioCostRate => "ioCostRate" | .averageUsage => "averageUsage"
  | .memoryGrowth => "memoryGrowth" | .rawProtection => "rawProtection" | .memoryProtection => "memoryProtection"
  | .effectiveUsage => "effectiveUsage" | .effectiveSwapMax => "effectiveSwapMax" | .effectiveSwapFree => "effectiveSwapFree"
  | .effectiveSwapUtil => "effectiveSwapUtil"

/-- the statistics the property expects to be unavailable when `file` of the target itself is missing / unopenable /
unreadable (an *empty* key-value or io.stat file reads as an empty table, so only the keyed look-ups are affected) -/
def dependents (file state : String) : List String :=
  let gone := state != "empty"
  match file with
  | "memory.current" => ["currentUsage", "averageUsage", "memoryGrowth", "effectiveUsage"]
  | "memory.swap.current" => ["swapUsage"]
  | "memory.swap.max" => ["swapMax", "effectiveSwapMax", "effectiveSwapFree", "effectiveSwapUtil"]
  | "memory.low" => ["memoryLow"]
  | "memory.min" => ["memoryMin"]
  | "memory.high" => ["memoryHigh"]
  | "memory.high.tmp" => ["memoryHighTmp"]
  | "memory.max" => ["memoryMax"]
  | "memory.stat" => (if gone then ["memoryStat"] else []) ++ ["anonUsage", "fileUsage", "shmemUsage", "pgScanCumulative", "pgScanRate"]
  | "cgroup.stat" => if gone then ["nrDying"] else []
  | "cgroup.events" => ["isPopulated"]
  | "memory.oom.group" => if gone then ["oomGroup"] else []
  | "memory.pressure" => ["memPressure", "memPressureSome"]
  | "io.pressure" => ["ioPressure", "ioPressureSome"]
  | "io.stat" => if gone then ["ioStat", "ioCostCumulative", "ioCostRate"] else []
  | _ => []

open OomdModel.CtxFault in
def handleCtx (sc tr : Json) : Json := Id.run do
  let id := jstr sc "id"
  let names := match jobj sc "cgroups" with | Json.obj kvs => kvs.toList.map (·.1) | _ => []
  let target := jstr sc "target"
  let A : Arith := { scale := fun r _ _ => r, avg := fun p c => p + c, ioCost := fun _ => 1, ratio := fun a _ => a }
  let S : Sys := { swapTotal := 0, swapUsed := 0, rootUsage := .ok 0 }
  let rows := jarr tr "ticks"
  let mut viol : List String := []
  let mut agree := !crashed tr
  let mut diffs : List Json := []
  if crashed tr then viol := viol ++ ["C10.accessor_no_crash"]
  match ctxChain sc names target with
  | [] => return verdict id false viol.isEmpty viol "ctx" [("model", "no-target")]
  | l :: up =>
    -- tick history: what the first tick leaves in the archive for the second (every accessor is called on every tick)
    let first : Archive := { avg := 0, ioCost := none, pgScan := none }
    let second : Archive :=
      { avg := 1
        ioCost := match ioCostCumulative A l.r with | .ok v => some v | _ => none
        pgScan := match pgScanCumulative l.r with | .ok v => some v | _ => none }
    let mut t : Nat := 0
    for row in rows do
      let ar := if t == 0 then first else second
      for a in Acc.all do
        let nm := accName a
        match jstr? row nm with
        | none => pure ()
        | some implCls =>
          let m := cls (evalAcc A S ar l up a)
          if m != implCls then
            agree := false
            diffs := diffs ++ [Json.mkObj [("tick", t), ("acc", nm), ("model", m), ("impl", implCls)]]
          if implCls != "ok" && implCls != "unavailable" then viol := viol ++ [s!"C10.accessor_no_crash:{nm}"]
      -- the affected statistic is reported as unavailable
      for f in jarr sc "faults" do
        if jstr f "cg" == target && jstr f "state" != "content" then
          for nm in dependents (jstr f "file") (jstr f "state") do
            match jstr? row nm with
            | some c => if c != "unavailable" then viol := viol ++ [s!"C10.affected_statistic_unavailable:{nm}"]
            | none => pure ()
      t := t + 1
    return verdict id agree viol.isEmpty viol.eraseDups "ctx" [("diffs", Json.arr diffs.toArray)]

def handle (j : Json) : Json :=
  let sc := jobj j "s"
  let tr := jobj j "t"
  match jstr sc "kind" with
  | "reader" => handleReader sc tr
  | "dtype" => handleDtype sc tr
  | "tick" => handleTick sc tr
  | "ctx" => handleCtx sc tr
  | k => Json.mkObj [("id", Json.str (jstr sc "id")), ("error", Json.str s!"unknown kind {k}")]

end Driver.Tick

def main : IO UInt32 := Driver.runMain Driver.Tick.handle

import Driver.Json
import OomdModel.Path

/-! Driver glue for engine `h_path` (C16). Scenario + implementation trace in, verdict out. -/
namespace Driver.Path
open Lean OomdModel.Path

def s2l (s : String) : Str := s.toList
def l2s (l : Str) : String := String.ofList l

def partsJ (ps : List Str) : Json := mkStrs (ps.map l2s)

/-- independent statement of the three documented cases (C16.pattern_three_cases gives the link) -/
def fullMatchB : List Str → List Str → Bool
  | [], [] => true
  | a :: as, b :: bs => compMatch a b && fullMatchB as bs
  | _, _ => false

def threeCases (path pat : List Str) : Bool :=
  fullMatchB path pat
  || (path.length < pat.length && fullMatchB (path ++ pat.drop path.length) pat)
  || (pat.length < path.length && fullMatchB (path.take pat.length) pat)

def slashFree (p : String) : Bool := !p.isEmpty && !(p.toList.contains '/')

def sortStrs (l : List String) : List String := (l.toArray.qsort (· < ·)).toList

def cmp (name : String) (a b : Json) : List String := if a == b then [] else [name]

def handlePath (sc tr : Json) : Json :=
  let id := jstr sc "id"
  let fs := s2l (jstr sc "fs")
  let s := s2l (jstr sc "s")
  let c := s2l (jstr sc "child")
  let p := mk fs s
  let ch := getChild p c
  let parentJ : Option CgPath → Json := fun o => match o with
    | none => Json.null
    | some q => Json.str (l2s (relative q))
  -- model trace
  let model := Json.mkObj [
    ("parts", partsJ p.parts), ("abs", Json.str (l2s (absolute p))), ("rel", Json.str (l2s (relative p))),
    ("fs", Json.str (l2s p.fs)), ("root", Json.bool (isRoot p)), ("parent", parentJ (getParent p)),
    ("child_parts", partsJ ch.parts), ("child_abs", Json.str (l2s (absolute ch))),
    ("reparse_eq", Json.bool true)]
  let keys := ["parts", "abs", "rel", "fs", "root", "parent", "child_parts", "child_abs", "reparse_eq"]
  let diffs := keys.filter fun k => jobj model k != jobj tr k
  -- property clauses on the implementation trace alone
  let iparts := jstrs tr "parts"
  let ifs := jstr tr "fs"
  let irel := jstr tr "rel"
  let iabs := jstr tr "abs"
  let v1 := if iparts.all slashFree then [] else ["canonical.components"]
  let v2 := if irel == "/".intercalate iparts then [] else ["canonical.relative"]
  let v3 := if iabs == (if iparts.isEmpty then ifs else ifs ++ "/" ++ irel) then [] else ["absolute"]
  let v4 := if jbool tr "reparse_eq" then [] else ["canonical.roundtrip"]
  -- slashes ignored: parts equal those of the string with slashes normalised
  let norm := (jstr sc "s").splitOn "/" |>.filter (· ≠ "")
  let v5 := if iparts == norm then [] else ["canonical.slashes"]
  -- child then parents
  let cparts := jstrs tr "child_parts"
  let cnorm := (jstr sc "child").splitOn "/" |>.filter (· ≠ "")
  let v6 := if cparts == iparts ++ cnorm then [] else ["child"]
  let v7 := if jobj tr "child_back" == Json.str irel then [] else ["child_parent"]
  let v8 := if (isNull (jobj tr "parent")) == iparts.isEmpty then [] else ["parent.root"]
  let v9 := if isNull (jobj tr "parent") || jobj tr "parent" == Json.str ("/".intercalate iparts.dropLast) then [] else ["parent"]
  -- paths obtained through getParent / getChild are as canonical as constructed ones: the absolute path is root + "/" +
  -- relative (the root itself for the root), and they equal / hash like the path constructed from their own parts
  -- (for cgroup-fs roots that are themselves canonical: non-empty and without a trailing slash once the constructor has
  --  stripped one - a root like "/r//" or "" keeps its oddity in every absolute path, constructed or derived alike)
  let saneFs := !ifs.isEmpty && !ifs.endsWith "/"
  let absOf (parts : List String) : String := if parts.isEmpty then ifs else ifs ++ "/" ++ "/".intercalate parts
  let v10 := if !saneFs || isNull (jobj tr "parent") || jstr tr "parent_abs" == absOf iparts.dropLast then [] else ["absolute.of_parent"]
  let v11 := if !saneFs || isNull (jobj tr "parent") || jbool tr "parent_canon" then [] else ["child_parent.parent_not_canonical"]
  let v12 := (if !saneFs || jbool tr "child_canon" then [] else ["child.not_canonical"]) ++
    (if jstr tr "child_rel" == "/".intercalate cparts then [] else ["canonical.relative_of_child"])
  let v13 := if !saneFs || isNull (jobj tr "child_back") || jstr tr "child_back_abs" == iabs then [] else ["child_parent.absolute"]
  let v14 := if !saneFs || isNull (jobj tr "child_back") || jbool tr "child_back_canon" then [] else ["child_parent.eq_hash"]
  let viol := v1 ++ v2 ++ v3 ++ v4 ++ v5 ++ v6 ++ v7 ++ v8 ++ v9 ++ v10 ++ v11 ++ v12 ++ v13 ++ v14
  verdict id diffs.isEmpty viol.isEmpty viol "" [("diff", mkStrs diffs), ("model", model)]

def handlePair (sc tr : Json) : Json :=
  let id := jstr sc "id"
  let fa := s2l (jstr sc "fsa"); let fb := s2l (jstr sc "fsb")
  let a := mk fa (s2l (jstr sc "a")); let b := mk fb (s2l (jstr sc "b"))
  let model := Json.mkObj [("eq", Json.bool (eqv a b)), ("prefix", Json.bool (prefixMatch a b))]
  let diffs := ["eq", "prefix"].filter fun k => jobj model k != jobj tr k
  let ieq := jbool tr "eq"
  let v1 := if ieq == (jstr tr "abs_a" == jstr tr "abs_b") then [] else ["eq_iff_absolute"]
  let v2 := if !ieq || jbool tr "hash_eq" then [] else ["eq_hash"]
  let v3 := if jbool tr "prefix" == threeCases (jstrs tr "parts_a" |>.map s2l) (jstrs tr "parts_b" |>.map s2l)
            then [] else ["pattern_three_cases"]
  let viol := v1 ++ v2 ++ v3
  verdict id diffs.isEmpty viol.isEmpty viol "" [("diff", mkStrs diffs), ("model", model)]

def compsOf (s : String) : List Str := (s.splitOn "/").filter (· ≠ "") |>.map s2l

def handleResolve (sc tr : Json) : Json :=
  let id := jstr sc "id"
  let t : Tree := { dirs := (jstrs sc "dirs").map compsOf, files := (jstrs sc "files").map compsOf }
  let fsAt := compsOf (jstr sc "fsAt")
  let pat := mk [] (s2l (jstr sc "pattern"))
  let res := (resolveB t fsAt pat).map (fun cs => l2s (joinSlash cs))
  let m := sortStrs res
  let i := sortStrs (jstrs tr "resolved")
  let ok := m == i
  let v := if ok then [] else ["resolve_exact"]
  -- each directory once - except for brace alternatives that overlap (`{a,*}`): glob lists a directory once per alternative
  let dup := if i.eraseDups.length == i.length || (jstr sc "pattern").contains '{' then [] else ["resolve_once"]
  verdict id ok (ok && dup.isEmpty) (v ++ dup) "" [("model", mkStrs m)]

def handle (j : Json) : Json :=
  let sc := jobj j "s"
  let tr := jobj j "t"
  match jstr sc "kind" with
  | "path" => handlePath sc tr
  | "pair" => handlePair sc tr
  | "resolve" => handleResolve sc tr
  | k => Json.mkObj [("id", Json.str (jstr sc "id")), ("error", Json.str s!"unknown kind {k}")]

end Driver.Path

def main : IO UInt32 := Driver.runMain Driver.Path.handle

import Lean.Data.Json

/-! JSON glue shared by all driver engines (not part of the model). -/
namespace Driver
open Lean

def jstr (j : Json) (k : String) : String := (j.getObjValAs? String k).toOption.getD ""
def jstr? (j : Json) (k : String) : Option String := (j.getObjValAs? String k).toOption
def jnat (j : Json) (k : String) : Nat := (j.getObjValAs? Nat k).toOption.getD 0
def jnat? (j : Json) (k : String) : Option Nat := (j.getObjValAs? Nat k).toOption
def jint (j : Json) (k : String) : Int := (j.getObjValAs? Int k).toOption.getD 0
def jint? (j : Json) (k : String) : Option Int := (j.getObjValAs? Int k).toOption
def jbool (j : Json) (k : String) : Bool := (j.getObjValAs? Bool k).toOption.getD false
def jbool? (j : Json) (k : String) : Option Bool := (j.getObjValAs? Bool k).toOption
def jobj (j : Json) (k : String) : Json := (j.getObjVal? k).toOption.getD Json.null
def jhas (j : Json) (k : String) : Bool := (j.getObjVal? k).toOption.isSome
def jarr (j : Json) (k : String) : List Json :=
  match j.getObjVal? k with
  | .ok (Json.arr a) => a.toList
  | _ => []
def asArr (j : Json) : List Json := match j with | Json.arr a => a.toList | _ => []
def asStr (j : Json) : String := match j with | Json.str s => s | _ => ""
def asNat (j : Json) : Nat := (j.getNat?).toOption.getD 0
def asInt (j : Json) : Int := (j.getInt?).toOption.getD 0
def asBool (j : Json) : Bool := (j.getBool?).toOption.getD false
def jstrs (j : Json) (k : String) : List String := (jarr j k).map asStr
def isNull (j : Json) : Bool := match j with | Json.null => true | _ => false

def mkStrs (l : List String) : Json := Json.arr (l.map Json.str).toArray

/-- result line -/
def verdict (id : String) (accepts holds : Bool) (violated : List String) (cls : String := "")
    (extra : List (String × Json) := []) : Json :=
  Json.mkObj ([("id", Json.str id), ("accepts", Json.bool accepts), ("holds", Json.bool holds),
    ("violated", mkStrs violated), ("class", Json.str cls)] ++ extra)

partial def lineLoop (h : IO.FS.Stream) (out : IO.FS.Stream) (f : Json → Json) : IO Unit := do
  let line ← h.getLine
  if line.isEmpty then return ()
  let l := line.trimAscii.toString
  if l.isEmpty then lineLoop h out f else
  match Json.parse l with
  | .ok j => out.putStrLn (f j).compress
  | .error e => out.putStrLn (Json.mkObj [("error", Json.str e)]).compress
  lineLoop h out f

def runMain (f : Json → Json) : IO UInt32 := do
  let i ← IO.getStdin
  let o ← IO.getStdout
  lineLoop i o f
  return 0

end Driver

import Driver.Json

/-! Driver glue for engine `parse` (stub: not built yet). -/
namespace Driver.Parse
open Lean

def handle (j : Json) : Json :=
  Json.mkObj [("id", Json.str (jstr (jobj j "s") "id")), ("error", Json.str "engine parse not implemented")]

end Driver.Parse

def main : IO UInt32 := Driver.runMain Driver.Parse.handle

import Driver.Json
import OomdModel.Config

/-! Driver glue for engine `parse` (C12).  Scenario + implementation trace in, verdict out.
String-level kinds (`strs`, `cgroup`) and configuration-level kinds (`init`, `compile`, `load`,
`dropin`).  `accepts`: the model (`OomdModel.Parse`, `OomdModel.Config`) reproduces what the real
code reported.  `holds`: the clauses of C12 evaluated on the implementation's answer with the
specification (`…Spec`) as oracle; a rejection is never a violation, an exception or crash always. -/
namespace Driver.Parse
open Lean OomdModel.Parse OomdModel.Config OomdModel.Generated

/-! ## encodings shared with the harness -/

def sortStrs (l : List String) : List String := (l.toArray.qsort (· < ·)).toList

def fmtOf (k : ArgKind) : Fmt := if k == .float then binary32 else binary64

/-- `fin:<neg>:<m>:<e>` (m odd) / `inf:<neg>` / `nan` of the value the format stores for a literal -/
def encF (f : Fmt) (v : FVal) : String :=
  match v with
  | .nan => "nan"
  | .inf neg => "inf:" ++ (if neg then "1" else "0")
  | .fin neg m b e =>
    let r := roundLit f.prec m b e
    "fin:" ++ (if neg then "1" else "0") ++ ":" ++ toString r.1 ++ ":" ++ toString r.2

def errName (e : StoErr) : String :=
  match e with
  | .invalidArgument => "E:invalid_argument"
  | .outOfRange => "E:out_of_range"

/-- raw `std::sto*`: `<pos>|<value>` -/
def encSto {α : Type} (r : Except StoErr (α × Str)) (s : Str) (enc : α → String) : String :=
  match r with
  | .error e => errName e
  | .ok (v, rest) => toString (s.length - rest.length) ++ "|" ++ enc v

def relOf (p : OomdModel.Path.CgPath) : String := String.ofList (OomdModel.Path.relative p)

def encVal (k : ArgKind) (v : Val) : Json :=
  match v with
  | .int i => Json.str (toString i)
  | .flt f => Json.str (encF (fmtOf k) f)
  | .bool b => Json.str (if b then "true" else "false")
  | .str s => Json.str ("s:" ++ String.ofList s)
  | .resource io => Json.str (if io then "io" else "memory")
  | .cgroups l => mkStrs (sortStrs ((l.map relOf).eraseDups))

def encRes (k : ArgKind) (r : Except StoErr Val) : String :=
  match r with
  | .error e => errName e
  | .ok v => match encVal k v with | Json.str s => s | j => j.compress

/-! ## string-level kinds -/

def modelStr (s : Str) (total : Int) : List (String × String) :=
  let a (k : ArgKind) := encRes k (parseArg k [] 0 s)
  [ ("sz", match parseSize s with | some v => toString v | none => "R"),
    ("sp", match parseSizeOrPercent s total with | some v => toString v | none => "R"),
    ("ui", a .uint), ("vi", a .int), ("vl", a .int64), ("vd", a .double), ("vf", a .float),
    ("vm", a .ms), ("vb", a .bool), ("vr", a .resource), ("vs", a .string),
    ("si", encSto (stoi s) s (fun v => toString v)),
    ("sl", encSto (stoll s) s (fun v => toString v)),
    ("su", encSto (stoull s) s (fun v => toString v)),
    ("sf", encSto (stof s) s (fun v => encF binary32 v)),
    ("sd", encSto (stod s) s (fun v => encF binary64 v)),
    ("sL", encSto (stold s) s (fun v => encF x87ext v)) ]

def sizePieces (s : Str) : List Str :=
  Spec.splitAfter isUnitCh (takeSign ((s.map Char.toLower).filter (fun c => !isSpace c))).2

/-- every term keeps `mant * unit` below 2^64: there the `long double` arithmetic of the code is
    exact and the comparison is an equality; elsewhere a difference of one byte per term is tolerated
    and the input is counted (`inexact_domain`) -/
def sizeExactDomain (s : Str) : Bool :=
  (sizePieces s).all fun piece =>
    let nu : Str × Nat :=
      match piece.getLast? with
      | some u => if isUnitCh u then (piece.dropLast, unitMult u) else (piece, 1)
      | none => (piece, 1)
    match Spec.floatNumeral? nu.1 with
    | some (.fin _ m _ _) => m * nu.2 < 2 ^ 64
    | _ => true

def closeTo (a b : String) (tol : Nat) : Bool :=
  match a.toInt?, b.toInt? with
  | some x, some y => (x - y).natAbs ≤ tol
  | _, _ => false

def implMatches (k : ArgKind) (v : Val) (impl : Json) : Bool := encVal k v == impl

def holdsField (field : String) (s : Str) (total : Int) (impl : String) : Option String :=
  if impl.startsWith "X:" then some "escape"
  else if impl == "R" || impl.startsWith "E:" then none
  else
    let tol := if sizeExactDomain s then 0 else (sizePieces s).length
    let specInt (o : Option Int) : Option String :=
      match o with
      | none => some "invalid-accepted"
      | some v => if impl == toString v || (tol > 0 && closeTo impl (toString v) tol) then none else some "wrong-value"
    let specVal (k : ArgKind) : Option String :=
      match Spec.validReading k [] 0 s with
      | none => some "invalid-accepted"
      | some v => if implMatches k v (Json.str impl) then none else some "wrong-value"
    match field with
    | "sz" => specInt (Spec.validSize s)
    | "sp" => specInt (Spec.validSizeOrPercent s total)
    | "ui" => specVal .uint
    | "vi" => specVal .int
    | "vl" => specVal .int64
    | "vd" => specVal .double
    | "vf" => specVal .float
    | "vm" => specVal .ms
    | "vb" => specVal .bool
    | "vr" => specVal .resource
    | "vs" => specVal .string
    | _ => none

def propFields : List String := ["sz", "sp", "ui", "vi", "vl", "vd", "vf", "vm", "vb", "vr", "vs"]

/-- the harness's record for one string: tab-separated fields in this order, `vs` (which echoes the
    input and may itself contain tabs) last -/
def recFields : List String := ["sz", "sp", "ui", "vi", "vl", "vd", "vf", "vm", "vb", "vr", "si", "sl", "su", "sf", "sd", "sL", "vs"]

def recOf (r : Json) : List (String × String) :=
  let parts := (asStr r).splitOn "\t"
  let head := parts.take 16
  let tail := "\t".intercalate (parts.drop 16)
  recFields.zip (head ++ [tail])

def recGet (r : List (String × String)) (f : String) : String :=
  match r.find? (fun kv => kv.1 == f) with
  | some kv => kv.2
  | none => ""

def handleStrs (sc tr : Json) : Json :=
  let id := jstr sc "id"
  let total : Int := (jstr sc "total").toInt?.getD 0
  let ss := jstrs sc "ss"
  let rs := jarr tr "rs"
  let pairs := ss.zip (rs.map recOf)
  let diffs := pairs.flatMap fun (str, r) =>
    let s := str.toList
    let tol := if sizeExactDomain s then 0 else (sizePieces s).length
    (modelStr s total).filterMap fun (f, m) =>
      let i := recGet r f
      if i == m then none
      else if tol > 0 && (f == "sz" || f == "sp") && (closeTo i m tol || i == "R" || m == "R") then none
      else some (Json.mkObj [("s", Json.str str), ("f", Json.str f), ("model", Json.str m), ("impl", Json.str i)])
  let viols := pairs.flatMap fun (str, r) =>
    propFields.filterMap fun f =>
      match holdsField f str.toList total (recGet r f) with
      | some why => some (str, f, why)
      | none => none
  let inexact := (ss.filter fun str => !sizeExactDomain str.toList).length
  let missing := rs.length != ss.length
  let cls := match viols with
    | (_, f, why) :: _ => f ++ ":" ++ why
    | [] => ""
  verdict id (diffs.isEmpty && !missing) viols.isEmpty ((viols.map fun (_, f, why) => f ++ ":" ++ why).eraseDups) cls
    [("diff", Json.arr (diffs.take 8).toArray),
     ("bad", Json.arr ((viols.take 8).map fun (s, f, why) => Json.mkObj [("s", Json.str s), ("f", Json.str f), ("why", Json.str why)]).toArray),
     ("inexact_domain", (inexact : Nat))]

def handleCgroup (sc tr : Json) : Json :=
  let id := jstr sc "id"
  let fs := (jstr sc "fs").toList
  let s := (jstr sc "s").toList
  let model := sortStrs ((parseCgroup fs s).map relOf).eraseDups
  let impl := sortStrs (jstrs tr "paths")
  -- independent reading: the comma separated non-empty pieces, each canonicalised as a cgroup path
  let spec := sortStrs ((((jstr sc "s").splitOn ",").filter (· ≠ "")).map
    (fun c => "/".intercalate ((c.splitOn "/").filter (· ≠ "")))).eraseDups
  let ok := jstr tr "r" == "ok"
  let v := (if ok && impl != spec then ["cgroup:wrong-value"] else []) ++ (if ok && !jbool tr "fs_ok" then ["cgroup:fs"] else [])
    ++ (if !ok then ["cgroup:escape"] else [])
  verdict id (ok && model == impl) v.isEmpty v (v.headD "") [("model", mkStrs model)]

/-! ## configuration-level kinds -/

def objList (j : Json) : List (String × Json) :=
  match j with
  | Json.obj kvs => (kvs.foldl (init := []) fun acc k v => (k, v) :: acc).reverse
  | _ => []

def strMap (j : Json) : List (Str × Str) := (objList j).map fun (k, v) => (k.toList, (asStr v).toList)

/-- the machine as the harness set it up: `@MEMINFO` is the scratch meminfo file with the
    scenario's totals, no location is /proc/meminfo of the host, any other path does not exist -/
def envOf (sc tr : Json) : Env :=
  let mem : Int := ((jstr sc "memtotal_kb").toInt?.getD 16000000) * 1024
  let swap : Int := ((jstr sc "swaptotal_kb").toInt?.getD 2000000) * 1024
  let pick (host : Option Int) (file : Int) (loc : Option Str) : Option Int :=
    match loc with
    | none => host
    | some p => if p == "@MEMINFO".toList then some file else none
  { fs := "/sys/fs/cgroup".toList
    memAt := pick (jstr tr "host_memtotal").toInt? mem
    swapAt := pick (jstr tr "host_swaptotal").toInt? swap }

def irPluginOf (j : Json) : IRPlugin := ⟨(jstr j "name").toList, strMap (jobj j "args")⟩

def irOf (j : Json) : IRRoot :=
  { rulesets := (jarr j "rulesets").map fun r =>
      { name := (jstr r "name").toList
        dgs := (jarr r "dgs").map fun g => ⟨(jstr g "name").toList, (jarr g "detectors").map irPluginOf⟩
        acts := (jarr r "acts").map irPluginOf
        disableOnDropIn := jbool (jobj r "dropin") "disable_on_drop_in"
        detectorgroupsEnabled := jbool (jobj r "dropin") "detectorgroups_enabled"
        actiongroupEnabled := jbool (jobj r "dropin") "actiongroup_enabled"
        silenceLogs := (jstr r "silence_logs").toList
        postActionDelay := (jstr r "post_action_delay").toList
        prekillHookTimeout := (jstr r "prekill_hook_timeout").toList
        xattrFilter := (jstr r "xattr_filter").toList
        cgroup := (jstr r "cgroup").toList }
    prekillHooks := (jarr j "prekill_hooks").map irPluginOf }

/-- the arguments handed to the plugin are the given ones (the scratch path of the meminfo file,
    which the harness substitutes, is compared by key only) -/
def sameArgs (a : List (Str × Str)) (j : Json) : Bool :=
  let m := sortStrs (a.map fun kv => String.ofList kv.1 ++ "=" ++ (if kv.1 == "meminfo_location".toList then "" else String.ofList kv.2))
  let i := sortStrs ((objList j).map fun (k, v) => k ++ "=" ++ (if k == "meminfo_location" then "" else asStr v))
  m == i

def kindOf (table : List TypedSchema) (hook : Bool) (plugin : Str) (arg : Str) : ArgKind :=
  match schemaOf table hook plugin with
  | none => .unknown
  | some sch =>
    if arg == "threshold_anon".toList then .sizepct
    else match sch.args.find? (fun a => a.name.toList == arg) with
      | some a => a.kind
      | none => .unknown

/-- model instance vs the dump of the real instance -/
def instAgrees (hook : Bool) (m : PluginInst) (impl : Json) : Bool :=
  jstr impl "name" == String.ofList m.name &&
  (hook || sameArgs m.args (jobj impl "args")) &&
  m.vals.all fun (k, v) => implMatches (kindOf typedSchemas hook m.name k) v (jobj (jobj impl "vals") (String.ofList k))

def listAgrees {α : Type} (f : α → Json → Bool) (ms : List α) (is : List Json) : Bool :=
  ms.length == is.length && (ms.zip is).all fun (m, i) => f m i

/-- same elements up to order: every model element is matched by a distinct implementation element -/
def permAgrees {α : Type} (f : α → Json → Bool) : List α → List Json → Bool
  | [], is => is.isEmpty
  | m :: ms, is =>
    match is.findIdx? (f m) with
    | some k => permAgrees f ms (is.eraseIdx k)
    | none => false

def rulesetAgrees (m : RulesetC) (i : Json) : Bool :=
  jstr i "name" == String.ofList m.name &&
  listAgrees (fun (g : DetectorGroupC) j => jstr j "name" == String.ofList g.name &&
      listAgrees (instAgrees false) g.detectors (jarr j "detectors")) m.dgs (jarr i "dgs") &&
  listAgrees (instAgrees false) m.acts (jarr i "acts") &&
  jstr i "post_action_delay" == toString m.postActionDelay &&
  jstr i "prekill_hook_timeout" == toString m.prekillHookTimeout &&
  jbool i "disable_on_drop_in" == m.disableOnDropIn && jbool i "dg_dropin" == m.dgDropIn &&
  jbool i "act_dropin" == m.actDropIn && jnat i "silenced_logs" == m.silenced &&
  jstr i "xattr_filter" == String.ofList m.xattrFilter &&
  (match m.cgroup with
   | none => isNull (jobj i "cgroup")
   | some p => jobj i "cgroup" == Json.str (relOf p))

def hookAgrees (m : PluginInst) (i : Json) : Bool :=
  jstr i "name" == String.ofList m.name &&
  m.vals.all fun (k, v) => implMatches .cgroup v (jobj i (String.ofList k))

def engineAgrees (m : EngineC) (i : Json) : Bool :=
  listAgrees rulesetAgrees m.rulesets (jarr i "rulesets") && listAgrees hookAgrees m.hooks (jarr i "hooks")

/-! ### property clauses on what the implementation did -/

/-- an accepted plugin: valid per the pinned table, instantiated under its name with precisely the
    given arguments, each read argument holding its valid reading -/
def kindName (k : ArgKind) : String := ((toString (repr k)).splitOn ".").getLast!

/-- why an accepted plugin is not valid (input-class key); `Spec.pluginValid` stays the authority -/
def invalidWhy (env : Env) (hook : Bool) (p : IRPlugin) : List String :=
  if Spec.pluginValid env hook p then []
  else if p.name.isEmpty then ["unnamed-plugin-accepted"]
  else
    match schemaOf Spec.declaredSchemas hook p.name with
    | none => ["unknown-plugin-accepted:" ++ String.ofList p.name]
    | some sch =>
      let d := Spec.declaredFor sch p.args
      let missing := d.args.filter (fun a => a.required && !hasArg p.args a.name)
      let why := (if missing.isEmpty then [] else ["missing-required-accepted:" ++ String.ofList p.name]) ++
        p.args.filterMap fun kv =>
          if Spec.isExtern d kv.1 then none
          else match d.args.find? (fun a => a.name.toList == kv.1) with
            | none => some "undeclared-arg-accepted"
            | some a =>
              if (Spec.argReading env sch d p.args kv).isSome then none
              else some ("invalid-value-accepted:" ++ kindName a.kind ++ ":" ++ String.ofList p.name ++ "." ++ String.ofList kv.1)
      if why.isEmpty then ["invalid-plugin-accepted:" ++ String.ofList p.name] else why

def pluginViol (env : Env) (hook : Bool) (p : IRPlugin) (impl : Json) : List String :=
  invalidWhy env hook p ++
  (if jstr impl "name" == String.ofList p.name then [] else ["plugin-order"]) ++
  (if hook || sameArgs p.args (jobj impl "args") then [] else ["args-not-as-given"]) ++
  ((Spec.expectedVals env hook p).filterMap fun (k, ov) =>
    let got := if hook then jobj impl (String.ofList k) else jobj (jobj impl "vals") (String.ofList k)
    match ov with
    | none => none                      -- already reported as invalid
    | some v =>
      -- a dump of the real instance exists only for plugin classes the harness knows
      if isNull got then none
      else if implMatches (kindOf Spec.declaredSchemas hook p.name k) v got then none
      else some ("value-not-honoured:" ++ String.ofList p.name ++ "." ++ String.ofList k))

def zipViol {α : Type} (what : String) (f : α → Json → List String) (xs : List α) (js : List Json) : List String :=
  (if xs.length == js.length then [] else [what ++ "-count"]) ++ (xs.zip js).flatMap fun (x, j) => f x j

def rulesetViol (env : Env) (r : IRRuleset) (i : Json) : List String :=
  (if r.name.isEmpty then ["unnamed-ruleset-accepted"] else []) ++
  (if jstr i "name" == String.ofList r.name then [] else ["ruleset-order"]) ++
  (if Spec.delayValid r.postActionDelay && Spec.delayValid r.prekillHookTimeout then [] else ["invalid-delay-accepted"]) ++
  -- silence-logs: exactly the listed sources are silenced, however often one is named (read off the field itself, not via
  -- the model's `silenceMask`)
  (let names := (OomdModel.Path.split (trim r.silenceLogs) ',').map trim
   let want := (if names.contains "engine".toList then 2 ^ logSourceEngine else 0) + (if names.contains "plugins".toList then 2 ^ logSourcePlugins else 0)
   if names.all (fun n => n == "engine".toList || n == "plugins".toList || n.isEmpty) && !r.silenceLogs.isEmpty && jnat i "silenced_logs" != want
   then ["silence-not-honoured"] else []) ++
  (match Spec.inRange 0 (2 ^ 31) (Spec.intNumeral? r.postActionDelay) with
   | some v => if jstr i "post_action_delay" == toString v then [] else ["delay-not-honoured"]
   | none => []) ++
  (match Spec.inRange 0 (2 ^ 31) (Spec.intNumeral? r.prekillHookTimeout) with
   | some v => if jstr i "prekill_hook_timeout" == toString v then [] else ["delay-not-honoured"]
   | none => []) ++
  zipViol "detectorgroup" (fun (g : IRDetectorGroup) j =>
      (if g.name.isEmpty then ["unnamed-group-accepted"] else []) ++
      (if jstr j "name" == String.ofList g.name then [] else ["group-order"]) ++
      zipViol "detector" (pluginViol env false) g.detectors (jarr j "detectors")) r.dgs (jarr i "dgs") ++
  zipViol "action" (pluginViol env false) r.acts (jarr i "acts")

def engineViol (env : Env) (ir : IRRoot) (i : Json) : List String :=
  zipViol "ruleset" (rulesetViol env) ir.rulesets (jarr i "rulesets") ++
  zipViol "hook" (pluginViol env true) ir.prekillHooks (jarr i "hooks")

def isEscape (r : String) : Bool := r.startsWith "uncaught"

/-- input-class key: the clause, for an escape also the exception type -/
def classOf (viol : List String) : String :=
  match viol with
  | v :: _ =>
    match v.splitOn ":" with
    | "escape" :: rest => "escape:" ++ ":".intercalate (rest.drop 1)
    | "invalid-value-accepted" :: kind :: _ => "invalid-value-accepted:" ++ kind
    | c :: _ => c
    | [] => v
  | [] => ""

def handleInit (sc tr : Json) : Json :=
  let id := jstr sc "id"
  let hook := jbool sc "hook"
  let p : IRPlugin := ⟨(jstr sc "plugin").toList, strMap (jobj sc "args")⟩
  let env := envOf sc tr
  let r := jstr tr "r"
  let implAcc := r == "accepted"
  let m := compilePlugin env hook p
  let implJ := Json.mkObj [("name", Json.str (jstr sc "plugin")), ("args", jobj sc "args"), ("vals", jobj tr "vals")]
  let implH := match jobj tr "vals" with | Json.obj kvs => Json.obj (kvs.insert "name" (Json.str (jstr sc "plugin"))) | j => j
  let acc := !isEscape r && (match m with
    | some inst => implAcc && instAgrees hook inst (if hook then Json.mkObj [("name", Json.str (jstr sc "plugin")), ("vals", jobj tr "vals")] else implJ)
    | none => !implAcc)
  let viol := (if isEscape r then ["escape:" ++ r] else []) ++
    (if implAcc then pluginViol env hook p (if hook then implH else implJ) else [])
  verdict id acc viol.isEmpty viol (classOf viol)
    [("model", Json.str (match m with | some _ => "accepted" | none => "rejected"))]

def handleCompile (sc tr : Json) : Json :=
  let id := jstr sc "id"
  let ir := irOf (jobj sc "ir")
  let env := envOf sc tr
  let r := jstr tr "r"
  let m := compile env ir
  let acc := !isEscape r && (match m with
    | .ok e => r == "accepted" && engineAgrees e (jobj tr "engine")
    | .rejected => r == "rejected"
    | .throws _ => false)
  let viol := (if isEscape r then ["escape:" ++ r] else []) ++
    (if r == "accepted" then engineViol env ir (jobj tr "engine") else [])
  verdict id acc viol.isEmpty viol (classOf viol)
    [("model", Json.str (match m with | .ok _ => "accepted" | .rejected => "rejected" | .throws _ => "throws"))]

instance : Inhabited JVal := ⟨JVal.null⟩

/-- JSON value tree of the scenario (built by Python's json from the same text) -/
partial def jvalOf (j : Json) : JVal :=
  match j with
  | Json.null => .null
  | Json.bool b => .bool b
  | Json.num n => .int (if n.exponent == 0 then n.mantissa else 0)
  | Json.str s => .str s.toList
  | Json.arr a => .arr (a.toList.map jvalOf)
  | Json.obj kvs => .obj ((kvs.foldl (init := []) fun acc k v => (k.toList, jvalOf v) :: acc).reverse)

def irToJson (r : IRRoot) : Json :=
  let pl (p : IRPlugin) : Json := Json.mkObj [("name", Json.str (String.ofList p.name)),
    ("args", Json.mkObj (p.args.map fun kv => (String.ofList kv.1, Json.str (String.ofList kv.2))))]
  Json.mkObj [
    ("rulesets", Json.arr (r.rulesets.map fun rs => Json.mkObj [
      ("name", Json.str (String.ofList rs.name)),
      ("dgs", Json.arr (rs.dgs.map fun g => Json.mkObj [("name", Json.str (String.ofList g.name)),
        ("detectors", Json.arr (g.detectors.map pl).toArray)]).toArray),
      ("acts", Json.arr (rs.acts.map pl).toArray),
      ("dropin", Json.mkObj [("disable_on_drop_in", Json.bool rs.disableOnDropIn),
        ("detectorgroups_enabled", Json.bool rs.detectorgroupsEnabled),
        ("actiongroup_enabled", Json.bool rs.actiongroupEnabled)]),
      ("silence_logs", Json.str (String.ofList rs.silenceLogs)),
      ("post_action_delay", Json.str (String.ofList rs.postActionDelay)),
      ("prekill_hook_timeout", Json.str (String.ofList rs.prekillHookTimeout)),
      ("xattr_filter", Json.str (String.ofList rs.xattrFilter)),
      ("cgroup", Json.str (String.ofList rs.cgroup))]).toArray),
    ("prekill_hooks", Json.arr (r.prekillHooks.map pl).toArray)]

/-- "precisely the given arguments", read off the document itself: at every plugin position of the
    grammar, an `args` member that is present must be an object of strings / numbers / bools, and
    the IR must carry exactly these.  `none`: the document gives arguments the IR cannot carry. -/
def docArgs (pj : Json) : Option (List String) :=
  match pj with
  | Json.obj _ =>
    match jobj pj "args" with
    | Json.null => some []
    | Json.obj kvs =>
      if kvs.all (fun _ v => match v with | Json.str _ | Json.num _ | Json.bool _ => true | _ => false)
      then some ((objList (jobj pj "args")).map (·.1)) else none
    | _ => none
  | _ => some []

/-- the harness substitutes the scratch path of its meminfo file for `@MEMINFO` -/
partial def normMeminfo (j : Json) : Json :=
  match j with
  | Json.str s => if (s.splitOn "/cfg-").length > 1 && s.endsWith "/meminfo" then Json.str "@MEMINFO" else j
  | Json.arr a => Json.arr (a.map normMeminfo)
  | Json.obj kvs => Json.obj (kvs.foldl (init := {}) fun acc k v => acc.insert k (normMeminfo v))
  | _ => j

/-- the string an argument given as this scalar must arrive as: a string as itself, a bool as `true`/`false`, an
    integer of [-2^63, 2^64) as its exact decimal numeral ("64-bit values are neither truncated, wrapped nor silently
    replaced"); for reals the property fixes no rendering, `none` -/
def docArgVal (v : Json) : Option String :=
  match v with
  | Json.str s => some s
  | Json.bool b => some (if b then "true" else "false")
  | Json.num n => if n.exponent == 0 && -(2 : Int) ^ 63 ≤ n.mantissa && n.mantissa < (2 : Int) ^ 64 then some (toString n.mantissa) else none
  | _ => none

def elemsOf (j : Json) : List Json :=
  match j with
  | Json.arr a => a.toList
  | Json.obj _ => (objList j).map (·.2)
  | _ => []

/-- plugin documents in IR order: per ruleset detectors (group by group) then actions; then hooks -/
def docPlugins (tree : Json) : List (List Json) × List Json :=
  ((elemsOf (jobj tree "rulesets")).map fun r =>
      ((elemsOf (jobj r "detectors")).flatMap fun g =>
        match g with
        | Json.arr a => (match a.toList with | Json.str _ :: rest => rest | l => l)
        | _ => []) ++ elemsOf (jobj r "actions"),
   elemsOf (jobj tree "prekill_hooks"))

def irPluginsJson (ir : Json) : List (List Json) × List Json :=
  ((jarr ir "rulesets").map fun r => ((jarr r "dgs").flatMap fun g => jarr g "detectors") ++ jarr r "acts",
   jarr ir "prekill_hooks")

def argsKept (tree irj : Json) : List String :=
  let d := docPlugins tree
  let i := irPluginsJson irj
  let one (dp ip : Json) : List String :=
    match docArgs dp with
    | none => ["args-dropped"]
    | some ks =>
      if sortStrs ks != sortStrs ((objList (jobj ip "args")).map (·.1)) then ["args-dropped"]
      else (objList (jobj dp "args")).filterMap fun (k, v) =>
        match docArgVal v with
        | some want => if normMeminfo (jobj (jobj ip "args") k) == Json.str want then none else some "arg-value-replaced"
        | none => none
  let lists (ds is : List Json) : List String :=
    if ds.length != is.length then ["plugin-count"] else (ds.zip is).flatMap fun (a, b) => one a b
  (if d.1.length != i.1.length then ["ruleset-count"] else (d.1.zip i.1).flatMap fun (a, b) => lists a b) ++ lists d.2 i.2

def docOf (sc tr : Json) (treeKey parseKey : String) : Option (Option JVal) :=
  -- jsoncpp's verdict on the syntax is taken from the harness; the tree from the scenario
  if (jstr tr parseKey).startsWith "E:std::runtime_error" then some none
  else if jhas sc treeKey then some (some (jvalOf (jobj sc treeKey)))
  else none

def handleLoad (sc tr : Json) : Json :=
  let id := jstr sc "id"
  let env := envOf sc tr
  let r := jstr tr "r"
  let esc := isEscape r
  match docOf sc tr "tree" "parse" with
  | none =>
    -- a text Python cannot read but jsoncpp can: outside the model, only "no escape" is checked
    verdict id true (!esc) (if esc then ["escape:" ++ r] else []) (classOf (if esc then ["escape:" ++ r] else [])) [("model", Json.str "unmodelled-syntax")]
  | some doc =>
    let pj := (parseJson doc).catchAll
    let m := load env doc
    let irAgree := match pj with
      | .ok ir => !jhas tr "ir" || irToJson ir == normMeminfo (jobj tr "ir")
      | _ => !jhas tr "ir"
    let acc := !esc && irAgree && (match m with
      | .ok e => r == "accepted" && engineAgrees e (jobj tr "engine")
      | .rejected => r == "rejected"
      | .throws _ => false)
    let viol := (if esc then ["escape:" ++ r] else []) ++
      (if r == "accepted" then
        engineViol env (irOf (normMeminfo (jobj tr "ir"))) (jobj tr "engine") ++
        (if jhas sc "tree" then argsKept (jobj sc "tree") (jobj tr "ir") else [])
       else [])
    verdict id acc viol.isEmpty viol (classOf viol)
      ([("model", Json.str (match m with | .ok _ => "accepted" | .rejected => "rejected" | .throws _ => "throws")),
       ("ir_agree", Json.bool irAgree)] ++ (if irAgree then [] else [("model_ir", match pj with | .ok ir => irToJson ir | _ => Json.null)]))

def dropinRulesetsOf (engine : Json) : List Json :=
  (jarr engine "rulesets").flatMap fun r => jarr r "dropins"

def handleDropIn (sc tr : Json) : Json :=
  let id := jstr sc "id"
  let env := envOf sc tr
  let r := jstr tr "r"
  let esc := isEscape r
  if r == "base-rejected" then
    -- the base configuration of the scenario did not load: nothing to observe
    verdict id true true [] "" [("model", Json.str "base-rejected")]
  else
  let base : Option IRRoot :=
    match (parseJson (some (jvalOf (jobj sc "base_tree")))).catchAll with
    | .ok ir => some ir
    | _ => none
  match base, docOf sc tr "dropin_tree" "dropin_parse" with
  | some root, some doc =>
    let m := loadDropIn env root doc
    let implDrop := dropinRulesetsOf (jobj tr "engine")
    let acc := !esc && (match m with
      | .ok u =>
        -- the engine lists the drop-ins per base ruleset, newest first (`Engine::addDropInConfig` pushes to the front), so
        -- several rulesets of one file come out in another order than the file's; the order is C13's subject, here the
        -- merged rulesets are compared as a multiset
        r == "accepted" && (u.rulesets.isEmpty || permAgrees rulesetAgrees u.rulesets implDrop)
      | .rejected => r == "rejected"
      | .throws _ => false)
    let viol := (if esc then ["escape:" ++ r] else []) ++
      (if r == "rejected" && !jbool tr "engine_unchanged" then ["rejected-dropin-changed-engine"] else []) ++
      (if r == "accepted" && jhas tr "dropin_ir" then
        let dir := irOf (normMeminfo (jobj tr "dropin_ir"))
        -- every drop-in ruleset targets a base ruleset and is valid; the merged plugins are the drop-in's
        dir.rulesets.flatMap (fun d =>
          (if root.rulesets.any (fun b => b.name == d.name) then [] else ["dropin-without-target-accepted"]) ++
          (if Spec.rulesetValid env d then [] else ["invalid-dropin-accepted"])) ++
        (if dir.prekillHooks.all (Spec.pluginValid env true) then [] else ["invalid-dropin-accepted"]) ++
        (if jhas sc "dropin_tree" then argsKept (jobj sc "dropin_tree") (jobj tr "dropin_ir") else [])
       else [])
    verdict id acc viol.isEmpty viol (classOf viol)
      [("model", Json.str (match m with | .ok _ => "accepted" | .rejected => "rejected" | .throws _ => "throws"))]
  | _, _ =>
    verdict id true (!esc) (if esc then ["escape:" ++ r] else []) (classOf (if esc then ["escape:" ++ r] else [])) [("model", Json.str "unmodelled")]

def handle (j : Json) : Json :=
  let sc := jobj j "s"
  let tr := jobj j "t"
  match jstr sc "kind" with
  | "strs" => handleStrs sc tr
  | "cgroup" => handleCgroup sc tr
  | "init" => handleInit sc tr
  | "compile" => handleCompile sc tr
  | "load" => handleLoad sc tr
  | "dropin" => handleDropIn sc tr
  | k => Json.mkObj [("id", Json.str (jstr sc "id")), ("error", Json.str s!"unknown kind {k}")]

end Driver.Parse

def main : IO UInt32 := Driver.runMain Driver.Parse.handle

import Driver.Json

/-! Driver glue for engine `config` (stub: not built yet). -/
namespace Driver.Config
open Lean

def handle (j : Json) : Json :=
  Json.mkObj [("id", Json.str (jstr (jobj j "s") "id")), ("error", Json.str "engine config not implemented")]

end Driver.Config

def main : IO UInt32 := Driver.runMain Driver.Config.handle

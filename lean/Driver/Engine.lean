import Driver.Json
import OomdModel.Engine

/-! Driver glue for engine `h_engine` (C02, C05, C06): runs the model on the scenario, compares
with the implementation's call log (`accepts`), and evaluates the property clauses on the
implementation's call log with a reference checker that only *checks* (never generates) the
trace (`holds`).  The scenario field `prop` selects whose clauses decide `holds`. -/
namespace Driver.Engine
open Lean OomdModel.Engine

structure TickJ where
  gap : Nat
  calls : List (Nat × Call)

def callOf (calls : List (Nat × Call)) (i : Nat) : Call := (calls.lookup i).getD {}

def parseCall (j : Json) : Call :=
  let a := asArr j
  let r := match asNat (a.getD 0 Json.null) with | 1 => Ret.stop | 2 => Ret.async | _ => Ret.cont
  let p := asInt (a.getD 2 Json.null)
  { ret := r, adv := asNat (a.getD 1 Json.null), pause := if p < 0 then none else some (p.toNat * NS) }

def parseCfg (j : Json) : RsCfg :=
  let d := jstr j "delay"
  let h := jstr j "hook_timeout"
  { rid := jnat j "rid"
    groups := (jarr j "groups").map fun g => { gid := jnat g "gid", dets := (jarr g "dets").map asNat }
    actions := (jarr j "actions").map fun a => match a with | Json.obj _ => jnat a "inst" | _ => asNat a
    delay := (if d.isEmpty then 15 else d.toNat!) * NS
    hookTimeout := (if h.isEmpty then 5 else h.toNat!) * NS }

def parseTick (j : Json) : TickJ :=
  let calls := match jobj j "calls" with
    | Json.obj kvs => kvs.toList.map fun (k, v) => (k.toNat!, parseCall v)
    | _ => []
  { gap := jnat j "gap", calls := calls }

/-- implementation event -/
inductive IEv
  | p (inst : Nat)
  | d (inst : Nat) (now : Nat)
  | a (inst : Nat) (now : Nat) (rs grp : String) (uuid : Int) (deadline : Int) (inv : Bool)
deriving BEq, Repr

def parseIEv (j : Json) : IEv :=
  let a := asArr j
  match asStr (a.getD 0 Json.null) with
  | "p" => IEv.p (asNat (a.getD 1 Json.null))
  | "d" => IEv.d (asNat (a.getD 1 Json.null)) (asNat (a.getD 2 Json.null))
  | _ => IEv.a (asNat (a.getD 1 Json.null)) (asNat (a.getD 2 Json.null)) (asStr (a.getD 3 Json.null))
      (asStr (a.getD 4 Json.null)) (asInt (a.getD 5 Json.null)) (asInt (a.getD 6 Json.null)) (asBool (a.getD 7 Json.null))

/-- rename uuids by first occurrence among action events (the harness does the same) -/
def renameUuids (ticks : List (List Ev)) : List (List IEv) :=
  let step (acc : List Nat × List IEv) (e : Ev) : List Nat × List IEv :=
    match e with
    | Ev.prerun i => (acc.1, acc.2 ++ [IEv.p i])
    | Ev.det i n => (acc.1, acc.2 ++ [IEv.d i n])
    | Ev.act i n c inv =>
      let (seen, idx) := match acc.1.idxOf? c.uuid with
        | some k => (acc.1, k)
        | none => (acc.1 ++ [c.uuid], acc.1.length)
      (seen, acc.2 ++ [IEv.a i n s!"r{c.ruleset}" s!"g{c.group}" idx c.deadline inv])
  let rec go (seen : List Nat) : List (List Ev) → List (List IEv)
    | [] => []
    | t :: ts =>
      let r := t.foldl step (seen, [])
      r.2 :: go r.1 ts
  go [] ticks

/-! ### reference checker (property clauses on the implementation trace) -/

structure Abs where
  pauseUntil : Nat := 0
  susp : Option (Nat × (String × String × Int × Int)) := none   -- index, ctx
  seen : List Int := []
  overrode : Bool := false     -- only used for `relaxed` scenarios (a plugin that pauses its ruleset without returning STOP)

def takeThrough (sc : Nat → Call) : List Nat → List Nat
  | [] => []
  | a :: as => if (sc a).ret == Ret.cont then a :: takeThrough sc as else [a]

def groupFires (sc : Nat → Call) (g : Group) : Bool := g.dets.all fun d => (sc d).ret != Ret.stop

def iNow : IEv → Nat
  | IEv.d _ n => n
  | IEv.a _ n _ _ _ _ _ => n
  | _ => 0
def iInst : IEv → Nat
  | IEv.p i => i
  | IEv.d i _ => i
  | IEv.a i _ _ _ _ _ _ => i
def iInv : IEv → Bool
  | IEv.a _ _ _ _ _ _ inv => inv
  | _ => false

/-- check one ruleset on one tick; returns violated clauses and the new abstract state -/
def checkRs (relaxed : Bool) (cfg : RsCfg) (sc : Nat → Call) (evs : List IEv) (A : Abs) : List String × Abs := Id.run do
  let detInsts := cfg.groups.flatMap (·.dets)
  let dets := evs.filter fun e => match e with | IEv.d i _ => detInsts.contains i | _ => false
  let acts := evs.filter fun e => match e with | IEv.a i _ _ _ _ _ _ => cfg.actions.contains i | _ => false
  let pres := evs.filter fun e => match e with | IEv.p i => detInsts.contains i || cfg.actions.contains i | _ => false
  let mut v : List String := []
  if pres.map iInst != detInsts ++ cfg.actions then v := v ++ ["C02.all_preruns_run"]
  if dets.map iInst != detInsts then v := v ++ ["C02.all_detectors_run"]
  let firedG := cfg.groups.find? (groupFires sc)
  -- clock reading of the pause test = end of the detector phase
  let T? : Option Nat := dets.getLast?.map fun e => iNow e + (sc (iInst e)).adv
  let fireTime? : Option Nat := firedG.bind fun g => (dets.filter fun e => g.dets.contains (iInst e)).getLast?.map fun e => iNow e + (sc (iInst e)).adv
  -- C05: inside the post-action pause the ruleset's preruns (detectors' and actions') and detectors keep executing
  let inPause := A.pauseUntil > 0 && (match T? with | some t => t < A.pauseUntil | none => true)
  if inPause && (pres.map iInst != detInsts ++ cfg.actions || dets.map iInst != detInsts) then
    v := v ++ ["C05.preruns_and_detectors_during_pause"]
  -- C05, stated directly: no action before the deadline
  for e in acts do
    if iNow e < A.pauseUntil then v := v ++ ["C05.no_action_during_pause"]
  let paused := match T? with | some T => decide (T < A.pauseUntil) | none => false
  let startIdx : Option Nat :=
    if paused then none else match A.susp with
      | some (i, _) => some i
      | none => if firedG.isSome then some 0 else none
  let expected := match startIdx with | none => [] | some i => takeThrough sc (cfg.actions.drop i)
  let got := acts.map iInst
  if T?.isSome && got != expected then
    if paused then v := v ++ ["C05.no_action_during_pause"]
    else match A.susp with
      | some (i, _) =>
        if got.isEmpty then v := v ++ ["C06.resumes_next_tick"]
        else if got.head? != cfg.actions[i]? then v := v ++ ["C06.resumes_same_action"]
        else v := v ++ ["C06.then_continue_or_stop"]
      | none =>
        if got.isEmpty || expected.isEmpty then
          v := v ++ [if A.pauseUntil > 0 && got.isEmpty then "C05.actions_resume" else "C02.chain_starts_iff"]
        else if got.head? != expected.head? then v := v ++ ["C06.clean_after_end"]
        else v := v ++ ["C02.actions_in_order"]
  -- contexts
  let ctxOf : IEv → (String × String × Int × Int) := fun e => match e with
    | IEv.a _ _ r g u d _ => (r, g, u, d) | _ => ("", "", -1, -1)
  let mut seen := A.seen
  match acts.head? with
  | none => pure ()
  | some e0 =>
    let c0 := ctxOf e0
    if !(acts.all fun e => ctxOf e == c0) then v := v ++ ["C02.context_same_in_chain"]
    match (if paused then none else A.susp) with
    | some (_, c) =>
      if c0 != c then v := v ++ ["C06.same_ctx"]
      -- C07: the prekill-hook window is counted from when the chain fired - a resumed chain keeps its deadline
      if c0.2.2.2 != c.2.2.2 then v := v ++ ["C07.deadline_kept_while_waiting"]
      -- a resumed chain still belongs to the ruleset and to the group that fired it
      if c0.1 != c.1 || c0.2.1 != c.2.1 then v := v ++ ["C02.context_resumed"]
    | none =>
      match firedG with
      | some g =>
        if c0.1 != s!"r{cfg.rid}" || c0.2.1 != s!"g{g.gid}" then v := v ++ ["C02.context"]
        if A.seen.contains c0.2.2.1 then v := v ++ ["C06.fresh_uuid"]
        match fireTime? with
        | some ft => if c0.2.2.2 != Int.ofNat (ft + cfg.hookTimeout) then v := v ++ ["C06.deadline", "C07.deadline_at_chain_fire"]
        | none => pure ()
      | none => pure ()
    if !seen.contains c0.2.2.1 then seen := seen ++ [c0.2.2.1]
  -- new abstract state from what was observed
  let mut A' : Abs := { A with seen := seen }
  match acts.getLast? with
  | none => pure ()
  | some e =>
    let c := sc (iInst e)
    let tEnd := iNow e + c.adv
    match c.ret with
    | Ret.stop =>
      -- effective delay: the stopping action's own, if it specifies one, else the ruleset's
      A' := { A' with pauseUntil := tEnd + (c.pause.getD cfg.delay), susp := none }
    | Ret.async =>
      let idx := (cfg.actions.idxOf? (iInst e)).getD 0
      A' := { A' with susp := some (idx, ctxOf e) }
    | Ret.cont => A' := { A' with susp := none }
  if relaxed then
    -- scripts outside the BaseKillPlugin protocol (pause_actions followed by ASYNC_PAUSED / CONTINUE): the property does not
    -- say which delay applies, so the pause bookkeeping follows the code (Ruleset::pause_actions / the STOP case); what is
    -- decided on these histories are the C06 clauses (the suspended chain survives the pause and resumes itself)
    let (pu, ov) := acts.foldl (fun (acc : Nat × Bool) e =>
      let c := sc (iInst e)
      let tEnd := iNow e + c.adv
      let acc := match c.pause with
        | some d => if iInv e then (tEnd + d, true) else acc
        | none => acc
      if c.ret == Ret.stop then (if acc.2 then (acc.1, false) else (tEnd + cfg.delay, false)) else acc) (A.pauseUntil, A.overrode)
    A' := { A' with pauseUntil := pu, overrode := ov }
  return (v, A')

def checkAll (relaxed : Bool) (cfgs : List RsCfg) : List TickJ → List (List IEv) → List Abs → List String
  | [], _, _ => []
  | _, [], _ => ["trace.missing_ticks"]
  | t :: ts, evs :: rest, As =>
    let sc := callOf t.calls
    let rs := (cfgs.zip As).map fun (cfg, A) => checkRs relaxed cfg sc evs A
    -- rulesets in configuration order: the events of ruleset i all precede those of ruleset i+1 (run phase)
    let runEvs := evs.filter fun e => match e with | IEv.p _ => false | _ => true
    let owner (e : IEv) : Nat := (cfgs.findIdx? fun c => (c.groups.flatMap (·.dets)).contains (iInst e) || c.actions.contains (iInst e)).getD 0
    let owners := runEvs.map owner
    let ordered := (owners.zip (owners.drop 1)).all fun (a, b) => a ≤ b
    (rs.flatMap (·.1)) ++ (if ordered then [] else ["C02.config_order"]) ++ checkAll relaxed cfgs ts rest (rs.map (·.2))

def evJ : IEv → Json
  | IEv.p i => Json.arr #["p", i]
  | IEv.d i n => Json.arr #["d", i, n]
  | IEv.a i n r g u d inv => Json.arr #["a", i, n, r, g, Json.num u, Json.num d, inv]

def handle (j : Json) : Json :=
  let sc := jobj j "s"
  let tr := jobj j "t"
  let id := jstr sc "id"
  let prop := jstr sc "prop"
  let cfgs := (jarr sc "rulesets").map parseCfg
  let ticks := (jarr sc "ticks").map parseTick
  let fixedInv := !(jbool sc "model_unfixed")
  let model := run fixedInv (initWorld cfgs (1000 * NS)) (ticks.map fun t => { gap := t.gap, sc := callOf t.calls })
  let m := renameUuids model
  let impl := (jarr tr "ticks").map fun t => (asArr t).map parseIEv
  let accepts := m == impl
  let viol := (checkAll (jbool sc "relaxed") cfgs ticks impl (cfgs.map fun _ => {})).eraseDups
  let mine := if prop.isEmpty then viol else viol.filter fun c => c.startsWith prop || c.startsWith "trace"
  let firstDiff := ((m.zip impl).findIdx? fun (a, b) => a != b).getD (min m.length impl.length)
  verdict id accepts mine.isEmpty mine ""
    [("all_violated", mkStrs viol), ("first_diff_tick", firstDiff),
     ("model_tick", Json.arr ((m.getD firstDiff []).map evJ).toArray)]

end Driver.Engine

def main : IO UInt32 := Driver.runMain Driver.Engine.handle

import Driver.Json

/-! Driver glue for engine `engine` (stub: not built yet). -/
namespace Driver.Engine
open Lean

def handle (j : Json) : Json :=
  Json.mkObj [("id", Json.str (jstr (jobj j "s") "id")), ("error", Json.str "engine engine not implemented")]

end Driver.Engine

def main : IO UInt32 := Driver.runMain Driver.Engine.handle

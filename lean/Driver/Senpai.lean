import Driver.Json

/-! Driver glue for engine `senpai` (stub: not built yet). -/
namespace Driver.Senpai
open Lean

def handle (j : Json) : Json :=
  Json.mkObj [("id", Json.str (jstr (jobj j "s") "id")), ("error", Json.str "engine senpai not implemented")]

end Driver.Senpai

def main : IO UInt32 := Driver.runMain Driver.Senpai.handle

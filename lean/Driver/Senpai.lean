import Driver.Json
import OomdModel.Senpai
import OomdModel.Path
import OomdModel.Generated.Consts

/-! Driver glue for engine `h_senpai` (C18).

`accepts` : the write trace of the real plugin equals, tick by tick and write by write, the trace of
`OomdModel.Senpai.runHist` executed with the `Float` instance (bit-exact `double` arithmetic).

`holds` : the clauses of the property evaluated on the implementation's trace by an oracle that uses
only the scenario's numbers and exact integer / rational arithmetic (no function of the model except
the hierarchy walk for the effective swap values, which belongs to CgroupContext, not to Senpai).
A guard clause is judged only when the exact and the `double` evaluation of the comparison agree
(DESIGN 3.1: the rounding margin is modelled, not verified); the number of skipped judgements is
reported as `margin`. -/
namespace Driver.Senpai
open Lean OomdModel.Senpai

/-! ## scenario parsing -/

/-- decimal literal `-12.50` → (negative, mantissa, number of decimals) -/
def parseDec (s : String) : Option (Bool × Nat × Nat) :=
  let cs := s.toList
  let (neg, body) := match cs with
    | '-' :: r => (true, r)
    | r => (false, r)
  let ip := body.takeWhile (· != '.')
  let fp := (body.dropWhile (· != '.')).drop 1
  let ds := ip ++ fp
  if ds.isEmpty || !(ds.all Char.isDigit) then none
  else some (neg, (String.ofList ds).toNat!, fp.length)

/-- how text becomes a number of type `α` -/
structure Conv (α : Type) where
  dec : Bool → Nat → Nat → α        -- std::stod of a decimal literal
  avg : Nat → α                      -- PSI average in hundredths: std::stof, then float → double

def convF : Conv Float where
  dec neg m e := let f := Float.ofScientific m true e; if neg then -f else f
  avg h := (Float32.ofScientific h true 2).toFloat

def convQ : Conv Rat where
  dec neg m e := let q : Rat := (m : Rat) / ((10 ^ e : Nat) : Rat); if neg then -q else q
  avg h := (h : Rat) / 100

def argStr (args : Json) (k : String) : Option String := (args.getObjValAs? String k).toOption

def argInt (args : Json) (k : String) (d : Int) : Int :=
  match argStr args k with
  | some s => (s.toInt?).getD d
  | none => d

def argBool (args : Json) (k : String) : Bool :=
  match argStr args k with
  | some s => s == "true" || s == "True" || s == "1"
  | none => false

def argDec (cv : Conv α) (args : Json) (k : String) (dflt : String) : α :=
  let s := (argStr args k).getD dflt
  match parseDec s with
  | some (n, m, e) => cv.dec n m e
  | none => cv.dec false 0 0

open OomdModel.Generated in
def mkCfg (cv : Conv α) (sc : Json) : Cfg α :=
  let a := jobj sc "args"
  { limitMinBytes := argInt a "limit_min_bytes" (senpaiDefLimitMinMiB * 2 ^ 20)
    limitMaxBytes := argInt a "limit_max_bytes" (senpaiDefLimitMaxGiB * 2 ^ 30)
    interval := argInt a "interval" senpaiDefInterval
    pressureMs := argInt a "pressure_ms" senpaiDefPressureMs
    memPressurePct := argDec cv a "pressure_pct" senpaiDefPressurePct
    ioPressurePct := argDec cv a "io_pressure_pct" senpaiDefIoPressurePct
    maxProbe := argDec cv a "max_probe" senpaiDefMaxProbe
    maxBackoff := argDec cv a "max_backoff" senpaiDefMaxBackoff
    coeffProbe := argDec cv a "coeff_probe" senpaiDefCoeffProbe
    coeffBackoff := argDec cv a "coeff_backoff" senpaiDefCoeffBackoff
    swapThreshold := argDec cv a "swap_threshold" senpaiDefSwapThreshold
    swapoutBpsThreshold := argInt a "swapout_bps_threshold" (2 ^ senpaiDefSwapoutBpsShift)
    swapValidation := argBool a "swap_validation"
    immediateBackoff := argBool a "immediate_backoff"
    modulateSwappiness := argBool a "modulate_swappiness"
    hostMemTotal := match jint? sc "memtotal_kb" with
      | some kb => kb * 1024
      | none => 0 }

inductive VSpec | absent | echo | val (i : Int)
deriving Inhabited

def vspec (j : Json) (k : String) : VSpec :=
  match j.getObjVal? k with
  | .ok (Json.str "max") => .val int64Max
  | .ok (Json.str "echo") => .echo
  | .ok (Json.num n) => .val n.mantissa
  | _ => .absent

def vopt (j : Json) (k : String) : Option Int :=
  match vspec j k with
  | .val i => some i
  | _ => none

/-- one cgroup directory of one tick, as the scenario describes it -/
structure CgE where
  path : String
  ino : Nat
  gen : Int
  ctrl : Option String
  cur : Option Int
  mmin : Option Int
  mmax : Option Int
  high : VSpec
  highTmp : VSpec
  stat : Option Json
  mp : Option (Nat × Nat × Int)
  iop : Option (Nat × Nat × Int)
  swapMax : Option Int
  swapCur : Option Int
  reclaim : Bool
deriving Inhabited

def psiOf (j : Json) (k : String) : Option (Nat × Nat × Int) :=
  match jarr j k with
  | [a, b, c] => some (asNat a, asNat b, asInt c)
  | _ => none

def parseCg (j : Json) : CgE :=
  { path := jstr j "p", ino := jnat j "ino", gen := jint j "gen"
    ctrl := match jstr? j "ctrl" with | some "empty" => none | o => o
    cur := vopt j "cur", mmin := vopt j "min", mmax := vopt j "max"
    high := vspec j "high", highTmp := vspec j "hightmp"
    stat := match j.getObjVal? "stat" with
      | .ok (Json.obj o) => some (Json.obj o)
      | .ok (Json.str "empty") => some (Json.mkObj [])     -- an empty memory.stat is readable and has no keys
      | _ => none
    mp := psiOf j "mp", iop := psiOf j "iop"
    swapMax := vopt j "swap_max", swapCur := vopt j "swap_cur"
    reclaim := jbool j "reclaim" }

/-- what an ordinary-file cgroupfs remembers between ticks: the content of the two limit files -/
structure WEntry where
  path : String
  ino : Nat
  gen : Int
  high : Option Int
  highTmp : Option Int

abbrev World := List WEntry

def World.find (w : World) (p : String) : Option WEntry := List.find? (fun e => e.path == p) w

/-- the world at the start of a tick: explicit values replace, `echo` keeps what the last write left;
a directory whose identity changed was removed and re-created (no files left) -/
def nextWorld (w : World) (cgs : List CgE) : World :=
  cgs.map fun c =>
    let prev : Option WEntry := match w.find c.path with
      | some e => if e.ino == c.ino && e.gen == c.gen then some e else none
      | none => none
    let res (s : VSpec) (old : Option Int) : Option Int := match s with
      | .absent => none
      | .val i => some i
      | .echo => old
    { path := c.path, ino := c.ino, gen := c.gen
      high := res c.high (prev.bind (·.high)), highTmp := res c.highTmp (prev.bind (·.highTmp)) }

def World.setHigh (w : World) (p : String) (tmp : Bool) (v : Int) : World :=
  w.map fun e => if e.path == p then (if tmp then { e with highTmp := some v } else { e with high := some v }) else e

/-! ## which cgroups the `cgroup` argument resolves to (glob(3): one fnmatch per component) -/

def comps (s : String) : List (List Char) := (s.splitOn "/").filter (· ≠ "") |>.map String.toList

def matchPattern (pat path : String) : Bool :=
  let ps := comps pat
  let cs := comps path
  ps.length == cs.length && (List.zip ps cs).all (fun (p, c) => OomdModel.Path.fnmatch p c)

def patternsOf (sc : Json) : List String :=
  ((argStr (jobj sc "args") "cgroup").getD "").splitOn "," |>.filter (· ≠ "")

def isMatched (pats : List String) (c : CgE) : Bool := pats.any (fun p => matchPattern p c.path)

/-! ## views -/

def ancestors (path : String) : List String :=
  let cs := (path.splitOn "/").filter (· ≠ "")
  (List.range cs.length).map (fun k => "/".intercalate (cs.take (cs.length - k)))

def swapChain (cgs : List CgE) (path : String) : List SwapNode :=
  (ancestors path).map fun p =>
    match cgs.find? (fun c => c.path == p) with
    | some c => { swapMax := c.swapMax, swapUsage := c.swapCur }
    | none => { swapMax := none, swapUsage := none }

def statKey (st : Json) (k : String) : Option Int := (st.getObjValAs? Int k).toOption

def mkSys (cv : Conv α) (j : Json) : Sys α :=
  { swaptotal := jint j "swaptotal", swapused := jint j "swapused", swappiness := jint j "swappiness"
    swapoutBps60 := cv.dec false (jnat j "bps60") 0, swapoutBps300 := cv.dec false (jnat j "bps300") 0 }

def mkView [Num α] (cv : Conv α) (sys : Sys α) (cgs : List CgE) (w : World) (c : CgE) : View α :=
  let chain := swapChain cgs c.path
  let we := w.find c.path
  let psi (o : Option (Nat × Nat × Int)) : Option (Psi α) :=
    o.map fun (a, b, t) => { avg10 := cv.avg a, avg60 := cv.avg b, total := t }
  { id := c.ino
    current := c.cur
    memStat := match c.stat with
      | none => none
      | some st => some { activeFile := statKey st "active_file"
                          inactiveFile := statKey st "inactive_file"
                          activeAnon := statKey st "active_anon"
                          inactiveAnon := statKey st "inactive_anon" }
    memMin := c.mmin
    memHigh := we.bind (·.high)
    memHighTmp := we.bind (·.highTmp)
    memMax := c.mmax
    effSwapFree := effSwapFree sys.swaptotal sys.swapused chain
    effSwapMax := effSwapMax sys.swaptotal chain
    effSwapUtil := effSwapUtil sys.swaptotal sys.swapused chain
    memSome := psi c.mp
    ioSome := psi c.iop
    ctrlMemory := match c.ctrl with
      | some s => (s.splitOn " ").contains "memory"
      | none => false
    highFile := (we.bind (·.high)).isSome
    highTmpFile := (we.bind (·.highTmp)).isSome
    reclaimFile := c.reclaim }

/-! ## traces -/

/-- a write as it is seen at the boundary -/
structure WEv where
  cg : String
  file : String
  text : String
deriving BEq, Repr, Inhabited

open OomdModel.Generated in
def evToW (idPath : Nat → String) : Ev → WEv
  | .high cg tmp val why =>
    if tmp then
      let dur : Nat := if why == Why.reset then 0 else senpaiHighTmpSeconds * 1000000
      ⟨idPath cg, senpaiFileMemHighTmp, s!"{val} {dur}"⟩
    else ⟨idPath cg, senpaiFileMemHigh, s!"{val}"⟩
  | .reclaim cg size => ⟨idPath cg, senpaiFileMemReclaim, s!"{size}"⟩
  | .swappiness v => ⟨"", "swappiness", s!"{v}"⟩

def wevJ (e : WEv) : Json := Json.mkObj [("cg", Json.str e.cg), ("f", Json.str e.file), ("v", Json.str e.text)]

def parseWEv (j : Json) : WEv := ⟨jstr j "cg", jstr j "f", jstr j "v"⟩

/-- first integer token of a written value -/
def firstInt (s : String) : Option Int := ((s.splitOn " ").headD "").toInt?

def applyWrites (w : World) (evs : List WEv) : World :=
  evs.foldl (fun w e =>
    match firstInt e.text with
    | some v =>
      if e.file == "memory.high" then w.setHigh e.cg false v
      else if e.file == "memory.high.tmp" then w.setHigh e.cg true v
      else w
    | none => w) w

/-! ## branch tags (coverage of `run`, `tick`, `tick_immediate_backoff`; from the model's own pieces) -/

def adjustTag [Num α] (cfg : Cfg α) (sys : Sys α) (fl : Flags) (v : View α) (st : CgState) (factor : α) : String :=
  match getLimitMinBytes cfg sys v with
  | none => "nofloor"
  | some lo => match getLimitMaxBytes cfg fl v with
    | (_, none) => "noceil"
    | (fl1, some hi) =>
      let x := scaled st.limit factor
      let w := writeMemhigh fl1 v 0 .adjust
      if !w.ok then "writefail"
      else if lo > hi then "floor>ceil"
      else if x < lo then "clamp-floor"
      else if x > hi then "clamp-ceil"
      else "free"

def tagStep [Num α] (cfg : Cfg α) (sys : Sys α) (fl : Flags) (v : View α) (st? : Option CgState) : String :=
  match st? with
  | none => if (initializeCgroup cfg fl v).st.isSome then "init:ok" else
      (if (initializeCgroup cfg fl v).evs.isEmpty then "init:fail" else "init:fail-after-write")
  | some st =>
    if cfg.immediateBackoff then
      if st.ticks ≠ 0 then "imm:countdown" else
      match validatePressure cfg v with
      | none => "imm:pressure-unavailable"
      | some vp =>
        match (if cfg.swapValidation then validateSwap cfg sys v else some true) with
        | none => "imm:swap-unavailable"
        | some vs =>
          if !vp then (if vs then "imm:pressure-high" else "imm:pressure-high+swap-high")
          else if !vs then "imm:swap-high" else
          match getLimitMinBytes cfg sys v with
          | none => "imm:nofloor"
          | some lo => match v.current with
            | none => "imm:nocur"
            | some cur =>
              if ¬ cur > lo then "imm:at-floor" else
              if cfg.modulateSwappiness && (calculateSwappinessFactor cfg sys v).isNone then "imm:swapfactor-unavailable" else
              let w := reclaim fl v (reclaimSize cfg cur lo)
              let how := if (hasMemoryReclaim fl v).2 == some true then "file" else "poke"
              let sw := if cfg.modulateSwappiness then "+swappiness" else ""
              if w.ok then s!"imm:reclaim-{how}{sw}" else s!"imm:reclaim-{how}-fail{w.evs.length}{sw}"
    else
      match readMemhigh fl v with
      | (_, none) => "tick:nolimit"
      | (fl1, some limit) =>
        if limit ≠ st.limit then
          (if (initializeCgroup cfg fl1 v).st.isSome then "tick:mismatch-reinit" else "tick:mismatch-reinit-fail")
        else match pressureTotal v with
          | none => "tick:nototal"
          | some total =>
            let cum := st.cumulative + (total - st.lastTotal)
            if cum ≥ cfg.pressureMs * 1000 then "tick:backoff:" ++ adjustTag cfg sys fl1 v st (backoffFactor cfg cum)
            else if st.ticks ≠ 0 then "tick:countdown"
            else "tick:probe:" ++ adjustTag cfg sys fl1 v st (probeFactor cfg cum)

/-- replays the walk view by view (lookup by id) only to name the branches taken -/
def tagsOfTick [Num α] (cfg : Cfg α) (st : PState) (t : TickIn α) : List String :=
  let sorted := sortById t.resolved
  let ids := sorted.map (·.id)
  let stale := st.tracked.filter (fun p => !ids.contains p.1)
  let go := sorted.foldl (fun (acc : Flags × List String) v =>
      let s? := (st.tracked.find? (fun p => p.1 == v.id)).map (·.2)
      let tag := tagStep cfg t.sys acc.1 v s?
      let r := match s? with
        | none => initializeCgroup cfg acc.1 v
        | some s => tickAny cfg t.sys acc.1 v s
      let early := s?.isNone && st.tracked.any (fun p => v.id < p.1)
      (r.fl, acc.2 ++ [tag] ++ (if early then ["walk:new-before-tracked"] else []))) (st.fl, [])
  go.2 ++ (if stale.isEmpty then [] else ["walk:erase-stale"])
    ++ (if st.tracked.any (fun p => match sorted.getLast? with | some l => p.1 > l.id | none => true) then ["walk:erase-tail"] else [])

/-! ## the oracle: property clauses on the implementation's writes, exact arithmetic -/

structure Judge where
  viol : List String := []
  margin : Nat := 0

def Judge.bad (j : Judge) (c : String) : Judge := if j.viol.contains c then j else { j with viol := j.viol ++ [c] }

/-- floor as the property defines it: unreclaimable usage + limit_min_bytes, at least memory.min -/
def oracleFloor (limitMin : Int) (sysQ : Sys Rat) (cgs : List CgE) (c : CgE) : Option Int := do
  let cur ← c.cur
  let st ← c.stat
  let af ← statKey st "active_file"
  let inf ← statKey st "inactive_file"
  let swappable : Int ←
    if sysQ.swaptotal > 0 ∧ sysQ.swappiness > 0 then do
      let free ← effSwapFree sysQ.swaptotal sysQ.swapused (swapChain cgs c.path)
      if free > 0 then do
        let aa ← statKey st "active_anon"
        let ia ← statKey st "inactive_anon"
        pure (min free (aa + ia))
      else pure 0
    else pure 0
  let mmin ← c.mmin
  pure (max (cur - (af + inf + swappable) + limitMin) mmin)

/-- ceiling as the property defines it; memory.high counts when the limit goes to memory.high.tmp -/
def oracleCeil (cfg : Cfg Rat) (tmp : Bool) (memHigh : Option Int) (c : CgE) : Option Int := do
  let cur ← c.cur
  let mx ← c.mmax
  let base := min (min cfg.hostMemTotal (cur + cfg.limitMaxBytes)) mx
  if tmp then do
    let h ← memHigh
    pure (min base h)
  else pure base

def limitOK (lo hi l : Int) : Bool := l % 4096 == 0 && l > lo - 4096 && (l ≤ hi || lo > hi)

structure TickCtx where
  cfgQ : Cfg Rat
  cfgF : Cfg Float
  sysQ : Sys Rat
  sysF : Sys Float
  cgs : List CgE
  pats : List String
  world : World            -- contents at the start of the tick
  prevIds : List Nat       -- identities resolved in the previous tick

def ltBoth (j : Judge) (clause : String) (q : Bool) (f : Bool) : Judge :=
  if q != f then { j with margin := j.margin + 1 } else if q then j else j.bad clause

/-- the reclaim clauses for a reclaim of `size` bytes from cgroup `c` -/
def judgeReclaim (x : TickCtx) (j : Judge) (c : CgE) (size : Int) : Judge :=
  let j := if size % 4096 == 0 then j else j.bad "reclaim_bound.aligned"
  let j := match c.cur, oracleFloor x.cfgQ.limitMinBytes x.sysQ x.cgs c with
    | some cur, some lo =>
      let bound : Rat := x.cfgQ.maxProbe * ((cur - lo : Int) : Rat)
      if cur > lo ∧ (size : Rat) ≤ bound then j
      else if cur > lo ∧ (size : Rat) ≤ bound * (1 + 1 / 1099511627776) then { j with margin := j.margin + 1 }
      else j.bad "reclaim_bound.size"
    | _, _ => j.bad "reclaim_bound.size"
  let j := match c.mp, c.iop with
    | some (m10, m60, _), some (i10, i60, _) =>
      let q := decide (convQ.avg (max m10 m60) < x.cfgQ.memPressurePct) && decide (convQ.avg (max i10 i60) < x.cfgQ.ioPressurePct)
      let f := (convF.avg (max m10 m60) < x.cfgF.memPressurePct) && (convF.avg (max i10 i60) < x.cfgF.ioPressurePct)
      ltBoth j "reclaim_bound.pressure" q f
    | _, _ => j.bad "reclaim_bound.pressure"
  if !x.cfgQ.swapValidation then j else
  if x.sysQ.swaptotal == 0 || x.sysQ.swappiness == 0 then j else
  let chain := swapChain x.cgs c.path
  match effSwapMax x.sysQ.swaptotal chain with
  | none => j.bad "reclaim_bound.swap"
  | some 0 => j
  | some _ =>
    match (effSwapUtil x.sysQ.swaptotal x.sysQ.swapused chain : Option Rat),
          (effSwapUtil x.sysF.swaptotal x.sysF.swapused chain : Option Float) with
    | some uq, some uf => ltBoth j "reclaim_bound.swap" (decide (uq < x.cfgQ.swapThreshold)) (uf < x.cfgF.swapThreshold)
    | _, _ => j.bad "reclaim_bound.swap"

def judgeTick (x : TickCtx) (j0 : Judge) (evs : List WEv) : Judge := Id.run do
  let mut j := j0
  let arr := evs.toArray
  let imm := x.cfgQ.immediateBackoff
  for i in [0:arr.size] do
    let e := arr[i]!
    if e.file == "swappiness" && e.cg == "" then
      if !(x.cfgQ.modulateSwappiness && imm) then j := j.bad "writes_only_matched.swappiness"
      continue
    let c? := x.cgs.find? (fun c => c.path == e.cg)
    let okFile := e.file == "memory.high" || e.file == "memory.high.tmp" || e.file == "memory.reclaim"
    match c? with
    | none => j := j.bad "writes_only_matched"
    | some c =>
      if !(isMatched x.pats c) || !okFile then
        j := j.bad "writes_only_matched"
        continue
      let fresh := !x.prevIds.contains c.ino
      match firstInt e.text with
      | none => j := j.bad "writes_only_matched.value"
      | some v =>
        if e.file == "memory.reclaim" then
          if !imm then j := j.bad "reclaim_bound.mode"
          if fresh then j := j.bad "state_by_identity"
          j := judgeReclaim x j c v
        else
          let tmp := e.file == "memory.high.tmp"
          if imm then
            if fresh then j := j.bad "state_by_identity"
            if v != int64Max then
              -- a poke: bounded like a reclaim, and reset to max by the next write
              match c.cur with
              | some cur => j := judgeReclaim x j c (cur - v)
              | none => j := j.bad "reclaim_bound.size"
              let nxt := arr[i+1]?
              let ok := match nxt with
                | some n => n.cg == e.cg && n.file == e.file && firstInt n.text == some int64Max
                | none => false
              if !ok then j := j.bad "poke_reset_same_tick"
          else
            if c.cur == some v then pure ()
            else
              if fresh then j := j.bad "state_by_identity"
              let memHigh := (x.world.find c.path).bind (·.high)
              match oracleFloor x.cfgQ.limitMinBytes x.sysQ x.cgs c, oracleCeil x.cfgQ tmp memHigh c with
              | some lo, some hi => if !(limitOK lo hi v) then j := j.bad "limit_bounds"
              | _, _ => j := j.bad "limit_bounds"
  -- swappiness restored within the tick
  let sw := evs.filter (fun e => e.file == "swappiness" && e.cg == "")
  match sw.getLast? with
  | some l => if l.text != s!"{x.sysQ.swappiness}" then j := j.bad "swappiness_restored"
  | none => pure ()
  return j

/-! ## one scenario -/

structure Acc where
  stF : PState := {}
  worldM : World := []        -- world as the model's writes leave it
  worldI : World := []        -- world as the implementation's writes leave it
  prevIds : List Nat := []
  judge : Judge := {}
  diffs : List Nat := []
  model : List Json := []
  tags : List String := []

def handle (j : Json) : Json :=
  let sc := jobj j "s"
  let tr := jobj j "t"
  let id := jstr sc "id"
  let cfgF : Cfg Float := mkCfg convF sc
  let cfgQ : Cfg Rat := mkCfg convQ sc
  let pats := patternsOf sc
  let initRc : Int := if initOk cfgQ.pressureMs (!jbool sc "meminfo_missing") then 0 else 1
  let implTicks : List (List WEv) := (jarr tr "ticks").map (fun t => (asArr t).map parseWEv)
  let ticks := if initRc == 0 then jarr sc "ticks" else []
  let acc : Acc := (List.zip (List.range ticks.length) ticks).foldl (fun (a : Acc) (k, tj) =>
    let cgs := (jarr tj "cgs").map parseCg
    let sysF : Sys Float := mkSys convF (jobj tj "sys")
    let sysQ : Sys Rat := mkSys convQ (jobj tj "sys")
    let matched := cgs.filter (isMatched pats)
    -- model
    let wM := nextWorld a.worldM cgs
    let tin : TickIn Float := { sys := sysF, resolved := matched.map (mkView convF sysF cgs wM) }
    let tags := tagsOfTick cfgF a.stF tin
    let (stF', evs) := runTick cfgF a.stF tin
    let idPath (n : Nat) : String := ((matched.find? (fun c => c.ino == n)).map (·.path)).getD "?"
    let mevs := evs.map (evToW idPath)
    -- implementation
    let ievs := implTicks.getD k []
    let wI := nextWorld a.worldI cgs
    let x : TickCtx := { cfgQ := cfgQ, cfgF := cfgF, sysQ := sysQ, sysF := sysF, cgs := cgs, pats := pats, world := wI, prevIds := a.prevIds }
    let jd := judgeTick x a.judge ievs
    { stF := stF', worldM := applyWrites wM mevs, worldI := applyWrites wI ievs
      prevIds := matched.map (·.ino), judge := jd
      diffs := if mevs == ievs then a.diffs else a.diffs ++ [k]
      model := a.model ++ [Json.arr (mevs.map wevJ).toArray]
      tags := a.tags ++ tags }) {}
  let initOk := jint tr "init" == initRc
  let lenOk := implTicks.length == ticks.length
  let accepts := initOk && lenOk && acc.diffs.isEmpty && jstr tr "outcome" == "ok"
  let viol := acc.judge.viol
  let cls := match viol with
    | [] => ""
    | v :: _ => if viol.contains "reclaim_bound.swap" then "reclaim_bound.swap" else v
  verdict id accepts viol.isEmpty viol cls
    [("diff_ticks", Json.arr (acc.diffs.map (fun n => Json.num (JsonNumber.fromNat n))).toArray),
     ("margin", Json.num (JsonNumber.fromNat acc.judge.margin)),
     ("tags", mkStrs acc.tags.eraseDups),
     ("model", Json.arr acc.model.toArray)]

end Driver.Senpai

def main : IO UInt32 := Driver.runMain Driver.Senpai.handle

import Driver.Json
import OomdModel.CgStats

/-! Driver glue for engine `fsread` (C15).

`accepts` : the operational model (lazy per-tick cache, `OomdModel.CgStats` with `α = Float`) run on the
            scenario's operations reproduces every value the real `CgroupContext` returned - exactly,
            as long as no file changed inside the tick; tolerant of read order / eagerness after a
            mid-tick file operation (`acceptTick`).
`holds`   : evaluated on the implementation's trace alone:
  * `reference`  every value obtained while the files have not changed since the tick began equals the
                 stateless reference function `refAcc` of the files and of the tick history
                 (temporal values: as long as no earlier tick changed files mid-tick);
  * `stable`     once a value was obtained it does not change until the next tick;
  * `identity`   ids are a one-to-one function of the directory incarnation;
  * `system`     swap totals, swappiness, vmstat and the swap-out averages follow /proc.
-/
namespace Driver.Fsread
open Lean OomdModel.FsRead OomdModel.CgStats
open OomdModel.Path (Str)

def l2s (l : Str) : String := String.ofList l

/-! ## the simulated cgroupfs (same operations as `harness/h_fsread.cpp`) -/

structure DirNode where
  inc : Nat
  rpath : List String
  alive : Bool
  files : List (String × String)
  xattrs : List String

structure FS where
  dirs : List DirNode
  next : Nat
  proc : List (String × String)
  dtype : Bool

namespace FS
def find (fs : FS) (rp : List String) : Option DirNode := fs.dirs.find? fun d => d.alive && d.rpath == rp
def byInc (fs : FS) (inc : Nat) : Option DirNode := fs.dirs.find? fun d => d.inc == inc
def modify (fs : FS) (inc : Nat) (f : DirNode → DirNode) : FS :=
  { fs with dirs := fs.dirs.map fun d => if d.inc == inc then f d else d }

def ensure : FS → List String → FS × Nat
  | fs, [] =>
    match fs.find [] with
    | some d => (fs, d.inc)
    | none => ({ fs with dirs := fs.dirs ++ [{ inc := fs.next, rpath := [], alive := true, files := [], xattrs := [] }],
                         next := fs.next + 1 }, fs.next)
  | fs, n :: parent =>
    match fs.find (n :: parent) with
    | some d => (fs, d.inc)
    | none =>
      let fs := (ensure fs parent).1
      ({ fs with dirs := fs.dirs ++ [{ inc := fs.next, rpath := n :: parent, alive := true, files := [], xattrs := [] }],
                 next := fs.next + 1 }, fs.next)

def setFile (fs : FS) (inc : Nat) (name : String) (content : Option String) : FS :=
  fs.modify inc fun d =>
    let rest := d.files.filter fun kv => kv.1 != name
    { d with files := match content with | some c => rest ++ [(name, c)] | none => rest }

def setX (fs : FS) (inc : Nat) (name : String) (on : Bool) : FS :=
  fs.modify inc fun d =>
    let rest := d.xattrs.filter (· != name)
    { d with xattrs := if on then name :: rest else rest }

def comps (p : String) : List String := (p.splitOn "/").filter (· ≠ "")

/-- `rm -rf`: the directory and everything below it is gone; held descriptors see an empty, dead directory -/
def rmdir (fs : FS) (rp : List String) : FS :=
  { fs with dirs := fs.dirs.map fun d =>
      if d.alive && rp.isSuffixOf d.rpath then { d with alive := false, files := [] } else d }

partial def materialize (fs : FS) (rp : List String) (node : Json) : FS :=
  let (fs, inc) := fs.ensure rp
  let fs := match jobj node "files" with
    | Json.obj kvs => kvs.foldl (fun fs k v => match v with
        | Json.str c => fs.setFile inc k (some c)
        | _ => fs.setFile inc k none) fs
    | _ => fs
  let fs := match jobj node "xattrs" with
    | Json.obj kvs => kvs.foldl (fun fs k _ => fs.setX inc k true) fs
    | _ => fs
  (jarr node "children").foldl (fun fs ch => materialize fs (jstr ch "name" :: rp) ch) fs

def writePath (fs : FS) (path : String) (content : Option String) : FS :=
  match (comps path).reverse with
  | [] => fs
  | name :: rp =>
    match fs.find rp with
    | some d => fs.setFile d.inc name content
    | none => fs

def setProc (fs : FS) (name : String) (content : Option String) : FS :=
  let rest := fs.proc.filter fun kv => kv.1 != name
  { fs with proc := match content with | some c => rest ++ [(name, c)] | none => rest }

def apply (fs : FS) (op : Json) : FS :=
  match jstr op "op" with
  | "write" => fs.writePath (jstr op "path") (some (jstr op "data"))
  | "unlink" => fs.writePath (jstr op "path") none
  | "rmdir" => fs.rmdir (comps (jstr op "path")).reverse
  | "mkdir" => fs.materialize (comps (jstr op "path")).reverse (jobj op "node")
  | "proc" => fs.setProc (jstr op "name") (jstr? op "data")
  | "setx" => match fs.find (comps (jstr op "path")).reverse with
    | some d => fs.setX d.inc (jstr op "name") true
    | none => fs
  | "rmx" => match fs.find (comps (jstr op "path")).reverse with
    | some d => fs.setX d.inc (jstr op "name") false
    | none => fs
  | _ => fs

def isFsop (k : String) : Bool := ["write", "unlink", "rmdir", "mkdir", "proc", "setx", "rmx"].contains k

def world (fs : FS) : World where
  openDir p := (fs.find (p.map l2s)).map (·.inc)
  openChild inc nm := match fs.byInc inc with
    | some d => if d.alive then (fs.find (l2s nm :: d.rpath)).map (·.inc) else none
    | none => none
  file inc name := match fs.byInc inc with
    | some d => (d.files.find? fun kv => kv.1 == l2s name).map fun kv => linesOf kv.2.toList
    | none => none
  entries inc := match fs.byInc inc with
    | some d =>
      if d.alive then
        (fs.dirs.filterMap fun c => match c.rpath with
          | nm :: rest => if c.alive && rest == d.rpath then some (nm.toList, EntKind.dir) else none
          | [] => none) ++ d.files.map fun kv => (kv.1.toList, EntKind.reg)
      else []
    | none => []
  dtype := fs.dtype
  xattr inc name := match fs.byInc inc with
    | some d => d.xattrs.contains (l2s name)
    | none => false
  inode inc := inc
  proc name := (fs.proc.find? fun kv => kv.1 == (l2s name).replace "/" "_").map fun kv => linesOf kv.2.toList
end FS

/-! ## accessors and JSON -/

def accOf (name : String) : Option Acc :=
  match name with
  | "children" => some (.field .children)
  | "mem_pressure" => some (.field .memPressure)
  | "mem_pressure_some" => some (.field .memPressureSome)
  | "io_pressure" => some (.field .ioPressure)
  | "io_pressure_some" => some (.field .ioPressureSome)
  | "memory_stat" => some (.field .memoryStat)
  | "io_stat" => some (.field .ioStat)
  | "id" => some (.field .id)
  | "current_usage" => some (.field .currentUsage)
  | "swap_usage" => some (.field .swapUsage)
  | "swap_max" => some (.field .swapMax)
  | "memory_low" => some (.field .memoryLow)
  | "memory_min" => some (.field .memoryMin)
  | "memory_high" => some (.field .memoryHigh)
  | "memory_high_tmp" => some (.field .memoryHighTmp)
  | "memory_max" => some (.field .memoryMax)
  | "nr_dying_descendants" => some (.field .nrDying)
  | "is_populated" => some (.field .isPopulated)
  | "kill_preference" => some (.field .killPreference)
  | "oom_group" => some (.field .oomGroup)
  | "effective_swap_max" => some (.field .effSwapMax)
  | "effective_swap_free" => some (.field .effSwapFree)
  | "effective_swap_util_pct" => some (.field .effSwapUtil)
  | "memory_protection" => some (.field .memoryProtection)
  | "io_cost_cumulative" => some (.field .ioCostCum)
  | "pg_scan_cumulative" => some (.field .pgScanCum)
  | "average_usage" => some (.field .averageUsage)
  | "io_cost_rate" => some (.field .ioCostRate)
  | "pg_scan_rate" => some (.field .pgScanRate)
  | "anon_usage" => some .anon
  | "file_usage" => some .file
  | "shmem_usage" => some .shmem
  | "memory_growth" => some .growth
  | other =>
    match other.splitOn "/" with
    | ["effective_usage"] => some (.effUsage 1 0)
    | ["effective_usage", a, b] => match a.toInt?, b.toInt? with
      | some x, some y => some (.effUsage x y)
      | _, _ => none
    | _ => none

/-- depends on the archive of the previous tick -/
def isTemporal (name : String) : Bool :=
  ["average_usage", "io_cost_rate", "pg_scan_rate", "memory_growth"].contains name

def jInt (i : Int) : Json := Json.num (JsonNumber.fromInt i)
def jNat (n : Nat) : Json := Json.num (JsonNumber.fromNat n)
def fbits (x : Float) : Json := jNat x.toBits.toNat

def decBits (d : Dec) : Json :=
  let x : Float32 := OfScientific.ofScientific d.mant true d.exp
  jNat (if d.neg then -x else x).toBits.toNat

def sortStrs (l : List String) : List String := (l.toArray.qsort (· < ·)).toList

def valJson : Val Float → Json
  | .int i => jInt i
  | .num x => fbits x
  | .bool b => Json.bool b
  | .strs l => mkStrs (sortStrs (l.map l2s))
  | .psi p => Json.arr #[decBits p.a10, decBits p.a60, decBits p.a300,
      match p.total with | some t => jInt t | none => Json.null]
  | .kv m => Json.mkObj (m.map fun kv => (l2s kv.1, jInt kv.2))
  | .io l => Json.arr (l.map fun d => Json.arr #[Json.str (l2s d.devId), jInt d.rbytes, jInt d.wbytes,
      jInt d.rios, jInt d.wios, jInt d.dbytes, jInt d.dios]).toArray

def resJson : Res (Val Float) → Json
  | .ok v => valJson v
  | .unavailable => Json.null
  | .crash c => Json.mkObj [("crash", Json.str c)]

def sysJson (sx : SysCtx Float) : Json :=
  Json.mkObj [("swaptotal", jNat sx.swaptotal), ("swapused", jNat sx.swapused), ("swappiness", jInt sx.swappiness),
    ("swapout_bps", fbits sx.swapoutBps), ("swapout_bps_60", fbits sx.swapoutBps60),
    ("swapout_bps_300", fbits sx.swapoutBps300),
    ("vmstat", Json.mkObj (sx.vmstat.map fun kv => (l2s kv.1, jInt kv.2)))]

def relPath (rp : List String) : String := "/".intercalate rp.reverse

/-! ## configuration -/

def coeffsOf (j : Json) : Coeffs Float :=
  let a := (asArr j).map fun x => Float.ofBits (asNat x).toUInt64
  let g := fun i => a.getD i 0.0
  { readIops := g 0, readBw := g 1, writeIops := g 2, writeBw := g 3, trimIops := g 4, trimBw := g 5 }

def paramsOf (cfg : Json) : Params Float :=
  { devs := (jarr cfg "devs").map fun d => match asArr d with
      | [k, t] => ((asStr k).toList, asStr t == "hdd")
      | _ => ([], false)
    hdd := coeffsOf (jobj cfg "hdd")
    ssd := coeffsOf (jobj cfg "ssd")
    decay := 4.0
    interval := 5
    factor60 := Float.exp (Float.ofInt (-5) / 60.0)
    factor300 := Float.exp (Float.ofInt (-5) / 300.0) }

/-! ## running the operational model (generic in the number type: `Float` for `accepts`, `Rat` to count
how often exact arithmetic decides differently from IEEE doubles) -/

structure Run (α : Type) where
  fs : FS
  ost : OSt α
  crash : Option String := none
  /-- model results, one list per tick -/
  out : List (List Json) := []

def rpOf (cg : String) : RPath := ((FS.comps cg).reverse).map String.toList

section Generic
variable {α : Type} [Num α] (vj : Res (Val α) → Json) (sj : SysCtx α → Json)

def runOp (cfg : Params α) (r : Run α) (op : Json) : Run α × Json :=
  let k := jstr op "op"
  if FS.isFsop k then ({ r with fs := r.fs.apply op }, Json.null) else
  let w := r.fs.world
  match k with
  | "get" =>
    let p := rpOf (jstr op "cg")
    match addToCache w p r.ost with
    | (.ok (), st) =>
      let (vals, st, cr) := (jstrs op "f").foldl (fun (acc : List Json × OSt α × Option String) name =>
        let (vals, st, cr) := acc
        if cr.isSome then acc else
        match accOf name with
        | none => (vals ++ [Json.mkObj [("unknown_accessor", Json.str name)]], st, cr)
        | some a =>
          let (res, st') := getAcc cfg w p a st
          (vals ++ [vj res], st', match res with | .crash c => some c | _ => none)) ([], st, none)
      ({ r with ost := st, crash := cr }, Json.mkObj [("ctx", Json.bool true), ("v", Json.arr vals.toArray)])
    | (_, st) => ({ r with ost := st }, Json.mkObj [("ctx", Json.bool false)])
  | "kids" =>
    let p := rpOf (jstr op "cg")
    match addToCache w p r.ost with
    | (.ok (), st) =>
      match addChildren w p st with
      | (.ok names, st') =>
        ({ r with ost := st' }, Json.mkObj [("ctx", Json.bool true),
          ("kids", mkStrs (sortStrs (names.map fun nm => relPath ((nm :: p).map l2s))))])
      | (.crash c, st') => ({ r with ost := st', crash := some c }, Json.null)
      | (_, st') => ({ r with ost := st' }, Json.mkObj [("ctx", Json.bool true), ("kids", mkStrs [])])
    | (_, st) => ({ r with ost := st }, Json.mkObj [("ctx", Json.bool false)])
  | "list" => (r, mkStrs (sortStrs (r.ost.keys.map fun p => relPath (p.map l2s))))
  | "sys" => (r, sj r.ost.sys)
  | _ => (r, Json.null)

def runTick (cfg : Params α) (r : Run α) (tick : Json) : Run α :=
  if r.crash.isSome then r else
  let fs := (jarr tick "pre").foldl FS.apply r.fs
  match updateContext cfg fs.world r.ost with
  | .crash c => { r with fs := fs, crash := some c, out := r.out ++ [[]] }
  | .unavailable => { r with fs := fs, crash := some "updateContext", out := r.out ++ [[]] }
  | .ok ost =>
    let (r, outs) := (jarr tick "ops").foldl (fun (acc : Run α × List Json) op =>
      let (r, outs) := acc
      if r.crash.isSome then acc else
      let (r, j) := runOp vj sj cfg r op
      (r, outs ++ [j])) ({ r with fs := fs, ost := ost }, [])
    { r with out := r.out ++ [outs] }

end Generic

/-- exact arithmetic: only the integer-valued results are rendered (the others are not compared) -/
def ratJson : Res (Val Rat) → Json
  | .ok (.int i) => jInt i
  | .ok (.bool b) => Json.bool b
  | .unavailable => Json.null
  | _ => Json.str "-"

def ratParams (cfg : Json) : Params Rat :=
  let z : Coeffs Rat := { readIops := 0, readBw := 0, writeIops := 0, writeBw := 0, trimIops := 0, trimBw := 0 }
  { devs := [], hdd := z, ssd := z, decay := 4, interval := 5, factor60 := 0, factor300 := 0 }

/-- accessors whose integer result went through `double` arithmetic in the C++ -/
def roundedInt (name : String) : Bool :=
  name == "memory_protection" || name == "average_usage" || name.startsWith "effective_usage"

/-- (compared, different): integer results of the `Float` run against the `Rat` run -/
def ratFloatDiff (ticks : List Json) (fl rt : List (List Json)) : Nat × Nat :=
  (ticks.zip (fl.zip rt)).foldl (fun acc x =>
    let (tick, a, b) := x
    ((jarr tick "ops").zip (a.zip b)).foldl (fun acc y =>
      let (op, ja, jb) := y
      if jstr op "op" != "get" then acc else
      ((jstrs op "f").zip ((jarr ja "v").zip (jarr jb "v"))).foldl (fun (acc : Nat × Nat) z =>
        let (name, va, vb) := z
        if roundedInt name && !isNull va then (acc.1 + 1, acc.2 + (if va == vb then 0 else 1)) else acc) acc) acc) (0, 0)

def initFS (sc : Json) : FS :=
  let fs : FS := { dirs := [], next := 1, proc := [], dtype := (jbool? (jobj sc "cfg") "dtype").getD true }
  let fs := fs.materialize [] (jobj sc "tree")
  match jobj sc "proc" with
  | Json.obj kvs => kvs.foldl (fun fs k v => match v with
      | Json.str c => fs.setProc k (some c)
      | _ => fs) fs
  | _ => fs

/-! ## comparing traces; ids are compared up to a one-to-one renaming -/

structure IdMap where
  pairs : List (Json × Json) := []   -- (model incarnation, implementation inode)
  ok : Bool := true

def IdMap.add (m : IdMap) (a b : Json) : IdMap :=
  if isNull a || isNull b then { m with ok := m.ok && isNull a == isNull b } else
  match m.pairs.find? fun pr => pr.1 == a || pr.2 == b with
  | some pr => { m with ok := m.ok && pr.1 == a && pr.2 == b }
  | none => { m with pairs := (a, b) :: m.pairs }

/-- compares the result of one op; returns (equal apart from ids, id map) -/
def cmpOp (op model impl : Json) (ids : IdMap) : Bool × IdMap :=
  if jstr op "op" == "get" && asBool (jobj model "ctx") && asBool (jobj impl "ctx") then
    let names := jstrs op "f"
    let mv := jarr model "v"
    let iv := jarr impl "v"
    if mv.length != names.length || iv.length != names.length then (false, ids) else
    (names.zip (mv.zip iv)).foldl (fun (acc : Bool × IdMap) x =>
      let (name, a, b) := x
      if name == "id" then (acc.1, acc.2.add a b) else (acc.1 && a == b, acc.2)) (true, ids)
  else (model == impl, ids)

/-! ## the reference (`holds`) -/

structure TickInfo where
  fs : FS                      -- files when the tick began (after `pre`)
  touched : List (String × String)   -- (cgroup, accessor) of every `get` of the tick
  dirty : Bool                 -- some file operation happened inside the tick

def touchedAny (t : TickInfo) (cg : String) (names : List String) : Bool :=
  t.touched.any fun x => x.1 == cg && names.contains x.2

/-- swap-out averages and totals by recursion over the ticks (independent of `updateContext`'s state) -/
def refSys (cfg : Params Float) (ticks : Array TickInfo) : Nat → Res (SysCtx Float)
  | 0 => match ticks[0]? with
    | some t => nextSys cfg t.fs.world SysCtx.init
    | none => .unavailable
  | n + 1 => match ticks[n + 1]? with
    | some t => (refSys cfg ticks n).bind fun prev => nextSys cfg t.fs.world prev
    | none => .unavailable

/-- the archive a context has in tick `n`: what was obtained in tick `n-1`, if the same directory
was still a valid cgroup when tick `n` began -/
def refArch (cfg : Params Float) (ticks : Array TickInfo) (sys : Nat → SysCtx Float) : Nat → RPath → Arch Float
  | 0, _ => Arch.empty
  | n + 1, p =>
    match ticks[n]?, ticks[n + 1]? with
    | some prev, some cur =>
      match prev.fs.world.openDir p with
      | none => Arch.empty
      | some inc =>
        if (cur.fs.world.file inc fControllers).isNone then Arch.empty else
        let e : RefEnv Float := { w := prev.fs.world, sys := sys n, cfg := cfg, arch := refArch cfg ticks sys n }
        let cg := relPath (p.map l2s)
        { avg := if touchedAny prev cg ["average_usage", "memory_growth"] then (refAverageUsage e p).toOption else none
          io := if touchedAny prev cg ["io_cost_cumulative", "io_cost_rate"] then (refIoCostCum e p).toOption else none
          pg := if touchedAny prev cg ["pg_scan_cumulative", "pg_scan_rate"] then (refPgScanCum e p).toOption else none }
    | _, _ => Arch.empty

def kidsRef (e : RefEnv Float) (p : RPath) : Json :=
  match e.w.openDir p with
  | none => Json.mkObj [("ctx", Json.bool false)]
  | some _ =>
    let names := match refChildren e p with | .ok l => l | _ => []
    Json.mkObj [("ctx", Json.bool true), ("kids", mkStrs (sortStrs (names.map fun nm => relPath ((nm :: p).map l2s))))]

/-- The acceptor for one tick.  Before the first file operation inside the tick the operational model
is deterministic and the comparison is exact.  After it, *when* a file was read becomes visible
(lazy / eager caching, order of reads inside an accessor - all harmless): a value obtained there is
accepted if it is the operational model's value or the reference value of the files as they were at
some moment since the tick began; `cgroups()` must lie between "contexts handed out in this tick"
and "cgroups that existed at some moment of this tick".  Temporal values after a tick with
mid-tick file operations are not compared (their archive depends on the read times of that tick). -/
def acceptTick (env0 : RefEnv Float) (fs0 : FS) (histDirty : Bool) (tick : Json) (mops iops : List Json)
    (ids : IdMap) : Bool × IdMap :=
  let (ok, ids, _, _) := ((jarr tick "ops").zip (mops.zip iops)).foldl
    (fun (acc : Bool × IdMap × List FS × List String) y =>
      let (ok, ids, snaps, have_) := acc
      let (op, m, i) := y
      let k := jstr op "op"
      let fsNow := snaps.headD fs0
      if FS.isFsop k then (ok, ids, fsNow.apply op :: snaps, have_) else
      let clean := snaps.length ≤ 1
      let envs : List (RefEnv Float) := snaps.map fun fs => { env0 with w := fs.world }
      match k with
      | "get" =>
        let cg := relPath (FS.comps (jstr op "cg")).reverse
        let p := rpOf (jstr op "cg")
        let ictx := asBool (jobj i "ctx")
        let mctx := asBool (jobj m "ctx")
        let ctxOk := ictx == mctx || (!clean && snaps.any fun fs => ((fs.world).openDir p).isSome == ictx)
        let have_ := if ictx then cg :: have_ else have_
        if !ictx then (ok && ctxOk, ids, snaps, have_) else
        let names := jstrs op "f"
        let iv := jarr i "v"
        let mv := if mctx then jarr m "v" else names.map fun _ => Json.null
        if iv.length != names.length then (false, ids, snaps, have_) else
        let (ok2, ids) := (names.zip (mv.zip iv)).foldl (fun (acc : Bool × IdMap) x =>
          let (name, a, b) := x
          if isTemporal name && histDirty then acc
          else if name == "id" then (if clean then (acc.1, acc.2.add a b) else acc)
          else if a == b then acc
          else if clean then (false, acc.2)
          else match accOf name with
            | none => (false, acc.2)
            | some ac => (acc.1 && envs.any (fun e => resJson (refAcc e p ac) == b), acc.2)) (true, ids)
        (ok && ctxOk && ok2, ids, snaps, have_)
      | "kids" =>
        let p := rpOf (jstr op "cg")
        let good := m == i || (!clean && envs.any fun e => kidsRef e p == i)
        let have_ := if asBool (jobj i "ctx") then relPath (FS.comps (jstr op "cg")).reverse :: (jstrs i "kids") ++ have_ else have_
        (ok && good, ids, snaps, have_)
      | "list" =>
        let listed := (asArr i).map asStr
        let lower := have_.all fun c => listed.contains c
        let upper := listed.all fun c => snaps.any fun fs => (fs.find (FS.comps c).reverse).isSome
        (ok && lower && upper, ids, snaps, have_)
      | _ => (ok && m == i, ids, snaps, have_))
    (true, ids, [fs0], [])
  (ok, ids)

structure Hold where
  viol : List String := []
  ids : IdMap := {}
  checked : Nat := 0
  temporalChecked : Nat := 0

def Hold.fail (h : Hold) (c : String) : Hold := if h.viol.contains c then h else { h with viol := h.viol ++ [c] }

def handle (j : Json) : Json :=
  let sc := jobj j "s"
  let tr := jobj j "t"
  let id := jstr sc "id"
  let cfg := paramsOf (jobj sc "cfg")
  let ticksJ := jarr sc "ticks"
  -- operational model
  let run : Run Float := ticksJ.foldl (runTick resJson sysJson cfg) { fs := initFS sc, ost := OSt.init }
  -- the same history in exact arithmetic
  let runR : Run Rat := ticksJ.foldl (runTick ratJson (fun _ => Json.null) (ratParams (jobj sc "cfg")))
    { fs := initFS sc, ost := OSt.init }
  let (rfCmp, rfDiff) := ratFloatDiff ticksJ run.out runR.out
  let implTicks := (jarr tr "ticks").map asArr
  let outcome := jstr tr "outcome"
  let implThrow := implTicks.any fun ops => ops.any fun r => (jarr r "v").any fun v => jhas v "throw"
  let implCrashed := outcome != "ok" || implThrow
  -- holds: per-tick snapshots
  let (infos, _) := ticksJ.foldl (fun (acc : Array TickInfo × FS) tick =>
    let fs0 := (jarr tick "pre").foldl FS.apply acc.2
    let ops := jarr tick "ops"
    let fsEnd := ops.foldl (fun fs op => if FS.isFsop (jstr op "op") then fs.apply op else fs) fs0
    let touched := ops.foldl (fun l op => if jstr op "op" == "get" then l ++ (jstrs op "f").map fun f => (relPath (FS.comps (jstr op "cg")).reverse, f) else l) []
    (acc.1.push { fs := fs0, touched := touched, dirty := ops.any fun op => FS.isFsop (jstr op "op") }, fsEnd))
    ((#[] : Array TickInfo), initFS sc)
  let sysRes := fun n => refSys cfg infos n
  let sysAt := fun n => match sysRes n with | .ok sx => sx | _ => SysCtx.init
  let refCrash := (List.range infos.size).any fun n => (sysRes n).isCrash
  -- accepts: exact on the part of a tick before its first file operation; tolerant of read order and
  -- eagerness afterwards (see `acceptTick`)
  let (same, ids) := ((List.range ticksJ.length).zip (ticksJ.zip (run.out.zip implTicks))).foldl
    (fun (acc : Bool × IdMap) x =>
      let (n, tick, mops, iops) := x
      match infos[n]? with
      | none => acc
      | some info =>
        let histDirty := (List.range n).any fun k => match infos[k]? with | some t => t.dirty | none => false
        let env : RefEnv Float := { w := info.fs.world, sys := sysAt n, cfg := cfg, arch := refArch cfg infos sysAt n }
        let (ok, ids) := acceptTick env info.fs histDirty tick mops iops acc.2
        (acc.1 && ok, ids)) (true, {})
  let shapeOk := run.out.length == implTicks.length &&
    (run.out.zip implTicks).all fun x => x.1.length == x.2.length
  let accepts :=
    match run.crash with
    | some _ => implCrashed
    | none => !implCrashed && shapeOk && same && ids.ok && jnat tr "err_mismatch" == 0
  let hold : Hold := if outcome != "ok" || refCrash then {} else
    ((List.range ticksJ.length).zip (ticksJ.zip implTicks)).foldl (fun (h : Hold) x =>
      let (n, tick, iops) := x
      match infos[n]? with
      | none => h
      | some info =>
      let histClean := (List.range n).all fun k => match infos[k]? with | some t => !t.dirty | none => true
      let env : RefEnv Float := { w := info.fs.world, sys := sysAt n, cfg := cfg, arch := refArch cfg infos sysAt n }
      -- (cg, accessor) -> first obtained value in this tick
      let (h, _, _) := ((jarr tick "ops").zip iops).foldl (fun (acc : Hold × Bool × List ((String × String) × Json)) y =>
        let (h, clean, seen) := acc
        let (op, ir) := y
        let k := jstr op "op"
        if FS.isFsop k then (h, false, seen) else
        if k == "sys" then
          (if clean && ir != sysJson (sysAt n) then h.fail "system" else h, clean, seen)
        else if k == "kids" then
          let p := rpOf (jstr op "cg")
          let want := match env.w.openDir p with
            | none => Json.mkObj [("ctx", Json.bool false)]
            | some _ =>
              let names := match refChildren env p with | .ok l => l | _ => []
              Json.mkObj [("ctx", Json.bool true), ("kids", mkStrs (sortStrs (names.map fun nm => relPath ((nm :: p).map l2s))))]
          (if clean && ir != want then h.fail "reference.children" else h, clean, seen)
        else if k != "get" then (h, clean, seen) else
        let cg := relPath (FS.comps (jstr op "cg")).reverse
        let p := rpOf (jstr op "cg")
        let hasCtx := asBool (jobj ir "ctx")
        let h := if clean && hasCtx != (env.w.openDir p).isSome then h.fail "reference.context" else h
        if !hasCtx then (h, clean, seen) else
        ((jstrs op "f").zip (jarr ir "v")).foldl (fun (acc : Hold × Bool × List ((String × String) × Json)) z =>
          let (h, clean, seen) := acc
          let (name, iv) := z
          if jhas iv "throw" then (h, clean, seen) else   -- judged by `crashOk` below
          -- stability
          let (h, seen) := match seen.find? fun e => e.1 == (cg, name) with
            | some e => (if e.2 != iv then h.fail "stable" else h, seen)
            | none => (h, if isNull iv then seen else ((cg, name), iv) :: seen)
          -- reference
          let h := if !clean || (isTemporal name && !histClean) then h else
            match accOf name with
            | none => h
            | some a =>
              let want := resJson (refAcc env p a)
              let h := { h with checked := h.checked + 1,
                                temporalChecked := h.temporalChecked + (if isTemporal name then 1 else 0) }
              if name == "id" then { h with ids := h.ids.add want iv }
              else if want != iv then h.fail ("reference." ++ name) else h
          (h, clean, seen)) (h, clean, seen)) (h, true, [])
      h) {}
  let viol := hold.viol ++ (if hold.ids.ok then [] else ["identity"])
  -- a crash of the implementation is the model's business only when the model predicts it
  let crashOk := !implCrashed || run.crash.isSome
  let viol := if crashOk then viol else viol ++ ["outcome:" ++ (if outcome != "ok" then outcome else "throws")]
  let dtype := (jbool? (jobj sc "cfg") "dtype").getD true
  -- input-class key: the d_type-less worlds are one class; otherwise the kind of clause that failed first
  let cls := if viol.isEmpty then "" else if !dtype then "no-d_type" else ((viol.headD "").splitOn ".").headD ""
  verdict id accepts viol.isEmpty viol cls
    [("model_crash", match run.crash with | some c => Json.str c | none => Json.null),
     ("checked", jNat hold.checked), ("temporal_checked", jNat hold.temporalChecked),
     ("rat_float_compared", jNat rfCmp), ("rat_float_differ", jNat rfDiff),
     ("model", if accepts then Json.null else Json.arr (run.out.map fun l => Json.arr l.toArray).toArray)]

end Driver.Fsread

def main : IO UInt32 := Driver.runMain Driver.Fsread.handle

import Driver.Json

/-! Driver glue for engine `fsread` (stub: not built yet). -/
namespace Driver.Fsread
open Lean

def handle (j : Json) : Json :=
  Json.mkObj [("id", Json.str (jstr (jobj j "s") "id")), ("error", Json.str "engine fsread not implemented")]

end Driver.Fsread

def main : IO UInt32 := Driver.runMain Driver.Fsread.handle

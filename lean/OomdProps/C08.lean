import OomdProofs.Detect
import OomdModel.Generated.Consts

/-!
# C08 — Detectors decide by their documented predicate over the whole sample history

Property theorems only.  Model: `OomdModel.Detect` (with `fixes/C08-reclaim-epoch.patch` applied, see
the head of that file); lemmas: `OomdProofs.Detect`.  A *history* is the list of ticks a detector
instance has seen, oldest first; a tick carries the clock reading and what the plugin read of the
resolved cgroups, in the iteration order of its `std::unordered_set` (any order: theorems about the
watched value quantify over all permutations).  Every theorem quantifies over all histories,
thresholds, durations (negative and 0 included) and clock readings subject to `WFClock`.

## Interpretation choices (what `holds` in `Driver/Detect.lean` demands, and why not more)

* **Clock.** `WFClock`: readings are positive (the plugins use the epoch as "not armed"; a reading of
  exactly 0 ns since boot is outside the property) and non-decreasing (`steady_clock`).
* **"at least `duration` seconds ago".**  The plugins compare whole elapsed seconds
  (`duration_cast<seconds>`).  For the windows the test is `⌊Δ⌋ ≥ duration`, which for an integer
  `duration` is the same as `Δ ≥ duration`: the theorems state the exact nanosecond form
  `duration·10⁹ ≤ t_n − t_f`, and so does `holds`.
* **memory_reclaim, "within the last `duration` seconds".**  The plugin tests `⌊Δ⌋ ≤ duration`, i.e.
  `Δ < duration + 1`.  `reclaim_iff` states exactly that; `reclaim_bounds` derives the two-sided
  form `Δ ≤ duration ⇒ CONTINUE`, `CONTINUE ⇒ Δ < duration + 1`.  `holds` demands only the
  two-sided form (either verdict is fine in the open second in between), so a rewrite that compares
  at a finer resolution does not alarm.  "pgscan grew" is read as: the sum over the currently
  resolved cgroups is larger than at the previous tick; the first tick is compared with 0 (the
  plugin's initial `last_pgscan_`), because nothing in the text says what the first sample is
  compared with.  A history in which the sum **never** grew must give STOP at every tick: the
  pinned code answers CONTINUE while the uptime is ≤ `duration` (`reclaim_unfixed_counterexample`),
  which is the defect the fix removes.
* **pressure_rising_beyond, first sample.**  "not falling faster than `fast_fall_ratio`" needs a
  previous sample.  The plugin pretends the previous 10 s value was 100.  `rising_iff` states this
  (`prev10 [] = 10000`); `holds` does not demand it: on the first tick it only requires STOP when
  the 60 s window or the 10 s level fails, and accepts either verdict otherwise.  The fall test is
  a `float` product in the code; `holds` evaluates it over the rationals and accepts either verdict
  when the two sides are within 10⁻⁵ (relative) of each other.
* **Watched cgroup.**  "the cgroup under the most pressure" is the arg-max of the weighted score
  `3·avg10 + 2·avg60 + avg300` used by the code (the text names no other score); with several
  maximal cgroups any of them may be the watched one (`watched_pressure_sound/complete`), and when
  no cgroup resolves, or all scores are 0, the watched value is 0.  For memory_above the watched
  value is the largest usage (0 when nothing resolves; unreadable files count as 0, as
  `value_or(0)` does).  `holds` searches over the choices among tied cgroups.
* **swap_free.**  "free:total below `threshold_pct` %" is decided exactly (`free·100 < total·pct`);
  the code truncates `total·pct/100` first, which is the same decision whenever total and used are
  multiples of 1024, as everything `Oomd::updateContext` computes from `/proc/swaps` is
  (`swap_free_iff`).  The generator keeps to such values and to `0 ≤ pct`, `total·pct < 2⁶⁴`.
* memory_above thresholds: only `N`, `N%` and integer `N[KMGT]` components are generated (the
  parser itself is C12's subject); the model's `parseThreshold` covers exactly those.
-/

namespace C08
open OomdModel.Detect

/-! ## histories -/

/-- tick of a pressure detector: clock, pressures of the resolved cgroups (hundredths) in iteration order -/
structure PTick where
  t : Nat
  cgs : List P3

/-- tick of memory_above: clock, usages of the resolved cgroups -/
structure MTick where
  t : Nat
  usages : List Nat

/-- tick of memory_reclaim: clock, pgscan counters of the resolved cgroups -/
structure RTick where
  t : Nat
  pgscans : List Nat

/-- clock readings of a history: positive, non-decreasing -/
def WFClock {ι : Type} (tm : ι → Nat) (h : List ι) : Prop :=
  (∀ x ∈ h, 0 < tm x) ∧ h.Pairwise (fun a b => tm a ≤ tm b)

/-- The trace a detector produces over a history is, tick by tick, the verdict of the last tick of
the corresponding prefix - so the per-tick theorems below describe every entry of the trace. -/
theorem trace_getElem {σ ι : Type} (step : σ → ι → σ × Bool) (init : σ) (h : List ι) (n : Nat)
    (hn : n < h.length) :
    (runDet step init h)[n]? = some (lastVerdict step init (h.take n) h[n]) := by
  have hsplit : h = h.take n ++ h[n] :: h.drop (n + 1) := by
    rw [List.getElem_cons_drop, List.take_append_drop]
  have hlen : (runDet step init (h.take n)).length = n := by
    rw [runDet_length, List.length_take]; omega
  conv => lhs; rw [hsplit, runDet_append]
  rw [List.getElem?_append_right (by omega), hlen]
  simp [runDet, lastVerdict]

/-! ## pressure_above / memory_above: the duration window -/

def paStep (thr dur : Int) (hit : Nat) (x : PTick) : Nat × Bool := pressureAboveStep thr dur hit x.t x.cgs
def maStep (thr dur : Int) (hit : Nat) (x : MTick) : Nat × Bool := memoryAboveStep thr dur hit x.t x.usages

/-- **pressure_above**: CONTINUE at the last tick `s` of the history `pre ++ [s]` iff the history ends
with a block `f :: r` of ticks at every one of which the watched 10 s pressure was strictly above the
threshold, and whose first tick `f` was taken at least `dur` seconds before `s`. -/
theorem pressure_above_iff (thr dur : Int) (pre : List PTick) (s : PTick)
    (w : WFClock PTick.t (pre ++ [s])) :
    lastVerdict (paStep thr dur) 0 pre s = true ↔
      ∃ a f r, pre ++ [s] = a ++ f :: r ∧ (∀ x ∈ f :: r, 100 * thr < ((watchP x.cgs).s10 : Int)) ∧
        dur * (NS : Int) ≤ (s.t : Int) - (f.t : Int) := by
  have e : paStep thr dur = wStep PTick.t (fun x => exceedsP thr (watchP x.cgs).s10) dur := rfl
  have := window_iff PTick.t (fun x => exceedsP thr (watchP x.cgs).s10) dur pre s w
  rw [e]
  simpa [DocWin, exceedsP] using this

/-- **memory_above** (`thr` in bytes): same window over the largest usage. -/
theorem memory_above_iff (thr dur : Int) (pre : List MTick) (s : MTick)
    (w : WFClock MTick.t (pre ++ [s])) :
    lastVerdict (maStep thr dur) 0 pre s = true ↔
      ∃ a f r, pre ++ [s] = a ++ f :: r ∧ (∀ x ∈ f :: r, thr < (watchMem x.usages : Int)) ∧
        dur * (NS : Int) ≤ (s.t : Int) - (f.t : Int) := by
  have e : maStep thr dur = wStep MTick.t (fun x => decide (thr < (watchMem x.usages : Int))) dur := rfl
  have := window_iff MTick.t (fun x => decide (thr < (watchMem x.usages : Int))) dur pre s w
  rw [e]
  simpa [DocWin] using this

/-- The whole trace of pressure_above, entry by entry. -/
theorem pressure_above_trace (thr dur : Int) (h : List PTick) (w : WFClock PTick.t h) (n : Nat)
    (hn : n < h.length) :
    (runDet (paStep thr dur) 0 h)[n]? = some true ↔
      ∃ a f r, h.take (n + 1) = a ++ f :: r ∧ (∀ x ∈ f :: r, 100 * thr < ((watchP x.cgs).s10 : Int)) ∧
        dur * (NS : Int) ≤ (h[n].t : Int) - (f.t : Int) := by
  rw [trace_getElem _ _ _ _ hn]
  have ht : h.take (n + 1) = h.take n ++ [h[n]] := by
    rw [List.take_add_one]; simp [List.getElem?_eq_getElem hn]
  have w' : WFClock PTick.t (h.take n ++ [h[n]]) := by
    rw [← ht]
    have hh : h = h.take (n + 1) ++ h.drop (n + 1) := (List.take_append_drop _ _).symm
    rw [hh] at w
    exact WFC_prefix PTick.t w
  rw [ht, Option.some_inj]
  exact pressure_above_iff thr dur _ _ w'

/-- A single non-exceeding sample restarts the duration clock: nothing before it, nor itself,
influences a later verdict (no hypothesis on the clock needed). -/
theorem pressure_above_restart (thr dur : Int) (a : List PTick) (x : PTick) (r : List PTick) (s : PTick)
    (hx : ¬ 100 * thr < ((watchP x.cgs).s10 : Int)) :
    lastVerdict (paStep thr dur) 0 (a ++ x :: r) s = lastVerdict (paStep thr dur) 0 r s :=
  window_restart PTick.t (fun x => exceedsP thr (watchP x.cgs).s10) dur a x r s (by simp [exceedsP, hx])

theorem memory_above_restart (thr dur : Int) (a : List MTick) (x : MTick) (r : List MTick) (s : MTick)
    (hx : ¬ thr < (watchMem x.usages : Int)) :
    lastVerdict (maStep thr dur) 0 (a ++ x :: r) s = lastVerdict (maStep thr dur) 0 r s :=
  window_restart MTick.t (fun x => decide (thr < (watchMem x.usages : Int))) dur a x r s (by simp [hx])

/-! ## pressure_rising_beyond -/

def riseStep (falling : Nat → Nat → Bool) (thr dur : Int) (st : RiseSt) (x : PTick) : RiseSt × Bool :=
  risingStep falling thr dur st x.t x.cgs

/-- watched 10 s pressure of the previous tick; 100.00 before the first tick (`last_pressure_{100,100,100}`) -/
def prev10 (pre : List PTick) : Nat :=
  match pre.getLast? with
  | none => 10000
  | some y => (watchP y.cgs).s10

private theorem riseState (falling : Nat → Nat → Bool) (thr dur : Int) (h : List PTick) :
    stateAfter (riseStep falling thr dur) RiseSt.init h =
      ⟨stateAfter (wStep PTick.t (fun x => exceedsP thr (watchP x.cgs).s60) dur) 0 h, prev10 h⟩ := by
  induction h using snocInd with
  | nil => rfl
  | snoc l x ih =>
    rw [stateAfter_snoc, stateAfter_snoc, ih]
    simp [riseStep, risingStep, wStep, prev10]

/-- **pressure_rising_beyond**: CONTINUE iff the watched 1-minute pressure has been strictly above the
threshold at every tick since a tick at least `dur` seconds ago, the watched 10 s pressure is above
the threshold now, and it is not falling rapidly with respect to the previous tick's watched 10 s
pressure - for every fall test `falling cur last` (the code's float product, or the exact one). -/
theorem rising_iff (falling : Nat → Nat → Bool) (thr dur : Int) (pre : List PTick) (s : PTick)
    (w : WFClock PTick.t (pre ++ [s])) :
    lastVerdict (riseStep falling thr dur) RiseSt.init pre s = true ↔
      (∃ a f r, pre ++ [s] = a ++ f :: r ∧ (∀ x ∈ f :: r, 100 * thr < ((watchP x.cgs).s60 : Int)) ∧
        dur * (NS : Int) ≤ (s.t : Int) - (f.t : Int)) ∧
      100 * thr < ((watchP s.cgs).s10 : Int) ∧
      falling (watchP s.cgs).s10 (prev10 pre) = false := by
  have hw := window_iff PTick.t (fun x => exceedsP thr (watchP x.cgs).s60) dur pre s w
  have hv : lastVerdict (riseStep falling thr dur) RiseSt.init pre s =
      (lastVerdict (wStep PTick.t (fun x => exceedsP thr (watchP x.cgs).s60) dur) 0 pre s &&
        exceedsP thr (watchP s.cgs).s10 && !falling (watchP s.cgs).s10 (prev10 pre)) := by
    simp only [lastVerdict, riseState]
    simp [riseStep, risingStep, wStep]
  rw [hv]
  simp only [Bool.and_eq_true, hw, Bool.not_eq_true', and_assoc]
  simp [DocWin, exceedsP]

/-- with the exact (rational) fall test, ratio `num / den`: "falling rapidly" is
`cur < last · num/den` -/
theorem rising_iff_exact (num den : Nat) (thr dur : Int) (pre : List PTick) (s : PTick)
    (w : WFClock PTick.t (pre ++ [s])) :
    lastVerdict (riseStep (fallingRat num den) thr dur) RiseSt.init pre s = true ↔
      (∃ a f r, pre ++ [s] = a ++ f :: r ∧ (∀ x ∈ f :: r, 100 * thr < ((watchP x.cgs).s60 : Int)) ∧
        dur * (NS : Int) ≤ (s.t : Int) - (f.t : Int)) ∧
      100 * thr < ((watchP s.cgs).s10 : Int) ∧
      ¬ (watchP s.cgs).s10 * den < prev10 pre * num := by
  rw [rising_iff _ _ _ _ _ w]
  simp [fallingRat]

/-! ## memory_reclaim -/

def recStep (dur : Int) (st : RecSt) (x : RTick) : RecSt × Bool := reclaimStep dur st x.t x.pgscans

def pgSum (x : RTick) : Nat := x.pgscans.foldl (· + ·) 0

/-- sum at the last tick of a history; 0 for the empty history (`last_pgscan_{0}`) -/
def prevPgSum (a : List RTick) : Nat :=
  match a.getLast? with
  | none => 0
  | some y => pgSum y

/-- **memory_reclaim** (with the fix): CONTINUE iff at some tick `g` of the history the pgscan sum was
larger than at the tick before it, and `g` is at most `dur` whole seconds old. -/
theorem reclaim_iff (dur : Int) (pre : List RTick) (s : RTick) (w : WFClock RTick.t (pre ++ [s])) :
    lastVerdict (recStep dur) RecSt.init pre s = true ↔
      ∃ a g r, pre ++ [s] = a ++ g :: r ∧ prevPgSum a < pgSum g ∧
        (((s.t - g.t) / NS : Nat) : Int) ≤ dur := by
  have e : recStep dur = rStep RTick.t RTick.pgscans dur := rfl
  have hp : ∀ a : List RTick, prevSum RTick.pgscans a = prevPgSum a := by
    intro a; unfold prevSum prevPgSum; cases a.getLast? <;> rfl
  have hs : ∀ g : RTick, sumOf RTick.pgscans g = pgSum g := fun _ => rfl
  have := OomdModel.Detect.reclaim_iff RTick.t RTick.pgscans dur pre s w
  rw [e]
  simpa only [DocRec, hp, hs] using this

/-- the two-sided real-time reading used by `holds`: growth within `dur` seconds ⇒ CONTINUE;
CONTINUE ⇒ growth less than `dur + 1` seconds ago. -/
theorem reclaim_bounds (dur : Int) (pre : List RTick) (s : RTick) (w : WFClock RTick.t (pre ++ [s])) :
    ((∃ a g r, pre ++ [s] = a ++ g :: r ∧ prevPgSum a < pgSum g ∧
        (s.t : Int) - (g.t : Int) ≤ dur * (NS : Int)) →
      lastVerdict (recStep dur) RecSt.init pre s = true) ∧
    (lastVerdict (recStep dur) RecSt.init pre s = true →
      ∃ a g r, pre ++ [s] = a ++ g :: r ∧ prevPgSum a < pgSum g ∧
        (s.t : Int) - (g.t : Int) < (dur + 1) * (NS : Int)) := by
  rw [reclaim_iff dur pre s w]
  have hlast : ∀ a g r, pre ++ [s] = a ++ g :: r → g.t ≤ s.t := by
    intro a g r h
    apply WFC_le_last RTick.t w
    rw [h]; simp
  constructor
  · rintro ⟨a, g, r, h, hg, hd⟩
    refine ⟨a, g, r, h, hg, ?_⟩
    have hle := hlast a g r h
    have h1 : (((s.t - g.t) / NS : Nat) : Int) * (NS : Int) ≤ ((s.t - g.t : Nat) : Int) := by
      have := Nat.div_mul_le_self (s.t - g.t) NS
      exact_mod_cast this
    have h2 : ((s.t - g.t : Nat) : Int) = (s.t : Int) - (g.t : Int) := by omega
    have hns : (0 : Int) < (NS : Int) := NS_pos
    by_cases hc : (((s.t - g.t) / NS : Nat) : Int) ≤ dur
    · exact hc
    · exfalso
      have h3 : (dur + 1) * (NS : Int) ≤ (((s.t - g.t) / NS : Nat) : Int) * (NS : Int) :=
        Int.mul_le_mul_of_nonneg_right (by omega) (by omega)
      have h4 : (dur + 1) * (NS : Int) = dur * (NS : Int) + (NS : Int) := by
        rw [Int.add_mul, Int.one_mul]
      omega
  · rintro ⟨a, g, r, h, hg, hd⟩
    refine ⟨a, g, r, h, hg, ?_⟩
    have hle := hlast a g r h
    have h2 : ((s.t - g.t : Nat) : Int) = (s.t : Int) - (g.t : Int) := by omega
    have h1 : ((s.t - g.t : Nat) : Int) < ((((s.t - g.t) / NS : Nat) : Int) + 1) * (NS : Int) := by
      have := Nat.lt_div_mul_add (a := s.t - g.t) (b := NS) (by decide)
      have h5 : s.t - g.t < ((s.t - g.t) / NS + 1) * NS := by
        rw [Nat.add_mul, Nat.one_mul]; exact this
      exact_mod_cast h5
    have h3 : ((((s.t - g.t) / NS : Nat) : Int) + 1) * (NS : Int) ≤ (dur + 1) * (NS : Int) :=
      Int.mul_le_mul_of_nonneg_right (by omega) (by decide)
    omega

/-- A history in which pgscan never grows gives STOP at every tick (fixed code) … -/
theorem reclaim_never_grew (dur : Int) (pre : List RTick) (s : RTick) (w : WFClock RTick.t (pre ++ [s]))
    (h0 : ∀ x ∈ pre ++ [s], pgSum x = 0) :
    lastVerdict (recStep dur) RecSt.init pre s = false := by
  cases hv : lastVerdict (recStep dur) RecSt.init pre s
  · rfl
  · obtain ⟨a, g, r, h, hg, _⟩ := (reclaim_iff dur pre s w).1 hv
    have : pgSum g = 0 := h0 g (by rw [h]; simp)
    omega

/-- … whereas the code on the pinned commit answers CONTINUE 5 s after boot with `duration = 10`
although pgscan is 0 and stays 0 (replayed on the real plugin: corpus/C08/reclaim-epoch.json). -/
theorem reclaim_unfixed_counterexample :
    lastVerdict (fun st (x : RTick) => reclaimStepUnfixed 10 st x.t x.pgscans) RecSt.init
      [] ⟨5 * NS, [0]⟩ = true := by decide

/-! ## the watched value -/

/-- the value the selection loop ends with is a maximum of the weighted score, and is one of the
cgroups' values unless it is the all-zero default -/
theorem watched_is_argmax (l : List P3) :
    (∀ x ∈ l, x.score ≤ (watchP l).score) ∧ (watchP l = P3.zero ∨ watchP l ∈ l) :=
  ⟨(foldl_pickP_spec l P3.zero).2.2, watchP_mem_or_zero l⟩

/-- ties: in whatever order the set is walked, the watched value is one of `watchCands` (the cgroups
of maximal positive score, or the zero default) … -/
theorem watched_pressure_sound (l l' : List P3) (p : l'.Perm l) : watchP l' ∈ watchCands l :=
  watchP_perm_mem_cands p

/-- … and every one of them is the watched value for some order: the acceptor is exact. -/
theorem watched_pressure_complete (l : List P3) (c : P3) (hc : c ∈ watchCands l) :
    ∃ l', l'.Perm l ∧ watchP l' = c :=
  watchCands_complete hc

/-- memory_above watches the largest usage (0 when nothing resolves), whatever the order. -/
theorem watched_memory (l l' : List Nat) (p : l'.Perm l) :
    watchMem l' = watchMem l ∧ (∀ x ∈ l, x ≤ watchMem l) ∧ (watchMem l = 0 ∨ watchMem l ∈ l) :=
  ⟨watchMem_perm p, watchMem_spec l⟩

/-- memory_reclaim adds the counters up: the order does not matter. -/
theorem reclaim_sum_perm (l l' : List Nat) (p : l'.Perm l) :
    l'.foldl (· + ·) 0 = l.foldl (· + ·) 0 := by
  have : ∀ (l : List Nat), l.foldl (· + ·) 0 = l.sum := by
    intro l; rw [List.sum_eq_foldl]
  rw [this, this]; exact p.sum_nat

/-! ## instantaneous detectors -/

/-- **swap_free**: with `total`, `used` multiples of 1024 (as `/proc/swaps` yields), `used ≤ total`,
a non-negative percentage and no 64-bit overflow, the truncating unsigned computation of the code
decides exactly "free/total < pct %" and "swap-out rate ≥ threshold". -/
theorem swap_free_iff (pct bpsThr : Int) (total used : Nat) (rate : Int)
    (hk : 1024 ∣ total) (hu : 1024 ∣ used) (hle : used ≤ total) (ht : total < 2 ^ 64)
    (hp0 : 0 ≤ pct) (hov : total * pct.toNat < 2 ^ 64) (hp : pct < 2 ^ 64) :
    swapFreeVerdict pct bpsThr total used rate = true ↔
      ((total - used) * 100 < total * pct.toNat ∧ bpsThr ≤ rate) := by
  obtain ⟨a, rfl⟩ := hk
  obtain ⟨b, rfl⟩ := hu
  have hpu : toU64 pct = pct.toNat := by
    unfold toU64 U64
    have : pct % ((2 ^ 64 : Nat) : Int) = pct := Int.emod_eq_of_lt hp0 (by exact_mod_cast hp)
    rw [this]
  unfold swapFreeVerdict
  simp only [hpu, Bool.and_eq_true, decide_eq_true_eq]
  have hU : U64 = 2 ^ 64 := rfl
  rw [hU]
  generalize pct.toNat = p at *
  have e1 : 1024 * a * p % 2 ^ 64 = 1024 * a * p := Nat.mod_eq_of_lt hov
  have e2 : (1024 * a + (2 ^ 64 - 1024 * b % 2 ^ 64)) % 2 ^ 64 = 1024 * a - 1024 * b := by omega
  rw [e1, e2]
  have e3 : 1024 * a * p = 1024 * (a * p) := Nat.mul_assoc _ _ _
  have e4 : (1024 * a - 1024 * b) = 1024 * (a - b) := by omega
  rw [e3, e4]
  generalize a * p = q
  generalize a - b = c
  constructor
  · rintro ⟨h, hr⟩; exact ⟨by omega, hr⟩
  · rintro ⟨h, hr⟩; exact ⟨by omega, hr⟩

/-- **exists**: CONTINUE iff (some configured pattern resolves to at least one cgroup) ≠ negate. -/
theorem exists_iff {α : Type} (negate : Bool) (resolved : List (List α)) :
    existsVerdict negate resolved = true ↔ ((∃ r ∈ resolved, r ≠ []) ↔ negate = false) := by
  unfold existsVerdict
  have h : (resolved.any fun r => !r.isEmpty) = true ↔ ∃ r ∈ resolved, r ≠ [] := by
    simp [List.any_eq_true]
  cases negate <;> cases ha : (resolved.any fun r => !r.isEmpty) <;> simp [← h, ha]

/-- **nr_dying_descendants**: CONTINUE iff some resolved cgroup with a readable cgroup.stat satisfies
the comparison (`<= count` when `lte`, `> count` otherwise). -/
theorem nr_dying_iff (lte : Bool) (count : Int) (nrs : List Nat) :
    dyingVerdict lte count nrs = true ↔
      ∃ n ∈ nrs, if lte = true then (n : Int) ≤ count else count < (n : Int) := by
  unfold dyingVerdict
  cases lte <;> simp [List.any_eq_true]

/-! ## constants of the code the model relies on (regenerated from /repo by tools/extract.py) -/

/-- the watched-cgroup score of both pressure detectors is `3·avg10 + 2·avg60 + avg300` -/
theorem pin_score_weights (p : P3) :
    p.score = OomdModel.Generated.detectScoreW10 * p.s10 + OomdModel.Generated.detectScoreW60 * p.s60 + p.s300 ∧
    p.score = OomdModel.Generated.detectRisingScoreW10 * p.s10 + OomdModel.Generated.detectRisingScoreW60 * p.s60 + p.s300 := by
  simp [P3.score, OomdModel.Generated.detectScoreW10, OomdModel.Generated.detectScoreW60,
    OomdModel.Generated.detectRisingScoreW10, OomdModel.Generated.detectRisingScoreW60]

/-- `last_pressure_{100, 100, 100}`: the previous 10 s value assumed before the first sample -/
theorem pin_rising_initial_last : RiseSt.init.last10 = 100 * OomdModel.Generated.detectRisingInitLast10 := by
  decide

/-- docs/core_plugins.md: `fast_fall_ratio=0.85 (optional)` -/
theorem pin_default_fast_fall_ratio : OomdModel.Generated.detectRisingDefFastFallRatio = "0.85" := by
  decide

/-! ## non-vacuity: concrete histories that satisfy the hypotheses and exercise both verdicts -/

/-- two cgroups, threshold 80, duration 3 s; ticks at 1000 s, 1002 s, 1003.5 s all above -/
example :
    WFClock PTick.t [⟨1000 * NS, [⟨9000, 100, 0⟩, ⟨100, 100, 0⟩]⟩, ⟨1002 * NS, [⟨8500, 0, 0⟩]⟩,
      ⟨1003 * NS + 500000000, [⟨8001, 0, 0⟩]⟩] ∧
    runDet (paStep 80 3) 0 [⟨1000 * NS, [⟨9000, 100, 0⟩, ⟨100, 100, 0⟩]⟩, ⟨1002 * NS, [⟨8500, 0, 0⟩]⟩,
      ⟨1003 * NS + 500000000, [⟨8001, 0, 0⟩]⟩] = [false, false, true] := by
  refine ⟨⟨by decide, by decide⟩, by decide⟩

example : runDet (recStep 10) RecSt.init [⟨5 * NS, [0]⟩, ⟨6 * NS, [3, 4]⟩, ⟨17 * NS, [7]⟩] = [false, true, false] := by
  decide

example : watchCands [⟨1000, 0, 0⟩, ⟨0, 1500, 0⟩, ⟨1, 1, 1⟩] = [⟨1000, 0, 0⟩, ⟨0, 1500, 0⟩] := by decide

example : swapFreeVerdict 10 0 1024000 (1024000 - 101376) 0 = true ∧
    swapFreeVerdict 10 0 1024000 (1024000 - 102400) 0 = false := by decide

end C08

import OomdProofs.Senpai
import OomdModel.Generated.Consts

/-!
# C18 — Senpai throttling stays within its floor / ceiling and respects its guards

Property theorems only.  Model: `OomdModel.Senpai` (the code with `fixes/C18-validate-swap.patch`);
vocabulary (`floorOf`, `ceilOf`, `LimitOK`, `ReclaimOK`, `PressureBelow`, `SwapBelow`, `Block`, `Blocks`,
`PokeReset`, `SwapRestored`, `walkById`) and helper lemmas: `OomdProofs.Senpai`.

Every statement quantifies over the numeric instance (`[Num α]` – IEEE doubles as executed by the
driver, or exact rationals), every configuration `cfg`, every plugin state `st` (sticky flags, tracked
map) and every history `hist : List (TickIn α)` – i.e. all statistics, all pressure histories, files
present or not, cgroups appearing / vanishing / changing identity between ticks.  A pair
`p ∈ List.zip hist (runHist cfg st hist)` is "a tick `p.1` of the history and the writes `p.2` the
plugin made in it".
-/

namespace C18
open OomdModel.Senpai

set_option linter.unusedSectionVars false
variable {α : Type} [Num α]

/-! ## the shape of a tick's writes -/

/-- Refinement to a tiny spec: in every tick of every history the writes are the concatenation of one
`Block` per resolved cgroup, in increasing id order; a block is empty, one start-of-tracking write of
the current usage, one adjusted limit, one memory.reclaim, or poke + reset – the last two possibly
bracketed by a swappiness change and its restoration. -/
theorem tick_is_blocks (cfg : Cfg α) (st : PState) (hist : List (TickIn α)) :
    ∀ p ∈ List.zip hist (runHist cfg st hist), Blocks cfg p.1.sys (sortById p.1.resolved) p.2 := by
  intro p hp
  obtain ⟨st', h⟩ := zip_runHist cfg hist st p hp
  rw [h]; exact runTick_blocks cfg st' p.1

/-- Every write satisfies the per-write clauses (`EvOK`) relative to a cgroup resolved in that tick. -/
theorem every_write_ok (cfg : Cfg α) (st : PState) (hist : List (TickIn α)) :
    ∀ p ∈ List.zip hist (runHist cfg st hist), ∀ e ∈ p.2, ∃ v ∈ p.1.resolved, EvOK cfg p.1.sys v e := by
  intro p hp e he
  obtain ⟨v, hv, hok⟩ := blocks_evOK cfg p.1.sys (tick_is_blocks cfg st hist p hp) e he
  exact ⟨v, mem_sortById.1 hv, hok⟩

/-! ## writes only to matched cgroups -/

/-- memory.high / memory.high.tmp / memory.reclaim are written only for cgroups the `cgroup` argument
resolved to in that tick; swappiness only in immediate-backoff mode with `modulate_swappiness`. -/
theorem writes_only_matched (cfg : Cfg α) (st : PState) (hist : List (TickIn α)) :
    ∀ p ∈ List.zip hist (runHist cfg st hist), ∀ e ∈ p.2,
      match e with
      | .high cg _ _ _ => ∃ v ∈ p.1.resolved, v.id = cg
      | .reclaim cg _ => ∃ v ∈ p.1.resolved, v.id = cg
      | .swappiness _ => cfg.immediateBackoff = true ∧ cfg.modulateSwappiness = true := by
  intro p hp e he
  obtain ⟨v, hv, hok⟩ := every_write_ok cfg st hist p hp e he
  cases e with
  | high cg tmp val why =>
    cases why <;> exact ⟨v, hv, hok.1.symm⟩
  | reclaim cg size => exact ⟨v, hv, hok.1.symm⟩
  | swappiness x => exact hok

/-! ## limits stay between floor and ceiling -/

/-- In limit mode every value written to memory.high / memory.high.tmp is the cgroup's current usage
(start or restart of tracking) or an adjusted value that is 4 KiB aligned, less than one page below the
floor, and not above the ceiling unless the floor itself exceeds it. -/
theorem limit_bounds (cfg : Cfg α) (hmode : cfg.immediateBackoff = false) (st : PState) (hist : List (TickIn α)) :
    ∀ p ∈ List.zip hist (runHist cfg st hist), ∀ cg tmp val why, Ev.high cg tmp val why ∈ p.2 →
      ∃ v ∈ p.1.resolved, v.id = cg ∧
        ((why = .start ∧ v.current = some val) ∨
         (why = .adjust ∧ ∃ lo hi, floorOf cfg p.1.sys v = some lo ∧ ceilOf cfg tmp v = some hi ∧ LimitOK lo hi val)) := by
  intro p hp cg tmp val why he
  obtain ⟨v, hv, hok⟩ := every_write_ok cfg st hist p hp _ he
  refine ⟨v, hv, ?_⟩
  cases why with
  | start => exact ⟨hok.1.symm, Or.inl ⟨rfl, hok.2.2⟩⟩
  | adjust => exact ⟨hok.1.symm, Or.inr ⟨rfl, hok.2.2⟩⟩
  | poke => have := hok.2.1; simp [hmode] at this
  | reset => have := hok.2.1; simp [hmode] at this

/-- The lattice fact behind `limit_bounds`: whatever value the floating-point scaling produces, clamping
to [floor, ceiling] (floor wins) and clearing the low 12 bits gives an admissible limit. -/
theorem clamp_align_ok (lo hi x : Int) : LimitOK lo hi (alignDown (max lo (min hi x))) := limitOK_clamp lo hi x

/-- In limit mode nothing else is written: no memory.reclaim, no swappiness. -/
theorem limit_mode_writes_limits_only (cfg : Cfg α) (hmode : cfg.immediateBackoff = false) (st : PState)
    (hist : List (TickIn α)) :
    ∀ p ∈ List.zip hist (runHist cfg st hist), ∀ e ∈ p.2, ∃ cg tmp val why, e = Ev.high cg tmp val why := by
  intro p hp e he
  obtain ⟨v, _, hok⟩ := every_write_ok cfg st hist p hp e he
  cases e with
  | high cg tmp val why => exact ⟨cg, tmp, val, why, rfl⟩
  | reclaim cg size => have := hok.2.1; simp [hmode] at this
  | swappiness x => have := hok.1; simp [hmode] at this

/-! ## reclaim: size and guards (immediate-backoff mode) -/

/-- Every memory.reclaim write of `size`, and every poke (a limit of usage − `size`), happens only for a
resolved cgroup whose memory and io `some` pressure are below target, whose swap utilisation – with
swap validation on – is below the threshold (or there is no swap), whose usage is above the floor, and
`size` is the page-aligned truncation of max_probe × (usage − floor). -/
theorem reclaim_bound (cfg : Cfg α) (st : PState) (hist : List (TickIn α)) :
    ∀ p ∈ List.zip hist (runHist cfg st hist),
      (∀ cg size, Ev.reclaim cg size ∈ p.2 → ∃ v ∈ p.1.resolved, v.id = cg ∧ ReclaimOK cfg p.1.sys v size) ∧
      (∀ cg tmp val, Ev.high cg tmp val .poke ∈ p.2 → ∃ v ∈ p.1.resolved, v.id = cg ∧
          ∃ cur size, v.current = some cur ∧ val = cur - size ∧ ReclaimOK cfg p.1.sys v size) := by
  intro p hp
  constructor
  · intro cg size he
    obtain ⟨v, hv, hok⟩ := every_write_ok cfg st hist p hp _ he
    exact ⟨v, hv, hok.1.symm, hok.2.2⟩
  · intro cg tmp val he
    obtain ⟨v, hv, hok⟩ := every_write_ok cfg st hist p hp _ he
    exact ⟨v, hv, hok.1.symm, hok.2.2⟩

/-- In exact arithmetic an admissible reclaim is at most max_probe × (usage − floor) bytes
(for a negative max_probe it is at most 0). -/
theorem reclaim_amount_exact (cfg : Cfg Rat) (sys : Sys Rat) (v : View Rat) (size : Int)
    (h : ReclaimOK cfg sys v size) :
    ∃ cur lo, v.current = some cur ∧ floorOf cfg sys v = some lo ∧ lo < cur ∧ size % 4096 = 0 ∧
      ((size : Rat) ≤ cfg.maxProbe * ((cur - lo : Int) : Rat) ∨ (cfg.maxProbe < 0 ∧ size ≤ 0)) := by
  obtain ⟨cur, lo, hc, hlo, hlt, hsz⟩ := h.amount
  refine ⟨cur, lo, hc, hlo, hlt, h.aligned, ?_⟩
  rw [hsz]
  exact reclaim_amount_rat cfg.maxProbe (cur - lo) (by omega)

/-- The defect of the unpatched tree (Senpai.cpp:682, `>=`), for every input where swap is present:
the unpatched `validateSwap` lets Senpai proceed exactly when utilisation is NOT below the threshold. -/
theorem unfixed_validateSwap_inverted (cfg : Cfg Rat) (sys : Sys Rat) (v : View Rat) (m : Int) (u : Rat)
    (h1 : sys.swaptotal ≠ 0) (h2 : sys.swappiness ≠ 0) (hm : v.effSwapMax = some m) (hm0 : m ≠ 0)
    (hu : v.effSwapUtil = some u) :
    (validateSwapUnfixed cfg sys v = some true ↔ ¬ u < cfg.swapThreshold) ∧
    (validateSwap cfg sys v = some true ↔ u < cfg.swapThreshold) := by
  simp only [validateSwapUnfixed, validateSwap, h1, h2, or_self, if_false, hm, hm0, hu, Option.some.injEq]
  constructor
  · show decide (cfg.swapThreshold ≤ u) = true ↔ _
    rw [decide_eq_true_iff, Rat.not_lt]
  · show decide (u < cfg.swapThreshold) = true ↔ _
    rw [decide_eq_true_iff]

/-! ## poke and swappiness are undone in the same tick -/

/-- Reading the writes of any tick in order, every poke of a limit file is followed immediately by the
reset of the same file of the same cgroup to max. -/
theorem poke_reset_same_tick (cfg : Cfg α) (st : PState) (hist : List (TickIn α)) :
    ∀ p ∈ List.zip hist (runHist cfg st hist), PokeReset p.2 := by
  intro p hp
  exact blocks_poke cfg p.1.sys (tick_is_blocks cfg st hist p hp)

/-- Swappiness writes of a tick come in pairs: a change, then – after the reclaim – the restoration of
the value the SystemContext reported; every tick ends restored. -/
theorem swappiness_restored (cfg : Cfg α) (st : PState) (hist : List (TickIn α)) :
    ∀ p ∈ List.zip hist (runHist cfg st hist), SwapRestored p.1.sys.swappiness p.2 := by
  intro p hp
  exact blocks_swap cfg p.1.sys (tick_is_blocks cfg st hist p hp)

/-! ## state is keyed by cgroup identity -/

/-- `run` stated by identity -/
def runTickById (cfg : Cfg α) (st : PState) (t : TickIn α) : PState × List Ev :=
  let o := walkById cfg t.sys st.tracked st.fl (sortById t.resolved)
  ({ fl := o.fl, tracked := o.tracked }, o.evs)

/-- The merge walk of `Senpai::run` (two iterators over id-sorted sequences) does exactly this: each
resolved cgroup is stepped with the state stored under its own inode – ticked if there is one,
initialised if there is none – and entries of cgroups that are no longer resolved are dropped; the new
map is again sorted and holds only identities resolved in this tick. -/
theorem state_by_identity (cfg : Cfg α) (st : PState) (t : TickIn α)
    (hst : SortedIds st.tracked) (hid : (t.resolved.map (·.id)).Nodup) :
    runTick cfg st t = runTickById cfg st t ∧
    SortedIds (runTick cfg st t).1.tracked ∧
    ∀ q ∈ (runTick cfg st t).1.tracked, ∃ v ∈ t.resolved, v.id = q.1 := by
  have hs := sortById_sorted t.resolved hid
  have he : runTick cfg st t = runTickById cfg st t := by
    simp only [runTick, runTickById]
    rw [walk_eq_walkById cfg t.sys _ st.fl (sortById t.resolved) st.tracked (Nat.le_refl _) hs hst]
  refine ⟨he, ?_⟩
  rw [he]
  obtain ⟨h1, h2⟩ := walkById_tracked cfg t.sys st.tracked (sortById t.resolved) st.fl hs
  refine ⟨h1, fun q hq => ?_⟩
  obtain ⟨v, hv, e⟩ := h2 q hq
  exact ⟨v, mem_sortById.1 hv, e⟩

/-- the states a history passes through, starting from a freshly constructed plugin -/
def stateAfter (cfg : Cfg α) : PState → List (TickIn α) → PState
  | st, [] => st
  | st, t :: rest => stateAfter cfg (runTick cfg st t).1 rest

/-- The hypothesis of `state_by_identity` holds along every history that starts from the initial state
and in which distinct resolved cgroups have distinct inodes. -/
theorem tracked_sorted_invariant (cfg : Cfg α) :
    ∀ (hist : List (TickIn α)) (st : PState), SortedIds st.tracked →
      (∀ t ∈ hist, (t.resolved.map (·.id)).Nodup) → SortedIds (stateAfter cfg st hist).tracked := by
  intro hist
  induction hist with
  | nil => intro st h _; exact h
  | cons t rest ih =>
    intro st h hn
    exact ih _ (state_by_identity cfg st t h (hn t (List.mem_cons_self ..))).2.1
      (fun t' ht' => hn t' (List.mem_cons_of_mem _ ht'))

/-- An identity that is not in the map (never seen, removed, or re-created under a new inode) is
initialised – `lookup` finds nothing, so `stepById` is `initializeCgroup` – never ticked from old state. -/
theorem fresh_identity_is_initialised (cfg : Cfg α) (sys : Sys α) (fl : Flags) (old : List (Nat × CgState))
    (v : View α) (h : v.id ∉ old.map (·.1)) :
    stepById cfg sys fl v (lookup old v.id) = initializeCgroup cfg fl v := by
  rw [(lookup_eq_none_iff old v.id).2 h]; rfl

/-- Initialisation never reclaims and, in limit mode, writes at most the current usage. -/
theorem initialise_writes (cfg : Cfg α) (fl : Flags) (v : View α) :
    (initializeCgroup cfg fl v).evs = [] ∨
    ∃ tmp cur, cfg.immediateBackoff = false ∧ v.current = some cur ∧
      (initializeCgroup cfg fl v).evs = [Ev.high v.id tmp cur .start] := by
  unfold initializeCgroup
  by_cases hi : cfg.immediateBackoff = true
  · left; simp only [hi, if_true]; split <;> rfl
  · have hi' : cfg.immediateBackoff = false := by simpa using hi
    simp only [hi', Bool.false_eq_true, if_false]
    cases hc : v.current with
    | none => left; rfl
    | some cur =>
      simp only
      rcases writeMemhigh_cases fl v cur .start with ⟨_, h2⟩ | ⟨tmp, _, h2, _⟩
      · left; split
        · exact h2
        · split <;> exact h2
      · right; refine ⟨tmp, cur, trivial, rfl, ?_⟩
        split
        · exact h2
        · split <;> exact h2

/-! ## `int64_t` is modelled by `Int`: the sums stay in range -/

/-- For statistics below 2^60 every sum formed while computing the floor is inside `int64_t`. -/
theorem floor_in_int64 (cfg : Cfg α) (sys : Sys α) (v : View α) (h : InRange cfg v) (lo : Int)
    (hlo : floorOf cfg sys v = some lo) :
    ∃ cur recl mmin, v.current = some cur ∧ getReclaimableBytes sys v = some recl ∧ v.memMin = some mmin ∧
      (0 ≤ recl ∧ recl < 2 ^ 62) ∧
      (-(2 ^ 62) < cur - recl ∧ cur - recl < 2 ^ 60) ∧
      (-(2 ^ 62) < cur - recl + cfg.limitMinBytes ∧ cur - recl + cfg.limitMinBytes < 2 ^ 61) ∧
      -(2 ^ 62) < lo ∧ lo ≤ int64Max := by
  obtain ⟨cur, recl, mmin, h1, h2, h3, h4, h5, _, h7, h8⟩ := floor_range h hlo
  exact ⟨cur, recl, mmin, h1, h2, h3, reclaimable_range h h2, h4, h5, h7, h8⟩

/-- … and so is the ceiling. -/
theorem ceil_in_int64 (cfg : Cfg α) (v : View α) (h : InRange cfg v) (tmp : Bool) (hi : Int)
    (hhi : ceilOf cfg tmp v = some hi) :
    ∃ cur, v.current = some cur ∧ (0 ≤ cur + cfg.limitMaxBytes ∧ cur + cfg.limitMaxBytes < 2 ^ 61) ∧
      0 ≤ hi ∧ hi < 2 ^ 61 := ceil_range h hhi

/-! ## tables the property names, tied to the source by the translator -/

open OomdModel.Generated in
theorem control_files :
    senpaiFileMemHigh = "memory.high" ∧ senpaiFileMemHighTmp = "memory.high.tmp" ∧
    senpaiFileMemReclaim = "memory.reclaim" := by decide

/-! ## the hypotheses are satisfiable, and the statements are not empty -/

/-- integer arithmetic as a numeric instance (only to evaluate a concrete instance below) -/
local instance intNum : Num Int where
  ofInt i := i
  toInt x := x
  add := (· + ·)
  sub := (· - ·)
  mul := (· * ·)
  div := Int.tdiv
  neg x := -x
  lt a b := decide (a < b)
  le a b := decide (a ≤ b)

def exCfg (imm : Bool) : Cfg Int where
  limitMinBytes := 0
  limitMaxBytes := 100000
  interval := 0
  pressureMs := 10
  memPressurePct := 10
  ioPressurePct := 10
  maxProbe := 1
  maxBackoff := 1
  coeffProbe := 10
  coeffBackoff := 1
  swapThreshold := 1
  swapoutBpsThreshold := 1
  swapValidation := true
  immediateBackoff := imm
  modulateSwappiness := true
  hostMemTotal := 100000000

def exSys : Sys Int where
  swaptotal := 0
  swapused := 0
  swappiness := 60
  swapoutBps60 := 0
  swapoutBps300 := 0

def exView (high : Option Int) (total : Int) : View Int where
  id := 7
  current := some 409600
  memStat := some { activeFile := some 204800, inactiveFile := some 0, activeAnon := some 0, inactiveAnon := some 0 }
  memMin := some 0
  memHigh := high
  memHighTmp := none
  memMax := some int64Max
  effSwapFree := some 0
  effSwapMax := some 0
  effSwapUtil := some 0
  memSome := some { avg10 := 0, avg60 := 0, total := total }
  ioSome := some { avg10 := 0, avg60 := 0, total := 0 }
  ctrlMemory := true
  highFile := true
  highTmpFile := false
  reclaimFile := false

/-- limit mode, three ticks of one cgroup: tracking starts at the usage (409600); with 20 ms of new
stall (≥ pressure_ms) the limit backs off – the doubled value 819200 is clamped to the ceiling
min(MemTotal, usage + limit_max_bytes) = 509600 and aligned down to 507904; a cgroup that is no
longer resolved is forgotten. -/
example :
    runHist (exCfg false) {}
      [⟨exSys, [exView (some int64Max) 0]⟩, ⟨exSys, [exView (some 409600) 20000]⟩, ⟨exSys, []⟩]
    = [[Ev.high 7 false 409600 .start], [Ev.high 7 false 507904 .adjust], []] := by
  simp [runHist, runTick, sortById, walk_cons_nil, walk_cons_cons, walk_nil, initializeCgroup, writeMemhigh,
    hasMemoryHighTmp, pressureTotal, exCfg, exView, exSys, keep, tickAny, tick, readMemhigh, adjust,
    getLimitMinBytes, getReclaimableBytes, getLimitMaxBytes, backoffFactor, scaled, minC, alignDown,
    Num.ofInt, Num.toInt, Num.add, Num.mul, Num.div, Num.lt, int64Max]
  decide

/-- immediate-backoff mode: nothing on the tick a cgroup is first seen; on the next tick (interval 0,
no pressure, no swap) it pokes memory.high to usage − reclaim size and resets it to max, between a
swappiness change and its restoration; the reclaim is admissible. -/
example :
    runHist (exCfg true) {} [⟨exSys, [exView (some int64Max) 0]⟩, ⟨exSys, [exView (some int64Max) 0]⟩]
    = [[], [Ev.swappiness 60, Ev.high 7 false 204800 .poke, Ev.high 7 false int64Max .reset, Ev.swappiness 60]] := by
  simp [runHist, runTick, sortById, walk_cons_nil, walk_cons_cons, walk_nil, initializeCgroup, writeMemhigh,
    hasMemoryHighTmp, hasMemoryReclaim, pressureTotal, exCfg, exView, exSys, keep, tickAny, tickImmediate,
    validatePressure, validateSwap, calculateSwappinessFactor, reclaim, resetMemhigh, reclaimSize,
    getLimitMinBytes, getReclaimableBytes, maxC, minC, alignDown,
    Num.ofInt, Num.toInt, Num.sub, Num.mul, Num.div, Num.lt, Num.le, int64Max]
  decide

example : SortedIds ({} : PState).tracked ∧ (([exView none 0].map (·.id))).Nodup := by
  constructor
  · exact List.Pairwise.nil
  · decide

def qCfg : Cfg Rat where
  limitMinBytes := 0
  limitMaxBytes := 100000
  interval := 0
  pressureMs := 10
  memPressurePct := 1
  ioPressurePct := 1
  maxProbe := 1
  maxBackoff := 1
  coeffProbe := 10
  coeffBackoff := 20
  swapThreshold := 1
  swapoutBpsThreshold := 1
  swapValidation := true
  immediateBackoff := true
  modulateSwappiness := false
  hostMemTotal := 100000000

def qSys : Sys Rat where
  swaptotal := 8192
  swapused := 4096
  swappiness := 60
  swapoutBps60 := 0
  swapoutBps300 := 0

def qView : View Rat where
  id := 7
  current := some 40960000
  memStat := some { activeFile := some 20480000, inactiveFile := some 0, activeAnon := some 0, inactiveAnon := some 0 }
  memMin := some 0
  memHigh := some int64Max
  memHighTmp := none
  memMax := some int64Max
  effSwapFree := some 4096
  effSwapMax := some 8192
  effSwapUtil := some 0
  memSome := some { avg10 := 0, avg60 := 0, total := 0 }
  ioSome := some { avg10 := 0, avg60 := 0, total := 0 }
  ctrlMemory := true
  highFile := true
  highTmpFile := false
  reclaimFile := true

/-- exact arithmetic: an admissible reclaim exists (hypothesis of `reclaim_amount_exact`), with swap
present and utilisation 0 below the threshold 1 (hypotheses of `unfixed_validateSwap_inverted`) -/
example : ReclaimOK qCfg qSys qView (reclaimSize qCfg 40960000 20480000) := by
  refine ⟨alignDown_mod _, ⟨_, _, rfl, rfl, by decide, by decide⟩, fun _ => Or.inr (Or.inr (Or.inr ⟨_, rfl, by decide⟩)), ⟨40960000, 20480000, rfl, by decide, by decide, rfl⟩⟩

example : qSys.swaptotal ≠ 0 ∧ qSys.swappiness ≠ 0 ∧ qView.effSwapMax = some 8192 ∧ qView.effSwapUtil = some 0 := by
  decide

end C18

import OomdProofs.Path

/-!
# C16 — Cgroup path algebra and wildcard / pattern matching are exact

Property theorems only.  The model is `OomdModel.Path`; helper lemmas are in
`OomdProofs.Path`.  All statements quantify over every string (`List Char`),
every component list and every directory tree.
-/

namespace C16
open OomdModel.Path

/-! ## canonical form -/

/-- Components of any constructed path are non-empty and contain no slash. -/
theorem canonical_components (fs s : Str) : WFParts (mk fs s).parts := wfParts_split s

/-- Re-parsing the relative path gives the same path. -/
theorem canonical_roundtrip (fs s : Str) : mk fs (relative (mk fs s)) = mk fs s := by
  simp only [mk, relative]
  rw [split_joinSlash _ (wfParts_split s)]

/-- A slash only separates: this one law yields the three corollaries below. -/
theorem slash_separates (a b : Str) : split (a ++ '/' :: b) '/' = split a '/' ++ split b '/' :=
  split_append_delim '/' a b

theorem leading_slash_ignored (fs s : Str) : mk fs ('/' :: s) = mk fs s := by
  have := slash_separates [] s
  simp only [List.nil_append, split_nil] at this
  simp [mk, this]

theorem trailing_slash_ignored (fs s : Str) : mk fs (s ++ ['/']) = mk fs s := by
  have := slash_separates s []
  simp only [split_nil, List.append_nil] at this
  simp [mk, this]

theorem duplicate_slash_ignored (fs a b : Str) :
    mk fs (a ++ '/' :: '/' :: b) = mk fs (a ++ '/' :: b) := by
  simp only [mk, slash_separates]
  have := slash_separates [] b
  simp only [List.nil_append, split_nil] at this
  rw [this]

theorem empty_is_root (fs : Str) : isRoot (mk fs []) = true := by
  simp [mk, isRoot, split_nil]

/-- A string without slash that is not empty is one component. -/
theorem single_component (fs c : Str) (hne : c ≠ []) (hs : '/' ∉ c) : (mk fs c).parts = [c] :=
  split_nodelim '/' c hs hne

/-! ## absolute path -/

theorem absolute_spec (p : CgPath) (h : WFParts p.parts) :
    absolute p = if p.parts = [] then p.fs else p.fs ++ '/' :: relative p := by
  unfold absolute relative
  by_cases e : p.parts = []
  · simp [e, joinSlash]
  · have : joinSlash p.parts ≠ [] := fun c => e ((joinSlash_eq_nil _ h).1 c)
    simp [e, this]

theorem absolute_root (fs : Str) : absolute (mk fs []) = stripFs fs := by
  simp [absolute, relative, mk, split_nil, joinSlash]

/-! ## child / parent -/

theorem root_has_no_parent (p : CgPath) (h : isRoot p = true) : getParent p = none := by
  simp [getParent, h]

theorem child_parent (p : CgPath) (c : Str) (hne : c ≠ []) (hs : '/' ∉ c) :
    getParent (getChild p c) = some p := by
  simp [getParent, getChild, isRoot, split_nodelim '/' c hs hne]

/-- iterate `getParent` -/
def parentN : Nat → CgPath → Option CgPath
  | 0, p => some p
  | n + 1, p => (getParent p).bind (parentN n)

theorem parentN_append (p : CgPath) :
    ∀ (n : Nat) (ext : List Str), ext.length = n →
      parentN n { p with parts := p.parts ++ ext } = some p := by
  intro n
  induction n with
  | zero => intro ext h; simp [List.length_eq_zero_iff.1 h, parentN]
  | succ n ih =>
    intro ext h
    have hne : ext ≠ [] := by intro e; simp [e] at h
    simp only [parentN, getParent, isRoot, List.isEmpty_iff, List.append_eq_nil_iff, hne, and_false, if_false, Option.bind_some, List.dropLast_append_of_ne_nil hne]
    exact ih ext.dropLast (by simp [h])

/-- For a general string `c`: as many parents as `c` has components. -/
theorem child_parent_general (p : CgPath) (c : Str) :
    parentN (split c '/').length (getChild p c) = some p :=
  parentN_append p _ (split c '/') rfl

/-! ## equality and hashing -/

theorem eq_iff_absolute (p q : CgPath) : eqv p q = true ↔ absolute p = absolute q := by
  simp [eqv]

theorem eq_hash (H : Str → Nat) (p q : CgPath) (h : eqv p q = true) : hashWith H p = hashWith H q := by
  simp only [hashWith, (eq_iff_absolute p q).1 h]

/-- Under one fs root, equal paths have equal components (no two component lists collide). -/
theorem eq_iff_parts (p q : CgPath) (hfs : p.fs = q.fs) (hp : WFParts p.parts) (hq : WFParts q.parts) :
    eqv p q = true ↔ p.parts = q.parts := by
  rw [eq_iff_absolute, absolute_spec p hp, absolute_spec q hq, hfs]
  constructor
  · intro h
    by_cases e1 : p.parts = [] <;> by_cases e2 : q.parts = []
    · rw [e1, e2]
    · simp only [e1, e2, if_true, if_false] at h
      have := congrArg List.length h
      simp at this
    · simp only [e1, e2, if_true, if_false] at h
      have := congrArg List.length h
      simp at this
    · simp only [e1, e2, if_false, List.append_cancel_left_eq, List.cons.injEq, true_and] at h
      exact joinSlash_inj _ _ hp hq h
  · intro h; simp [relative, h]

/-! ## prekill-hook pattern match: exactly the three documented cases -/

/-- whole-path match: same number of components, each equal or matched by `*` -/
def fullMatch : List Str → List Str → Bool
  | [], [] => true
  | a :: as, b :: bs => compMatch a b && fullMatch as bs
  | _, _ => false

/-- `*` stands for one whole component, and only when it is the whole pattern component. -/
theorem star_one_component (a b : Str) : compMatch a b = true ↔ a = b ∨ b = ['*'] := by
  simp [compMatch, star]

theorem pattern_three_cases (path pat : List Str) :
    prefixMatchParts path pat = true ↔
      fullMatch path pat = true
      ∨ (∃ ext, ext ≠ [] ∧ fullMatch (path ++ ext) pat = true)
      ∨ (∃ pre suf, suf ≠ [] ∧ path = pre ++ suf ∧ fullMatch pre pat = true) := by
  induction path generalizing pat with
  | nil =>
    cases pat with
    | nil => simp [prefixMatchParts, fullMatch]
    | cons b bs =>
      simp only [prefixMatchParts, true_iff]
      refine Or.inr (Or.inl ⟨b :: bs, by simp, ?_⟩)
      simp only [List.nil_append]
      generalize b :: bs = l
      induction l with
      | nil => rfl
      | cons x xs ih => simp [fullMatch, compMatch, ih]
  | cons a as ih =>
    cases pat with
    | nil =>
      simp only [prefixMatchParts, true_iff]
      exact Or.inr (Or.inr ⟨[], a :: as, by simp, by simp, rfl⟩)
    | cons b bs =>
      simp only [prefixMatchParts, Bool.and_eq_true, ih bs]
      constructor
      · rintro ⟨hc, h | ⟨ext, hne, h⟩ | ⟨pre, suf, hne, he, h⟩⟩
        · exact Or.inl (by simp [fullMatch, hc, h])
        · exact Or.inr (Or.inl ⟨ext, hne, by simp [fullMatch, hc, h]⟩)
        · exact Or.inr (Or.inr ⟨a :: pre, suf, hne, by simp [he], by simp [fullMatch, hc, h]⟩)
      · rintro (h | ⟨ext, hne, h⟩ | ⟨pre, suf, hne, he, h⟩)
        · simp only [fullMatch, Bool.and_eq_true] at h
          exact ⟨h.1, Or.inl h.2⟩
        · simp only [List.cons_append, fullMatch, Bool.and_eq_true] at h
          exact ⟨h.1, Or.inr (Or.inl ⟨ext, hne, h.2⟩)⟩
        · cases pre with
          | nil => simp [fullMatch] at h
          | cons x pre =>
            simp only [List.cons_append, List.cons.injEq] at he
            obtain ⟨rfl, rfl⟩ := he
            simp only [fullMatch, Bool.and_eq_true] at h
            exact ⟨h.1, Or.inr (Or.inr ⟨pre, suf, hne, rfl, h.2⟩)⟩

/-! ## wildcard resolution is exact -/

/-- `cs` is a component-wise match of the pattern components `ps` starting in directory `cur`:
every component `fnmatch`es its pattern component, a wildcard component names an existing
directory entry, and following the components stays inside existing directories. -/
inductive Matches (t : Tree) : List Str → List Str → List Str → Prop
  | nil (cur) : Matches t [] cur []
  | cons {p ps cur cur' c cs} :
      fnmatch p c = true →
      (hasMeta p = true → c ∈ t.dirEntries cur) →
      t.step cur c = some cur' →
      Matches t ps cur' cs → Matches t (p :: ps) cur (c :: cs)

theorem mem_candidates (t : Tree) (cur : List Str) (p c : Str) :
    c ∈ candidates t cur p ↔ fnmatch p c = true ∧ (hasMeta p = true → c ∈ t.dirEntries cur) := by
  unfold candidates
  by_cases h : hasMeta p = true
  · simp [h, and_comm]
  · have h' : hasMeta p = false := by simpa using h
    simp [h', fnmatch_literal p h']

theorem walk_exact (t : Tree) (ps : List Str) :
    ∀ (cur acc x : List Str), x ∈ walk t ps cur acc ↔ ∃ cs, x = acc ++ cs ∧ Matches t ps cur cs := by
  induction ps with
  | nil =>
    intro cur acc x
    simp only [walk, List.mem_singleton]
    constructor
    · intro h; exact ⟨[], by simp [h], Matches.nil cur⟩
    · rintro ⟨cs, rfl, h⟩; cases h; simp
  | cons p ps ih =>
    intro cur acc x
    simp only [walk, List.mem_flatMap]
    constructor
    · rintro ⟨c, hc, hx⟩
      rw [mem_candidates] at hc
      cases hs : t.step cur c with
      | none => simp [hs] at hx
      | some cur' =>
        simp only [hs] at hx
        obtain ⟨cs, rfl, hm⟩ := (ih cur' (acc ++ [c]) x).1 hx
        exact ⟨c :: cs, by simp, Matches.cons hc.1 hc.2 hs hm⟩
    · rintro ⟨cs, rfl, hm⟩
      cases hm with
      | cons h1 h2 h3 h4 =>
        rename_i cur' c cs
        refine ⟨c, (mem_candidates t cur p c).2 ⟨h1, h2⟩, ?_⟩
        simp only [h3]
        exact (ih cur' (acc ++ [c]) _).2 ⟨cs, by simp, h4⟩

/-- **Resolution is exact**: the relative component lists returned are exactly the component-wise
matches that exist as directories under the fs root. -/
theorem resolve_exact (t : Tree) (fsAt : List Str) (pattern : CgPath) (x : List Str) :
    x ∈ resolve t fsAt pattern ↔ t.isDir fsAt = true ∧ Matches t pattern.parts fsAt x := by
  unfold resolve
  by_cases h : t.isDir fsAt = true
  · simp only [h, if_true, true_and, walk_exact, List.nil_append]
    constructor
    · rintro ⟨cs, rfl, hm⟩; exact hm
    · intro hm; exact ⟨x, rfl, hm⟩
  · simp [h]

/-- The prefix filter of `resolveWildcard` drops none of glob's results and reconstructs the
relative path. -/
theorem prefix_filter_keeps (fs rel : Str) :
    prefixFilter fs (fs ++ '/' :: rel) = some (mk fs rel) ∧ prefixFilter fs fs = some (mk fs []) := by
  constructor
  · unfold prefixFilter
    have h1 : fs.isPrefixOf (fs ++ '/' :: rel) = true := by simp
    simp [h1]
  · simp [prefixFilter]

/-! ## non-vacuity: concrete instances of the hypotheses -/

example : mk "/sys/fs/cgroup/".toList "//a//b/".toList
    = { fs := "/sys/fs/cgroup".toList, parts := ["a".toList, "b".toList] } := by decide

example : prefixMatch (mk [] "a/b".toList) (mk [] "a/*/c".toList) = true := by decide
example : prefixMatch (mk [] "a/b".toList) (mk [] "a/b*".toList) = false := by decide

/-! ### bracket expressions and escapes of the component matcher -/

/-- A bracket expression matches exactly one character, and exactly the characters it lists (or, negated, the others);
the text of a complete expression followed by the rest of the pattern: -/
theorem bracket_matches_one_listed_char (body rest : Str) (c : Char) (cs : Str) (n : Nat)
    (hn : closeIdx (body ++ ']' :: rest) = some n) :
    fnm ('[' :: (body ++ ']' :: rest)) (c :: cs) =
      (classMatch ((body ++ ']' :: rest).take n) c && fnm ((body ++ ']' :: rest).drop (n + 1)) cs) := by
  rw [fnm.eq_def]
  simp only [hn]

/-- no bracket expression matches the empty string -/
theorem bracket_needs_a_char (ps : Str) : fnm ('[' :: ps) [] = false :=
  fnm_cons_nil '[' ps (by decide)

/-- concrete readings (membership, ranges, negation with `!` and `^`, a leading `]`, a trailing `-`, an unterminated `[`
taken literally, a backslash making the next character literal) -/
theorem bracket_and_escape_examples :
    fnm "[ab]c".toList "ac".toList = true ∧ fnm "[ab]c".toList "bc".toList = true ∧ fnm "[ab]c".toList "cc".toList = false ∧
    fnm "[a-c]".toList "b".toList = true ∧ fnm "[a-c]".toList "d".toList = false ∧
    fnm "[!a]".toList "b".toList = true ∧ fnm "[!a]".toList "a".toList = false ∧ fnm "[^a]".toList "a".toList = false ∧
    fnm "[]a]".toList "]".toList = true ∧ fnm "[a-]".toList "-".toList = true ∧
    fnm "[a".toList "[a".toList = true ∧ fnm "[a".toList "a".toList = false ∧
    fnm "\\*".toList "*".toList = true ∧ fnm "\\*".toList "x".toList = false ∧
    fnm "job[0-9]".toList "job7".toList = true ∧ fnm "job[0-9]".toList "jobs".toList = false := by
  set_option linter.unusedSimpArgs false in
  refine ⟨?_, ?_, ?_, ?_, ?_, ?_, ?_, ?_, ?_, ?_, ?_, ?_, ?_, ?_, ?_, ?_⟩ <;>
    simp [fnm, closeIdx, firstClose, classMatch, classItems]

/-! ### brace alternatives (`GLOB_BRACE`) -/

theorem firstBrace_none_of_no_brace : ∀ (s pre : Str), '{' ∉ s → firstBrace pre s = none
  | [], _, _ => rfl
  | c :: cs, pre, h => by
    have hc : c ≠ '{' := fun e => h (e ▸ List.mem_cons_self ..)
    have ht : '{' ∉ cs := fun m => h (List.mem_cons_of_mem _ m)
    unfold firstBrace
    split
    · rfl
    · rename_i heq; simp only [List.cons.injEq] at heq; exact absurd heq.1 hc
    · rename_i heq; simp only [List.cons.injEq] at heq
      obtain ⟨rfl, rfl⟩ := heq
      exact firstBrace_none_of_no_brace _ _ ht

/-- a pattern without `{` has itself as its only expansion -/
theorem braceExpand_no_brace (n : Nat) (s : Str) (h : '{' ∉ s) : braceExpand n s = [s] := by
  cases n with
  | zero => rfl
  | succ n => simp only [braceExpand, firstBrace_none_of_no_brace s [] h]

/-- **Without braces nothing changes**: `resolveB` is the component-wise walk `resolve` (whose exactness is
`resolve_exact` above) for every pattern whose text contains no `{`. -/
theorem resolveB_no_brace (t : Tree) (fsAt : List Str) (p : CgPath) (hw : WFParts p.parts)
    (h : '{' ∉ joinSlash p.parts) : resolveB t fsAt p = resolve t fsAt p := by
  unfold resolveB
  simp only [braceExpand_no_brace _ _ h, List.flatMap_cons, List.flatMap_nil, List.append_nil, split_joinSlash p.parts hw]

/-- concrete readings: alternatives, an empty alternative, nesting, a single alternative, `{}`, an unmatched `{`, an
alternative that contains a slash -/
theorem brace_examples :
    braceExpand 3 "{a,b}c".toList = ["ac".toList, "bc".toList] ∧
    braceExpand 3 "ba{,ab}/x".toList = ["ba/x".toList, "baab/x".toList] ∧
    braceExpand 3 "{zz,{aa,b}}/*".toList = ["zz/*".toList, "aa/*".toList, "b/*".toList] ∧
    braceExpand 3 "{a}".toList = ["a".toList] ∧ braceExpand 3 "w{}".toList = ["w".toList] ∧
    braceExpand 3 "{a,b".toList = ["{a,b".toList] ∧
    braceExpand 3 "{a/b,c}/d".toList = ["a/b/d".toList, "c/d".toList] := by decide

/-- **The cgroup-fs root is a place, not a pattern.**  `resolveWildcard` hands glob(3) the root with every character glob
interprets (`\\ * ? [ {`) escaped (`globEscape`) in front of the relative path, which alone is the pattern: a component of the
escaped root matches exactly the corresponding component of the root, also under the leading-period rule glob applies to
directory entries - so the walk reaches the root directory and no directory beside it, and the model's `resolve t fsAt`, which
takes `fsAt` as a list of literal names, is what the code computes whatever characters the root's name contains.  (On the
pinned tree the root went to glob unescaped: under a root called `foo\x2dbar.scope` - a delegated subtree with a
systemd-escaped name - nothing resolved, not even the root itself; repaired by a `fix:` commit, see known_findings.txt.) -/
theorem fs_root_is_literal (comp name : Str) : fnmatch (globEscape comp) name = true ↔ name = comp :=
  fnmatch_globEscape comp name

/-- ... and escaping adds no separator: the escaped root has the components of the root -/
theorem fs_root_escape_keeps_separators (fs : Str) : (globEscape fs).count '/' = fs.count '/' := by
  induction fs with
  | nil => rfl
  | cons c cs ih =>
    have hcons : globEscape (c :: cs) = escChar c ++ globEscape cs := by simp [globEscape]
    rw [hcons, List.count_append, ih]
    unfold escChar
    split
    · rename_i h
      have hc : c ≠ '/' := by
        intro e; subst e; simp at h
      simp [hc]
    · simp [List.count_cons]; omega

/-- `f\\s` and `f[s]` as root names: escaped they match themselves (`fs_root_is_literal`); unescaped, `f\\s` does not match
itself and `f[s]` matches the other directory `fs` and not itself -/
example : fnm ['f', '\\', 's'] ['f', '\\', 's'] = false ∧ fnm ['f', '[', 's', ']'] ['f', 's'] = true ∧
    fnm ['f', '[', 's', ']'] ['f', '[', 's', ']'] = false := by
  set_option linter.unusedSimpArgs false in
  refine ⟨?_, ?_, ?_⟩ <;> simp [fnm, closeIdx, firstClose, classMatch, classItems]

end C16

import OomdModel.Fault
import OomdProofs.CtxFault
import OomdModel.Generated.Accessors
import OomdModel.Generated.Risky

/-!
# C10 — a tick survives missing, empty, unreadable or vanishing files

Theorems about the crash-point model `OomdModel.Fault` of the readers (tied to `Fs.cpp`,
`Oomd.cpp`, `CgroupContext.cpp` by the `h_tick` correspondence run, reader by reader and file
state by file state).  They quantify over every file state, every content and every behaviour of
the number parser (`num`).

The second half (`accessor_*`, `faulty_*_dependents_*`) is about the accessor layer `OomdModel.CtxFault` built on the
readers (`CgroupContext.cpp`: the lazily filled fields, the derived statistics and their walk up the hierarchy), tied to
the real `CgroupContext` / `OomdContext` by the `h_tick` kind `ctx` run (every accessor x every control file x every
fault state, on the cgroup itself, its parent and a sibling).

What is **not** covered by a theorem (labelled partial in MANIFEST.json): memory safety of the
code outside the modelled index operations, hangs, and the composition of a whole tick over all
plugins - those are explored on the real main loop by fault enumeration (`h_tick`, kind `tick`)
under ASan/UBSan/_GLIBCXX_ASSERTIONS.
-/

namespace C10
open OomdModel.Fault OomdModel.Path

/-- the fault domain of the property for one control file: missing, unopenable, unreadable, empty.
A cgroup removed between two accesses shows up as `absent` (or `unreadable`: ENODEV) for each of
its files read afterwards. -/
def Faulty (f : FileSt) : Prop :=
  f = .absent ∨ f = .denied ∨ f = .unreadable ∨ f = .lines []

/-- On a faulty file every reader that yields a number / flag / token list reports the statistic
as unavailable - it neither throws nor indexes an empty vector - whatever the number parser does. -/
theorem faulty_file_is_unavailable (num fnum : Num) (full : Bool) (f : FileSt) (h : Faulty f) :
    firstLineNum num f = .unavailable ∧ minMaxLowHigh num f = .unavailable ∧
    memHighTmp num f = .unavailable ∧ controllers f = .unavailable ∧
    populated f = .unavailable ∧ pressure fnum full f = .unavailable := by
  rcases h with rfl | rfl | rfl | rfl <;>
    simp [firstLineNum, minMaxLowHigh, memHighTmp, controllers, populated, pressure, readLines,
      populatedFromLines, getPsiFormat]

/-- ... and the key/value readers either report unavailable or an empty table; the flag reader
reports `false`. None throws. -/
theorem faulty_file_kv_safe (num : Num) (scan : Str → Option (Str × Int)) (f : FileSt) (h : Faulty f) :
    (kvFile scan f).safe = true ∧ (vmstat num f).safe = true ∧ (oomGroup f).safe = true := by
  rcases h with rfl | rfl | rfl | rfl <;>
    simp [kvFile, vmstat, oomGroup, readLines, vmstatFromLines, Res.safe]

/-- No content whatsoever makes these readers index out of bounds (undefined behaviour). -/
theorem no_ub_on_any_content (num : Num) (scan : Str → Option (Str × Int)) (f : FileSt) :
    firstLineNum num f ≠ .ub ∧ minMaxLowHigh num f ≠ .ub ∧ memHighTmp num f ≠ .ub ∧
    controllers f ≠ .ub ∧ populated f ≠ .ub ∧ oomGroup f ≠ .ub ∧ kvFile scan f ≠ .ub ∧
    vmstat num f ≠ .ub := by
  have hp : ∀ ls, populatedFromLines ls ≠ .ub := by
    intro ls
    induction ls with
    | nil => simp [populatedFromLines]
    | cons l rest ih =>
      simp only [populatedFromLines]
      split
      · split
        · split
          · simp
          · split <;> simp
        · exact ih
      · exact ih
  have hv : ∀ ls, vmstatFromLines num ls ≠ .ub := by
    intro ls
    induction ls with
    | nil => simp [vmstatFromLines]
    | cons l rest ih =>
      simp only [vmstatFromLines]
      split
      · split
        · cases hr : vmstatFromLines num rest with
          | ok m => simp
          | unavailable => simp
          | throws => simp
          | ub => exact absurd hr ih
        · simp
      · simp
  have hl : ∀ s, liftNum num s ≠ .ub := by intro s; unfold liftNum; split <;> simp
  refine ⟨?_, ?_, ?_, ?_, ?_, ?_, ?_, ?_⟩
  · unfold firstLineNum; split <;> simp [hl]
  · unfold minMaxLowHigh; split
    · simp
    · split <;> simp [hl]
    · simp
  · unfold memHighTmp
    split
    · simp
    · split
      · split <;> simp [hl]
      · simp
    · simp
  · unfold controllers; split <;> simp
  · unfold populated; split <;> simp [hp]
  · unfold oomGroup; split <;> simp
  · unfold kvFile; split <;> simp
  · unfold vmstat; split <;> simp [hv]

/-- Numeric readers throw only if the number parser rejects the line they were given: on a file in
the kernel's grammar (the parser accepts its first line / its single line / its first token) the
value is returned. -/
theorem wellformed_is_ok (num : Num) (l : Str) (rest : List Str) (v : Int) (h : num l = some v) :
    firstLineNum num (.lines (l :: rest)) = .ok v ∧
    minMaxLowHigh num (.lines [l]) = (if l = "max".toList then .ok int64Max else .ok v) := by
  simp [firstLineNum, minMaxLowHigh, readLines, liftNum, h]

theorem max_is_ok (num : Num) : minMaxLowHigh num (.lines ["max".toList]) = .ok int64Max := by
  simp [minMaxLowHigh, readLines]

/-- Optional keys: a `memory.stat` without `pgscan` and a `/proc/vmstat` without `pswpout` (now or
on the previous tick) make the derived value unavailable; nothing is thrown. -/
theorem optional_keys_safe (m cur prev : List (Str × Int)) :
    (pgScan (.ok m)).safe = true ∧ (swapoutDelta cur prev).safe = true := by
  constructor
  · unfold pgScan; simp only; split <;> rfl
  · unfold swapoutDelta; split
    · rfl
    · split <;> rfl

theorem pgscan_absent_unavailable (m : List (Str × Int)) (h : m.lookup "pgscan".toList = none) :
    pgScan (.ok m) = .unavailable := by
  unfold pgScan
  simp only
  rw [h]

/-- Directory entries without type information: exactly the visible directories are reported as
directories and exactly the visible regular files as files. -/
theorem dtype_unknown_exact (ents : List DirEnt) (n : Str) :
    (n ∈ (readDirUnknownType ents).1 ↔ ∃ e ∈ ents, e.name = n ∧ e.isDir = true ∧ e.name.head? ≠ some '.') ∧
    (n ∈ (readDirUnknownType ents).2 ↔ ∃ e ∈ ents, e.name = n ∧ e.isReg = true ∧ e.name.head? ≠ some '.') := by
  simp only [readDirUnknownType, List.mem_map, List.mem_filter]
  constructor <;> constructor
  · rintro ⟨e, ⟨⟨he, hv⟩, hd⟩, rfl⟩; exact ⟨e, he, rfl, hd, by simpa using hv⟩
  · rintro ⟨e, he, rfl, hd, hv⟩; exact ⟨e, ⟨⟨he, by simpa using hv⟩, hd⟩, rfl⟩
  · rintro ⟨e, ⟨⟨he, hv⟩, hd⟩, rfl⟩; exact ⟨e, he, rfl, hd, by simpa using hv⟩
  · rintro ⟨e, he, rfl, hd, hv⟩; exact ⟨e, ⟨⟨he, by simpa using hv⟩, hd⟩, rfl⟩

/-! ### the code before the `fix:` commits violates the property (proved counterexamples) -/

theorem unfixed_empty_file_ub (num : Num) :
    firstLineNumUnfixed num (.lines []) = .ub ∧ controllersUnfixed (.lines []) = .ub := by
  simp [firstLineNumUnfixed, controllersUnfixed, readLines]

theorem unfixed_missing_pgscan_throws : pgScanUnfixed (.ok []) = .throws := by decide

theorem unfixed_missing_pswpout_throws :
    swapoutDeltaUnfixed [("pgpgin".toList, 1)] [("pgpgin".toList, 0)] = .throws := by decide

theorem unfixed_dtype_hides_children :
    readDirUnknownTypeUnfixed [{ name := "child".toList, isDir := true, isReg := false }] = ([], ["child".toList]) := by
  decide

/-! ### the accessor layer (`CgroupContext`) -/

section Accessors
open OomdModel.CtxFault

/-- Whatever combination of its control files is missing, unopenable, unreadable or empty, every reader of a cgroup
reports `ok` or `unavailable`, provided the files that *are* there are accepted by their reader (kernel grammar). -/
theorem readings_safe_in_fault_domain (P : Parsers) (f : CgFiles)
    (h1 : Faulty f.memCurrent ∨ ∃ v, firstLineNum P.num f.memCurrent = .ok v)
    (h2 : Faulty f.swapCurrent ∨ ∃ v, firstLineNum P.num f.swapCurrent = .ok v)
    (h3 : Faulty f.swapMax ∨ ∃ v, minMaxLowHigh P.num f.swapMax = .ok v)
    (h4 : Faulty f.memLow ∨ ∃ v, minMaxLowHigh P.num f.memLow = .ok v)
    (h5 : Faulty f.memMin ∨ ∃ v, minMaxLowHigh P.num f.memMin = .ok v)
    (h6 : Faulty f.memHigh ∨ ∃ v, minMaxLowHigh P.num f.memHigh = .ok v)
    (h7 : Faulty f.memHighTmp ∨ ∃ v, memHighTmp P.num f.memHighTmp = .ok v)
    (h8 : Faulty f.memMax ∨ ∃ v, minMaxLowHigh P.num f.memMax = .ok v)
    (h9 : Faulty f.events ∨ ∃ v, populated f.events = .ok v)
    (h10 : Faulty f.memPressure ∨ ((∃ v, pressure P.fnum true f.memPressure = .ok v) ∧ ∃ v, pressure P.fnum false f.memPressure = .ok v))
    (h11 : Faulty f.ioPressure ∨ ((∃ v, pressure P.fnum true f.ioPressure = .ok v) ∧ ∃ v, pressure P.fnum false f.ioPressure = .ok v)) :
    (readingsOf P f).safe = true := by
  have F := fun (g : FileSt) (hg : Faulty g) => faulty_file_is_unavailable P.num P.fnum true g hg
  have F' := fun (g : FileSt) (hg : Faulty g) => faulty_file_is_unavailable P.num P.fnum false g hg
  have K := kv_and_iostat_always_safe P f
  have O : (oomGroup f.oomGroupF).safe = true := by unfold oomGroup; split <;> rfl
  rw [Readings.safe_iff]
  simp only [readingsOf]
  refine ⟨?_, ?_, ?_, ?_, ?_, ?_, ?_, ?_, K.1, K.2.1, ?_, O, ?_, ?_, ?_, ?_, K.2.2⟩
  · rcases h1 with h | ⟨v, h⟩; · rw [(F _ h).1]; rfl
    · rw [h]; rfl
  · rcases h2 with h | ⟨v, h⟩; · rw [(F _ h).1]; rfl
    · rw [h]; rfl
  · rcases h3 with h | ⟨v, h⟩; · rw [(F _ h).2.1]; rfl
    · rw [h]; rfl
  · rcases h4 with h | ⟨v, h⟩; · rw [(F _ h).2.1]; rfl
    · rw [h]; rfl
  · rcases h5 with h | ⟨v, h⟩; · rw [(F _ h).2.1]; rfl
    · rw [h]; rfl
  · rcases h6 with h | ⟨v, h⟩; · rw [(F _ h).2.1]; rfl
    · rw [h]; rfl
  · rcases h7 with h | ⟨v, h⟩; · rw [(F _ h).2.2.1]; rfl
    · rw [h]; rfl
  · rcases h8 with h | ⟨v, h⟩; · rw [(F _ h).2.1]; rfl
    · rw [h]; rfl
  · rcases h9 with h | ⟨v, h⟩; · rw [(F _ h).2.2.2.2.1]; rfl
    · rw [h]; rfl
  · rcases h10 with h | ⟨⟨v, h⟩, _⟩; · rw [(F _ h).2.2.2.2.2]; rfl
    · rw [h]; rfl
  · rcases h10 with h | ⟨_, ⟨v, h⟩⟩; · rw [(F' _ h).2.2.2.2.2]; rfl
    · rw [h]; rfl
  · rcases h11 with h | ⟨⟨v, h⟩, _⟩; · rw [(F _ h).2.2.2.2.2]; rfl
    · rw [h]; rfl
  · rcases h11 with h | ⟨_, ⟨v, h⟩⟩; · rw [(F' _ h).2.2.2.2.2]; rfl
    · rw [h]; rfl

/-- **The accessor layer adds no crash point.**  If every reader result reachable from a cgroup - its own files, those of
every ancestor up to the root, those of the siblings summed over at every level - is `ok` or `unavailable`, then each of
the 32 accessors of the table returns `ok` or `unavailable`: no exception, no out-of-bounds index, at any depth, for any
arithmetic and any tick history. -/
theorem accessor_layer_no_crash (A : Arith) (S : Sys) (ar : Archive) (l : Level) (up : List Level)
    (hS : S.rootUsage.safe = true) (h : chainSafe (l :: up) = true) :
    ∀ a ∈ Acc.all, (evalAcc A S ar l up a).safe = true :=
  fun a _ => evalAcc_safe A S ar l up hS h a

/-- **The table is the code's**: every accessor that `CgroupContext.cpp` defines today (list regenerated from the source on
every run: PROXY fields and hand-written optional-returning members) has a row in the crash-point model or is one of the three
that read no control file.  An accessor added to the code without a model row breaks this obligation. -/
theorem every_accessor_modelled :
    ∀ n ∈ OomdModel.Generated.cgroupContextAccessors,
      n ∈ notFileAccessors ∨ ∃ a ∈ Acc.all, a.cxxName = some n := by decide

/-- **Every operation that can throw or is undefined on an unchecked input has been reviewed.**  The translator lists, on every
run, each `.value()`, `.at(` and `std::sto*` in the code a tick executes (Oomd.cpp, OomdContext, CgroupContext, Fs.cpp, engine/,
plugins/) and removes those recorded - with the guard that makes them safe in the fault domain - in `tools/risky_reviewed.json`.
A new such operation, or one more copy of a reviewed line, breaks this obligation; the check then searches the fault space for
an input that makes it fire (that is how a dereference like the one repaired in `unfixed_swap_excess_throws` is noticed even when
no generated fault reaches it). -/
theorem no_unreviewed_risky_operation : OomdModel.Generated.unreviewedRisky = [] := by decide

/-- the table lists every accessor -/
theorem acc_table_complete (a : Acc) : a ∈ Acc.all := by cases a <;> decide

/-- **The affected statistics are unavailable** (own files).  For a cgroup whose other readings are safe:
a faulty `memory.current` makes usage, moving average, growth, raw protection and effective usage unavailable;
a faulty `memory.min` or `memory.low` makes the raw protection unavailable; a `memory.stat` that cannot be read makes
anon / file / shmem usage and both pgscan statistics unavailable; an `io.stat` that cannot be read makes both io-cost
statistics unavailable. -/
theorem faulty_own_file_dependents_unavailable (A : Arith) (S : Sys) (ar : Archive) (l : Level) (up : List Level) :
    (l.r.current = .unavailable →
        averageUsage A ar.avg l.r = .unavailable ∧ memoryGrowth A ar.avg l.r = .unavailable ∧
        rawProtection l.r = .unavailable ∧ effectiveUsage A S (l :: up) = .unavailable) ∧
    (l.r.current.safe = true → (l.r.memMin = .unavailable ∨ (l.r.memMin.safe = true ∧ l.r.memLow = .unavailable)) →
        rawProtection l.r = .unavailable) ∧
    (l.r.memStat = .unavailable →
        anonUsage l.r = .unavailable ∧ fileUsage l.r = .unavailable ∧ shmemUsage l.r = .unavailable ∧
        pgScanCumulative l.r = .unavailable ∧ pgScanRate ar.pgScan l.r = .unavailable) ∧
    (l.r.ioStat = .unavailable →
        ioCostCumulative A l.r = .unavailable ∧ ioCostRate A ar.ioCost l.r = .unavailable) := by
  refine ⟨?_, ?_, ?_, ?_⟩
  · intro h
    refine ⟨?_, ?_, ?_, ?_⟩ <;> simp [averageUsage, memoryGrowth, rawProtection, effectiveUsage, h, bnd, Res.bind]
  · intro hc hm
    unfold rawProtection
    cases hcur : l.r.current with
    | ok c =>
      rcases hm with hm | ⟨hs, hl⟩
      · simp [hm, bnd, Res.bind]
      · cases hmn : l.r.memMin with
        | ok mn => simp [hl, bnd, Res.bind]
        | unavailable => simp [bnd, Res.bind]
        | throws => rw [hmn] at hs; cases hs
        | ub => rw [hmn] at hs; cases hs
    | unavailable => simp [bnd, Res.bind]
    | throws => rw [hcur] at hc; cases hc
    | ub => rw [hcur] at hc; cases hc
  · intro h
    refine ⟨?_, ?_, ?_, ?_, ?_⟩ <;>
      simp [anonUsage, fileUsage, shmemUsage, lookupStat, pgScanCumulative, pgScanRate, pgScan, h, bnd, Res.bind]
  · intro h
    refine ⟨?_, ?_⟩ <;> simp [ioCostCumulative, ioCostRate, h, bnd, Res.bind]

/-- **The affected statistics are unavailable** (hierarchy).  When the readings reachable from the cgroup are safe:
a `memory.swap.max` that cannot be read at the cgroup makes its effective swap max, free and utilisation unavailable;
so does an ancestor that cannot be opened; and the unavailability of an ancestor's effective swap max propagates down. -/
theorem faulty_swap_dependents_unavailable (A : Arith) (S : Sys) (l : Level) (up : List Level)
    (h : chainSafe (l :: up) = true) :
    (l.r.swapMax = .unavailable →
        effectiveSwapMax S (l :: up) = .unavailable ∧ effectiveSwapFree S (l :: up) = .unavailable ∧
        effectiveSwapUtil A S (l :: up) = .unavailable) ∧
    (l.parentOpen = false → effectiveSwapMax S (l :: up) = .unavailable) ∧
    (effectiveSwapMax S up = .unavailable → effectiveSwapMax S (l :: up) = .unavailable) := by
  have h' : (l.r.safe = true ∧ l.sibs.all Readings.safe = true) ∧ chainSafe up = true := by
    simpa only [chainSafe, Bool.and_eq_true] using h
  have hup := effectiveSwapMax_safe S up h'.2
  refine ⟨?_, ?_, ?_⟩
  · intro hm
    refine ⟨?_, ?_, ?_⟩
    · unfold effectiveSwapMax
      split
      · rfl
      · cases hp : effectiveSwapMax S up with
        | ok pm => simp [hm, bnd, Res.bind]
        | unavailable => simp [bnd, Res.bind]
        | throws => rw [hp] at hup; cases hup
        | ub => rw [hp] at hup; cases hup
    · simp [effectiveSwapFree, hm, bnd, Res.bind]
    · simp [effectiveSwapUtil, hm, bnd, Res.bind]
  · intro hp
    simp [effectiveSwapMax, hp]
  · intro hp
    unfold effectiveSwapMax
    split
    · rfl
    · simp [hp, bnd, Res.bind]

/-- `kill_by_swap_usage`'s biased excess never throws when the two statistics it reads are `ok` or `unavailable`, in any
combination - in particular when the protection is known and the swap usage is not (a candidate restored after a prekill
hook whose memory.swap.current is gone) ... -/
theorem swap_excess_safe (ratio : Int → Int) (prot usage : Res Int) (hp : prot.safe = true) (hu : usage.safe = true) :
    (swapExcess ratio prot usage).safe = true := by
  cases prot <;> cases usage <;> simp_all [swapExcess, valueOr, bnd, Res.bind, Res.safe]

/-- ... which is exactly where the code before the `fix:` commit threw `std::bad_optional_access` (proved counterexample;
reachable: `memory_protection` is `ok 0` for a cgroup all of whose files are gone, by the `sum = 0` branch). -/
theorem unfixed_swap_excess_throws (ratio : Int → Int) (p : Int) :
    swapExcessUnfixed ratio (.ok p) .unavailable = .throws := rfl

/-! non-vacuity: a concrete two-level hierarchy with a mix of faulty and well-formed files satisfies the hypotheses, and the
accessors split into available and unavailable ones as the theorems say -/
namespace Ex
def P : Parsers :=
  { num := fun s => if s.all Char.isDigit && !s.isEmpty then some (s.foldl (fun a c => a * 10 + (c.toNat - 48)) 0 : Nat) else none
    fnum := fun _ => some 0
    scan := fun l => match OomdModel.Path.split l ' ' with | [k, _] => some (k, 7) | _ => none
    scanIo := fun _ => none }
def good : FileSt := .lines ["4096".toList]
def child : CgFiles :=
  { memCurrent := .absent, swapCurrent := good, swapMax := .lines ["max".toList], memLow := good, memMin := .lines [],
    memHigh := good, memHighTmp := .denied, memMax := good, memStat := .lines ["anon 1".toList], cgStat := .unreadable,
    events := .lines ["populated 1".toList], oomGroupF := .absent, memPressure := .absent, ioPressure := .lines [], ioStat := .absent }
def parent : CgFiles := { child with memCurrent := good, memMin := good, swapMax := .absent }
def lChild : Level := { r := readingsOf P child, parentOpen := true, sibs := [readingsOf P child] }
def lParent : Level := { r := readingsOf P parent, parentOpen := true, sibs := [readingsOf P parent] }
def chain : List Level := [lChild, lParent]
def A : Arith := { scale := fun r _ _ => r, avg := fun p c => p + c, ioCost := fun _ => 0, ratio := fun a _ => a }
def S : Sys := { swapTotal := 0, swapUsed := 0, rootUsage := .ok 0 }
end Ex

example : chainSafe Ex.chain = true := by decide
example : (Acc.all.filter fun a => evalAcc Ex.A Ex.S ⟨0, none, none⟩ Ex.lChild [Ex.lParent] a == .ok ()) =
    -- (memory_protection is available although memory.current is not: the siblings' raw protections sum to 0, and
    --  `normalizedProtection` answers 0 for that without looking further - the `sum = 0` branch of the model)
    [.swapUsage, .swapMax, .memoryLow, .memoryHigh, .memoryMax, .isPopulated, .memoryStat, .anonUsage, .memoryProtection] := by decide

end Accessors

/-- non-vacuity: the fault domain is inhabited by distinct states -/
example : Faulty .absent ∧ Faulty (.lines []) ∧ ¬ Faulty (.lines ["1".toList]) := by
  refine ⟨Or.inl rfl, Or.inr (Or.inr (Or.inr rfl)), ?_⟩
  intro h; rcases h with h | h | h | h <;> simp at h

end C10

import OomdModel.Fault

/-!
# C10 — a tick survives missing, empty, unreadable or vanishing files

Theorems about the crash-point model `OomdModel.Fault` of the readers (tied to `Fs.cpp`,
`Oomd.cpp`, `CgroupContext.cpp` by the `h_tick` correspondence run, reader by reader and file
state by file state).  They quantify over every file state, every content and every behaviour of
the number parser (`num`).

What is **not** covered by a theorem (labelled partial in MANIFEST.json): memory safety of the
code outside the modelled index operations, hangs, and the composition of a whole tick over all
plugins - those are explored on the real main loop by fault enumeration (`h_tick`, kind `tick`)
under ASan/UBSan/_GLIBCXX_ASSERTIONS.
-/

namespace C10
open OomdModel.Fault OomdModel.Path

/-- the fault domain of the property for one control file: missing, unopenable, unreadable, empty.
A cgroup removed between two accesses shows up as `absent` (or `unreadable`: ENODEV) for each of
its files read afterwards. -/
def Faulty (f : FileSt) : Prop :=
  f = .absent ∨ f = .denied ∨ f = .unreadable ∨ f = .lines []

/-- On a faulty file every reader that yields a number / flag / token list reports the statistic
as unavailable - it neither throws nor indexes an empty vector - whatever the number parser does. -/
theorem faulty_file_is_unavailable (num fnum : Num) (full : Bool) (f : FileSt) (h : Faulty f) :
    firstLineNum num f = .unavailable ∧ minMaxLowHigh num f = .unavailable ∧
    memHighTmp num f = .unavailable ∧ controllers f = .unavailable ∧
    populated f = .unavailable ∧ pressure fnum full f = .unavailable := by
  rcases h with rfl | rfl | rfl | rfl <;>
    simp [firstLineNum, minMaxLowHigh, memHighTmp, controllers, populated, pressure, readLines,
      populatedFromLines, getPsiFormat]

/-- ... and the key/value readers either report unavailable or an empty table; the flag reader
reports `false`. None throws. -/
theorem faulty_file_kv_safe (num : Num) (scan : Str → Option (Str × Int)) (f : FileSt) (h : Faulty f) :
    (kvFile scan f).safe = true ∧ (vmstat num f).safe = true ∧ (oomGroup f).safe = true := by
  rcases h with rfl | rfl | rfl | rfl <;>
    simp [kvFile, vmstat, oomGroup, readLines, vmstatFromLines, Res.safe]

/-- No content whatsoever makes these readers index out of bounds (undefined behaviour). -/
theorem no_ub_on_any_content (num : Num) (scan : Str → Option (Str × Int)) (f : FileSt) :
    firstLineNum num f ≠ .ub ∧ minMaxLowHigh num f ≠ .ub ∧ memHighTmp num f ≠ .ub ∧
    controllers f ≠ .ub ∧ populated f ≠ .ub ∧ oomGroup f ≠ .ub ∧ kvFile scan f ≠ .ub ∧
    vmstat num f ≠ .ub := by
  have hp : ∀ ls, populatedFromLines ls ≠ .ub := by
    intro ls
    induction ls with
    | nil => simp [populatedFromLines]
    | cons l rest ih =>
      simp only [populatedFromLines]
      split
      · split
        · split
          · simp
          · split <;> simp
        · exact ih
      · exact ih
  have hv : ∀ ls, vmstatFromLines num ls ≠ .ub := by
    intro ls
    induction ls with
    | nil => simp [vmstatFromLines]
    | cons l rest ih =>
      simp only [vmstatFromLines]
      split
      · split
        · cases hr : vmstatFromLines num rest with
          | ok m => simp
          | unavailable => simp
          | throws => simp
          | ub => exact absurd hr ih
        · simp
      · simp
  have hl : ∀ s, liftNum num s ≠ .ub := by intro s; unfold liftNum; split <;> simp
  refine ⟨?_, ?_, ?_, ?_, ?_, ?_, ?_, ?_⟩
  · unfold firstLineNum; split <;> simp [hl]
  · unfold minMaxLowHigh; split
    · simp
    · split <;> simp [hl]
    · simp
  · unfold memHighTmp
    split
    · simp
    · split
      · split <;> simp [hl]
      · simp
    · simp
  · unfold controllers; split <;> simp
  · unfold populated; split <;> simp [hp]
  · unfold oomGroup; split <;> simp
  · unfold kvFile; split <;> simp
  · unfold vmstat; split <;> simp [hv]

/-- Numeric readers throw only if the number parser rejects the line they were given: on a file in
the kernel's grammar (the parser accepts its first line / its single line / its first token) the
value is returned. -/
theorem wellformed_is_ok (num : Num) (l : Str) (rest : List Str) (v : Int) (h : num l = some v) :
    firstLineNum num (.lines (l :: rest)) = .ok v ∧
    minMaxLowHigh num (.lines [l]) = (if l = "max".toList then .ok int64Max else .ok v) := by
  simp [firstLineNum, minMaxLowHigh, readLines, liftNum, h]

theorem max_is_ok (num : Num) : minMaxLowHigh num (.lines ["max".toList]) = .ok int64Max := by
  simp [minMaxLowHigh, readLines]

/-- Optional keys: a `memory.stat` without `pgscan` and a `/proc/vmstat` without `pswpout` (now or
on the previous tick) make the derived value unavailable; nothing is thrown. -/
theorem optional_keys_safe (m cur prev : List (Str × Int)) :
    (pgScan (.ok m)).safe = true ∧ (swapoutDelta cur prev).safe = true := by
  constructor
  · unfold pgScan; simp only; split <;> rfl
  · unfold swapoutDelta; split
    · rfl
    · split <;> rfl

theorem pgscan_absent_unavailable (m : List (Str × Int)) (h : m.lookup "pgscan".toList = none) :
    pgScan (.ok m) = .unavailable := by
  unfold pgScan
  simp only
  rw [h]

/-- Directory entries without type information: exactly the visible directories are reported as
directories and exactly the visible regular files as files. -/
theorem dtype_unknown_exact (ents : List DirEnt) (n : Str) :
    (n ∈ (readDirUnknownType ents).1 ↔ ∃ e ∈ ents, e.name = n ∧ e.isDir = true ∧ e.name.head? ≠ some '.') ∧
    (n ∈ (readDirUnknownType ents).2 ↔ ∃ e ∈ ents, e.name = n ∧ e.isReg = true ∧ e.name.head? ≠ some '.') := by
  simp only [readDirUnknownType, List.mem_map, List.mem_filter]
  constructor <;> constructor
  · rintro ⟨e, ⟨⟨he, hv⟩, hd⟩, rfl⟩; exact ⟨e, he, rfl, hd, by simpa using hv⟩
  · rintro ⟨e, he, rfl, hd, hv⟩; exact ⟨e, ⟨⟨he, by simpa using hv⟩, hd⟩, rfl⟩
  · rintro ⟨e, ⟨⟨he, hv⟩, hd⟩, rfl⟩; exact ⟨e, he, rfl, hd, by simpa using hv⟩
  · rintro ⟨e, he, rfl, hd, hv⟩; exact ⟨e, ⟨⟨he, by simpa using hv⟩, hd⟩, rfl⟩

/-! ### the code before the `fix:` commits violates the property (proved counterexamples) -/

theorem unfixed_empty_file_ub (num : Num) :
    firstLineNumUnfixed num (.lines []) = .ub ∧ controllersUnfixed (.lines []) = .ub := by
  simp [firstLineNumUnfixed, controllersUnfixed, readLines]

theorem unfixed_missing_pgscan_throws : pgScanUnfixed (.ok []) = .throws := by decide

theorem unfixed_missing_pswpout_throws :
    swapoutDeltaUnfixed [("pgpgin".toList, 1)] [("pgpgin".toList, 0)] = .throws := by decide

theorem unfixed_dtype_hides_children :
    readDirUnknownTypeUnfixed [{ name := "child".toList, isDir := true, isReg := false }] = ([], ["child".toList]) := by
  decide

/-- non-vacuity: the fault domain is inhabited by distinct states -/
example : Faulty .absent ∧ Faulty (.lines []) ∧ ¬ Faulty (.lines ["1".toList]) := by
  refine ⟨Or.inl rfl, Or.inr (Or.inr (Or.inr rfl)), ?_⟩
  intro h; rcases h with h | h | h | h <;> simp at h

end C10

import OomdProofs.Watcher
import OomdProofs.WatcherOverflow

/-!
# C14 — Drop-in directory watcher: race-free, never fatal, converges to the files present

Property theorems only.  Model: `OomdModel.Watcher` – the watcher thread and the main thread of
`FsDropInService` / `DropInServiceAdaptor` as a transition system; a schedule is an arbitrary `List Step`, so
every theorem below that quantifies over `steps` holds for **every interleaving** of the two threads, every
number of events, every file name and every result of loading a file.  The model is of the code after
`fixes/C14-invalid-rewrite.patch` and the `std::stoi` repair `fixes/C12-ruleset-delay.patch`; `Fixes.none` is the pinned tree, for which the two counterexamples at the end
are proved.

What is **not** proved here (observed by `h_watcher` with real inotify under ThreadSanitizer instead):
absence of data races and deadlock, that the kernel delivers an event after the last change of every file
(hypothesis `Faithful` of `files_present_partial`), that `epoll`/`inotify` system calls do not fail, that
compiling on the watcher thread touches no unsynchronised global.
-/

namespace C14
open OomdModel.Watcher

variable {α : Type}

/-! ## the queue hands items over exactly once and in order -/

/-- For every start-up directory and every schedule: the batches the main thread swapped out, concatenated,
followed by what is still queued, are exactly the items scheduled, in scheduling order; and what reached the
engine so far plus the batch in hand is exactly what was swapped out.  Nothing lost, duplicated, reordered. -/
theorem queue_fifo_under_any_interleaving (fx : Fixes) (dir : Option (List (String × Load α)))
    (steps : List (Step α)) (s0 s : St α) (h0 : init fx dir = .ok s0) (h1 : run fx s0 steps = .ok s) :
    s.drained.flatten ++ s.queue = s.scheduled ∧ s.applied ++ s.batch = s.drained.flatten := by
  have g := reachable_good fx s ⟨dir, steps, s0, h0, h1⟩
  exact ⟨by rw [g.drained, g.fifo], g.drained.symm⟩

/-- … and the queue only ever contains what the two threads' observations of the directory produce. -/
theorem scheduled_from_observations (fx : Fixes) (s : St α) (h : Reachable fx s) :
    s.scheduled = s.observed.flatMap (itemsOfObs fx) :=
  (reachable_good fx s h).obs

/-- At every moment of every schedule, the engine together with everything still pending equals
last-writer-wins over all scheduled items. -/
theorem engine_plus_pending_is_lww (fx : Fixes) (s : St α) (h : Reachable fx s) :
    applyAll s.active (s.batch ++ s.queue) = lww s.scheduled :=
  good_pending fx s (reachable_good fx s h)

/-! ## what "last writer wins" means -/

/-- `lww` (a left fold of remove-then-add) is the declarative specification: walk the items from the newest to
the oldest, keep only the newest item of each tag, drop the removals.  I.e. the tags whose last item is a
successful add, with that content, ordered by their last add (newest first). -/
theorem lww_is_newest_per_tag (items : List (Item α)) : lww items = lwwSpec items :=
  lww_eq_spec items

theorem lww_membership (items : List (Item α)) (t : String) (u : α) :
    (t, u) ∈ lww items ↔ lastFor t items = some (some u) :=
  mem_lww_iff items t u

theorem lww_no_duplicate_tag (items : List (Item α)) : ((lww items).map Prod.fst).Nodup :=
  lww_tags_nodup items

/-! ## convergence -/

/-- `C14_converges`: take any reachable state (any schedule so far), then let only the main thread run (no event
pending).  As soon as it is back between two ticks and has swapped the queue at least once since, the
active drop-ins are exactly last-writer-wins over everything that was ever scheduled, and nothing is pending. -/
theorem converges (fx : Fixes) (s s' : St α) (quiet : List (Step α)) (h : Reachable fx s)
    (hq : ∀ st ∈ quiet, st.isMain = true) (h2 : run fx s quiet = .ok s')
    (hsw : s.swaps < s'.swaps) (htop : s'.pc = .top) :
    s'.active = lww s'.scheduled ∧ s'.queue = [] ∧ s'.batch = [] := by
  have g := reachable_good fx s h
  have g' := good_run fx quiet s s' g h2
  have hqi : QuietInv s.swaps s' :=
    quiet_run fx s.swaps quiet s s' hq (Nat.le_refl _) (fun hlt => absurd hlt (Nat.lt_irrefl _)) h2
  have hqueue : s'.queue = [] := hqi hsw (by simp [htop])
  have hbatch : s'.batch = [] := g'.pcBatch (by simp [htop])
  refine ⟨?_, hqueue, hbatch⟩
  have := good_pending fx s' g'
  simpa [hqueue, hbatch, applyAll] using this

/-- Such a quiet stretch exists and is short: from any state of the repaired code, at most two rounds of
`updateDropIns` (finish the one in progress, do one more) bring the main thread back between ticks with a
fresh swap — "within a few ticks". -/
theorem quiet_tick_exists (fx : Fixes) (hfx : fx.stoiCaught = true) (dir : Option (List (String × Load α)))
    (s : St α) :
    ∃ n s', run fx s (List.replicate n (.main dir)) = .ok s' ∧ s.swaps < s'.swaps ∧ s'.pc = .top := by
  cases hpc : s.pc with
  | top =>
    obtain ⟨n, s', hr, hp, hs⟩ := full_tick fx hfx dir s hpc
    exact ⟨n, s', hr, by omega, hp⟩
  | ticked =>
    -- swap, finish the batch: that is already a fresh swap
    let s2 : St α := { s with batch := s.queue, queue := [], drained := s.drained ++ [s.queue],
                              swaps := s.swaps + 1, pc := .applying }
    have h2 : step fx s (.main dir) = .ok s2 := by simp [step, hpc, s2]
    obtain ⟨s3, h3, hp3, hs3⟩ := finish_batch fx dir s2.batch.length s2 rfl rfl
    refine ⟨1 + (s2.batch.length + 1), s3, ?_, ?_, hp3⟩
    · rw [← List.replicate_append_replicate, run_append]
      simp only [List.replicate_one, run, h2]
      exact h3
    · rw [hs3]; simp [s2]
  | applying =>
    obtain ⟨s1, h1, hp1, hs1⟩ := finish_batch fx dir s.batch.length s hpc rfl
    obtain ⟨n, s', hr, hp, hs⟩ := full_tick fx hfx dir s1 hp1
    refine ⟨(s.batch.length + 1) + n, s', ?_, by omega, hp⟩
    rw [← List.replicate_append_replicate, run_append, h1]
    exact hr

/-! ## start-up -/

/-- `C14_startup_sorted`: the files present when the service is constructed are loaded in name order: the loads
performed are the directory listing sorted by name (a permutation of it, pairwise `≤`), and the tags of the
items scheduled are in name order too. -/
theorem startup_sorted (fx : Fixes) (files : List (String × Load α)) (s0 : St α)
    (h : init fx (some files) = .ok s0) :
    s0.observed = (sortFiles files).map (fun p => Obs.add p.1 p.2) ∧
    (sortFiles files).Pairwise (fun a b => a.1 ≤ b.1) ∧
    (sortFiles files).Perm files ∧
    s0.scheduled = s0.observed.flatMap (itemsOfObs fx) := by
  have g := good_init fx (some files) s0 h
  refine ⟨?_, sortFiles_sorted files, sortFiles_perm files, g.obs⟩
  unfold init at h
  cases hp : prep fx files with
  | fatal => simp [hp] at h
  | ok xs => simp [hp] at h; subst h; rfl

/-- … hence, when the names are distinct (a directory) and only the main thread runs until its first tick completes,
the engine holds the valid start-up files in reverse scheduling order: newest = greatest name first. -/
theorem startup_active_order (fx : Fixes) (files : List (String × Load α)) (s0 s' : St α)
    (quiet : List (Step α)) (h : init fx (some files) = .ok s0)
    (hnd : (s0.scheduled.map Prod.fst).Nodup)
    (hq : ∀ st ∈ quiet, st.isMain = true) (h2 : run fx s0 quiet = .ok s')
    (hsw : s0.swaps < s'.swaps) (htop : s'.pc = .top) :
    s'.active = (s0.scheduled.filterMap toActive).reverse := by
  have hc := converges fx s0 s' quiet ⟨some files, [], s0, h, rfl⟩ hq h2 hsw htop
  have hd : s0.deleted = false := by
    unfold init at h
    cases hp : prep fx files with
    | fatal => simp [hp] at h
    | ok xs => simp [hp] at h; subst h; rfl
  rw [hc.1, (quiet_no_reload fx quiet s0 s' hq hd h2).1, lww_of_nodup _ hnd]

/-! ## never fatal -/

/-- `C14_never_fatal_model`: with the `std::stoi` repair every step of either thread is total – for every state,
every event, every load result (including a number that does not parse) and every directory listing the step
returns `ok`; so does the constructor and so does every schedule.  No exception reaches a thread's top frame. -/
theorem never_fatal_model (fx : Fixes) (hfx : fx.stoiCaught = true) :
    (∀ (s : St α) (st : Step α), ∃ s', step fx s st = .ok s') ∧
    (∀ (dir : Option (List (String × Load α))), ∃ s0 : St α, init fx dir = .ok s0) ∧
    (∀ (s : St α) (steps : List (Step α)), ∃ s', run fx s steps = .ok s') := by
  refine ⟨step_ok_of_caught fx hfx, ?_, fun s steps => run_ok_of_caught fx hfx steps s⟩
  intro dir
  cases dir with
  | none => exact ⟨_, rfl⟩
  | some files =>
    obtain ⟨xs, hx⟩ := loadAll_ok_of_caught fx hfx (sortFiles files)
    simp [init, prep, hx]

/-- The pinned tree (Appendix C row 18): one drop-in file whose `post_action_delay` is not a number is fatal,
from the watcher thread … -/
theorem fatal_without_stoi_fix_watcher :
    run Fixes.none (St.empty : St Nat) [.evAdd "a.json" .badNumber] = .fatal := by decide

/-- … and from the constructor / the main thread's re-registration. -/
theorem fatal_without_stoi_fix_startup :
    init Fixes.none (some [("a.json", (Load.badNumber : Load Nat))]) = .fatal := by decide

/-! ## converges to the files present -/

/-- `C14_converges`, file-system form – **partial**: it assumes `Faithful` (inotify delivers an event after the
last change of each file and the load then sees the final bytes; the kernel's behaviour is observed by
`h_watcher`, not proved).  Under that assumption, for the repaired code, every schedule followed by a quiet
tick leaves active exactly the non-dot names whose final state is a valid file, each with its latest
content (and by `lww_no_duplicate_tag` each once). -/
theorem files_present_partial (s s' : St α) (quiet : List (Step α)) (final : String → Load α)
    (h : Reachable Fixes.all s) (hq : ∀ st ∈ quiet, st.isMain = true)
    (h2 : run Fixes.all s quiet = .ok s') (hsw : s.swaps < s'.swaps) (htop : s'.pc = .top)
    (hf : Faithful final s'.observed) (t : String) (u : α) :
    (t, u) ∈ s'.active ↔ (isDot t = false ∧ final t = .unit u) := by
  have hc := converges Fixes.all s s' quiet h hq h2 hsw htop
  have g' := good_run Fixes.all quiet s s' (reachable_good _ s h) h2
  rw [hc.1, mem_lww_iff, g'.obs, lastFor_items_all]
  by_cases ht : isDot t = true
  · simp [ht]
  · have ht' : isDot t = false := by simpa using ht
    simp only [ht', Bool.false_eq_true, if_false, true_and]
    rcases hf t ht' with h1 | ⟨h1, h3⟩
    · rw [h1]
      cases hfin : final t <;> simp [unitOf]
    · rw [h1]
      simp only [Option.map_none]
      constructor
      · intro hx; cases hx
      · intro hx; exact absurd hx (h3 u)

/-- The pinned tree (Appendix C row 20): `a` is written with valid content `1`, a tick applies it, `a` is
rewritten with invalid JSON, two more ticks: content `1` is still active although the last load of `a` failed
(so `files_present_partial` is false without `C14-invalid-rewrite.patch`) … -/
theorem invalid_rewrite_keeps_previous_unfixed :
    ∃ s' : St Nat,
      run Fixes.none St.empty
        ([.evAdd "a" (.unit 1)] ++ List.replicate 4 (.main none) ++ [.evAdd "a" .badJson] ++
          List.replicate 6 (.main none)) = .ok s' ∧
      s'.pc = .top ∧ s'.queue = [] ∧ s'.active = [("a", 1)] ∧ lastObs "a" s'.observed = some .badJson := by
  refine ⟨_, rfl, ?_⟩
  decide

/-- … while the same events on the repaired code end with no active drop-in. -/
theorem invalid_rewrite_removed_fixed :
    ∃ s' : St Nat,
      run Fixes.all St.empty
        ([.evAdd "a" (.unit 1)] ++ List.replicate 4 (.main none) ++ [.evAdd "a" .badJson] ++
          List.replicate 7 (.main none)) = .ok s' ∧
      s'.pc = .top ∧ s'.queue = [] ∧ s'.active = [] := by
  refine ⟨_, rfl, ?_⟩
  decide

/-! ## the hypotheses are satisfiable on a non-trivial instance -/

/-- start-up with three files (one dot-file, one invalid), a watcher event racing with the first tick, a
directory self-delete and a reload: reachable, and the quiet tick converges to `c` (newest), `b`, `a`. -/
example :
    ∃ s0 s s' : St Nat,
      init Fixes.all (some [("b", .unit 2), (".x", .unit 9), ("a", .unit 1), ("z", .badJson)]) = .ok s0 ∧
      run Fixes.all s0 [.main none, .evAdd "c" (.unit 3), .main none, .evRemove "z", .evSelf, .main none] = .ok s ∧
      run Fixes.all s (List.replicate 11 (.main (some [("c", .unit 3), ("b", .unit 2), ("a", .unit 1)]))) = .ok s' ∧
      s.swaps < s'.swaps ∧ s'.pc = .top ∧
      s0.scheduled = [("a", some 1), ("b", some 2), ("z", none)] ∧
      s'.active = [("c", 3), ("b", 2), ("a", 1)] := by
  refine ⟨_, _, _, rfl, rfl, rfl, ?_⟩
  decide

/-! ### inotify queue overflow

`files_present_partial` rests on `Faithful`: the last thing the service saw of every name is that name's final state.  A queue
overflow is exactly where the kernel stops providing that - events are dropped.  The pinned tree ignored `IN_Q_OVERFLOW`
(`overflow_loses_a_delete_unfixed`: a genuine defect, repaired by the `fix:` commits recorded in known_findings.txt); the
repaired service treats the marker like the loss of its directory - new watch, full re-scan on the next tick (`Step.evSelf`,
`overflow_then_tick_converges`) -, and `overflow_resync_restores_faithfulness` shows that the re-scan alone - whatever was lost before
it - re-establishes `Faithful` for the directory as it is at that moment, so that `files_present_partial` applies again once
the file system is quiet. -/

/-- **The re-scan restores faithfulness.**  Whatever the service observed before (`obs`: any events may have been lost), if
`seen` holds at least the names whose last processing was a load (`seen_files_`), then after `resyncDropInDir` has looked at a
directory `files` the observations are faithful to that directory: every non-dot name's last observation is its state there
(present: its load result; absent: gone). -/
theorem overflow_resync_restores_faithfulness (obs : List (Obs α)) (seen : List String) (files : List (String × Load α))
    (final : String → Load α)
    (hseen : ∀ f, isSeen obs f = true → f ∈ seen)
    (hnd : ∀ p ∈ files, ∀ q ∈ files, p.1 = q.1 → p = q)
    (hin : ∀ p ∈ files, final p.1 = p.2)
    (hout : ∀ f, (∀ p ∈ files, p.1 ≠ f) → final f = .noFile) :
    Faithful final (obs ++ resyncObs seen files) := by
  intro f hdot
  by_cases hf : ∃ p ∈ files, p.1 = f
  · -- present: the load of the re-scan is the last observation of `f`
    obtain ⟨p, hp, hpf⟩ := hf
    left
    have hmem : Obs.add p.1 p.2 ∈ resyncObs seen files := by
      unfold resyncObs
      exact List.mem_append_right _ ((mem_obsOfFiles files _).2 ⟨p, hp, rfl⟩)
    have huniq : ∀ o' ∈ resyncObs seen files, o'.name = f → o' = Obs.add p.1 p.2 := by
      intro o' ho' hn
      unfold resyncObs at ho'
      rcases List.mem_append.1 ho' with h1 | h1
      · obtain ⟨g, hg, rfl⟩ := List.mem_map.1 h1
        simp only [Obs.name] at hn
        have := (List.mem_filter.1 hg).2
        exfalso
        subst hn
        have hany : (files.any fun q => q.1 == g) = true := List.any_eq_true.2 ⟨p, hp, by simp [hpf]⟩
        simp [hany] at this
      · obtain ⟨q, hq, rfl⟩ := (mem_obsOfFiles files _).1 h1
        simp only [Obs.name] at hn
        have : q = p := hnd q hq p hp (hn.trans hpf.symm)
        rw [this]
    rw [lastObs_eq_map_lastObsOf, lastObsOf_append_hit f obs _ _ hmem (by simp [Obs.name, hpf]) huniq]
    simp [Obs.load, ← hpf, hin p hp]
  · have hnot : ∀ p ∈ files, p.1 ≠ f := fun p hp e => hf ⟨p, hp, e⟩
    have hfin := hout f hnot
    by_cases hs : f ∈ seen
    · -- gone, and remembered: the re-scan schedules its removal
      left
      have hmem : Obs.rem f ∈ resyncObs seen files := by
        unfold resyncObs
        refine List.mem_append_left _ (List.mem_map.2 ⟨f, List.mem_filter.2 ⟨hs, ?_⟩, rfl⟩)
        have : (files.any fun q => q.1 == f) = false := by
          apply List.any_eq_false.2
          intro q hq
          simpa using hnot q hq
        simp [this]
      have huniq : ∀ o' ∈ resyncObs seen files, o'.name = f → o' = Obs.rem f := by
        intro o' ho' hn
        unfold resyncObs at ho'
        rcases List.mem_append.1 ho' with h1 | h1
        · obtain ⟨g, _, rfl⟩ := List.mem_map.1 h1
          simp only [Obs.name] at hn
          rw [hn]
        · obtain ⟨q, hq, rfl⟩ := (mem_obsOfFiles files _).1 h1
          simp only [Obs.name] at hn
          exact absurd hn (hnot q hq)
      rw [lastObs_eq_map_lastObsOf, lastObsOf_append_hit f obs _ _ hmem rfl huniq]
      simp [Obs.load, hfin]
    · -- gone and not remembered: nothing of it was loaded last, and the re-scan does not mention it
      have hmiss : ∀ o ∈ resyncObs seen files, o.name ≠ f := by
        intro o ho hn
        unfold resyncObs at ho
        rcases List.mem_append.1 ho with h1 | h1
        · obtain ⟨g, hg, rfl⟩ := List.mem_map.1 h1
          simp only [Obs.name] at hn
          exact hs (hn ▸ (List.mem_filter.1 hg).1)
        · obtain ⟨q, hq, rfl⟩ := (mem_obsOfFiles files _).1 h1
          simp only [Obs.name] at hn
          exact hnot q hq hn
      rw [lastObs_eq_map_lastObsOf, lastObsOf_append_miss f obs _ hmiss]
      have hns : isSeen obs f = false := by
        cases h : isSeen obs f
        · rfl
        · exact absurd (hseen f h) hs
      unfold isSeen at hns
      cases hl : lastObsOf f obs with
      | none => right; exact ⟨rfl, fun u => by simp [hfin]⟩
      | some o =>
        cases o with
        | add g l => simp [hl, hdot] at hns
        | rem g => left; simp [Obs.load, hfin]

/-- **Without the re-scan a lost event is lost for good** (the pinned tree: `IN_Q_OVERFLOW` ignored).  `c` was loaded, its
deletion fell into the overflow: the observations are not faithful to the empty directory, and the engine keeps `c` through
any number of quiet ticks. -/
theorem overflow_loses_a_delete_unfixed :
    ¬ Faithful (fun _ => (Load.noFile : Load Nat)) [Obs.add "c" (.unit 3)] ∧
    (match run Fixes.all (St.empty : St Nat) ([.evAdd "c" (.unit 3)] ++ List.replicate 6 (.main none)) with
     | .ok s => s.active == [("c", 3)]
     | .fatal => false) = true := by
  constructor
  · intro h
    rcases h "c" (by decide) with h1 | ⟨h1, _⟩
    · simp [lastObs, Obs.name, Obs.load] at h1
    · simp [lastObs, Obs.name] at h1
  · decide

/-- **With the repair the same history converges**: the overflow marker makes the watcher drop its watch and raise the flag
(`Step.evSelf`), the next tick arms a new watch and re-scans (`resyncObs`): `c`, whose deletion was lost, is removed; `a`,
rewritten unseen, is reloaded - also when the directory itself is gone at that moment. -/
theorem overflow_then_tick_converges :
    (match run Fixes.all (St.empty : St Nat)
        ([.evAdd "c" (.unit 3), .evAdd "a" (.unit 1), .main none, .main none, .main none, .main none, .evSelf] ++
          List.replicate 6 (.main (some [("a", .unit 11)]))) with
     | .ok s => s.active == [("a", 11)] && !s.deleted
     | .fatal => false) = true ∧
    (match run Fixes.all (St.empty : St Nat)
        ([.evAdd "c" (.unit 3), .main none, .main none, .main none, .evSelf] ++ List.replicate 5 (.main none)) with
     | .ok s => s.active == [] && s.deleted
     | .fatal => false) = true := by
  constructor <;> decide

/-- non-vacuity of `overflow_resync_restores_faithfulness`: `c` was loaded and its deletion lost, `a` was rewritten unseen; the
re-scan of a directory holding `a` (new content) and a new `b` makes the observations faithful -/
example :
    Faithful (fun f => if f = "a" then Load.unit 11 else if f = "b" then .unit 2 else (.noFile : Load Nat))
      ([Obs.add "c" (.unit 3), Obs.add "a" (.unit 1)] ++ resyncObs ["a", "c"] [("a", .unit 11), ("b", .unit 2)]) := by
  apply overflow_resync_restores_faithfulness
  · intro f hf
    unfold isSeen lastObsOf at hf
    by_cases ha : f = "a"
    · simp [ha]
    · by_cases hc : f = "c"
      · simp [hc]
      · simp [Obs.name, ha, hc, Ne.symm ha, Ne.symm hc] at hf
  · intro p hp q hq h
    simp only [List.mem_cons, List.mem_nil_iff, or_false] at hp hq
    rcases hp with rfl | rfl <;> rcases hq with rfl | rfl <;> simp_all
  · intro p hp
    simp only [List.mem_cons, List.mem_nil_iff, or_false] at hp
    rcases hp with rfl | rfl <;> simp
  · intro f hf
    have ha : f ≠ "a" := fun e => hf ("a", .unit 11) (by simp) e.symm
    have hb : f ≠ "b" := fun e => hf ("b", .unit 2) (by simp) e.symm
    simp [ha, hb]

end C14

import OomdProofs.Engine

/-!
# C02 — Engine firing rule

All statements are about `OomdModel.Engine` (tied to `Ruleset.cpp`, `DetectorGroup.cpp`,
`Engine.cpp` by the `h_engine` correspondence run) and quantify over every configuration, every
ruleset state (paused or not, suspended chain or not), every script of plugin return values /
clock advances, every clock reading and uuid counter.
-/

namespace C02
open OomdModel.Engine

/-- On every tick every detector of the ruleset runs exactly once, in configuration order, whatever
the state of the ruleset (paused, suspended chain) and whether or not anything fires. -/
theorem all_detectors_run (inv : Bool) (cfg : RsCfg) (sc : Script) (st : RsState) (now ctr : Nat) :
    detInsts (rsRun inv cfg sc st now ctr).2.1 = cfg.groups.flatMap (·.dets) := by
  have hd := (detPhase_dets cfg sc cfg.groups now ctr none).1
  unfold rsRun
  simp only
  split
  · exact hd
  · split
    · split
      · simp [hd, (chain_acts ..).2]
      · unfold startFresh
        split <;> simp [hd, (chain_acts ..).2, detInsts]
    · unfold startFresh
      split <;> simp [hd, (chain_acts ..).2, detInsts]

/-- Every prerun of every ruleset is part of every tick, before any `run`, whether or not anything
fires: the tick's events start with the preruns of all rulesets in configuration order. -/
theorem all_preruns_run (inv : Bool) (w : World) (ti : TickIn) :
    ∃ rest, (tick inv w ti).2 = w.rs.flatMap (fun p => preruns p.1) ++ rest ∧
      ∀ e ∈ rest, ∀ i, e ≠ Ev.prerun i := by
  refine ⟨(engineRun inv ti.sc w.rs (w.now + ti.gap) w.ctr).2.1, rfl, ?_⟩
  generalize w.now + ti.gap = now
  generalize w.ctr = ctr
  generalize w.rs = rs
  induction rs generalizing now ctr with
  | nil => simp [engineRun]
  | cons p rest ih =>
    obtain ⟨cfg, st⟩ := p
    intro e he i
    simp only [engineRun, List.mem_append] at he
    rcases he with he | he
    · -- events of one rsRun are det or act events
      unfold rsRun at he
      simp only at he
      have hdet := detPhase_all_det cfg ti.sc cfg.groups now ctr none
      have hch : ∀ inv ctx as i' n s, ∀ e ∈ (chain cfg ti.sc inv ctx as i' n s).2.1, ∀ i, e ≠ Ev.prerun i := by
        intro inv ctx as i' n s e he i
        obtain ⟨a, t, rfl, _⟩ := chain_events cfg ti.sc inv ctx as i' n s e he
        simp
      have hdp : ∀ e ∈ (detPhase cfg ti.sc cfg.groups now ctr none).2.1, ∀ i, e ≠ Ev.prerun i := by
        intro e he i h
        have := hdet e he
        rw [h] at this
        simp [isDet] at this
      have hsf : ∀ f n s, ∀ e ∈ (startFresh cfg ti.sc f n s).2.1, ∀ i, e ≠ Ev.prerun i := by
        intro f n s e he i
        unfold startFresh at he
        split at he
        · exact hch _ _ _ _ _ _ e he i
        · simp at he
      split at he
      · exact hdp e he i
      · split at he
        · split at he
          · simp only [List.mem_append] at he
            rcases he with he | he
            · exact hdp e he i
            · exact hch _ _ _ _ _ _ e he i
          · simp only [List.mem_append] at he
            rcases he with he | he
            · exact hdp e he i
            · exact hsf _ _ _ e he i
        · simp only [List.mem_append] at he
          rcases he with he | he
          · exact hdp e he i
          · exact hsf _ _ _ e he i
    · exact ih _ _ e he i

/-- A detector group fires iff none of its detectors returned STOP (ASYNC_PAUSED counts as CONTINUE). -/
theorem group_fires_iff (sc : Script) (ds : List Nat) (now : Nat) :
    (checkGroup sc ds now).1 = true ↔ ∀ d ∈ ds, (sc d).ret ≠ .stop :=
  checkGroup_fires sc ds now

/-- The action context names this ruleset and the **first** detector group that fired; there is a
context iff some group fired. -/
theorem context_first_fired_group (cfg : RsCfg) (sc : Script) (now ctr : Nat) :
    match (detPhase cfg sc cfg.groups now ctr none).1 with
    | some c => c.ruleset = cfg.rid ∧ (cfg.groups.find? (fires sc)).map (·.gid) = some c.group
    | none => cfg.groups.find? (fires sc) = none := by
  have := detPhase_first cfg sc cfg.groups now ctr
  split <;> rename_i h <;> simp only [h] at this
  · exact ⟨this.1, this.2.1⟩
  · exact this.1

/-- **Firing rule.**  With no suspended chain, the actions run on this tick are: the configured
chain from its first action up to and including the first action that does not return CONTINUE, if
some group fired and the ruleset is not inside its post-action pause (clock reading after the
detectors `<` pause deadline); and none otherwise. -/
theorem chain_starts_iff (inv : Bool) (cfg : RsCfg) (sc : Script) (st : RsState) (now ctr : Nat)
    (hact : st.active = none) :
    actInsts (rsRun inv cfg sc st now ctr).2.1 =
      if (cfg.groups.find? (fires sc)).isSome ∧ ¬ ((detPhase cfg sc cfg.groups now ctr none).2.2.1 < st.pauseUntil)
      then takeThrough sc cfg.actions else [] := by
  have hd := (detPhase_dets cfg sc cfg.groups now ctr none).2
  have hf := detPhase_first cfg sc cfg.groups now ctr
  unfold rsRun
  simp only [hact]
  split
  · rename_i hp; simp [hp, hd]
  · rename_i hp
    unfold startFresh
    split
    · rename_i c hc
      simp only [hc] at hf
      have : (cfg.groups.find? (fires sc)).isSome = true := by
        cases h : cfg.groups.find? (fires sc) <;> simp [h] at hf ⊢
      simp [this, hp, hd, (chain_acts ..).1]
    · rename_i hc
      simp only [hc] at hf
      simp [hf.1, hd, actInsts]

/-- Every action of a chain sees the same context, and the chain runs the configured actions in
order until one does not return CONTINUE or the chain ends. -/
theorem actions_in_order (cfg : RsCfg) (sc : Script) (inv : Bool) (ctx : Ctx) (as : List Nat) (i now : Nat) (st : RsState) :
    actInsts (chain cfg sc inv ctx as i now st).2.1 = takeThrough sc as ∧
    ∀ e ∈ (chain cfg sc inv ctx as i now st).2.1, ∃ a t, e = Ev.act a t ctx inv :=
  ⟨(chain_acts ..).1, fun e he => by
    obtain ⟨a, t, h, _⟩ := chain_events cfg sc inv ctx as i now st e he
    exact ⟨a, t, h⟩⟩

/-- `takeThrough` is what the property says: a prefix of the configured list, all of whose elements
but the last returned CONTINUE, and which is the whole list unless its last element did not. -/
theorem takeThrough_spec (sc : Script) (as : List Nat) :
    ∃ rest, as = takeThrough sc as ++ rest ∧
      (∀ a ∈ (takeThrough sc as).dropLast, (sc a).ret = .cont) ∧
      (rest ≠ [] → ∃ a, (takeThrough sc as).getLast? = some a ∧ (sc a).ret ≠ .cont) := by
  induction as with
  | nil => exact ⟨[], by simp [takeThrough]⟩
  | cons a as ih =>
    obtain ⟨rest, h1, h2, h3⟩ := ih
    by_cases h : (sc a).ret = .cont
    · refine ⟨rest, by simp [takeThrough, h, ← h1], ?_, ?_⟩
      · intro x hx
        simp only [takeThrough, h, if_true] at hx
        cases hq : takeThrough sc as with
        | nil => simp [hq] at hx
        | cons y ys =>
          simp only [hq, List.dropLast_cons_cons, List.mem_cons] at hx
          rcases hx with rfl | hx
          · exact h
          · exact h2 x (by simpa [hq] using hx)
      · intro hr
        obtain ⟨b, hb1, hb2⟩ := h3 hr
        refine ⟨b, ?_, hb2⟩
        simp only [takeThrough, h, if_true]
        cases hq : takeThrough sc as with
        | nil => simp [hq] at hb1
        | cons y ys => simpa [hq] using hb1
    · exact ⟨as, by simp [takeThrough, h], by simp [takeThrough, h], fun _ => ⟨a, by simp [takeThrough, h], h⟩⟩

/-- **Rulesets do not influence one another** except through the shared clock and uuid counter:
the state and events of a ruleset are those of `rsRun` on its own configuration, state and script at
the clock reading at which it is reached, whatever the rulesets before and after it are. -/
theorem independence (inv : Bool) (sc : Script) (pre post : List (RsCfg × RsState)) (cfg : RsCfg) (st : RsState)
    (now ctr : Nat) :
    let a := engineRun inv sc pre now ctr
    let r := rsRun inv cfg sc st a.2.2.1 a.2.2.2
    let b := engineRun inv sc post r.2.2.1 r.2.2.2
    engineRun inv sc (pre ++ (cfg, st) :: post) now ctr =
      (a.1 ++ (cfg, r.1) :: b.1, a.2.1 ++ r.2.1 ++ b.2.1, b.2.2.1, b.2.2.2) := by
  induction pre generalizing now ctr with
  | nil => simp [engineRun]
  | cons p pre ih =>
    obtain ⟨c, s⟩ := p
    simp only [List.cons_append, engineRun]
    rw [ih]
    simp [List.append_assoc]

/-- Rulesets are evaluated in configuration order: the result lists states in the same order and
with the same configurations. -/
theorem config_order (inv : Bool) (sc : Script) (rs : List (RsCfg × RsState)) (now ctr : Nat) :
    (engineRun inv sc rs now ctr).1.map (·.1) = rs.map (·.1) := by
  induction rs generalizing now ctr with
  | nil => rfl
  | cons p rest ih => obtain ⟨c, s⟩ := p; simp [engineRun, ih]

/-! non-vacuity: a concrete firing tick -/
example :
    let cfg : RsCfg := { rid := 0, groups := [{ gid := 0, dets := [0, 1] }, { gid := 1, dets := [2] }], actions := [3, 4, 5], delay := 15, hookTimeout := 5 }
    let sc : Script := fun i => if i = 0 then { ret := .stop } else if i = 4 then { ret := .stop } else {}
    actInsts (rsRun true cfg sc {} 1000 0).2.1 = [3, 4] ∧ detInsts (rsRun true cfg sc {} 1000 0).2.1 = [0, 1, 2] := by
  decide

end C02

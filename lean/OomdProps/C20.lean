import OomdProofs.Log

/-!
# C20 — Async logger: exactly-once FIFO delivery, bounded backlog, per-thread silencing

Property theorems only.  Model: `OomdModel.Log` (the code after `fixes/C20-size-after-move.patch` and
`fixes/C20-release-after-write.patch`; `Variant` switches either defect back on).  Every theorem
quantifies over every reachable state, i.e. over every schedule of producers, flusher and shutdown
(`Reachable v s ↔ ∃ sched, run v St.init sched = s`, `reachable_iff_run`), every number of threads, every
message size.

What is *not* proved here (observed by `h_log` under TSan instead): absence of data races, that the
condition variable is notified (no lost wake-up), memory safety.
-/

namespace C20
open OomdModel OomdModel.Log

/-! ## the constant the property names -/

theorem logMaxSize_pinned : Generated.logMaxSize = 1048576 := by decide

theorem maxSize_is_1MiB : maxSize = 1024 * 1024 := by decide

/-! ## schedules and reachable states -/

theorem reachable_iff_run (v : Variant) (s : St) :
    Reachable v s ↔ ∃ sched, run v St.init sched = s :=
  ⟨reachable_exists_run, fun ⟨sched, h⟩ => h ▸ reachable_run v sched St.init Reachable.init⟩

/-! ## exactly once, in order -/

/-- Every accepted line is, in acceptance order, either already in the sink, or in the batch being
written, or in the queue: nothing is lost, duplicated or reordered.  Holds for all three code variants. -/
theorem exactly_once_fifo (v : Variant) (s : St) (h : Reachable v s) :
    s.accepted = sinkLines s.sink ++ s.otherQ ++ s.curQ :=
  (invA_reachable h).acc

/-- … hence the lines of each thread keep the order in which that thread logged them. -/
theorem per_thread_fifo (v : Variant) (s : St) (h : Reachable v s) (u : Nat) :
    s.accepted.filter (·.tid = u)
      = (sinkLines s.sink).filter (·.tid = u) ++ s.otherQ.filter (·.tid = u) ++ s.curQ.filter (·.tid = u) := by
  rw [exactly_once_fifo v s h, List.filter_append, List.filter_append]

/-- If the producers never log the same (thread, sequence number, size) twice, no line is in the sink twice,
and no line in the sink is still queued. -/
theorem no_duplicates (v : Variant) (s : St) (h : Reachable v s) (hd : s.offered.Nodup) :
    (sinkLines s.sink ++ s.otherQ ++ s.curQ).Nodup := by
  rw [← exactly_once_fifo v s h]
  exact (invA_reachable h).accSub.nodup hd

/-- Nothing is invented: the sink holds only lines that were handed to `debugLog`, and every such line was
either accepted or counted as dropped. -/
theorem nothing_invented (v : Variant) (s : St) (h : Reachable v s) :
    (∀ m ∈ sinkLines s.sink, m ∈ s.offered) ∧
    s.offered.length = s.accepted.length + s.droppedL.length := by
  refine ⟨fun m hm => ?_, (invA_reachable h).count⟩
  apply (invA_reachable h).accSub.subset
  rw [exactly_once_fifo v s h]
  simp [hm]

/-! ## bounded backlog -/

/-- The code as modelled (both fixes): lines accepted and not yet written never exceed `maxSize` in total. -/
theorem backlog_total (s : St) (h : Reachable fixed s) : unwritten s ≤ maxSize := by
  have hb := invB_reachable (v := fixed) rfl h
  have h1 := hb.size
  have h2 := hb.cap
  have h3 := hb.batch
  simp only [fixed] at h1 h3
  simp only [unwritten]
  simp at h1 h3
  omega

/-- Either release point, as long as the size is taken before the move: the queue the producers fill never
exceeds `maxSize`, a batch never exceeds `maxSize`, so at most `2 · maxSize` bytes are unwritten. -/
theorem backlog_bounded (v : Variant) (hv : v.sizeAfterMove = false) (s : St) (h : Reachable v s) :
    bytes s.curQ ≤ maxSize ∧ bytes s.otherQ ≤ maxSize ∧ unwritten s ≤ 2 * maxSize := by
  have hb := invB_reachable hv h
  have h1 := hb.size
  have h2 := hb.cap
  have h3 := hb.batch
  simp only [unwritten]
  cases hr : v.releaseAtSwap <;> simp [hr] at h1 h3 <;> omega

/-- With the accounting released at the swap (defect 26 alone) the total does exceed `maxSize`:
600 000 bytes in flight plus 600 000 queued, nothing dropped. -/
theorem backlog_total_fails_release_at_swap :
    let s := run fix25only St.init [.debugLog ⟨0, 0, 600000⟩, .swap, .debugLog ⟨0, 1, 600000⟩]
    unwritten s > maxSize ∧ s.droppedL = [] := by
  decide

/-- The unchanged code (size read from the moved-from string): 1 500 000 bytes queued, nothing dropped. -/
theorem backlog_fails_unfixed :
    let s := run unfixed St.init
      [.debugLog ⟨0, 0, 500000⟩, .debugLog ⟨0, 1, 500000⟩, .debugLog ⟨0, 2, 500000⟩]
    bytes s.curQ > maxSize ∧ s.droppedL = [] ∧ s.curSize = 0 := by
  decide

/-- … and in fact no bound at all holds for the unchanged code: `k` lines of `maxSize` bytes are all
accepted, for every `k`. -/
theorem backlog_unbounded_unfixed (k : Nat) :
    let s := run unfixed St.init (List.replicate k (.debugLog ⟨0, 0, maxSize⟩))
    bytes s.curQ = k * maxSize ∧ s.droppedL = [] := by
  have one : ∀ s : St, s.curSize = 0 →
      (enq unfixed s ⟨0, 0, maxSize⟩).curSize = 0 ∧
      (enq unfixed s ⟨0, 0, maxSize⟩).curQ = s.curQ ++ [⟨0, 0, maxSize⟩] ∧
      (enq unfixed s ⟨0, 0, maxSize⟩).droppedL = s.droppedL := by
    intro s hs
    simp [enq, hs, unfixed]
  have key : ∀ (k : Nat) (s : St), s.curSize = 0 →
      bytes (run unfixed s (List.replicate k (.debugLog ⟨0, 0, maxSize⟩))).curQ = bytes s.curQ + k * maxSize ∧
      (run unfixed s (List.replicate k (.debugLog ⟨0, 0, maxSize⟩))).droppedL = s.droppedL := by
    intro k
    induction k with
    | zero => intro s _; simp [run]
    | succ n ih =>
      intro s hs
      obtain ⟨h1, h2, h3⟩ := one s hs
      have := ih _ h1
      simp only [List.replicate_succ, run, step]
      rw [this.1, this.2, h2, h3]
      simp [bytes_append, bytes_cons, bytes_nil, Nat.add_mul]
      omega
  have := key k St.init rfl
  simpa [St.init, bytes_nil] using this

/-! ## drops are counted and reported -/

/-- Every dropped line is accounted for: already reported in the sink, or captured by the flusher for the
report it is about to write, or counted in `numDiscarded` for the next one. -/
theorem drops_reported (v : Variant) (s : St) (h : Reachable v s) :
    s.droppedL.length = reported s.sink + s.ioDiscarded + s.numDiscarded ∧
    (s.pc ≠ .writing → s.ioDiscarded = 0) :=
  ⟨(invA_reachable h).drops, (invA_reachable h).ioD⟩

/-- A line is dropped exactly when accepting it would take queued plus in-flight bytes over `maxSize`;
otherwise it is appended to the queue (the code as modelled, both fixes). -/
theorem drop_only_when_full (s : St) (h : Reachable fixed s) (m : Msg) :
    (m.size + bytes s.curQ + inflight s > maxSize →
      (enq fixed s m).droppedL = s.droppedL ++ [m] ∧ (enq fixed s m).accepted = s.accepted ∧
      (enq fixed s m).curQ = s.curQ) ∧
    (¬ m.size + bytes s.curQ + inflight s > maxSize →
      (enq fixed s m).droppedL = s.droppedL ∧ (enq fixed s m).accepted = s.accepted ++ [m] ∧
      (enq fixed s m).curQ = s.curQ ++ [m]) := by
  have hb := (invB_reachable (v := fixed) rfl h).size
  simp [fixed] at hb
  unfold enq
  constructor
  · intro hf
    have hc : m.size + s.curSize > maxSize := by omega
    simp [hc]
  · intro hf
    have hc : ¬ m.size + s.curSize > maxSize := by omega
    simp [hc]

/-! ## shutdown -/

/-- When the flusher has exited (so `~Log`'s `join` can return), every line accepted before `~Log` set the
stop flag is in the sink, in order; the flusher exits only after a stop. -/
theorem flush_on_shutdown (v : Variant) (s : St) (h : Reachable v s) (hx : s.pc = .exited) :
    s.running = false ∧ ∃ a rest, s.atStop = some a ∧ sinkLines s.sink = a ++ rest := by
  have ia := invA_reachable h
  have hl := ia.exitedRun hx
  obtain ⟨a, ha, hp⟩ := ia.lastStop hl
  have ho : s.otherQ = [] := ia.other (by simp [hx])
  rw [ho, List.append_nil] at hp
  obtain ⟨rest, hr⟩ := hp
  refine ⟨?_, a, rest, ha, hr.symm⟩
  cases hrun : s.running
  · rfl
  · have := ia.stopA.1 hrun
    simp [ha] at this

/-- … and at that point nothing is left in the batch, and every drop up to the last swap has been reported. -/
theorem exited_state (v : Variant) (s : St) (h : Reachable v s) (hx : s.pc = .exited) :
    s.otherQ = [] ∧ s.accepted = sinkLines s.sink ++ s.curQ ∧
    s.droppedL.length = reported s.sink + s.numDiscarded := by
  have ia := invA_reachable h
  have ho : s.otherQ = [] := ia.other (by simp [hx])
  have hi : s.ioDiscarded = 0 := ia.ioD (by simp [hx])
  refine ⟨ho, by simpa [ho] using ia.acc, by have := ia.drops; omega⟩

/-- Progress: once `~Log` has set the stop flag the flusher can always run to completion on its own (no
producer step is needed), and when it has, everything accepted before the stop is in the sink.  So `join`
in `~Log` returns as soon as the sink takes the remaining lines, and nothing accepted is left behind. -/
theorem shutdown_completes (v : Variant) (s : St) (h : Reachable v s) (a : List Msg) (ha : s.atStop = some a) :
    ∃ sched : List Step, sched.all isIoStep = true ∧
      (run v s sched).pc = .exited ∧ ∃ rest, sinkLines (run v s sched).sink = a ++ rest := by
  have hstop : s.running = false := by
    cases hr : s.running
    · rfl
    · have := (invA_reachable h).stopA.1 hr
      simp [ha] at this
  obtain ⟨sched, hio, hx⟩ := flusher_completes v s hstop
  refine ⟨sched, hio, hx, ?_⟩
  obtain ⟨_, a', rest, ha', hr⟩ := flush_on_shutdown v _ (reachable_run v sched s h) hx
  have := run_atStop v sched s a ha
  rw [this] at ha'
  cases ha'
  exact ⟨rest, hr⟩

/-! ## silencing -/

/-- What a thread hands to the logger, and its own flag, are functions of that thread's own steps:
two schedules that agree on thread `u`'s steps – whatever DISABLE / ENABLE tokens, lines, kmsg records
the other threads, the flusher or shutdown interleave – make `u` offer exactly the same lines. -/
theorem silencing_is_per_thread (v : Variant) (sched₁ sched₂ : List Step) (u : Nat)
    (hsame : sched₁.filter (fun e => owner e == some u) = sched₂.filter (fun e => owner e == some u)) :
    (run v St.init sched₁).offered.filter (·.tid = u) = (run v St.init sched₂).offered.filter (·.tid = u) ∧
    enabledOf (run v St.init sched₁) u = enabledOf (run v St.init sched₂) u := by
  have proj : ∀ (sched : List Step) (en : Bool),
      threadOffers u en sched = threadOffers u en (sched.filter (fun e => owner e == some u)) ∧
      threadFlag u en sched = threadFlag u en (sched.filter (fun e => owner e == some u)) := by
    intro sched
    induction sched with
    | nil => intro en; simp [threadOffers, threadFlag]
    | cons e r ih =>
      intro en
      by_cases ho : owner e = some u
      · simp only [List.filter_cons, ho, beq_self_eq_true, if_true, threadOffers, threadFlag]
        rw [(ih _).1, (ih _).2]
        exact ⟨rfl, rfl⟩
      · have h1 : flag1 u en e = en ∧ offer1 u en e = [] := by
          cases e with
          | debugLog m =>
            have : m.tid ≠ u := fun c => ho (by simp [owner, c])
            simp [flag1, offer1, this]
          | stmt t q toks =>
            have : t ≠ u := fun c => ho (by simp [owner, c])
            simp [flag1, offer1, this]
          | _ => exact ⟨rfl, rfl⟩
        have hb : (owner e == some u) = false := by simpa using ho
        simp only [List.filter_cons, hb, threadOffers, threadFlag, h1.1, h1.2, List.nil_append]
        exact ih en
  obtain ⟨f1, o1⟩ := run_thread_view v sched₁ St.init u
  obtain ⟨f2, o2⟩ := run_thread_view v sched₂ St.init u
  rw [o1, o2, f1, f2, (proj sched₁ _).1, (proj sched₂ _).1, (proj sched₁ _).2, (proj sched₂ _).2, hsame]
  exact ⟨rfl, rfl⟩

/-- A statement of a silenced thread that contains no ENABLE token hands nothing to the logger and leaves
the thread silenced. -/
theorem silenced_stmt_offers_nothing (toks : List Tok) (hn : Tok.enable ∉ toks) :
    runStmt false toks = (false, none) := by
  have key : ∀ (toks : List Tok) (s : LS), Tok.enable ∉ toks → s.enabled = false →
      (toks.foldl LS.tok s).enabled = false := by
    intro toks
    induction toks with
    | nil => intro s _ h; exact h
    | cons t r ih =>
      intro s hn hs
      simp only [List.foldl_cons]
      apply ih
      · exact fun c => hn (List.mem_cons_of_mem _ c)
      · cases t with
        | text n => simpa [LS.tok] using hs
        | disable => simp [LS.tok]
        | enable => exact absurd (List.mem_cons_self) hn
  have := key toks ⟨false, false, 0⟩ hn rfl
  simp [runStmt, LS.finish, this]

/-- A statement of a thread that is not silenced, consisting of ordinary values only, hands one line to the
logger: the formatted text plus the newline. -/
theorem plain_stmt_offered (ns : List Nat) (hne : ns ≠ []) :
    runStmt true (ns.map Tok.text) = (true, some (ns.sum + 1)) := by
  have key : ∀ (ns : List Nat) (k : Nat) (sk : Bool), ns ≠ [] ∨ sk = false →
      (ns.map Tok.text).foldl LS.tok ⟨true, sk, k⟩ = ⟨true, false, k + ns.sum⟩ := by
    intro ns
    induction ns with
    | nil => intro k sk h; simp at h; simp [h]
    | cons n r ih =>
      intro k sk _
      simp only [List.map_cons, List.foldl_cons, LS.tok, List.sum_cons]
      rw [ih _ _ (Or.inr rfl)]
      simp
      omega
  simp [runStmt, key ns 0 false (Or.inl hne), LS.finish]

/-- `ENABLE` followed by text in the same statement is printed (Log.h 106-116), `ENABLE` alone prints no
empty line, `DISABLE << text << ENABLE << text'` prints only `text'`. -/
theorem control_statement_forms (en : Bool) (a b : Nat) :
    runStmt en [.enable, .text a] = (true, some (a + 1)) ∧
    runStmt en [.enable] = (true, none) ∧
    runStmt en [.disable] = (false, none) ∧
    runStmt en [.disable, .text a] = (false, none) ∧
    runStmt en [.disable, .text a, .enable, .text b] = (true, some (b + 1)) := by
  cases en <;> simp [runStmt, LS.tok, LS.finish]

/-- The kmsg kill record is written whatever any thread's flag is: the kmsg stream is exactly the list of
records asked for, for every schedule (DISABLE tokens included). -/
theorem kmsg_not_suppressed (v : Variant) (sched : List Step) :
    (run v St.init sched).kmsg = kmsgAsked sched := by
  simpa [St.init] using run_kmsg v sched St.init

/-! ## the acceptor used by the correspondence check accepts only reachable states -/

theorem replay_reachable (v : Variant) (obs : List Obs) (s s' : St) (h : Reachable v s)
    (hr : replay v s obs = some s') : Reachable v s' := by
  have drain : ∀ (fuel : Nat) (s s' : St), Reachable v s → drainBatch v s fuel = some s' → Reachable v s' := by
    intro fuel
    induction fuel with
    | zero => intro s s' _ hd; simp [drainBatch] at hd
    | succ n ih =>
      intro s s' hs hd
      simp only [drainBatch] at hd
      split at hd
      · exact Reachable.step .report hs hd
      · split at hd
        · rename_i s1 h1
          exact ih s1 s' (Reachable.step .write1 hs h1) hd
        · cases hd
  induction obs generalizing s with
  | nil => simp [replay] at hr; exact hr ▸ h
  | cons o os ih =>
    simp only [replay] at hr
    split at hr
    · rename_i s1 h1
      refine ih s1 ?_ hr
      cases o with
      | enq m acc =>
        simp only [replayObs] at h1
        split at h1
        · simp only [Option.some.injEq] at h1
          exact Reachable.step (.debugLog m) h (by simp [step, h1])
        · cases h1
      | swap n d r =>
        simp only [replayObs] at h1
        split at h1
        · exact Reachable.step .swap h h1
        · cases h1
      | cleared => exact drain _ s s1 h h1
      | release => exact Reachable.step .release h h1
      | stop => exact Reachable.step .stop h h1
    · cases hr

/-! ## non-vacuity: a concrete schedule with two threads, a silenced statement, a drop, a report, shutdown -/

def demo : List Step :=
  [ .stmt 0 0 [.text 30], .stmt 1 0 [.disable], .stmt 1 1 [.text 40], .kmsgWrite ⟨1, 2, 50⟩,
    .swap, .debugLog ⟨0, 1, 1048576⟩, .write1, .report, .release, .debugLog ⟨0, 2, 1048560⟩,
    .stmt 1 3 [.enable, .text 9], .stop, .swap, .write1, .write1, .report, .release ]

example :
    let s := run fixed St.init demo
    s.pc = .exited ∧
    sinkLines s.sink = [⟨0, 0, 31⟩, ⟨0, 2, 1048560⟩, ⟨1, 3, 10⟩] ∧
    reported s.sink = 1 ∧ s.droppedL = [⟨0, 1, 1048576⟩] ∧
    s.kmsg = [⟨1, 2, 50⟩] ∧ s.atStop = some [⟨0, 0, 31⟩, ⟨0, 2, 1048560⟩, ⟨1, 3, 10⟩] ∧
    s.offered.Nodup := by
  decide

end C20

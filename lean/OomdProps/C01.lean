import OomdProofs.Kill
import OomdProps.C03

/-!
# C01 — Kill containment: only the chosen victim's processes are ever signalled

Property theorems only.  Model: `OomdModel.Kill` (`runKill` = `BaseKillPlugin::run` with no hook pending); lemmas
in `OomdProofs.Kill`.  The boundary vocabulary `Ev` has exactly one signalling event, `kill pid rc`, which stands
for `kill(pid, SIGKILL)` — the harness checks the signal number on the implementation's events.

All statements hold for every configuration, every tree of cached cgroup views, every admissible ranking
(`RankOK`) and every environment `Env` (what every `cgroup.procs` read returns, the result of every `kill(2)`,
`setxattr`, control-file write, `pidfd_open`, `process_mrelease`).  `roots` stands for the cgroups the configured
patterns resolve to on this tick (`resolveWildcard`, exact by C16; the driver computes it with C16's model).

The model is of the code with `fixes/C01-nonpositive-pid.patch` applied; on the unfixed code
`signals_contained` is false (a `0` line in `cgroup.procs` is passed to `kill(2)`), see `corpus/C01`.
-/

namespace C01
open OomdModel.Kill

/-- the attempts of one invocation: (victim, events / environment / result of `tryToLogAndKillCgroup` on it) -/
abbrev attempts_of (cfg : KillCfg) (rank : List View → List View) (h : RankOK rank) (roots : List View) (env : Env) :
    List (View × R Bool) :=
  segments (tryToLogAndKill cfg) (plan cfg rank h.sub roots) 0 env

/-- Every boundary event of an invocation belongs to exactly one attempt on one victim, in order; the only thing
    that can follow the last attempt is the call of `pause_actions`. -/
theorem events_are_attempts (cfg : KillCfg) (rank : List View → List View) (h : RankOK rank) (roots : List View)
    (env : Env) :
    (runKill cfg rank roots env).evs =
      (attempts_of cfg rank h roots env).flatMap (fun s => s.2.evs)
        ++ pauseEvs cfg ((attempts_of cfg rank h roots env).any (fun s => s.2.val)) := by
  rw [(runKill_apply cfg rank h roots env).1, tryEach_evs, tryEach_val]

theorem pause_is_not_an_effect (cfg : KillCfg) (ok : Bool) :
    ∀ e ∈ pauseEvs cfg ok, ∃ d, e = .pause d := by
  intro e he
  unfold pauseEvs at he
  split at he
  · simp at he
  · split at he <;> simp at he
    exact ⟨_, he⟩

/-- **Signals.** Every SIGKILL of an attempt on victim `v` goes to a positive pid that was listed by a
    `cgroup.procs` read made earlier in the same attempt on `v` itself or on a descendant of `v`
    (through the held directory fds of the cached children). -/
theorem signals_contained (cfg : KillCfg) (rank : List View → List View) (h : RankOK rank) (roots : List View)
    (env : Env) (s : View × R Bool) (hs : s ∈ attempts_of cfg rank h roots env)
    (pre post : List Ev) (pid : Int) (rc : Nat) (hsplit : s.2.evs = pre ++ .kill pid rc :: post) :
    0 < pid ∧ ∃ cg pids, Ev.procs cg (some pids) ∈ pre ∧ cg ∈ subtreeIds s.1 ∧ pid ∈ pids := by
  obtain ⟨_, k, env', he⟩ := segments_mem _ _ _ _ s hs
  obtain ⟨hok, hfresh⟩ := attempt_ok cfg s.1 k env'
  rw [← he] at hok hfresh
  have hmem : Ev.kill pid rc ∈ s.2.evs := by rw [hsplit]; simp
  refine ⟨by simpa [EvOK] using hok _ hmem, ?_⟩
  have hl := hfresh none
  rw [hsplit] at hl
  cases killsListed_spec pre none pid rc post hl with
  | inl h1 =>
    obtain ⟨cg, ps, hm, hp⟩ := h1
    refine ⟨cg, ps, hm, ?_, hp⟩
    have : Ev.procs cg (some ps) ∈ s.2.evs := by rw [hsplit]; simp [hm]
    simpa [EvOK] using hok _ this
  | inr h2 => obtain ⟨ps, hn, _⟩ := h2; cases hn

/-- no `cgroup.procs` outside the victim's subtree is even read -/
theorem procs_reads_contained (cfg : KillCfg) (rank : List View → List View) (h : RankOK rank) (roots : List View)
    (env : Env) (s : View × R Bool) (hs : s ∈ attempts_of cfg rank h roots env)
    (cg : Nat) (a : Option (List Int)) (hm : Ev.procs cg a ∈ s.2.evs) : cg ∈ subtreeIds s.1 := by
  obtain ⟨_, k, env', he⟩ := segments_mem _ _ _ _ s hs
  have := (attempt_ok cfg s.1 k env').1
  rw [← he] at this
  simpa [EvOK] using this _ hm

/-- what "the victim's subtree" is: the victim and, recursively, its cached children -/
theorem subtree_is_descendants (v : View) (x : Nat) :
    x ∈ subtreeIds v ↔ x = v.id ∨ ∃ c ∈ v.children, x ∈ subtreeIds c := by
  rw [mem_subtreeIds, mem_forestIds]

/-- **Victim.** Every victim is a cgroup the patterns resolved to, or is reached from one by descending one
    level at a time through cgroups that are descended into (`recursive` set, no memory.oom.group, has
    children); without `recursive` it is a resolved cgroup itself. -/
theorem victim_matched (cfg : KillCfg) (rank : List View → List View) (h : RankOK rank) (roots : List View)
    (env : Env) (s : View × R Bool) (hs : s ∈ attempts_of cfg rank h roots env) :
    (∃ r ∈ roots, ∃ p, Descent cfg r p s.1 ∧ ∀ a ∈ p, descends cfg a = true) ∧
    (cfg.recursive = false → s.1 ∈ roots) := by
  obtain ⟨hin, _⟩ := segments_mem _ _ _ _ s hs
  unfold plan at hin
  rw [List.mem_flatMap] at hin
  obtain ⟨r, hr, hxr⟩ := hin
  obtain ⟨⟨p, hp⟩, _, _⟩ := attempts_descent cfg rank h.sub (vsize r) r (Nat.le_refl _) s.1 hxr
  refine ⟨⟨r, h.sub _ _ hr, p, hp, descent_path_descends hp⟩, ?_⟩
  intro hrec
  cases hp with
  | here => exact h.sub _ _ hr
  | down hd _ _ => simp [descends, mayRecurse, hrec] at hd

/-- **Writes.** Every xattr write, every control-file write (cgroup.freeze / cgroup.kill) and the kmsg record
    of an attempt name the victim of that attempt. -/
theorem writes_contained (cfg : KillCfg) (rank : List View → List View) (h : RankOK rank) (roots : List View)
    (env : Env) (s : View × R Bool) (hs : s ∈ attempts_of cfg rank h roots env) (e : Ev) (he : e ∈ s.2.evs) :
    (∀ cg n v o c, e = .setxattr cg n v o c → cg = s.1.id) ∧
    (∀ cg f rc, e = .write cg f rc → cg = s.1.id) ∧
    (∀ cg d, e = .kmsg cg d → cg = s.1.id) := by
  obtain ⟨_, k, env', hr⟩ := segments_mem _ _ _ _ s hs
  have := (attempt_ok cfg s.1 k env').1
  rw [← hr] at this
  have hok := this e he
  refine ⟨?_, ?_, ?_⟩
  · intro cg n v o c heq; subst heq; simpa [EvOK] using hok
  · intro cg f rc heq; subst heq; simpa [EvOK] using hok
  · intro cg d heq; subst heq; simpa [EvOK] using hok

/-- **First success stops.** An attempt that delivered a signal (a successful `kill(2)` or a successful write to
    cgroup.kill) is the last attempt of the invocation: no attempt before the last one delivered any.
    With `events_are_attempts`: after the first victim from which a process was signalled nothing is emitted for
    any other cgroup, and the invocation returns. -/
theorem stops_at_first_success (cfg : KillCfg) (rank : List View → List View) (h : RankOK rank) (roots : List View)
    (env : Env) (s : View × R Bool) (hs : s ∈ (attempts_of cfg rank h roots env).dropLast) :
    ∀ e ∈ s.2.evs, isSignal e = false := by
  have hfail := segments_init_fail _ _ _ _ s hs
  obtain ⟨_, k, env', hr⟩ := segments_mem _ _ _ _ s (List.dropLast_subset _ hs)
  rw [hr] at hfail ⊢
  exact attempt_fail_nosignal cfg s.1 k env' hfail

/-- …and a wet attempt that delivered no signal reports failure, so the loop does go on to the next candidate -/
theorem failure_iff_no_signal (cfg : KillCfg) (v : View) (k : Nat) (env : Env) (hd : cfg.dry = false) :
    (tryToLogAndKill cfg v k env).val = false ↔ ∀ e ∈ (tryToLogAndKill cfg v k env).evs, isSignal e = false := by
  constructor
  · exact attempt_fail_nosignal cfg v k env
  · intro hall
    cases hv : (tryToLogAndKill cfg v k env).val with
    | false => rfl
    | true =>
      obtain ⟨e, he, hsig⟩ := attempt_success_signal cfg v k env hd hv
      rw [hall e he] at hsig; cases hsig

/-- file names and loop bounds of the kill path (Fs.h / BaseKillPlugin.cpp, via the translator) -/
theorem control_files_and_bounds :
    CtlFile.str .kill = "cgroup.kill" ∧ CtlFile.str .freeze = "cgroup.freeze" ∧
    OomdModel.Generated.fileCgroupProcs = "cgroup.procs" ∧
    OomdModel.Generated.killRetries = 10 ∧ OomdModel.Generated.killStreamSize = 20 := by decide

/-! ## non-vacuity: a concrete invocation -/

private def nd (id : Nat) (cs : List View := []) (key : Int := 0) : View :=
  .mk { id := id, path := "", populated := some true, oomGroup := some false, marks := ⟨false, false, false, false⟩,
        key := key, eligible := true, pidsCurrent := none } cs
private def cfg0 : KillCfg :=
  { recursive := false, dry := false, alwaysContinue := false, kernelKill := false, reapMemory := false,
    postActionDelay := some 7, hasRuleset := true }
private abbrev rank0 : List View → List View := fun l => sortDesc (l.filter (·.info.eligible))
/-- roots a(1){c(3)} and b(2); a ranks first; a's pid 12 cannot be signalled, c's pid 13 dies at once -/
private def env0 : Env :=
  { procs := [some [12, 0], some [13], some [12], some []], killRc := [1, 0, 1], xattr := [], writes := [], pidfd := [], mrelease := [] }

example : (runKill cfg0 rank0 [nd 2, nd 1 [nd 3] 5] env0).evs =
    [.setxattr 1 .uuidT (.uuid 0) none 0, .setxattr 1 .uuidU (.uuid 0) none 0,
     .setxattr 1 .oomsT (.num 1) none 0, .setxattr 1 .oomsU (.num 1) none 0,
     .procs 1 (some [12, 0]), .kill 12 1, .procs 3 (some [13]), .kill 13 0,
     .procs 1 (some [12]), .kill 12 1, .procs 3 (some []),
     .setxattr 1 .killT (.num 1) none 0, .setxattr 1 .killU (.num 1) none 0, .statKills, .kmsg 1 false, .pause 7] := by
  decide

/-! ### containment on the prekill-hook resume path -/

/-- **A resumed kill is carried out on the cgroup the hook was fired for, or not at all.**  The victim restored on the resuming
tick has the serialised path *and* the serialised id; if no cgroup with that path and id exists any more (removed, or re-created
under the same name) nothing is restored.  Together with `C07.recreated_not_killed` (no attempt at all in that case) and the
containment theorems above (which hold for every attempt block): the signals of a deferred kill stay inside the subtree of the
cgroup that was selected before the wait. -/
theorem resumed_victim_is_the_selected_cgroup (top : List OomdModel.Kill.View) (r : OomdModel.Hook.SRef) :
    (∀ v, OomdModel.Hook.deser top r = some v → v.id = r.id ∧ v.info.path = r.path) ∧
    ((∀ v, OomdModel.Hook.findF r.path top = some v → v.id ≠ r.id) → OomdModel.Hook.deser top r = none) := by
  constructor
  · intro v h
    have := C03.deser_ser h
    cases r
    simp only [OomdModel.Hook.ser, OomdModel.Hook.SRef.mk.injEq] at this
    exact ⟨this.2, this.1⟩
  · exact (OomdModel.Hook.deser_none_iff top r).2

/-! ### the name space may change while the kill runs (swap stream of the correspondence check)

`runKill` works on the *held* views (`CgroupContext`s with an open directory fd): every `cgroup.procs` read and every control
file write of the model names a view id, never a path, so the theorems above are insensitive to what the paths name at any
moment - the correspondence check's swap stream replaces a candidate's directory at its path inside the first `kill(2)` and
evaluates the same clauses on the real plugins.  The kill-accounting xattrs are the exception in the implementation: they are
written by path.  `xattr_by_path_follows_the_name_space` is the model-level statement of that recorded finding
(known_findings.txt, class `writes_contained.xattr_by_path_after_swap`): whatever cgroup the victim's path is rebound to
receives the write. -/

/-- which cgroup (id) a path names at one instant -/
abbrev NameSpace := String → Option Nat

/-- rebinding one path, everything else as before (rename away + create, or rmdir + mkdir) -/
def NameSpace.rebind (ns : NameSpace) (p : String) (other : Nat) : NameSpace :=
  fun q => if q = p then some other else ns q

/-- target of an access made through the held directory of `v`: `v`, whatever the name space -/
def targetByHandle (_ns : NameSpace) (v : View) : Nat := v.id

/-- target of an access made by `v`'s absolute path -/
def targetByPath (ns : NameSpace) (v : View) : Option Nat := ns v.info.path

theorem handle_access_ignores_the_name_space (ns ns' : NameSpace) (v : View) :
    targetByHandle ns v = targetByHandle ns' v := rfl

/-- **The recorded finding.**  For every victim and every other cgroup id there is a name space that differs from the one the
victim was selected under only at the victim's path, and under it a by-path access (the `oomd_kill` accounting xattr written
after the signals) lands on the other cgroup, while a by-handle access (the `cgroup.procs` reads) still lands on the victim. -/
theorem xattr_by_path_follows_the_name_space (ns : NameSpace) (v : View) (other : Nat) (h0 : targetByPath ns v = some v.id)
    (hne : other ≠ v.id) :
    let ns' := ns.rebind v.info.path other
    targetByPath ns' v = some other ∧ targetByPath ns' v ≠ targetByPath ns v ∧ targetByHandle ns' v = v.id ∧
      ∀ q, q ≠ v.info.path → ns' q = ns q := by
  refine ⟨by simp [targetByPath, NameSpace.rebind], ?_, rfl, ?_⟩
  · simp [targetByPath, NameSpace.rebind] at h0 ⊢
    rw [h0]; simpa using hne
  · intro q hq; simp [NameSpace.rebind, hq]

end C01

import OomdProofs.Kill

/-!
# C17 — Kill accounting: xattrs, counter, kmsg record and return value match the deed

Property theorems only.  Model: `OomdModel.Kill`; lemmas in `OomdProofs.Kill`.  The statements are per attempt
(`tryToLogAndKill cfg v k env` = `tryToLogAndKillCgroup` on victim `v`, the `k`-th attempt of the invocation) and
hold for every configuration, victim, attempt number and environment (pre-existing xattr values, `setxattr`
results, contents of every `cgroup.procs` read, result of every `kill(2)` …).

`Ev.kmsg cg dry` stands for the structured `oomd kill` record; that it names ruleset, detector group and plugin
as well, and that it is written when plugin logs are silenced, is checked on the implementation's kmsg lines
(`holds`), the model's record carries only the cgroup and the `(dry)` mark.

The model is of the code with `fixes/C17-xattr-nonint.patch` applied (`parseCount` reads a value `std::stoi`
rejects as 0; on the unfixed code such a value throws through `run()`, `corpus/C17`).  For values `std::stoi`
accepts — the "integers" of the property — `parseCount` is `std::stoi`.
-/

namespace C17
open OomdModel.Kill

/-- number of SIGKILLs successfully sent in an event sequence -/
def signalsSent (evs : List Ev) : Nat := (evs.filter isKillOk).length

/-! ## a wet attempt without kernelkill -/

/-- **Uuid.** A wet attempt starts by setting trusted. and user.oomd_kill_uuid of the victim to this attempt's
    id; everything else – in particular every signal – comes after. -/
theorem uuid_first (cfg : KillCfg) (v : View) (k : Nat) (env : Env) (hd : cfg.dry = false) :
    ∃ o1 c1 o2 c2 rest, (tryToLogAndKill cfg v k env).evs =
      .setxattr v.id .uuidT (.uuid k) o1 c1 :: .setxattr v.id .uuidU (.uuid k) o2 c2 :: rest := by
  cases hk : cfg.kernelKill with
  | false =>
    obtain ⟨o1, c1, o2, c2, o3, c3, o4, c4, K, Rp, o5, c5, o6, c6, he, _⟩ := attempt_signal cfg v k env hd hk
    exact ⟨o1, c1, o2, c2, _, by rw [he]; simp only [List.cons_append, List.nil_append]; rfl⟩
  | true =>
    obtain ⟨o1, c1, o2, c2, o3, c3, o4, c4, f, hc⟩ := attempt_kernel cfg v k env hd hk
    rcases hc with ⟨he, _⟩ | ⟨wk, _, he, _⟩ | ⟨wk, Rp, o5, c5, o6, c6, _, he, hR, _⟩
    · exact ⟨o1, c1, o2, c2, _, by rw [he]⟩
    · exact ⟨o1, c1, o2, c2, _, by rw [he]⟩
    · exact ⟨o1, c1, o2, c2, _, by rw [he]; simp only [List.cons_append, List.nil_append]; rfl⟩

/-- …and each of the two uuid attributes is written exactly once per attempt -/
theorem uuid_once (cfg : KillCfg) (v : View) (k : Nat) (env : Env) (hd : cfg.dry = false) :
    (∃ o c, (tryToLogAndKill cfg v k env).evs.filter (isX .uuidT) = [.setxattr v.id .uuidT (.uuid k) o c]) ∧
    (∃ o c, (tryToLogAndKill cfg v k env).evs.filter (isX .uuidU) = [.setxattr v.id .uuidU (.uuid k) o c]) := by
  cases hk : cfg.kernelKill with
  | false =>
    obtain ⟨o1, c1, o2, c2, o3, c3, o4, c4, K, Rp, o5, c5, o6, c6, he, hK, _, hR, _, _⟩ :=
      attempt_signal cfg v k env hd hk
    have hKx : ∀ n, K.filter (isX n) = [] := fun n => filter_nil_of_forall (fun e h => ((hK e h).notX n).1)
    have hRx : ∀ n, Rp.filter (isX n) = [] := fun n => filter_nil_of_forall (fun e h => ((hR e h).notX n).1)
    rw [he]
    exact ⟨⟨o1, c1, by simp [List.filter_append, hKx, hRx, (logEvs_notX v _ _).1, List.filter_cons, isX]⟩,
           ⟨o2, c2, by simp [List.filter_append, hKx, hRx, (logEvs_notX v _ _).1, List.filter_cons, isX]⟩⟩
  | true =>
    obtain ⟨o1, c1, o2, c2, o3, c3, o4, c4, f, hc⟩ := attempt_kernel cfg v k env hd hk
    rcases hc with ⟨he, _⟩ | ⟨wk, _, he, _⟩ | ⟨wk, Rp, o5, c5, o6, c6, _, he, hR, _⟩
    · rw [he]; exact ⟨⟨o1, c1, by simp [List.filter_cons, isX]⟩, ⟨o2, c2, by simp [List.filter_cons, isX]⟩⟩
    · rw [he]; exact ⟨⟨o1, c1, by simp [List.filter_cons, isX]⟩, ⟨o2, c2, by simp [List.filter_cons, isX]⟩⟩
    · have hRx : ∀ n, Rp.filter (isX n) = [] := fun n => filter_nil_of_forall (fun e h => ((hR e h).notX n).1)
      rw [he]
      exact ⟨⟨o1, c1, by simp [List.filter_append, hRx, List.filter_cons, isX]⟩,
             ⟨o2, c2, by simp [List.filter_append, hRx, List.filter_cons, isX]⟩⟩

/-- the attempts of one invocation carry pairwise different ids: the `i`-th attempt uses id `i` -/
theorem uuid_fresh (cfg : KillCfg) (l : List View) (env : Env) (i : Nat) (s : View × R Bool)
    (hs : (segments (tryToLogAndKill cfg) l 0 env)[i]? = some s) :
    ∃ env', s.2 = tryToLogAndKill cfg s.1 i env' := by
  obtain ⟨env', he⟩ := segments_numbered _ l 0 env i s hs
  exact ⟨env', by simpa using he⟩

/-- **oomd_ooms + 1.** In a wet attempt trusted.oomd_ooms (and likewise user.oomd_ooms) of the victim is written
    exactly once, with the value found there, read as an integer, plus one. -/
theorem ooms_plus_one (cfg : KillCfg) (v : View) (k : Nat) (env : Env) (hd : cfg.dry = false) :
    (∃ o c, (tryToLogAndKill cfg v k env).evs.filter (isX .oomsT) = [.setxattr v.id .oomsT (.num (parseCount o + 1)) o c]) ∧
    (∃ o c, (tryToLogAndKill cfg v k env).evs.filter (isX .oomsU) = [.setxattr v.id .oomsU (.num (parseCount o + 1)) o c]) := by
  cases hk : cfg.kernelKill with
  | false =>
    obtain ⟨o1, c1, o2, c2, o3, c3, o4, c4, K, Rp, o5, c5, o6, c6, he, hK, _, hR, _, _⟩ :=
      attempt_signal cfg v k env hd hk
    have hKx : ∀ n, K.filter (isX n) = [] := fun n => filter_nil_of_forall (fun e h => ((hK e h).notX n).1)
    have hRx : ∀ n, Rp.filter (isX n) = [] := fun n => filter_nil_of_forall (fun e h => ((hR e h).notX n).1)
    rw [he]
    exact ⟨⟨o3, c3, by simp [List.filter_append, hKx, hRx, (logEvs_notX v _ _).1, List.filter_cons, isX]⟩,
           ⟨o4, c4, by simp [List.filter_append, hKx, hRx, (logEvs_notX v _ _).1, List.filter_cons, isX]⟩⟩
  | true =>
    obtain ⟨o1, c1, o2, c2, o3, c3, o4, c4, f, hc⟩ := attempt_kernel cfg v k env hd hk
    rcases hc with ⟨he, _⟩ | ⟨wk, _, he, _⟩ | ⟨wk, Rp, o5, c5, o6, c6, _, he, hR, _⟩
    · rw [he]; exact ⟨⟨o3, c3, by simp [List.filter_cons, isX]⟩, ⟨o4, c4, by simp [List.filter_cons, isX]⟩⟩
    · rw [he]; exact ⟨⟨o3, c3, by simp [List.filter_cons, isX]⟩, ⟨o4, c4, by simp [List.filter_cons, isX]⟩⟩
    · have hRx : ∀ n, Rp.filter (isX n) = [] := fun n => filter_nil_of_forall (fun e h => ((hR e h).notX n).1)
      rw [he]
      exact ⟨⟨o3, c3, by simp [List.filter_append, hRx, List.filter_cons, isX]⟩,
             ⟨o4, c4, by simp [List.filter_append, hRx, List.filter_cons, isX]⟩⟩

/-- the integers of the property: on a value `std::stoi` accepts, `parseCount` is that integer; absent and
    empty count as 0 -/
theorem parseCount_spec (s : String) (n : Int) (h : stoi? s = some n) (hne : s ≠ "") : parseCount (some s) = n := by
  simp [parseCount, hne, h]

theorem parseCount_absent : parseCount none = 0 ∧ parseCount (some "") = 0 := by
  simp [parseCount]

/-- **oomd_kill + signals.** In a wet attempt without kernelkill trusted.oomd_kill (and likewise user.oomd_kill) of
    the victim is written exactly once, after all signalling, with the value found there plus the number of
    SIGKILLs successfully sent in this attempt. -/
theorem kill_plus_signals (cfg : KillCfg) (v : View) (k : Nat) (env : Env) (hd : cfg.dry = false)
    (hk : cfg.kernelKill = false) :
    (∃ o c, (tryToLogAndKill cfg v k env).evs.filter (isX .killT) =
        [.setxattr v.id .killT (.num (parseCount o + signalsSent (tryToLogAndKill cfg v k env).evs)) o c]) ∧
    (∃ o c, (tryToLogAndKill cfg v k env).evs.filter (isX .killU) =
        [.setxattr v.id .killU (.num (parseCount o + signalsSent (tryToLogAndKill cfg v k env).evs)) o c]) := by
  obtain ⟨o1, c1, o2, c2, o3, c3, o4, c4, K, Rp, o5, c5, o6, c6, he, hK, _, hR, _, _⟩ :=
    attempt_signal cfg v k env hd hk
  have hKx : ∀ n, K.filter (isX n) = [] := fun n => filter_nil_of_forall (fun e h => ((hK e h).notX n).1)
  have hRx : ∀ n, Rp.filter (isX n) = [] := fun n => filter_nil_of_forall (fun e h => ((hR e h).notX n).1)
  have hRk : Rp.filter isKillOk = [] := filter_nil_of_forall (fun e h => ((hR e h).notX .killT).2.2.2)
  have hcount : signalsSent (tryToLogAndKill cfg v k env).evs = (K.filter isKillOk).length := by
    unfold signalsSent
    rw [he]
    simp [List.filter_append, hRk, (logEvs_notX v _ .killT).2, List.filter_cons, isKillOk]
  rw [hcount, he]
  exact ⟨⟨o5, c5, by simp [List.filter_append, hKx, hRx, (logEvs_notX v _ _).1, List.filter_cons, isX]⟩,
         ⟨o6, c6, by simp [List.filter_append, hKx, hRx, (logEvs_notX v _ _).1, List.filter_cons, isX]⟩⟩

/-- **Stat and kmsg.** In a wet attempt without kernelkill the oomd.kills counter moves (by exactly 1) and the
    structured record naming the victim is written (exactly once) if and only if at least one SIGKILL was
    successfully sent; both come after the completion xattrs. -/
theorem stat_and_kmsg (cfg : KillCfg) (v : View) (k : Nat) (env : Env) (hd : cfg.dry = false)
    (hk : cfg.kernelKill = false) :
    (tryToLogAndKill cfg v k env).evs.filter isStat
        = (if 0 < signalsSent (tryToLogAndKill cfg v k env).evs then [.statKills] else []) ∧
    (tryToLogAndKill cfg v k env).evs.filter isKmsg
        = (if 0 < signalsSent (tryToLogAndKill cfg v k env).evs then [.kmsg v.id false] else []) := by
  obtain ⟨o1, c1, o2, c2, o3, c3, o4, c4, K, Rp, o5, c5, o6, c6, he, hK, _, hR, _, _⟩ :=
    attempt_signal cfg v k env hd hk
  have hKs : K.filter isStat = [] := filter_nil_of_forall (fun e h => ((hK e h).notX .killT).2.1)
  have hKm : K.filter isKmsg = [] := filter_nil_of_forall (fun e h => ((hK e h).notX .killT).2.2)
  have hRs : Rp.filter isStat = [] := filter_nil_of_forall (fun e h => ((hR e h).notX .killT).2.1)
  have hRm : Rp.filter isKmsg = [] := filter_nil_of_forall (fun e h => ((hR e h).notX .killT).2.2.1)
  have hRk : Rp.filter isKillOk = [] := filter_nil_of_forall (fun e h => ((hR e h).notX .killT).2.2.2)
  have hcount : signalsSent (tryToLogAndKill cfg v k env).evs = (K.filter isKillOk).length := by
    unfold signalsSent
    rw [he]
    simp [List.filter_append, hRk, (logEvs_notX v _ .killT).2, List.filter_cons, isKillOk]
  rw [hcount, he]
  constructor
  · simp only [List.filter_append, hKs, hRs, logEvs]
    split <;> simp [List.filter_cons, isStat]
  · simp only [List.filter_append, hKm, hRm, logEvs]
    split <;> simp [List.filter_cons, isKmsg]

/-- silence-logs cannot remove the record: the model's attempt does not depend on any log setting (there is
    none in `KillCfg`); on the implementation the kmsg write bypasses `LogStream` – checked by `holds`. -/
theorem dry_attempt (cfg : KillCfg) (v : View) (k : Nat) (env : Env) (hd : cfg.dry = true) :
    tryToLogAndKill cfg v k env = ⟨[.kmsg v.id true], env, true⟩ := attempt_dry cfg v k env hd

/-- **Return value of an attempt.** A wet attempt without kernelkill succeeds exactly when it sent a signal. -/
theorem attempt_succeeds_iff_signalled (cfg : KillCfg) (v : View) (k : Nat) (env : Env) (hd : cfg.dry = false)
    (hk : cfg.kernelKill = false) :
    (tryToLogAndKill cfg v k env).val = decide (0 < signalsSent (tryToLogAndKill cfg v k env).evs) := by
  obtain ⟨o1, c1, o2, c2, o3, c3, o4, c4, K, Rp, o5, c5, o6, c6, he, hK, _, hR, _, hv⟩ :=
    attempt_signal cfg v k env hd hk
  have hRk : Rp.filter isKillOk = [] := filter_nil_of_forall (fun e h => ((hR e h).notX .killT).2.2.2)
  have hcount : signalsSent (tryToLogAndKill cfg v k env).evs = (K.filter isKillOk).length := by
    unfold signalsSent
    rw [he]
    simp [List.filter_append, hRk, (logEvs_notX v _ .killT).2, List.filter_cons, isKillOk]
  rw [hcount, hv]

/-- **Return value of the action.** STOP exactly when some attempt succeeded (wet: signalled a process; dry:
    selected a victim) and `always_continue` is not set; CONTINUE otherwise; never ASYNC_PAUSED (no hook is
    pending in this model, and `KillPgScan`'s sampling tick is `pgscan_gate`). -/
theorem return_value (cfg : KillCfg) (rank : List View → List View) (h : RankOK rank) (roots : List View) (env : Env) :
    let ok := (segments (tryToLogAndKill cfg) (plan cfg rank h.sub roots) 0 env).any (fun s => s.2.val)
    ((runKill cfg rank roots env).val = .stop ↔ (ok = true ∧ cfg.alwaysContinue = false)) ∧
    ((runKill cfg rank roots env).val = .cont ↔ ¬ (ok = true ∧ cfg.alwaysContinue = false)) := by
  intro ok
  have hr := (runKill_apply cfg rank h roots env).2
  rw [tryEach_val] at hr
  rw [hr]
  show (retOf cfg ok = .stop ↔ _) ∧ (retOf cfg ok = .cont ↔ _)
  unfold retOf
  cases ok <;> cases cfg.alwaysContinue <;> simp

/-- `pause_actions` is called exactly when STOP is returned, the plugin has a `post_action_delay` and can reach
    its ruleset – with that delay. -/
theorem pause_iff_stop (cfg : KillCfg) (rank : List View → List View) (h : RankOK rank) (roots : List View) (env : Env)
    (d : Nat) :
    Ev.pause d ∈ (runKill cfg rank roots env).evs ↔
      ((runKill cfg rank roots env).val = .stop ∧ cfg.hasRuleset = true ∧ cfg.postActionDelay = some d) := by
  obtain ⟨h1, h2⟩ := runKill_apply cfg rank h roots env
  rw [h1, h2, tryEach_evs]
  have hnp : Ev.pause d ∉ (segments (tryToLogAndKill cfg) (plan cfg rank h.sub roots) 0 env).flatMap (fun s => s.2.evs) := by
    intro hm
    rw [List.mem_flatMap] at hm
    obtain ⟨s, hs, hes⟩ := hm
    obtain ⟨_, k, env', hr⟩ := segments_mem _ _ _ _ s hs
    have := (attempt_ok cfg s.1 k env').1
    rw [← hr] at this
    simpa [EvOK] using this _ hes
  simp only [List.mem_append, hnp, false_or]
  unfold pauseEvs retOf
  cases (tryEach (tryToLogAndKill cfg) (plan cfg rank h.sub roots) 0 env).val <;> cases cfg.alwaysContinue <;>
    cases cfg.hasRuleset <;> cases cfg.postActionDelay <;> simp
  exact eq_comm

/-- `KillPgScan::run`: ASYNC_PAUSED exactly on a tick whose predecessor did not collect pgscan data -/
theorem pgscan_gate (last : Option Nat) (tick : Nat) :
    (pgScanGate last tick).2 = true ↔ last = some (tick - 1) ∧ 0 < tick := by
  unfold pgScanGate
  cases last with
  | none => simp
  | some l => simp; omega

/-! ## kernelkill: what the code does (the number of signals is not observable at oomd's boundary) -/

/-- With kernelkill the completion xattrs, the counter and the record appear exactly when the write to
    cgroup.kill succeeded, and the xattrs grow by pids.current (1 if unknown or 0). -/
theorem kernelkill_partial (cfg : KillCfg) (v : View) (k : Nat) (env : Env) (hd : cfg.dry = false)
    (hk : cfg.kernelKill = true) :
    ((tryToLogAndKill cfg v k env).val = true ↔ ∃ cg rc, Ev.write cg .kill rc ∈ (tryToLogAndKill cfg v k env).evs ∧ 0 ≤ rc) ∧
    ((tryToLogAndKill cfg v k env).val = true →
      (∃ o c, (tryToLogAndKill cfg v k env).evs.filter (isX .killT) = [.setxattr v.id .killT (.num (parseCount o + kernelCount v)) o c]) ∧
      (tryToLogAndKill cfg v k env).evs.filter isStat = [.statKills] ∧
      (tryToLogAndKill cfg v k env).evs.filter isKmsg = [.kmsg v.id false]) ∧
    ((tryToLogAndKill cfg v k env).val = false →
      (tryToLogAndKill cfg v k env).evs.filter isStat = [] ∧ (tryToLogAndKill cfg v k env).evs.filter isKmsg = []) := by
  obtain ⟨o1, c1, o2, c2, o3, c3, o4, c4, f, hc⟩ := attempt_kernel cfg v k env hd hk
  rcases hc with ⟨he, hv⟩ | ⟨wk, hneg, he, hv⟩ | ⟨wk, Rp, o5, c5, o6, c6, hpos, he, hR, hv⟩
  · rw [he, hv]; simp [List.filter_cons, isStat, isKmsg]
  · rw [he, hv]; simp [List.filter_cons, isStat, isKmsg]; omega
  · have hRx : ∀ n, Rp.filter (isX n) = [] := fun n => filter_nil_of_forall (fun e h => ((hR e h).notX n).1)
    have hRs : Rp.filter isStat = [] := filter_nil_of_forall (fun e h => ((hR e h).notX .killT).2.1)
    have hRm : Rp.filter isKmsg = [] := filter_nil_of_forall (fun e h => ((hR e h).notX .killT).2.2.1)
    rw [he, hv]
    refine ⟨?_, ?_, by simp⟩
    · simp only [true_iff]
      exact ⟨v.id, wk, by simp, hpos⟩
    · intro _
      exact ⟨⟨o5, c5, by simp [List.filter_append, hRx, List.filter_cons, isX]⟩,
             by simp [List.filter_append, hRs, List.filter_cons, isStat],
             by simp [List.filter_append, hRm, List.filter_cons, isKmsg]⟩

/-- **A kernelkill attempt on a cgroup that emptied after the tick sampled it leaves no record.**  When the branch's own read
    of cgroup.events does not say `populated 1` nothing was signalled, and accordingly the oomd_kill xattrs are not written, the
    oomd.kills counter does not move and no kill record goes to kmsg - whatever the tick's cached flag said. -/
theorem emptied_victim_leaves_no_record (cfg : KillCfg) (v : View) (k : Nat) (env : Env) (hd : cfg.dry = false)
    (hk : cfg.kernelKill = true) (a : Option Bool) (rest : List (Option Bool)) (he : env.events = a :: rest)
    (ha : a ≠ some true) :
    (tryToLogAndKill cfg v k env).evs.filter (isX .killT) = [] ∧ (tryToLogAndKill cfg v k env).evs.filter (isX .killU) = [] ∧
    (tryToLogAndKill cfg v k env).evs.filter isStat = [] ∧ (tryToLogAndKill cfg v k env).evs.filter isKmsg = [] ∧
    (tryToLogAndKill cfg v k env).val = false := by
  obtain ⟨o1, c1, o2, c2, o3, c3, o4, c4, f, hevs, hv⟩ := attempt_kernel_not_populated cfg v k env hd hk a rest he ha
  rw [hevs]
  exact ⟨by simp [List.filter_cons, isX], by simp [List.filter_cons, isX], by simp [List.filter_cons, isStat],
         by simp [List.filter_cons, isKmsg], hv⟩

/-! ## names and numbers the property mentions (regenerated from the sources by the translator on every run) -/

theorem xattr_names :
    XName.str .uuidT = "trusted.oomd_kill_uuid" ∧ XName.str .uuidU = "user.oomd_kill_uuid" ∧
    XName.str .oomsT = "trusted.oomd_ooms" ∧ XName.str .oomsU = "user.oomd_ooms" ∧
    XName.str .killT = "trusted.oomd_kill" ∧ XName.str .killU = "user.oomd_kill" ∧
    OomdModel.Generated.statKills = "oomd.kills" := by decide

/-- CONTINUE / STOP / ASYNC_PAUSED as the engine numbers them -/
theorem ret_values : Ret.cont.toNat = 0 ∧ Ret.stop.toNat = 1 ∧ Ret.async.toNat = 2 := by decide

/-! ## non-vacuity -/

private def nd (id : Nat) (cs : List View := []) : View :=
  .mk { id := id, path := "", populated := some true, oomGroup := some false, marks := ⟨false, false, false, false⟩,
        key := 0, eligible := true, pidsCurrent := none } cs
private def cfg0 : KillCfg :=
  { recursive := false, dry := false, alwaysContinue := false, kernelKill := false, reapMemory := true,
    postActionDelay := none, hasRuleset := true }
/-- pre-existing trusted.oomd_ooms = "41", user.oomd_kill = "7"; pid 12 dies, pid 13 gives ESRCH -/
private def env0 : Env :=
  { procs := [some [12, 13], some [13], some [13]], killRc := [0, 3, 3],
    xattr := [(none, 0), (none, 0), (some "41", 0), (none, 0), (some "", 0), (some "7", 0)],
    writes := [], pidfd := [0], mrelease := [0] }

example : (tryToLogAndKill cfg0 (nd 1) 0 env0).evs =
    [.setxattr 1 .uuidT (.uuid 0) none 0, .setxattr 1 .uuidU (.uuid 0) none 0,
     .setxattr 1 .oomsT (.num 42) (some "41") 0, .setxattr 1 .oomsU (.num 1) none 0,
     .procs 1 (some [12, 13]), .kill 12 0, .kill 13 3, .procs 1 (some [13]), .kill 13 3,
     .procs 1 (some [13]), .pidfdOpen 13 0, .mrelease 13 0,
     .setxattr 1 .killT (.num 1) (some "") 0, .setxattr 1 .killU (.num 8) (some "7") 0,
     .statKills, .kmsg 1 false] := by
  decide

end C17

import OomdProofs.EngineC05
import OomdProofs.EngineRun
import OomdProofs.RsCgroupClock
import OomdProps.C02
import OomdProps.C17

/-!
# C05 — Post-action delay

`rsHistory true cfg st last hist` is the sequence of observed events of one ruleset (for
ruleset-cgroup rulesets: of one per-cgroup instance, which is a `Ruleset` object of its own) over an
arbitrary history of invocations by its environment: at each invocation the environment (main
loop, other rulesets, the plugins of this ruleset through their clock advances) supplies any clock
reading not earlier than the last one, any uuid counter and any script of plugin behaviour.
`true` = the repaired engine (invoking ruleset also set when a suspended chain is resumed).

Hypotheses, both explicit and both satisfied by every real plugin / reachable state:
* `Protocol sc`: a plugin calls `pause_actions` only immediately before returning STOP;
* `st.overrode = false`: no pending override flag at the start (true of a fresh ruleset, and
  re-established by every `rsRun`, see `rsRun_spec`).
-/

namespace C05
open OomdModel.Engine

/-- Every action of the rest of the history runs at or after the current pause deadline. -/
theorem acts_after_pause (cfg : RsCfg) :
    ∀ (hist : List Invocation) (st : RsState) (last : Nat),
      (∀ i ∈ hist, Protocol i.sc) → st.overrode = false →
      (rsHistory true cfg st last hist).all (okAfter st.pauseUntil) = true := by
  intro hist
  induction hist with
  | nil => intro st last _ _; rfl
  | cons i rest ih =>
    intro st last hp hg
    obtain ⟨o, h1, h2, _, h4, h5, _⟩ := rsRun_spec cfg i.sc st (max i.now last) i.ctr (hp i (by simp)) hg
    simp only [rsHistory, List.all_append, Bool.and_eq_true]
    refine ⟨h4, ?_⟩
    have := ih (rsRun true cfg i.sc st (max i.now last) i.ctr).1 (rsRun true cfg i.sc st (max i.now last) i.ctr).2.2.1
      (fun j hj => hp j (by simp [hj])) h1
    refine all_okAfter_mono ?_ _ this
    rw [h2]
    cases o with
    | none => simp
    | some dl => simpa using h5 dl rfl

/-- **C05**: after an action chain ends with STOP at reading `t` with effective delay `d` (the
stopping action's own `post_action_delay` if it specifies one, otherwise the ruleset's), no action
of the ruleset runs at a reading `< t + d` - for every configuration, start state, history of
clock readings and plugin behaviour, whether the stopping action finished synchronously or after
any number of ASYNC_PAUSED returns, and whether or not a detector group fires on the completing
tick. -/
theorem no_action_during_pause (cfg : RsCfg) :
    ∀ (hist : List Invocation) (st : RsState) (last : Nat),
      (∀ i ∈ hist, Protocol i.sc) → st.overrode = false →
      holdsC05 (rsHistory true cfg st last hist) = true := by
  intro hist
  induction hist with
  | nil => intro st last _ _; rfl
  | cons i rest ih =>
    intro st last hp hg
    obtain ⟨o, h1, h2, h3, _, _, _⟩ := rsRun_spec cfg i.sc st (max i.now last) i.ctr (hp i (by simp)) hg
    simp only [rsHistory]
    rw [h3]
    have hrest := ih (rsRun true cfg i.sc st (max i.now last) i.ctr).1 (rsRun true cfg i.sc st (max i.now last) i.ctr).2.2.1
      (fun j hj => hp j (by simp [hj])) h1
    have hafter := acts_after_pause cfg rest (rsRun true cfg i.sc st (max i.now last) i.ctr).1
      (rsRun true cfg i.sc st (max i.now last) i.ctr).2.2.1 (fun j hj => hp j (by simp [hj])) h1
    cases o with
    | none => simpa using hrest
    | some dl =>
      simp only [Bool.and_eq_true]
      refine ⟨?_, hrest⟩
      rw [h2] at hafter
      simpa using hafter

/-- **C05 for every ruleset of every run of the whole engine** (`OomdModel.Engine.run`: any number
of rulesets, any tick spacing, any scripts): the events of the ruleset at position `j` satisfy
the property, because the engine only ever invokes a ruleset the way `rsHistory` assumes
(`trackJ_eq_rsHistory`) - other rulesets influence it through the clock alone. -/
theorem engine_no_action_during_pause (j : Nat) (ticks : List TickIn) (w : World) (cfg : RsCfg) (st : RsState)
    (h : w.rs[j]? = some (cfg, st)) (hp : ∀ ti ∈ ticks, Protocol ti.sc) (hg : st.overrode = false) :
    holdsC05 (trackJ true j w ticks) = true := by
  rw [trackJ_eq_rsHistory true j ticks w cfg st w.now h (Nat.le_refl _)]
  refine no_action_during_pause cfg _ st w.now ?_ hg
  intro i hi
  obtain ⟨ti, hti, hs⟩ := invsOf_sc true j ticks w i hi
  rw [hs]
  exact hp ti hti

/-- The deadline a STOP sets is exactly `t + d`: `t` the reading when the stopping action returned,
`d` its own delay if it specifies one, else the ruleset's; nothing else of the chain changes it. -/
theorem effective_delay (cfg : RsCfg) (sc : Script) (ctx : Ctx) (as : List Nat) (i now : Nat) (st : RsState)
    (hp : Protocol sc) (hg : st.overrode = false) :
    (chain cfg sc true ctx as i now st).1.pauseUntil = (chainStop cfg sc as now).getD st.pauseUntil :=
  (chain_state cfg sc ctx as i now st hp hg).2

/-- Actions may run again from `t + d` on: with no suspended chain, if a group fires and the reading
after the detectors is `≥` the deadline (in particular exactly at it, and always when `d = 0`),
the chain starts. -/
theorem actions_resume (inv : Bool) (cfg : RsCfg) (sc : Script) (st : RsState) (now ctr : Nat)
    (hact : st.active = none) (hfire : (cfg.groups.find? (fires sc)).isSome = true)
    (hle : st.pauseUntil ≤ (detPhase cfg sc cfg.groups now ctr none).2.2.1) :
    actInsts (rsRun inv cfg sc st now ctr).2.1 = takeThrough sc cfg.actions := by
  rw [C02.chain_starts_iff inv cfg sc st now ctr hact]
  have : ¬ ((detPhase cfg sc cfg.groups now ctr none).2.2.1 < st.pauseUntil) := by omega
  simp [hfire, this]

/-- While paused the detectors still run every tick (this is `C02.all_detectors_run`, which holds in
every state) and no action runs. -/
theorem paused_tick (inv : Bool) (cfg : RsCfg) (sc : Script) (st : RsState) (now ctr : Nat)
    (hp : (detPhase cfg sc cfg.groups now ctr none).2.2.1 < st.pauseUntil) :
    detInsts (rsRun inv cfg sc st now ctr).2.1 = cfg.groups.flatMap (·.dets) ∧
    actInsts (rsRun inv cfg sc st now ctr).2.1 = [] ∧
    (rsRun inv cfg sc st now ctr).1 = st := by
  refine ⟨C02.all_detectors_run inv cfg sc st now ctr, ?_, ?_⟩
  · unfold rsRun; simp [hp, (detPhase_dets cfg sc cfg.groups now ctr none).2]
  · unfold rsRun; simp [hp]

/-- "Meanwhile the ruleset's ... preruns keep executing every tick": a tick starts with the preruns of every ruleset - of its
detectors and of its actions - whatever state the rulesets are in, so in particular for a ruleset inside its post-action pause
(`paused_tick` is the matching statement for its detectors); the prerun of each of its actions is among them. -/
theorem preruns_during_pause (inv : Bool) (w : World) (ti : TickIn) (p : RsCfg × RsState) (hp : p ∈ w.rs) :
    (∃ rest, (tick inv w ti).2 = w.rs.flatMap (fun q => preruns q.1) ++ rest ∧ ∀ e ∈ rest, ∀ i, e ≠ Ev.prerun i) ∧
    (∀ a ∈ p.1.actions, Ev.prerun a ∈ w.rs.flatMap (fun q => preruns q.1)) ∧
    (∀ d ∈ p.1.groups.flatMap (·.dets), Ev.prerun d ∈ w.rs.flatMap (fun q => preruns q.1)) := by
  refine ⟨C02.all_preruns_run inv w ti, fun a ha => ?_, fun d hd => ?_⟩
  · exact List.mem_flatMap.2 ⟨p, hp, by simp [preruns, ha]⟩
  · exact List.mem_flatMap.2 ⟨p, hp, by simp only [preruns, List.mem_append, List.mem_map]; exact Or.inl ⟨d, hd, rfl⟩⟩

/-! ### the unrepaired engine violates the property (the defect repaired by the `fix:` commit)

Ruleset delay 2 s; the only action returns ASYNC_PAUSED at t = 1000 s, then - on a tick where no
group fires - STOP with its own delay of 30 s at t = 1005 s; a group fires again at t = 1010 s.
Without the invoking ruleset on the resume path the plugin cannot reach `pause_actions`; the
ruleset's 2 s are used and the action runs again at 1010 s < 1035 s. -/

def cexCfg : RsCfg := { rid := 0, groups := [{ gid := 0, dets := [0] }], actions := [1], delay := 2, hookTimeout := 5 }
def cexHist : List Invocation :=
  [ { now := 1000, ctr := 0, sc := fun i => if i = 1 then { ret := .async } else {} },
    { now := 1005, ctr := 1, sc := fun i => if i = 0 then { ret := .stop } else { ret := .stop, pause := some 30 } },
    { now := 1010, ctr := 1, sc := fun i => if i = 1 then { ret := .stop, pause := some 30 } else {} } ]

theorem unrepaired_counterexample : holdsC05 (rsHistory false cexCfg {} 0 cexHist) = false := by decide
theorem repaired_on_counterexample : holdsC05 (rsHistory true cexCfg {} 0 cexHist) = true := by decide

/-- the hypotheses of `no_action_during_pause` are satisfiable on a non-trivial history -/
example : (∀ i ∈ cexHist, Protocol i.sc) ∧ ({} : RsState).overrode = false := by
  refine ⟨?_, rfl⟩
  intro i hi
  simp only [cexHist, List.mem_cons, List.mem_nil_iff, or_false] at hi
  rcases hi with rfl | rfl | rfl <;> intro a h <;> simp only [] at h ⊢
  · split at h <;> simp at h
  · split at h <;> simp_all
  · split at h <;> simp_all

/-! ### the `Protocol` hypothesis is met by the kill plugins

The theorems above assume `Protocol`: a plugin overrides its ruleset's delay only right before it returns STOP.  For the
model of `BaseKillPlugin::run` (every kill plugin, every configuration including `always_continue`, every tree, ranking and
environment) that is a theorem; the real plugins are held to it by the `killproto` pass of this check (h_kill). -/

/-- `BaseKillPlugin::run` calls `pause_actions` only in an invocation that returns STOP, and then with its own
`post_action_delay` - never when it returns CONTINUE (failed kill, or `always_continue`) or ASYNC_PAUSED. -/
theorem kill_plugin_keeps_protocol (cfg : OomdModel.Kill.KillCfg) (rank : List OomdModel.Kill.View → List OomdModel.Kill.View)
    (h : OomdModel.Kill.RankOK rank) (roots : List OomdModel.Kill.View) (env : OomdModel.Kill.Env) (d : Nat)
    (hp : OomdModel.Kill.Ev.pause d ∈ (OomdModel.Kill.runKill cfg rank roots env).evs) :
    (OomdModel.Kill.runKill cfg rank roots env).val = .stop ∧ cfg.postActionDelay = some d :=
  let r := (C17.pause_iff_stop cfg rank h roots env d).1 hp
  ⟨r.1, r.2.2⟩

/-! ### ruleset-cgroup rulesets: the pause is per matching cgroup

"(per matching cgroup, for ruleset-cgroup rulesets)".  The model of a ruleset with a ruleset-level `cgroup` setting is
`OomdModel.RsCgroup` (C11): one persistent instance per matching cgroup, run by `rsRun` - the plain ruleset model the theorems
above are about - on its own state.  `instObs_eq_rsHistory` (OomdProofs.RsCgroupClock) shows that over any history in which a
path keeps matching, what C05 observes of its instance *is* an `rsHistory` of the plain model from the instance's state (the
per-cgroup loop only moves the clock forward), so the property transfers instance by instance.  The real engine is held to
this by the `percg` pass of this check (h_rscgroup, clauses `C05.percg_*`). -/

open OomdModel.RsCgroup in
/-- **C05 per matching cgroup.**  For every ruleset-cgroup configuration, every world, every path `p` that has an instance
and every history of ticks - any tick spacing, any set of other matching cgroups appearing / vanishing / stopping / pausing,
any scripts - in all of which `p` keeps matching: no action of `p`'s instance runs before `t + d` after a chain of that
instance ended with STOP at `t` with effective delay `d`. -/
theorem percg_no_action_during_pause (F : Fixes) (hs : F.skipVisited = true) (hinv : F.invOnResume = true) (cfg : Cfg)
    (p : Path) (ts : List CgTickIn) (w : CgWorld) (hw : WF w) (i : Inst) (hi : find p w.insts = some i)
    (hp : ∀ t ∈ ts, present cfg.filter t.ms p = true)
    (hproto : ∀ t ∈ ts, Protocol (t.sc p)) (hg : i.st.overrode = false) :
    holdsC05 (instObs cfg p ts (runEvs F cfg w ts)) = true := by
  obtain ⟨invs, hsc, hEq⟩ := instObs_eq_rsHistory F hs cfg p ts w hw i hi w.now (Nat.le_refl _) hp
  rw [hEq, hinv]
  refine no_action_during_pause cfg.rs invs i.st w.now ?_ hg
  intro j hj
  obtain ⟨t, ht, e⟩ := hsc j hj
  rw [e]
  exact hproto t ht

open OomdModel.RsCgroup in
/-- **Meanwhile the instance's detectors keep executing every tick, and another instance's pause does not hold it back.**
An instance reached inside its own pause runs every detector of the ruleset, no action, and keeps its state; what it does
depends on no other instance's state (`C11.instances_independent`). -/
theorem percg_paused_instance (F : Fixes) (cfg : Cfg) (p : Path) (i : Inst) (sc : Script) (now ctr g : Nat)
    (hpz : (detPhase cfg.rs sc cfg.rs.groups now ctr none).2.2.1 < i.st.pauseUntil) :
    (instVisit F cfg p (some i) sc now ctr g).inst = i ∧
    ∃ evs, (instVisit F cfg p (some i) sc now ctr g).evs = evs.map (CEv.run p i.gen) ∧
      detInsts evs = cfg.rs.groups.flatMap (·.dets) ∧ actInsts evs = [] := by
  obtain ⟨h1, h2, h3⟩ := paused_tick F.invOnResume cfg.rs sc i.st now ctr hpz
  refine ⟨?_, (rsRun F.invOnResume cfg.rs sc i.st now ctr).2.1, ?_, h1, h2⟩
  · simp only [instVisit, h3]
  · simp [instVisit]

open OomdModel.RsCgroup in
/-- **From `t + d` on the instance's actions run again** (also exactly at `t + d`, and always when `d = 0`). -/
theorem percg_actions_resume (F : Fixes) (cfg : Cfg) (p : Path) (i : Inst) (sc : Script) (now ctr g : Nat)
    (hact : i.st.active = none) (hfire : (cfg.rs.groups.find? (fires sc)).isSome = true)
    (hle : i.st.pauseUntil ≤ (detPhase cfg.rs sc cfg.rs.groups now ctr none).2.2.1) :
    ∃ evs, (instVisit F cfg p (some i) sc now ctr g).evs = evs.map (CEv.run p i.gen) ∧
      actInsts evs = takeThrough sc cfg.rs.actions :=
  ⟨(rsRun F.invOnResume cfg.rs sc i.st now ctr).2.1, by simp [instVisit],
   actions_resume F.invOnResume cfg.rs sc i.st now ctr hact hfire hle⟩

/-- the hypotheses of `percg_no_action_during_pause` are satisfiable: two matching cgroups, one instance already there -/
example :
    let cfg : OomdModel.RsCgroup.Cfg := { rs := cexCfg, filter := false, own := fun _ => none }
    let w : OomdModel.RsCgroup.CgWorld := { insts := [("s/a", { gen := 0, st := {} })], now := 1000, nextGen := 1 }
    let t : OomdModel.RsCgroup.CgTickIn := { gap := 5, ms := [{ path := "s/b" }, { path := "s/a" }], sc := fun _ _ => {} }
    OomdModel.RsCgroup.find "s/a" w.insts = some { gen := 0, st := {} } ∧
      OomdModel.RsCgroup.present cfg.filter t.ms "s/a" = true ∧ Protocol (t.sc "s/a") := by
  refine ⟨by decide, by decide, ?_⟩
  intro a h
  simp at h

end C05

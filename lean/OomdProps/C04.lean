import OomdProofs.Kill

/-!
# C04 — Dry-run has no side effects but the same decision and control flow

Property theorems only.  Model: `OomdModel.Kill` (`runKill`, `runRestart`); lemmas in `OomdProofs.Kill`.
All statements hold for every configuration, tree, admissible ranking (`RankOK`) and environment.
The dry and the wet run are compared on the same views and the same ranking; ties that `std::sort` may
break differently in two executions are outside the model (the check's `holds` tolerates them).

`runRestart` models `systemd_restart` with `fixes/C04-restart-dry-counter.patch` applied; on the unfixed code
a dry run increments `oomd.restarts` (`corpus/C04`).
-/

namespace C04
open OomdModel.Kill

/-- A dry invocation, completely: nothing is asked of the environment (it is returned unchanged); if the plan is
    empty nothing at all happens and the action continues; otherwise the only events are one kmsg record for the
    first planned victim, marked `(dry)`, and the `pause_actions` call of a successful kill. -/
theorem dry_run_is (cfg : KillCfg) (rank : List View → List View) (h : RankOK rank) (roots : List View) (env : Env)
    (hd : cfg.dry = true) :
    runKill cfg rank roots env =
      match plan cfg rank h.sub roots with
      | [] => ⟨[], env, .cont⟩
      | v :: _ => ⟨.kmsg v.id true :: pauseEvs cfg true, env, retOf cfg true⟩ := by
  have hl := loop_eq_tryEach cfg rank h.sub h.size (fsize (rank roots) + 1) (rank roots) 0 (by omega)
  have ha := runKill_apply cfg rank h roots env
  unfold plan at *
  cases hp : (rank roots).flatMap (attempts cfg rank h.sub) with
  | nil =>
    simp only [runKill, bind_apply, hl, hp, tryEach, pure_apply]
    simp
  | cons v vs =>
    have ht : tryEach (tryToLogAndKill cfg) (v :: vs) 0 env = ⟨[.kmsg v.id true], env, true⟩ := by
      simp only [tryEach, bind_apply, attempt_dry cfg v 0 env hd]
      simp
    obtain ⟨h1, h2⟩ := ha
    rw [hp, ht] at h1 h2
    have h3 : (runKill cfg rank roots env).env = env := by
      simp only [runKill, bind_apply, hl, hp, ht]
      cases cfg.alwaysContinue <;> cases cfg.hasRuleset <;> cases cfg.postActionDelay <;> simp
    cases hr : runKill cfg rank roots env with
    | mk evs env' val =>
      rw [hr] at h1 h2 h3
      simp only at h1 h2 h3
      subst h1 h2 h3
      simp

/-- **No effects.** A dry invocation sends no signal, writes no xattr and no control file, issues no
    pidfd_open / process_mrelease and does not touch the oomd.kills counter. -/
theorem dry_no_effects (cfg : KillCfg) (rank : List View → List View) (h : RankOK rank) (roots : List View) (env : Env)
    (hd : cfg.dry = true) : ∀ e ∈ (runKill cfg rank roots env).evs, isEffect e = false := by
  rw [dry_run_is cfg rank h roots env hd]
  intro e he
  split at he
  · simp at he
  · simp only [List.mem_cons] at he
    cases he with
    | inl h1 => subst h1; rfl
    | inr h1 =>
      unfold pauseEvs at h1
      split at h1
      · simp at h1
      · split at h1 <;> simp at h1
        subst h1; rfl

/-- the wet twin of a configuration -/
def wet (cfg : KillCfg) : KillCfg := { cfg with dry := false }

/-- **Same first victim.** The victim the dry run names is the first cgroup the wet run of the same
    configuration attempts (both are the head of the same plan). -/
theorem dry_same_first_victim (cfg : KillCfg) (rank : List View → List View) (h : RankOK rank) (roots : List View)
    (env env' : Env) (hd : cfg.dry = true) :
    ((runKill cfg rank roots env).evs.filterMap (fun e => match e with | .kmsg cg _ => some cg | _ => none)).head?
      = ((segments (tryToLogAndKill (wet cfg)) (plan (wet cfg) rank h.sub roots) 0 env').map (·.1.id)).head? := by
  rw [dry_run_is cfg rank h roots env hd, plan_congr (wet cfg) cfg rank h.sub rfl roots]
  cases plan cfg rank h.sub roots with
  | nil => simp [segments]
  | cons v vs =>
    have : ∀ e ∈ pauseEvs cfg true, (match e with | .kmsg cg _ => some cg | _ => none) = none := by
      intro e he
      unfold pauseEvs at he
      split at he
      · simp at he
      · split at he <;> simp at he
        subst he; rfl
    simp [segments]

/-- **Same control flow.** A dry run that selected a victim returns what a wet run returns after a successful
    kill (STOP, or CONTINUE with `always_continue`) and pauses its ruleset in exactly the same way; a dry run with
    nothing to select returns CONTINUE like a wet run that killed nothing. -/
theorem dry_same_control (cfg : KillCfg) (rank : List View → List View) (h : RankOK rank) (roots : List View)
    (env env' : Env) (hd : cfg.dry = true)
    (hwet : (tryEach (tryToLogAndKill (wet cfg)) (plan (wet cfg) rank h.sub roots) 0 env').val = true) :
    plan cfg rank h.sub roots ≠ [] ∧
    (runKill cfg rank roots env).val = (runKill (wet cfg) rank roots env').val ∧
    (runKill cfg rank roots env).evs.filter (fun e => match e with | .pause _ => true | _ => false)
      = (runKill (wet cfg) rank roots env').evs.filter (fun e => match e with | .pause _ => true | _ => false) := by
  have hw := runKill_apply (wet cfg) rank h roots env'
  have hpc := plan_congr (wet cfg) cfg rank h.sub rfl roots
  rw [hw.1, hw.2, hwet]
  rw [hpc] at hwet
  have hne : plan cfg rank h.sub roots ≠ [] := by
    intro hnil; rw [hnil] at hwet; simp [tryEach] at hwet
  refine ⟨hne, ?_⟩
  rw [dry_run_is cfg rank h roots env hd]
  cases hp : plan cfg rank h.sub roots with
  | nil => exact absurd hp hne
  | cons v vs =>
    have hnp : ∀ s ∈ segments (tryToLogAndKill (wet cfg)) (plan (wet cfg) rank h.sub roots) 0 env',
        ∀ e ∈ s.2.evs, (match e with | .pause _ => true | _ => false) = false := by
      intro s hs e he
      obtain ⟨_, k, env'', hr⟩ := segments_mem _ _ _ _ s hs
      have := (attempt_ok (wet cfg) s.1 k env'').1
      rw [← hr] at this
      have hok := this e he
      cases e <;> simp_all [EvOK]
    constructor
    · simp [retOf, wet]
    · rw [tryEach_evs, List.filter_append]
      have : ((segments (tryToLogAndKill (wet cfg)) (plan (wet cfg) rank h.sub roots) 0 env').flatMap
          (fun s => s.2.evs)).filter (fun e => match e with | .pause _ => true | _ => false) = [] := by
        rw [List.filter_eq_nil_iff]
        intro e he
        rw [List.mem_flatMap] at he
        obtain ⟨s, hs, hes⟩ := he
        simp [hnp s hs e hes]
      rw [this]
      simp [pauseEvs, wet]

/-- a dry run with nothing to select behaves like a wet run that killed nothing: CONTINUE, no pause -/
theorem dry_nothing_selected (cfg : KillCfg) (rank : List View → List View) (h : RankOK rank) (roots : List View)
    (env : Env) (hd : cfg.dry = true) (hnil : plan cfg rank h.sub roots = []) :
    runKill cfg rank roots env = ⟨[], env, .cont⟩ := by
  rw [dry_run_is cfg rank h roots env hd, hnil]

/-! ## systemd_restart -/

/-- dry: no D-Bus call, restart counter untouched, one kmsg record marked `(dry)`, STOP -/
theorem restart_dry (rc : Nat) : runRestart { dry := true } rc = ([.kmsgRestart true], .stop) := rfl

theorem restart_dry_no_effects (rc : Nat) : ∀ e ∈ (runRestart { dry := true } rc).1, isEffect e = false := by
  simp [runRestart, isEffect]

/-- wet, for comparison: the call is made; the counter moves and STOP is returned exactly when it succeeded -/
theorem restart_wet (rc : Nat) :
    runRestart { dry := false } rc =
      if rc = 0 then ([.dbus true rc, .kmsgRestart false, .statRestarts], .stop) else ([.dbus true rc], .cont) := by
  simp [runRestart]

/-- dry returns what a successful wet restart returns -/
theorem restart_dry_same_control : (runRestart { dry := true } 0).2 = (runRestart { dry := false } 0).2 := rfl

/-- ... and holds its ruleset off exactly as long: the dry run sleeps `post_action_delay` like a successful wet restart,
    whatever the D-Bus call would have returned -/
theorem restart_dry_same_pause (d rc : Nat) :
    restartSleep { dry := true, delay := d } rc = restartSleep { dry := false, delay := d } 0 ∧
    restartSleep { dry := true, delay := d } rc = d := by
  simp [restartSleep]

/-! ## non-vacuity: a dry and a wet run of the same configuration on the same views -/

private def nd (id : Nat) (key : Int) (cs : List View := []) : View :=
  .mk { id := id, path := "", populated := some true, oomGroup := some false, marks := ⟨false, false, false, false⟩,
        key := key, eligible := true, pidsCurrent := none } cs
private def cfgD : KillCfg :=
  { recursive := true, dry := true, alwaysContinue := false, kernelKill := false, reapMemory := true,
    postActionDelay := some 7, hasRuleset := true }
private abbrev rank0 : List View → List View := fun l => sortDesc (l.filter (·.info.eligible))
private def env0 : Env :=
  { procs := [some [12]], killRc := [0], xattr := [], writes := [], pidfd := [3], mrelease := [] }
/-- roots 1{3, 4} and 2; 1 ranks first and is descended into, its child 4 ranks first -/
private def roots0 : List View := [nd 1 1 [nd 3 2, nd 4 9], nd 2 0]

example : (runKill cfgD rank0 roots0 env0).evs = [.kmsg 4 true, .pause 7] ∧ (runKill cfgD rank0 roots0 env0).val = .stop := by
  decide
example : ((runKill (wet cfgD) rank0 roots0 env0).evs.take 5) =
    [.setxattr 4 .uuidT (.uuid 0) none 0, .setxattr 4 .uuidU (.uuid 0) none 0,
     .setxattr 4 .oomsT (.num 1) none 0, .setxattr 4 .oomsU (.num 1) none 0, .procs 4 (some [12])] := by
  decide

end C04

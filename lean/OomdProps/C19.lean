import OomdProofs.StatsSvc

/-!
# C19 — Stats service: atomic counters, total protocol, clean shutdown

Property theorems only.  Model: `OomdModel.StatsSvc` (written from `Stats.cpp` / `StatsClient.cpp`,
flag `fixed = true` = with `/verif/fixes/C19-*.patch`, `fixed = false` = the pinned commit).
Helper lemmas: `OomdProofs.StatsSvc`.

What is proved here is about the model.  What is *assumed* and only observed at run time by the
correspondence check (ThreadSanitizer / AddressSanitizer on the real code): that every access to
`stats_` really happens between `lock` and `unlock` of `stats_mutex_` (hypothesis `locked = true` of
`linearisable_by_construction`), that `std::mutex` excludes, that `thread_count_` is only touched as
modelled, and the kernel's socket semantics (time-outs, EOF, EPIPE).
-/

namespace C19
open OomdModel OomdModel.StatsSvc

/-! ## constants the property names (regenerated from the sources on every run) -/

/-- 32-byte read window, 2 s socket time-outs, 5 s destructor wait, `sizeof(sun_path)` = 108. -/
theorem constants_pinned :
    Generated.statsReadWindow = 32 ∧ Generated.statsIoTimeoutSec = 2 ∧
    Generated.statsShutdownWaitSec = 5 ∧ Generated.sunPathSize = 108 := by decide

section Counters
variable {κ : Type} [DecidableEq κ]

/-! ## counter algebra -/

/-- No increment is lost: after any sequence of increments, a key holds its old value (0 if new) plus
    the sum of everything addressed to it; untouched absent keys stay absent. -/
theorem increments_none_lost (m : CMap κ) (incs : List (κ × Int)) (k : κ) :
    get (applyIncs m incs) k =
      if (get m k).isSome || incs.any (fun p => decide (p.1 = k))
      then some ((get m k).getD 0 + sumFor k incs) else none :=
  get_applyIncs incs m k

/-- Any permutation of a multiset of increments yields the same map. -/
theorem increments_commute (m : CMap κ) (a b : List (κ × Int)) (h : a.Perm b) (k : κ) :
    get (applyIncs m a) k = get (applyIncs m b) k := by
  rw [get_applyIncs, get_applyIncs, sumFor_perm k h, any_key_perm k h]

/-- `reset` zeroes every key and keeps it. -/
theorem reset_keeps_keys (m : CMap κ) :
    keys (reset m) = keys m ∧ ∀ k, get (reset m) k = (get m k).map (fun _ => 0) :=
  ⟨keys_reset m, get_reset m⟩

/-- No API call ever removes a key, whatever the sequence. -/
theorem keys_never_removed (m : CMap κ) (ops : List (Op κ)) (k : κ) (h : k ∈ keys m) :
    k ∈ keys (run m ops) := by
  induction ops generalizing m with
  | nil => exact h
  | cons op r ih =>
    apply ih
    rw [← get_isSome_iff] at h ⊢
    cases op with
    | inc k1 v =>
      by_cases e : k1 = k
      · subst e; simp [step, get_increment_same]
      · simpa [step, get_increment_other _ _ _ _ e] using h
    | set k1 v =>
      by_cases e : k1 = k
      · subst e; simp [step, StatsSvc.set, get_put_same]
      · simpa [step, StatsSvc.set, get_put_other _ _ _ _ e] using h
    | reset =>
      simp only [step, get_reset]
      cases hg : get m k with
      | none => rw [hg] at h; cases h
      | some v => rfl
    | getAll => simpa [step] using h

/-! ## atomicity: mutual exclusion makes every API call one step -/

/-- **Assumption made explicit: `locked = true`**, i.e. each method body runs between `lock` and `unlock`
    of the one mutex, as coded.  Then, for every number of threads, every program per thread and **every
    schedule** of the individual memory accesses:
    * the order in which calls acquired the lock is a merge of the threads' programs;
    * whenever the mutex is free, `stats_` and every value returned so far (including every `getAll`
      snapshot) are exactly those of running the calls one at a time, atomically, in that order;
    * while a call holds the mutex, everything returned so far is that of the calls before it. -/
theorem linearisable_by_construction (m0 : CMap κ) (progs : Nat → List (Op κ)) (sch : List Nat) :
    let s := runSched true (initSys m0 progs) sch
    (∀ t, ((s.order.filter (fun p => p.1 == t)).map (·.2)) ++ (s.thr t).todo = progs t) ∧
    (s.owner = none →
      s.shared = run m0 (s.order.map (·.2)) ∧ ∀ t, (s.thr t).rets = seqRets t m0 s.order) ∧
    (∀ t, s.owner = some t → ∃ op pre, s.order = pre ++ [(t, op)] ∧
      ∀ u, (s.thr u).rets = seqRets u m0 pre) := by
  intro s
  have inv := minv_run m0 progs sch _ (minv_init m0 progs)
  refine ⟨inv.prog, inv.free, ?_⟩
  intro t ht
  obtain ⟨op, _, pre, _, hord, _, _, hr⟩ := inv.held t ht
  exact ⟨op, pre, hord, hr⟩

/-- A call's micro-steps, run without interference, are the atomic step of the specification. -/
theorem body_is_step (m : CMap κ) (op : Op κ) :
    (runMicros m {} (body op)).1 = (step m op).1 ∧ retOf op (runMicros m {} (body op)).2 = (step m op).2 :=
  body_atomic m op {}

end Counters

/-- The assumption is needed: the same two-access `increment` without the mutex loses an update
    (two threads, one increment each, both return 0, the counter ends at 1). -/
theorem lost_update_without_mutex :
    let progs : Nat → List (Op Nat) := fun t => if t < 2 then [.inc 7 1] else []
    let s := runSched false (initSys [] progs) [0, 1, 0, 1, 0, 1, 0, 1]
    get s.shared 7 = some 1 ∧ (s.thr 0).rets = [.rc 0] ∧ (s.thr 1).rets = [.rc 0] ∧
    (s.thr 0).todo = [] ∧ (s.thr 1).todo = [] ∧
    get (run [] [Op.inc 7 1, Op.inc 7 1]) 7 = some 2 := by decide

section Protocol
variable {κ : Type} [DecidableEq κ]

/-! ## the socket protocol is total -/

omit [DecidableEq κ] in
/-- For **every** byte string and either ending of the connection, the events of the handler are: the
    prescribed reply (if the request is answered) followed by the exit events – so at most one reply,
    nothing written after it, the descriptor closed exactly once. -/
theorem handler_events (fixed : Bool) (c : Conn) (m : CMap κ) :
    (handler fixed c m).2 =
      (expectedReply c m).toList.map (fun r => Ev.reply r.1 r.2) ++ exitEvents fixed (answered c) := by
  unfold handler expectedReply replyFor
  rw [scan_spec]
  by_cases ha : answered c = true
  · simp only [ha, if_true]
    cases hh : (requestWindow c).head? with
    | none =>
      have : kindOf 97 = ReplyKind.err1 := by decide
      simp [this]
    | some b =>
      simp only [Option.getD_some]
      rcases kindOf_cases b with ⟨hb, hk⟩ | ⟨hb, hk⟩ | ⟨hb, hk⟩ | ⟨h1, h2, h3, hk⟩
      · subst hb; simp [hk, getAll]
      · subst hb; simp [hk]
      · subst hb; simp [hk]
      · simp [hk, h1, h2, h3]
  · simp only [Bool.not_eq_true] at ha
    simp [ha]

omit [DecidableEq κ] in
/-- The reply is exactly the one the protocol prescribes (`g` all counters, `r` reset acknowledged,
    `0` no-op, anything else – including an empty request – error 1; no reply iff the client stalled
    before a terminator / 32 bytes / end of file); at most one per connection; `r` and only `r`
    changes the counters; the descriptor is closed exactly once. -/
theorem protocol_total (fixed : Bool) (c : Conn) (m : CMap κ) :
    replies (handler fixed c m).2 = (expectedReply c m).toList ∧
    (replies (handler fixed c m).2).length ≤ 1 ∧
    (handler fixed c m).1 = (if answered c && ((requestWindow c).head? == some 114) then reset m else m) ∧
    ((handler fixed c m).2.filter isClose).length = 1 := by
  have h := handler_spec fixed c m
  refine ⟨h.1, ?_, h.2.1, h.2.2.2⟩
  rw [h.1]
  cases expectedReply c m <;> simp

omit [DecidableEq κ] in
/-- The four kinds, spelled out. -/
theorem protocol_kinds (c : Conn) (m : CMap κ) :
    (answered c = false → expectedReply c m = none) ∧
    (answered c = true → (requestWindow c).head? = some 103 → expectedReply c m = some (0, m)) ∧
    (answered c = true → (requestWindow c).head? = some 114 → expectedReply c m = some (0, [])) ∧
    (answered c = true → (requestWindow c).head? = some 48 → expectedReply c m = some (0, [])) ∧
    (answered c = true → (requestWindow c).head? ≠ some 103 → (requestWindow c).head? ≠ some 114 →
      (requestWindow c).head? ≠ some 48 → expectedReply c m = some (1, [])) := by
  refine ⟨?_, ?_, ?_, ?_, ?_⟩
  · intro h; simp [expectedReply, h]
  · intro h h1; simp [expectedReply, replyFor, h, h1]
  · intro h h1; simp [expectedReply, replyFor, h, h1]
  · intro h h1; simp [expectedReply, replyFor, h, h1]
  · intro h h1 h2 h3; simp [expectedReply, replyFor, h, h1, h2, h3]

/-- The request window never looks past 32 bytes or past the first `\n` / `\0`. -/
theorem window_bounded (c : Conn) :
    (requestWindow c).length ≤ 32 ∧ ∀ b ∈ requestWindow c, b ≠ 10 ∧ b ≠ 0 := by
  constructor
  · have h1 := (List.takeWhile_sublist (l := c.bytes.take window) (fun b => !isTerm b)).length_le
    have h2 : (c.bytes.take window).length ≤ window := by simp [List.length_take]; omega
    have : window = 32 := by decide
    unfold requestWindow; omega
  · intro b hb
    have := mem_takeWhile_pos _ _ _ hb
    simp only [isTerm, Bool.not_eq_true', Bool.or_eq_false_iff, beq_eq_false_iff_ne] at this
    exact this

/-- A handler never makes more than 32 one-byte reads, whatever the client does. -/
theorem handler_reads_bounded (c : Conn) : readsL c.stalls window c.bytes ≤ 32 := by
  have := readsL_le c.stalls window c.bytes
  have h : window = 32 := by decide
  omega

/-! ## handler count -/

/-- With the decrement on every exit path (`fixed`): after **every** interleaving of accepts, handler
    exits (by any exit path, in any order) and API calls, `thread_count_` equals the number of handler
    threads alive. -/
theorem handler_count_invariant (m : CMap κ) (evs : List (SvcEv κ)) :
    (svcRun true { counters := m } evs).count = ((svcRun true { counters := m } evs).live.length : Int) := by
  have := svcRun_gap_fixed { counters := m } evs
  simp at this
  omega

/-- On the pinned commit the gap `thread_count_ − live handlers` never shrinks … -/
theorem leak_is_permanent_unfixed (s : Svc κ) (evs : List (SvcEv κ)) :
    s.count - (s.live.length : Int) ≤
      (svcRun false s evs).count - ((svcRun false s evs).live.length : Int) := by
  induction evs generalizing s with
  | nil => exact Int.le_refl _
  | cons e r ih =>
    rw [svcRun_cons]
    refine Int.le_trans ?_ (ih _)
    rw [svcStep_gap]
    have := leak_nonneg false s e
    omega

/-- … so after one stalled client (`accept ; readError`), whatever happens next, once no handler is
    alive the destructor's wait predicate is false: it times out after 5 s and `OCHECK(false)` aborts. -/
theorem stalled_client_wedges_shutdown_unfixed (m : CMap κ) (b : List Nat) (hb : answered ⟨b, true⟩ = false)
    (evs : List (SvcEv κ)) :
    let s := svcRun false { counters := m } (.accept ⟨b, true⟩ :: .finish 0 :: evs)
    s.live = [] → waitPredicate s = false := by
  intro s hl
  have h := leak_is_permanent_unfixed
    (svcRun false ({ counters := m } : Svc κ) [.accept ⟨b, true⟩, .finish 0]) evs
  have e : svcRun false ({ counters := m } : Svc κ) (.accept ⟨b, true⟩ :: .finish 0 :: evs) =
      svcRun false (svcRun false ({ counters := m } : Svc κ) [.accept ⟨b, true⟩, .finish 0]) evs := rfl
  have h0 : (svcRun false ({ counters := m } : Svc κ) [.accept ⟨b, true⟩, .finish 0]).count -
      ((svcRun false ({ counters := m } : Svc κ) [.accept ⟨b, true⟩, .finish 0]).live.length : Int) = 1 := by
    have g1 := svcStep_gap false ({ counters := m } : Svc κ) (.accept ⟨b, true⟩)
    have g2 := svcStep_gap false (svcStep false ({ counters := m } : Svc κ) (.accept ⟨b, true⟩)) (.finish 0)
    have hl0 : (svcStep false ({ counters := m } : Svc κ) (.accept ⟨b, true⟩)).live[0]? = some ⟨b, true⟩ := by
      simp [svcStep]
    simp only [leak, hl0, hb, Bool.false_or, Bool.false_eq_true, if_false] at g2 g1
    show (svcStep false (svcStep false ({ counters := m } : Svc κ) (.accept ⟨b, true⟩)) (.finish 0)).count -
      ((svcStep false (svcStep false ({ counters := m } : Svc κ) (.accept ⟨b, true⟩)) (.finish 0)).live.length : Int) = 1
    rw [g2, g1]
    simp
  have hs : s = svcRun false (svcRun false ({ counters := m } : Svc κ) [.accept ⟨b, true⟩, .finish 0]) evs := e
  rw [← hs, h0, hl] at h
  simp only [List.length_nil] at h
  simp only [waitPredicate, beq_eq_false_iff_ne, ne_eq]
  omega

end Protocol

/-- the counterexample of the property text, on the model of the pinned commit: `accept ; readError` -/
theorem handler_count_counterexample_unfixed :
    let s := svcRun (κ := Nat) false { counters := [(1, 5)] } [.accept ⟨[103], true⟩, .finish 0]
    s.live = [] ∧ s.count = 1 ∧ s.sent = [] ∧ waitPredicate s = false := by decide

section Shutdown
variable {κ : Type} [DecidableEq κ]

/-- Shutdown completes in the model (with the fix): from every reachable state every live handler runs
    to an exit after at most 32 reads whatever its client does, letting them do so empties the set of
    handlers, and whenever no handler is alive – after any continuation – the destructor's wait
    predicate is true. -/
theorem shutdown_completes_model (m : CMap κ) (evs : List (SvcEv κ)) :
    let s := svcRun true { counters := m } evs
    (∀ c ∈ s.live, readsL c.stalls window c.bytes ≤ 32) ∧
    (svcRun true s (List.replicate s.live.length (.finish 0))).live = [] ∧
    ∀ more, (svcRun true s more).live = [] → waitPredicate (svcRun true s more) = true := by
  intro s
  refine ⟨fun c _ => handler_reads_bounded c, ?_, ?_⟩
  · rw [finish_all]; simp
  · intro more hl
    have h : svcRun true s more = svcRun true { counters := m } (evs ++ more) := by
      simp [s, svcRun, List.foldl_append]
    have inv := handler_count_invariant m (evs ++ more)
    rw [← h, hl] at inv
    simp [waitPredicate, inv]

end Shutdown

/-- What the model does **not** give: a time bound below the destructor's 5 s.  A handler may legally
    spend up to 32 reads × 2 s; a client that keeps trickling bytes outlives the wait (known finding
    `slow-client-outlives-shutdown-wait`, reproduced on the real code by the check). -/
theorem shutdown_wait_shorter_than_slowest_handler :
    shutdownWaitSec < window * ioTimeoutSec := by decide

/-! ## socket path -/

/-- With the length check: a path that fits (with its NUL) is copied whole; any longer path is refused
    before anything is written – for every path, never a byte past `sun_path`. -/
theorem path_length (path : List Nat) :
    copyPath true path = if path.length < 108 then .ok (path ++ [0]) else .refused := by
  have hs : sunPathSize = 108 := by decide
  unfold copyPath
  by_cases h : path.length < 108
  · have : ¬ (sunPathSize ≤ path.length) := by omega
    simp only [this, decide_false, Bool.and_false, Bool.false_eq_true, if_false, h, if_true]
    rw [strcpyInto_fits _ _ (by omega)]
    simp
  · have : sunPathSize ≤ path.length := by omega
    simp [this, h]

/-- The pinned commit: every path of 108 bytes or more makes `strcpy` write past `sun_path`. -/
theorem path_overflow_unfixed (path : List Nat) (h : 108 ≤ path.length) :
    ∃ beyond, copyPath false path = .overflow beyond ∧ beyond.length = path.length + 1 - 108 := by
  have hs : sunPathSize = 108 := by decide
  have ho := strcpyInto_overflows sunPathSize path (by omega)
  refine ⟨(strcpyInto sunPathSize path).2, ?_, by rw [ho.1, hs]⟩
  unfold copyPath
  simp [ho.2]

/-! ## non-vacuity: concrete instances -/

example : get (applyIncs [(1, 5)] [(1, 2), (2, 7), (1, -3)]) 1 = some 4 := by decide
example : (handler (κ := Nat) true ⟨[103, 10], false⟩ [(1, 5)]).2 = [.reply 0 [(1, 5)], .close, .decr] := by decide
example : (handler (κ := Nat) true ⟨[114], false⟩ [(1, 5)]) = ([(1, 0)], [.reply 0 [], .close, .decr]) := by decide
example : (handler (κ := Nat) true ⟨[103], true⟩ [(1, 5)]).2 = [.close, .decr] := by decide
example : (handler (κ := Nat) false ⟨[103], true⟩ [(1, 5)]).2 = [.close] := by decide
example : answered ⟨[103], true⟩ = false ∧ answered ⟨List.replicate 32 103, true⟩ = true := by decide
example : copyPath false (List.replicate 108 112) = .overflow [0] := by decide
example : (runSched true (initSys [] (fun t => if t < 2 then [Op.inc 7 1] else [])) [0, 1, 0, 1, 0, 1, 0, 1, 1, 1]).shared
    = [(7, 2)] := by decide

end C19

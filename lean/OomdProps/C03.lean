import OomdProofs.Kill
import OomdProofs.Hook

/-!
# C03 — Victim order: prefer > normal > avoid, oom.group kept whole, fallback on failure

Property theorems only.  Model: `OomdModel.Kill` (`loop` is `resumeTryingToKillSomething`); the recursive
specification `attempts` / `plan` / `tryEach` and the helper lemmas are in `OomdProofs.Kill`.

All statements hold for every configuration, every cgroup tree (`View`, any shape and depth), every ranking
function satisfying `RankOK` (a rearrangement of a sub-list of its input, non-increasing in (preference, key) —
ties broken arbitrarily), every environment (`Env`: contents of every cgroup.procs read, result of every
kill(2), setxattr, write, …) and hence every pattern of failing and succeeding kill attempts.
-/

namespace C03
open OomdModel.Kill

/-! ## the stack machine is the recursive plan cut at the first success -/

/-- The DFS loop with its explicit stack of candidates, started as `tryToKillSomething` starts it, is the same
    computation (same boundary events, same environment answers consumed, same result) as: attempt the cgroups
    of the recursive `plan` one after the other and stop at the first successful attempt. -/
theorem loop_refines_plan (cfg : KillCfg) (rank : List View → List View) (h : RankOK rank) (roots : List View) :
    loop cfg rank (fsize (rank roots) + 1) (rank roots) 0
      = tryEach (tryToLogAndKill cfg) (plan cfg rank h.sub roots) 0 := by
  unfold plan
  exact loop_eq_tryEach cfg rank h.sub h.size _ _ _ (by omega)

/-- …and the same with any stack and any attempt counter (the form in which the loop is resumed). -/
theorem loop_refines_plan_general (cfg : KillCfg) (rank : List View → List View) (h : RankOK rank)
    (stack : List View) (k n : Nat) (hn : fsize stack < n) :
    loop cfg rank n stack k = tryEach (tryToLogAndKill cfg) (stack.flatMap (attempts cfg rank h.sub)) k :=
  loop_eq_tryEach cfg rank h.sub h.size n stack k hn

/-- the victims attempted in one invocation, in order -/
def attempted (cfg : KillCfg) (rank : List View → List View) (h : RankOK rank) (roots : List View) (env : Env) :
    List View :=
  (segments (tryToLogAndKill cfg) (plan cfg rank h.sub roots) 0 env).map (·.1)

/-- the boundary events of the loop are exactly the events of these attempts, in this order -/
theorem loop_events (cfg : KillCfg) (rank : List View → List View) (h : RankOK rank) (roots : List View) (env : Env) :
    (loop cfg rank (fsize (rank roots) + 1) (rank roots) 0 env).evs
      = (segments (tryToLogAndKill cfg) (plan cfg rank h.sub roots) 0 env).flatMap (fun s => s.2.evs) := by
  rw [loop_refines_plan cfg rank h roots, tryEach_evs]

/-- candidates are tried in plan order, none skipped, none repeated: the attempted victims are an initial
    segment of the plan -/
theorem attempted_prefix_of_plan (cfg : KillCfg) (rank : List View → List View) (h : RankOK rank) (roots : List View)
    (env : Env) : attempted cfg rank h roots env <+: plan cfg rank h.sub roots :=
  segments_prefix _ _ _ _

/-- fallback: every attempt before the last one signalled nothing … -/
theorem fallback_only_after_failure (cfg : KillCfg) (rank : List View → List View) (h : RankOK rank) (roots : List View)
    (env : Env) :
    ∀ s ∈ (segments (tryToLogAndKill cfg) (plan cfg rank h.sub roots) 0 env).dropLast, s.2.val = false :=
  segments_init_fail _ _ _ _

/-- … the loop reports success exactly when some (hence the last) attempt succeeded … -/
theorem success_iff_an_attempt_succeeded (cfg : KillCfg) (rank : List View → List View) (h : RankOK rank)
    (roots : List View) (env : Env) :
    (loop cfg rank (fsize (rank roots) + 1) (rank roots) 0 env).val
      = (segments (tryToLogAndKill cfg) (plan cfg rank h.sub roots) 0 env).any (fun s => s.2.val) := by
  rw [loop_refines_plan cfg rank h roots, tryEach_val]

/-- … and if none succeeded the candidates ran out: the whole plan was attempted. -/
theorem fallback_exhausts_candidates (cfg : KillCfg) (rank : List View → List View) (h : RankOK rank)
    (roots : List View) (env : Env)
    (hfail : (loop cfg rank (fsize (rank roots) + 1) (rank roots) 0 env).val = false) :
    attempted cfg rank h roots env = plan cfg rank h.sub roots := by
  rw [loop_refines_plan cfg rank h roots] at hfail
  exact segments_exhaust _ _ _ _ hfail

/-! ## shape of the plan -/

/-- Backtracking in rank order: below a candidate that is descended into, the attempts are those below its
    ranked children, child after child; for siblings `a` before `b` in the ranking every attempt below `a` comes
    before every attempt below `b`, and `b` does not rank strictly above `a`. -/
theorem fallback_in_rank_order (cfg : KillCfg) (rank : List View → List View) (h : RankOK rank) (l : List View)
    (pre post : List View) (a : View) (hsplit : rank l = pre ++ a :: post) :
    (rank l).flatMap (attempts cfg rank h.sub)
        = pre.flatMap (attempts cfg rank h.sub) ++ attempts cfg rank h.sub a ++ post.flatMap (attempts cfg rank h.sub)
      ∧ ∀ b ∈ post, rkLe b a := by
  constructor
  · rw [hsplit]; simp [List.flatMap_append]
  · have hp := (h l).2
    rw [hsplit, List.pairwise_append] at hp
    intro b hb
    exact (List.pairwise_cons.1 hp.2.1).1 b hb

/-- the plan of a candidate that is descended into is the plan of its ranked children -/
theorem descends_into_ranked_children (cfg : KillCfg) (rank : List View → List View) (h : RankOK rank) (v : View)
    (hd : descends cfg v = true) :
    attempts cfg rank h.sub v = (rank v.children).flatMap (attempts cfg rank h.sub) := by
  rw [attempts_unfold]; simp [hd]

/-- Every planned victim is reached from a matched root by descending one level at a time through cgroups
    each of which has `recursive` set, memory.oom.group ≠ 1 and children; the victim itself is not descended
    into and is not known to be empty. -/
theorem plan_reached_by_descent (cfg : KillCfg) (rank : List View → List View) (h : RankOK rank) (roots : List View)
    (x : View) (hx : x ∈ plan cfg rank h.sub roots) :
    ∃ r ∈ roots, ∃ p, Descent cfg r p x ∧ (∀ a ∈ p, descends cfg a = true)
      ∧ descends cfg x = false ∧ x.info.populated.getD true = true := by
  unfold plan at hx
  rw [List.mem_flatMap] at hx
  obtain ⟨r, hr, hxr⟩ := hx
  obtain ⟨⟨p, hp⟩, h2, h3⟩ := attempts_descent cfg rank h.sub (vsize r) r (Nat.le_refl _) x hxr
  exact ⟨r, h.sub _ _ hr, p, hp, descent_path_descends hp, h2, h3⟩

/-- never below a cgroup with memory.oom.group = 1: no cgroup on the way down to a victim has it set -/
theorem never_below_oom_group (cfg : KillCfg) (rank : List View → List View) (h : RankOK rank) (roots : List View)
    (x : View) (hx : x ∈ plan cfg rank h.sub roots) :
    ∃ r ∈ roots, ∃ p, Descent cfg r p x ∧ ∀ a ∈ p, a.info.oomGroup ≠ some true := by
  obtain ⟨r, hr, p, hp, hall, _, _⟩ := plan_reached_by_descent cfg rank h roots x hx
  refine ⟨r, hr, p, hp, ?_⟩
  intro a ha hog
  have := hall a ha
  simp [descends, mayRecurse, hog] at this

/-- a candidate with memory.oom.group = 1 is attempted as a unit (or skipped when empty), never opened up -/
theorem oom_group_is_a_unit (cfg : KillCfg) (rank : List View → List View) (h : RankOK rank) (v : View)
    (hog : v.info.oomGroup = some true) :
    attempts cfg rank h.sub v = if v.info.populated.getD true then [v] else [] := by
  rw [attempts_unfold]; simp [descends, mayRecurse, hog]

/-- without `recursive` nothing is descended into: the victims are matched roots themselves -/
theorem no_descent_without_recursive (cfg : KillCfg) (rank : List View → List View) (h : RankOK rank)
    (roots : List View) (hrec : cfg.recursive = false) (x : View) (hx : x ∈ plan cfg rank h.sub roots) :
    x ∈ roots := by
  obtain ⟨r, hr, p, hp, hall, _, _⟩ := plan_reached_by_descent cfg rank h roots x hx
  cases hp with
  | here => exact hr
  | down hd _ _ => simp [descends, mayRecurse, hrec] at hd

/-- a cgroup whose cgroup.events says `populated 0` is never a victim -/
theorem unpopulated_skipped (cfg : KillCfg) (rank : List View → List View) (h : RankOK rank) (roots : List View)
    (x : View) (hx : x ∈ plan cfg rank h.sub roots) : x.info.populated ≠ some false := by
  obtain ⟨_, _, _, _, _, _, hpop⟩ := plan_reached_by_descent cfg rank h roots x hx
  intro e; simp [e] at hpop

/-! ## preference beats the metric -/

/-- the numeric values the sort compares (`KillPreference` in Types.h, via the translator): avoid < normal < prefer -/
theorem pref_values_ordered : Pref.avoid.toInt < Pref.normal.toInt ∧ Pref.normal.toInt < Pref.prefer.toInt := by
  decide

/-- In every ranking the preference never increases along the list: every `prefer` cgroup precedes every
    unmarked one, which precedes every `avoid` one, whatever the keys are. -/
theorem prefer_normal_avoid (rank : List View → List View) (h : RankOK rank) (l : List View) :
    (rank l).Pairwise (fun a b => b.pref.toInt ≤ a.pref.toInt) := by
  refine List.Pairwise.imp ?_ (h l).2
  intro a b hab
  unfold rkLe at hab; omega

/-- …so a strictly preferred sibling is never behind a less preferred one -/
theorem preferred_first (rank : List View → List View) (h : RankOK rank) (l pre post : List View) (a b : View)
    (hsplit : rank l = pre ++ a :: post) (hb : b ∈ post) : ¬ (a.pref.toInt < b.pref.toInt) := by
  have hp := prefer_normal_avoid rank h l
  rw [hsplit, List.pairwise_append] at hp
  have := (List.pairwise_cons.1 hp.2.1).1 b hb
  omega

/-- a prefer mark (trusted or user) wins over any avoid mark -/
theorem prefer_wins_if_both (m : Marks) (h : m.trustedPrefer = true ∨ m.userPrefer = true) : prefOf m = Pref.prefer := by
  unfold prefOf
  cases h with
  | inl h => simp [h]
  | inr h => cases m.trustedPrefer <;> simp [h]

theorem avoid_iff (m : Marks) :
    prefOf m = Pref.avoid ↔ m.trustedPrefer = false ∧ m.userPrefer = false ∧ (m.trustedAvoid = true ∨ m.userAvoid = true) := by
  unfold prefOf
  cases m.trustedPrefer <;> cases m.userPrefer <;> cases m.trustedAvoid <;> cases m.userAvoid <;> simp

/-- the four marks the property names (Fs.h, via the translator); the driver reads them off the scenario's xattrs -/
theorem preference_xattr_names :
    OomdModel.Generated.xattrPreferTrusted = "trusted.oomd_prefer" ∧ OomdModel.Generated.xattrPreferUser = "user.oomd_prefer" ∧
    OomdModel.Generated.xattrAvoidTrusted = "trusted.oomd_avoid" ∧ OomdModel.Generated.xattrAvoidUser = "user.oomd_avoid" := by
  decide

/-! ## the hypotheses are satisfiable, and the statements are not vacuous -/

/-- `Util::filter` followed by a sort on (preference, key) is an admissible ranking -/
example : RankOK (fun l => sortDesc (l.filter (·.info.eligible))) := rankOK_filter_sort _

private def leaf (id : Nat) (pop : Bool) (og : Bool) (m : Marks) (key : Int) (cs : List View := []) : View :=
  .mk { id := id, path := "", populated := some pop, oomGroup := some og, marks := m, key := key,
        eligible := true, pidsCurrent := none } cs
private def none4 : Marks := ⟨false, false, false, false⟩
private def cfg0 : KillCfg :=
  { recursive := true, dry := false, alwaysContinue := false, kernelKill := false, reapMemory := false,
    postActionDelay := none, hasRuleset := true }
private abbrev rank0 : List View → List View := fun l => sortDesc (l.filter (·.info.eligible))
private theorem rank0_ok : RankOK rank0 := rankOK_filter_sort _
/-- w{ a(avoid, key 9){a1, a2(empty)}, b(oom.group){b1}, c(prefer, key 0) }: the plan is c, b, a1 -/
private def tree0 : View :=
  leaf 1 true false none4 0 [
    leaf 2 true false ⟨false, false, true, false⟩ 9 [leaf 5 true false none4 1, leaf 6 false false none4 2],
    leaf 3 true true none4 5 [leaf 7 true false none4 3],
    leaf 4 true false ⟨false, true, true, false⟩ 0]

example : (plan cfg0 rank0 rank0_ok.sub [tree0]).map View.id = [4, 3, 5] := by
  simp [plan, rank0, tree0, leaf, none4, cfg0, sortDesc, insertDesc, attempts_unfold, descends, mayRecurse,
    View.children, View.info, View.id, View.pref, prefOf, rkLe, Pref.toInt,
    OomdModel.Generated.killPrefAvoid, OomdModel.Generated.killPrefNormal, OomdModel.Generated.killPrefPrefer]

/-! ## a victim that emptied on its own after the tick sampled it -/

/-- "If the chosen victim yields no signalled process oomd falls back", for a victim whose processes all left between the tick's
    sample of cgroup.events (`v.info.populated`, which let it through the unpopulated filter) and the kill: the kernelkill
    branch reads cgroup.events afresh (`env.events`), and when that read does not say `populated 1` nothing is written to
    cgroup.kill, no event of the attempt is a signal, and the attempt is no success - so by `success_iff_an_attempt_succeeded`
    and `fallback_exhausts_candidates` the loop goes on to the next-best candidate. -/
theorem emptied_victim_is_no_success (cfg : KillCfg) (v : View) (k : Nat) (env : Env)
    (hd : cfg.dry = false) (hk : cfg.kernelKill = true) (a : Option Bool) (rest : List (Option Bool))
    (he : env.events = a :: rest) (ha : a ≠ some true) :
    (tryToLogAndKill cfg v k env).val = false ∧ ∀ e ∈ (tryToLogAndKill cfg v k env).evs, isSignal e = false := by
  obtain ⟨o1, c1, o2, c2, o3, c3, o4, c4, f, hevs, hv⟩ := attempt_kernel_not_populated cfg v k env hd hk a rest he ha
  refine ⟨hv, ?_⟩
  rw [hevs]
  intro e hmem
  simp only [List.mem_cons, List.not_mem_nil, or_false] at hmem
  rcases hmem with rfl | rfl | rfl | rfl | rfl <;> rfl

/-- the premises are met by a cgroup the sample called populated: the attempt leaves the start-of-attempt xattrs and the
    freeze write, and fails -/
example :
    let cfgK : KillCfg := { cfg0 with kernelKill := true }
    let envK : Env := { procs := [], killRc := [], xattr := [], writes := [1, 1], pidfd := [], mrelease := [], events := [some false] }
    (leaf 9 true false none4 0).info.populated = some true ∧
    (tryToLogAndKill cfgK (leaf 9 true false none4 0) 0 envK).val = false ∧
    (tryToLogAndKill cfgK (leaf 9 true false none4 0) 0 envK).evs.length = 5 := by
  decide

/-! ## the fallback stack across a prekill-hook wait (serialise on the deferring tick, restore on the resuming tick) -/

section HookWait
open OomdModel.Hook

mutual
theorem findV_path (p : String) : ∀ (t v : View), findV p t = some v → v.info.path = p
  | .mk i cs, v, h => by
    unfold findV at h
    split at h
    · cases h; simpa [View.info] using ‹i.path = p›
    · exact findF_path p cs v h
theorem findF_path (p : String) : ∀ (l : List View) (v : View), findF p l = some v → v.info.path = p
  | [], v, h => by simp [findF] at h
  | c :: cs, v, h => by
    unfold findF at h
    split at h
    · rename_i w hw
      cases h
      exact findV_path p c _ hw
    · exact findF_path p cs v h
end

/-- a reference that deserialises names the view it yields: same path, same id -/
theorem deser_ser {top : List View} {r : SRef} {v : View} (h : deser top r = some v) : ser v = r := by
  have hid := OomdModel.Hook.deser_id h
  have hp : v.info.path = r.path := by
    unfold deser at h
    split at h
    · rename_i w hw
      split at h
      · cases h; exact findF_path r.path top _ hw
      · cases h
    · cases h
  cases r
  simp only [ser, SRef.mk.injEq]
  exact ⟨hp, hid⟩

/-- **The restored fallback stack is a prefix of the serialised one, in the same order.**  Whatever happened to the tree while
the hook ran, `deserStack` (the loop in `resumeFromPrekillHook`) yields the candidates of the serialised stack from the top
down to the first one that cannot be found again - it never reorders candidates and never invents one. -/
theorem restored_stack_is_prefix (top : List View) (refs : List SRef) :
    ∃ n, (deserStack top refs).map ser = refs.take n := by
  induction refs with
  | nil => exact ⟨0, rfl⟩
  | cons r rs ih =>
    unfold deserStack
    cases h : deser top r with
    | none => exact ⟨0, rfl⟩
    | some v =>
      obtain ⟨n, hn⟩ := ih
      refine ⟨n + 1, ?_⟩
      simp only [List.map_cons, List.take_succ_cons, hn, deser_ser h]

/-- **Unchanged candidates: the fallback continues exactly where the deferring loop stopped.**  If every candidate left on the
stack when the hook deferred the kill is still the same cgroup on the resuming tick, the restored stack is that stack - same
candidates, same (rank) order - so after a failed kill of the intended victim the next-best candidate is tried next. -/
theorem fallback_stack_survives_hook_wait (top : List View) (stack : List View)
    (h : ∀ v ∈ stack, deser top (ser v) = some v) :
    deserStack top (stack.map ser) = stack := by
  induction stack with
  | nil => rfl
  | cons v vs ih =>
    simp only [List.map_cons]
    unfold deserStack
    rw [h v (List.mem_cons_self ..)]
    simp only
    rw [ih (fun w hw => h w (List.mem_cons_of_mem _ hw))]

/-- and the loop that runs after the intended victim's failed kill is `hloop` on exactly that stack -/
theorem fallback_is_loop_on_restored_stack (cfg : HCfg) (rank : List View → List View) (dl : Option Nat)
    (top stack : List View) (p : Pending) (hp : p.stack = stack.map ser)
    (h : ∀ v ∈ stack, deser top (ser v) = some v) (env : HEnv) :
    fallback cfg rank dl top p env = hloop cfg rank dl (fsize stack + 1) stack 1 env := by
  unfold fallback
  rw [hp, fallback_stack_survives_hook_wait top stack h]

end HookWait

end C03

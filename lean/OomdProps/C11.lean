import OomdProofs.RsCgroup
import OomdProofs.Path
import OomdProps.C02
import OomdModel.Generated.Consts

/-!
# C11 — Ruleset-level cgroup: one independent, persistent instance per matching cgroup

Statements are about `OomdModel.RsCgroup` (the per-cgroup loop of `Ruleset::runOnce`,
`registerRunnableRulesetForCgroupPath`, `Ruleset::prerun`, the discard loop), tied to
`src/oomd/engine/Ruleset.cpp` by the `h_rscgroup` correspondence run.  They quantify over every
configuration, every world (instance map, clock, uuid counter, generation counter), every resolve
list (any order, any multiplicity, any combination of un-openable / untagged entries, hence any
number of simultaneous removals), every script of every plugin of every instance, and - for the
history theorems - every sequence of ticks.

`F : Fixes` selects which of the proposed repairs are in the code; each theorem names the repair
it needs as a hypothesis (`F.skipVisited`, `F.eraseSafe`, `F.prerunInsts`), and the `*_needs_repair`
theorems show that the statement fails for the unrepaired code (`Fixes.none`).

`WF w` (instance keys unique, generation numbers below the counter) holds initially and is
preserved by every tick (`wf_reachable`).
-/

namespace C11
open OomdModel.RsCgroup
open OomdModel.Engine (rsRun Ev Script RsState RsCfg detInsts)

/-- what "currently matching" means: some element of the resolve list names the path, could be
opened, and - if the ruleset has an `xattr_filter` - carries the attribute -/
theorem present_iff (filter : Bool) (ms : List MatchIn) (p : Path) :
    present filter ms p = true ↔
      ∃ m ∈ ms, m.path = p ∧ m.openable = true ∧ (filter = true → m.xattr = XRes.yes) := by
  simp only [present, List.any_eq_true, Bool.and_eq_true, decide_eq_true_eq, eligible, Bool.or_eq_true,
    Bool.not_eq_true']
  constructor
  · rintro ⟨m, hm, ⟨ho, hx⟩, hp⟩
    refine ⟨m, hm, hp, ho, ?_⟩
    intro hf
    rcases hx with hx | hx
    · simp [hf] at hx
    · exact hx
  · rintro ⟨m, hm, hp, ho, hx⟩
    refine ⟨m, hm, ⟨ho, ?_⟩, hp⟩
    cases filter
    · exact Or.inl rfl
    · exact Or.inr (hx rfl)

/-- every world reachable from an empty instance map is well-formed -/
theorem wf_reachable (F : Fixes) (cfg : Cfg) (now ctr g : Nat) (ts : List CgTickIn) :
    WF (runTicks F cfg { insts := [], now := now, ctr := ctr, nextGen := g } ts) :=
  (runTicks_WF F cfg _ (WF_init now ctr g) ts).1

/-- **Once per match.**  On every tick, for every path: if the path is currently matching, the
detectors of the ruleset run for it exactly once each, in configuration order (whatever the state of
its instance: new, paused, suspended chain), however often and wherever glob lists it; if it is not,
nothing runs for it. -/
theorem once_per_match (F : Fixes) (hs : F.skipVisited = true) (cfg : Cfg) (w : CgWorld) (hw : WF w)
    (ti : CgTickIn) (p : Path) :
    runDets p (cgTick F cfg w ti).evs = if present cfg.filter ti.ms p = true then dets cfg else [] := by
  obtain ⟨now, ctr, g, _, _, _, h⟩ := tick_proj F hs cfg w hw ti p
  rw [← runDets_evsOf, h]
  have hpre : ∀ oi, runDets p (prePhaseOf F cfg p oi) = [] := by
    intro oi
    apply runDets_nonrun
    intro e he
    have := prePhaseOf_isPre F cfg p _ e he
    cases e <;> simp_all [isPre, isRun]
  cases hp : present cfg.filter ti.ms p
  · simp [instTick, hpre]
  · simp only [instTick, if_true, runDets_append, hpre, List.nil_append]
    cases hf : find p w.insts with
    | none =>
      simp only [instVisit, runDets_append, runDets_nonrun p _ (createEvs_nonrun cfg p g), List.nil_append,
        runDets_map_run]
      exact C02.all_detectors_run ..
    | some j =>
      simp only [instVisit, runDets_append, runDets, List.nil_append, runDets_map_run]
      exact C02.all_detectors_run ..

/-- **Independence (projection).**  What a tick does to the instance of one path, and every event
that concerns that path, is the one-path specification `instTick` applied to the path's own previous
instance, its own presence, its own script, and the three shared counters (clock reading, uuid
counter, generation counter) at the moment the path is reached.  No other instance's state or script
and no other path's presence enters, except through those counters. -/
theorem instances_independent (F : Fixes) (hs : F.skipVisited = true) (cfg : Cfg) (w : CgWorld) (hw : WF w)
    (ti : CgTickIn) (p : Path) :
    ∃ now ctr g, w.now + ti.gap ≤ now ∧ w.nextGen ≤ g ∧
      (find p (cgTick F cfg w ti).w.insts, evsOf p (cgTick F cfg w ti).evs) =
        instTick F cfg p (find p w.insts) (present cfg.filter ti.ms p) (ti.sc p) now ctr g :=
  tick_projection F hs cfg w hw ti p

/-- **Independence, with the counters named.**  Split the resolve list at the first eligible
occurrence of a path: the path's instance is evaluated on its own previous instance and its own
script, at exactly the clock reading, uuid counter and generation counter that the per-cgroup loop
has reached after the elements before it (`A`); what the elements before and after it are, which
instances they have and what their plugins return matters only through `A.now`, `A.ctr`,
`A.nextGen` (the analogue of `C02.independence` inside one ruleset). -/
theorem independence_explicit (F : Fixes) (hs : F.skipVisited = true) (cfg : Cfg) (sc : Path → Script)
    (pre post : List MatchIn) (m : MatchIn) (insts : List (Path × Inst)) (now ctr g : Nat)
    (he : eligible cfg.filter m = true) (hpre : present cfg.filter pre m.path = false) :
    let L : Loop := { insts := insts, visited := [], now := now, ctr := ctr, nextGen := g }
    let A := (loop F cfg sc pre L).1
    let o := instVisit F cfg m.path (find m.path insts) (sc m.path) A.now A.ctr A.nextGen
    find m.path (loop F cfg sc (pre ++ m :: post) L).1.insts = some o.inst ∧
    evsOf m.path (loop F cfg sc (pre ++ m :: post) L).2 = o.evs :=
  loop_at F hs cfg sc pre post m _ he hpre (by simp)

/-- **State persists while present** (one tick).  A path that has an instance and still matches keeps
the same object (generation); its post-action pause, plugin override flag and suspended chain
(`RsState`) evolve by `runOnceImpl` (`rsRun`) from the values the previous tick left; nothing is
re-initialised; the events that concern it are the prerun of that object followed by that `rsRun`'s
events. -/
theorem state_persists_while_present (F : Fixes) (hs : F.skipVisited = true) (cfg : Cfg) (w : CgWorld)
    (hw : WF w) (ti : CgTickIn) (p : Path) (i : Inst)
    (hi : find p w.insts = some i) (hp : present cfg.filter ti.ms p = true) :
    ∃ now ctr, w.now + ti.gap ≤ now ∧
      find p (cgTick F cfg w ti).w.insts =
        some { gen := i.gen, st := (rsRun F.invOnResume cfg.rs (ti.sc p) i.st now ctr).1 } ∧
      evsOf p (cgTick F cfg w ti).evs =
        prePhaseOf F cfg p (some i) ++ (rsRun F.invOnResume cfg.rs (ti.sc p) i.st now ctr).2.1.map (CEv.run p i.gen) := by
  obtain ⟨now, ctr, g, hn, _, h1, h2⟩ := tick_proj F hs cfg w hw ti p
  refine ⟨now, ctr, hn, ?_⟩
  rw [hi, hp] at h1 h2
  simp only [instTick, if_true, instVisit, List.nil_append] at h1 h2
  exact ⟨h1, h2⟩

/-- **State persists while present** (any history).  Over any sequence of ticks in all of which the
path matches, its instance is one and the same object and its state and `runOnceImpl` events are
those of the plain ruleset model (`rsRun`, the subject of C02 / C05 / C06) iterated over the ticks
from the state it had at the start, each step at some clock reading / uuid counter. -/
theorem persists_over_history (F : Fixes) (hs : F.skipVisited = true) (cfg : Cfg) (p : Path) (ts : List CgTickIn)
    (w : CgWorld) (hw : WF w) (i : Inst) (hi : find p w.insts = some i)
    (hp : ∀ t ∈ ts, present cfg.filter t.ms p = true) :
    ∃ cs : List (Nat × Nat), cs.length = ts.length ∧
      find p (runTicks F cfg w ts).insts =
        some { gen := i.gen
               st := (instRun F.invOnResume cfg.rs i.st ((ts.zip cs).map fun tc => (tc.1.sc p, tc.2.1, tc.2.2))).1 } ∧
      (runEvs F cfg w ts).map (runsOf p) =
        (instRun F.invOnResume cfg.rs i.st ((ts.zip cs).map fun tc => (tc.1.sc p, tc.2.1, tc.2.2))).2.map
          (fun l => l.map (CEv.run p i.gen)) := by
  induction ts generalizing w i with
  | nil => exact ⟨[], rfl, by simp [runTicks, instRun, hi], by simp [runEvs, instRun]⟩
  | cons t ts ih =>
    obtain ⟨now, ctr, _, h1, h2⟩ :=
      state_persists_while_present F hs cfg w hw t p i hi (hp t (List.mem_cons_self ..))
    obtain ⟨cs, hl, r1, r2⟩ := ih (cgTick F cfg w t).w (tick_WF F cfg w hw t).1 _ h1
      (fun t' ht' => hp t' (List.mem_cons_of_mem _ ht'))
    refine ⟨(now, ctr) :: cs, by simp [hl], ?_, ?_⟩
    · simpa [runTicks, instRun] using r1
    · simp only [runEvs, List.map_cons, List.zip_cons_cons, instRun]
      rw [r2, ← runsOf_evsOf, h2, runsOf_append, runsOf_map_run]
      rw [runsOf_nonrun p (prePhaseOf F cfg p (some i))]
      · rfl
      · intro e he
        have := prePhaseOf_isPre F cfg p _ e he
        cases e <;> simp_all [isPre, isRun]

/-- A path that does not match on a tick has no instance after it. -/
theorem absent_instance_discarded (F : Fixes) (hs : F.skipVisited = true) (cfg : Cfg) (w : CgWorld) (hw : WF w)
    (ti : CgTickIn) (p : Path) (hp : present cfg.filter ti.ms p = false) :
    find p (cgTick F cfg w ti).w.insts = none := by
  obtain ⟨now, ctr, g, _, _, h, _⟩ := tick_proj F hs cfg w hw ti p
  rw [hp] at h
  exact h

/-- A matching path without an instance gets a new object (generation taken from the counter, hence
different from every generation in use), whose plugins are initialised and prerun, and whose
`runOnceImpl` starts from the initial ruleset state (`{}`: no pause, no override, no suspended chain). -/
theorem created_fresh (F : Fixes) (hs : F.skipVisited = true) (cfg : Cfg) (w : CgWorld) (hw : WF w)
    (ti : CgTickIn) (p : Path) (hn : find p w.insts = none) (hp : present cfg.filter ti.ms p = true) :
    ∃ now ctr g, w.now + ti.gap ≤ now ∧ w.nextGen ≤ g ∧
      find p (cgTick F cfg w ti).w.insts =
        some { gen := g, st := (rsRun F.invOnResume cfg.rs (ti.sc p) {} now ctr).1 } ∧
      evsOf p (cgTick F cfg w ti).evs =
        createEvs cfg p g ++ (rsRun F.invOnResume cfg.rs (ti.sc p) {} now ctr).2.1.map (CEv.run p g) := by
  obtain ⟨now, ctr, g, h1, h2, h3, h4⟩ := tick_proj F hs cfg w hw ti p
  refine ⟨now, ctr, g, h1, h2, ?_⟩
  rw [hn, hp] at h3 h4
  simp only [instTick, if_true, instVisit, prePhaseOf, List.nil_append] at h3 h4
  exact ⟨h3, h4⟩

/-- **Fresh after absence.**  If a path does not match on some tick, then whatever happens afterwards
(any further history), any instance the path has later is a different object from every instance
that existed before the absence - in particular from its own earlier one: its generation number is
not below the counter value after the absent tick, while every earlier instance's is.  Together with
`created_fresh` (a new object starts from the initial state) this is "starts from fresh state". -/
theorem fresh_after_absence (F : Fixes) (hs : F.skipVisited = true) (cfg : Cfg) (w : CgWorld) (hw : WF w)
    (tabs : CgTickIn) (ts : List CgTickIn) (p : Path) (hp : present cfg.filter tabs.ms p = false) (i : Inst)
    (hi : find p (runTicks F cfg (cgTick F cfg w tabs).w ts).insts = some i) :
    (cgTick F cfg w tabs).w.nextGen ≤ i.gen ∧ ∀ q j, find q w.insts = some j → j.gen < i.gen := by
  have key : ∀ (ts : List CgTickIn) (N : Nat) (v : CgWorld), WF v → N ≤ v.nextGen →
      (∀ j, find p v.insts = some j → N ≤ j.gen) →
      ∀ j, find p (runTicks F cfg v ts).insts = some j → N ≤ j.gen := by
    intro ts
    induction ts with
    | nil => intro N v _ _ h j hj; exact h j hj
    | cons t ts ih =>
      intro N v hv hN h j hj
      simp only [runTicks] at hj
      obtain ⟨hv', hmono⟩ := tick_WF F cfg v hv t
      refine ih N _ hv' (Nat.le_trans hN hmono) ?_ j hj
      intro k hk
      obtain ⟨now, ctr, g, _, hg, h1, _⟩ := tick_proj F hs cfg v hv t p
      rw [hk] at h1
      cases hpres : present cfg.filter t.ms p
      · simp [instTick, hpres] at h1
      · simp only [instTick, hpres, if_true, Option.some.injEq] at h1
        have hgen := (instVisit_gen F cfg p (find p v.insts) (t.sc p) now ctr g).1
        rw [← h1] at hgen
        cases hf : find p v.insts with
        | none => rw [hf] at hgen; simp only at hgen; omega
        | some j0 => rw [hf] at hgen; simp only at hgen; have := h j0 hf; omega
  obtain ⟨hw1, hmono⟩ := tick_WF F cfg w hw tabs
  have habs := absent_instance_discarded F hs cfg w hw tabs p hp
  have h1 := key ts (cgTick F cfg w tabs).w.nextGen (cgTick F cfg w tabs).w hw1 (Nat.le_refl _)
    (by intro j hj; rw [habs] at hj; cases hj) i hi
  refine ⟨h1, ?_⟩
  intro q j hq
  have := hw.gens q j hq
  omega

/-- the argument that `registerRunnableRulesetForCgroupPath` defaults is the one plugins read their
target from (`cgroup`; regenerated from Ruleset.cpp by tools/extract.py) -/
theorem default_target_arg_name : OomdModel.Generated.rulesetCgroupArgName = "cgroup" := by decide

/-- **Default target.**  Whenever an instance is created for path `p`, each action copy is initialised
with the template's arguments plus `cgroup ↦` the pattern that names exactly `p` (`literalPattern`: `p` with every character
`glob(3)` interprets escaped, see `default_argument_names_the_cgroup`), unless the configuration of that action names a
cgroup itself, in which case it keeps its own; detector copies get the template's arguments
unchanged.  (That `OomdContext::getRulesetCgroup()` / `ActionContext::target_cgroup` is `p` for every
call of the instance is the meaning of `CEv.run p`, compared with the code in the correspondence run.) -/
theorem default_target (F : Fixes) (cfg : Cfg) (w : CgWorld) (ti : CgTickIn) (p : Path) (g x : Nat) (arg : Option Path)
    (he : CEv.init p g x arg ∈ (cgTick F cfg w ti).evs) :
    (x ∈ dets cfg ∧ arg = cfg.own x) ∨
    (x ∈ cfg.rs.actions ∧ arg = some (match cfg.own x with | some c => c | none => literalPattern p)) := by
  simp only [cgTick, runPhase, List.mem_append, prerunPhase] at he
  have hcreate : ∀ q g', CEv.init p g x arg ∈ createEvs cfg q g' →
      (x ∈ dets cfg ∧ arg = cfg.own x) ∨
      (x ∈ cfg.rs.actions ∧ arg = some (match cfg.own x with | some c => c | none => literalPattern p)) := by
    intro q g' h
    simp only [createEvs, List.mem_append, List.mem_map] at h
    rcases h with (⟨d, hd, hd'⟩ | ⟨a, ha, ha'⟩) | h
    · injection hd' with e1 e2 e3 e4
      subst e3
      exact Or.inl ⟨hd, e4.symm⟩
    · injection ha' with e1 e2 e3 e4
      subst e3; subst e1
      refine Or.inr ⟨ha, ?_⟩
      rw [← e4]
      simp only [actionArg]
      cases cfg.own a <;> rfl
    · have := instPreruns_isPre cfg q g' _ h
      simp [isPre] at this
  rcases he with (he | he) | he
  · simp at he
  · split at he
    · simp only [List.mem_flatMap] at he
      obtain ⟨pi, _, h⟩ := he
      have := instPreruns_isPre cfg _ _ _ h
      simp [isPre] at this
    · simp at he
  · obtain ⟨q, g', h⟩ := loop_init_shape F cfg ti.sc ti.ms _ _ he rfl
    exact hcreate q g' h

/-- **The default argument names the instance's cgroup and nothing else**, whatever characters its name contains: each
component of `literalPattern p`, read by `fnmatch` as the plugins' `resolveWildcard` reads it (C16's model), matches the
corresponding component of `p` and no other name.  (On the pinned tree the path was handed over unescaped: for a cgroup called
`foo\x2dbar.service` - systemd's escaping - the action's pattern matched nothing; repaired by a `fix:` commit, see
known_findings.txt.) -/
theorem default_argument_names_the_cgroup (comp name : List Char) :
    OomdModel.Path.fnm (OomdModel.Path.globEscape comp) name = true ↔ name = comp :=
  OomdModel.Path.fnm_globEscape comp name

/-- ... also under the leading-period rule `glob(3)` applies to directory entries (`FNM_PERIOD`): a cgroup whose name starts with
a period is still named by its own escaped name -/
theorem default_argument_names_the_cgroup_period (comp name : List Char) :
    OomdModel.Path.fnmatch (OomdModel.Path.globEscape comp) name = true ↔ name = comp :=
  OomdModel.Path.fnmatch_globEscape comp name

/-- escaping adds no path separator: the components of the pattern are the escaped components of the path -/
theorem escape_keeps_separators (s : List Char) :
    (OomdModel.Path.globEscape s).count '/' = s.count '/' := by
  induction s with
  | nil => rfl
  | cons c cs ih =>
    have : OomdModel.Path.globEscape (c :: cs) = OomdModel.Path.escChar c ++ OomdModel.Path.globEscape cs := by
      simp [OomdModel.Path.globEscape]
    rw [this, List.count_append, ih]
    unfold OomdModel.Path.escChar
    split
    · rename_i h
      have hc : c ≠ '/' := by
        intro e; subst e; simp at h
      simp [List.count_cons, hc]
    · simp [List.count_cons]; omega

example : OomdModel.Path.globEscape "w\\x2dq[1]".toList = "w\\\\x2dq\\[1]".toList := by decide

/-- **Discard is silent.**  For a path that does not match on a tick - whether its cgroup was removed,
lost the attribute or cannot be opened, and however many other paths disappear on the same tick -
the instance is dropped, the discard loop performs no undefined operation, and the only events that
concern the path are the preruns of the object that still existed when the tick began: nothing is
initialised, nothing is run.  (That the other paths are unaffected is `instances_independent`.) -/
theorem discard_is_silent (F : Fixes) (hs : F.skipVisited = true) (he : F.eraseSafe = true) (cfg : Cfg)
    (w : CgWorld) (hw : WF w) (ti : CgTickIn) (p : Path) (hp : present cfg.filter ti.ms p = false) :
    (cgTick F cfg w ti).ub = false ∧
    find p (cgTick F cfg w ti).w.insts = none ∧
    evsOf p (cgTick F cfg w ti).evs = prePhaseOf F cfg p (find p w.insts) ∧
    ∀ e ∈ evsOf p (cgTick F cfg w ti).evs, isPre e = true := by
  obtain ⟨now, ctr, g, _, _, h1, h2⟩ := tick_proj F hs cfg w hw ti p
  rw [hp] at h1 h2
  simp only [instTick] at h1 h2
  refine ⟨by simp [cgTick, runPhase, he], h1, h2, ?_⟩
  rw [h2]
  exact prePhaseOf_isPre F cfg p _

/-- **Prerun every tick.**  Every instance that exists after a tick was prerun on that tick: the
events that concern its path are (if it was created on this tick) the initialisation of its plugin
objects, then the prerun of every plugin of that very object exactly once, in `Ruleset::prerun`
order, then only `runOnceImpl` events - so each plugin is prerun before it is run, on every tick. -/
theorem prerun_every_tick (F : Fixes) (hs : F.skipVisited = true) (hpr : F.prerunInsts = true) (cfg : Cfg)
    (w : CgWorld) (hw : WF w) (ti : CgTickIn) (p : Path) (i : Inst)
    (hi : find p (cgTick F cfg w ti).w.insts = some i) :
    ∃ inits runs, evsOf p (cgTick F cfg w ti).evs = inits ++ (plugins cfg).map (CEv.pre p i.gen) ++ runs ∧
      (∀ e ∈ inits, isInit e = true) ∧ (∀ e ∈ runs, isRun e = true) := by
  obtain ⟨now, ctr, g, _, _, h1, h2⟩ := tick_proj F hs cfg w hw ti p
  rw [hi] at h1
  cases hp : present cfg.filter ti.ms p
  · simp [instTick, hp] at h1
  · simp only [instTick, hp, if_true, Option.some.injEq] at h1 h2
    have hgen := (instVisit_gen F cfg p (find p w.insts) (ti.sc p) now ctr g).1
    rw [← h1] at hgen
    rw [h2]
    have hruns : ∀ g', ∀ e ∈ (rsRun F.invOnResume cfg.rs (ti.sc p) (match find p w.insts with
        | some j => j | none => { gen := g, st := {} }).st now ctr).2.1.map (CEv.run p g'), isRun e = true := by
      intro g' e he
      simp only [List.mem_map] at he
      obtain ⟨x, _, rfl⟩ := he
      rfl
    cases hf : find p w.insts with
    | some j =>
      rw [hf] at hgen
      simp only at hgen
      refine ⟨[], (rsRun F.invOnResume cfg.rs (ti.sc p) j.st now ctr).2.1.map (CEv.run p j.gen), ?_, by simp, ?_⟩
      · simp [prePhaseOf, hpr, instVisit, instPreruns, hgen]
      · have := hruns j.gen
        rw [hf] at this
        exact this
    | none =>
      rw [hf] at hgen
      simp only at hgen
      refine ⟨(dets cfg).map (fun d => CEv.init p g d (cfg.own d)) ++
          cfg.rs.actions.map (fun a => CEv.init p g a (some (actionArg cfg p a))),
        (rsRun F.invOnResume cfg.rs (ti.sc p) {} now ctr).2.1.map (CEv.run p g), ?_, ?_, ?_⟩
      · simp [prePhaseOf, instVisit, createEvs, instPreruns, hgen]
      · intro e he
        simp only [List.mem_append, List.mem_map] at he
        rcases he with ⟨x, _, rfl⟩ | ⟨x, _, rfl⟩ <;> rfl
      · have := hruns g
        rw [hf] at this
        exact this

/-! ## the unrepaired code (`Fixes.none`) fails these statements: concrete histories

tree `s/{a,b,c}`, ruleset cgroup `s/*`, one detector (plugin 0), one action (plugin 1) -/

def cexCfg : Cfg :=
  { rs := { rid := 0, groups := [{ gid := 0, dets := [0] }], actions := [1], delay := 15, hookTimeout := 5 }
    filter := false
    own := fun _ => none }

def cexAll : CgTickIn := { gap := 5, ms := [{ path := "s/a" }, { path := "s/b" }, { path := "s/c" }], sc := fun _ _ => {} }
def cexOnlyC : CgTickIn := { gap := 5, ms := [{ path := "s/c" }], sc := fun _ _ => {} }
def cexDup : CgTickIn := { gap := 5, ms := [{ path := "s/a" }, { path := "s/a" }, { path := "s/b" }], sc := fun _ _ => {} }

/-- (Appendix C 13) on the tick after `s/a` and `s/b` are removed the discard loop of the unrepaired
code erases inside the iteration and then advances the invalidated iterator -/
theorem erase_needs_repair :
    (cgTick Fixes.none cexCfg (cgTick Fixes.none cexCfg { now := 1000 } cexAll).w cexOnlyC).ub = true ∧
    (cgTick {} cexCfg (cgTick {} cexCfg { now := 1000 } cexAll).w cexOnlyC).ub = false := by decide

/-- (Appendix C 14) in the unrepaired code an instance is prerun on its creation tick only: on the
second tick no plugin of the instance of `s/a` is prerun, although both are run -/
theorem prerun_needs_repair :
    ((evsOf "s/a" (cgTick Fixes.none cexCfg (cgTick Fixes.none cexCfg { now := 1000 } cexAll).w cexAll).evs).filter isPre = []) ∧
    runDets "s/a" (cgTick Fixes.none cexCfg (cgTick Fixes.none cexCfg { now := 1000 } cexAll).w cexAll).evs = [0] ∧
    ((evsOf "s/a" (cgTick {} cexCfg (cgTick {} cexCfg { now := 1000 } cexAll).w cexAll).evs).filter isPre
      = [CEv.pre "s/a" 0 0, CEv.pre "s/a" 0 1]) := by decide

/-- a path that glob yields twice (brace alternatives) is evaluated twice per tick by the unrepaired code -/
theorem duplicate_needs_repair :
    runDets "s/a" (cgTick Fixes.none cexCfg { now := 1000 } cexDup).evs = [0, 0] ∧
    runDets "s/a" (cgTick {} cexCfg { now := 1000 } cexDup).evs = [0] := by decide

/-! non-vacuity: the hypotheses of the theorems above are satisfiable on a non-trivial history
(three instances created, two discarded on the same tick, one persisting, one re-created) -/
example :
    let w1 := (cgTick {} cexCfg { now := 1000 } cexAll).w
    let w2 := (cgTick {} cexCfg w1 cexOnlyC).w
    let w3 := (cgTick {} cexCfg w2 cexAll).w
    WF w1 ∧ present cexCfg.filter cexOnlyC.ms "s/a" = false ∧ present cexCfg.filter cexOnlyC.ms "s/c" = true ∧
    (find "s/a" w1.insts).map (·.gen) = some 0 ∧ (find "s/c" w1.insts).map (·.gen) = some 2 ∧
    find "s/a" w2.insts = none ∧ (find "s/c" w2.insts).map (·.gen) = some 2 ∧
    (find "s/a" w3.insts).map (·.gen) = some 3 ∧ (find "s/c" w3.insts).map (·.gen) = some 2 := by
  refine ⟨(tick_WF {} cexCfg _ (WF_init 1000 0 0) cexAll).1, ?_⟩
  decide

end C11

import OomdProofs.Rank
import OomdModel.Generated.Consts

/-!
# C09 — each kill plugin's first choice follows its documented ranking policy

Property theorems only; the model is `OomdModel.Rank` (the code with the repairs proposed in
`/verif/fixes/C09-*.patch` and the `min_growth_ratio` repair already in `/repo`; the unrepaired behaviour
is `Variant.legacy`), helper lemmas are in `OomdProofs.Rank`.

`Admissible lt entries out` says that `out` is an order `sortDescWithKillPrefs` (an unstable
`std::sort`) may return for `entries`: every theorem below quantifies over **all** such orders, all
sibling lists and all plugin parameters.  Theorems that do not depend on arithmetic are stated for
every number instance (so they also cover the `Float` instance the driver executes); those that
speak about thresholds, ratios and means are about the exact (`Rat`) instance.
-/

namespace C09
open OomdModel.Rank

abbrev RStat := Stat Rat Rat

/-! ## the sort: any plugin -/

/-- The first choice has the highest preference of all ranked cgroups, and among the equally
    preferred ones nothing has a greater key (any key type, any irreflexive `<`). -/
theorem first_choice_is_maximal {K : Type} (ltK : K → K → Bool) (hirr : ∀ k, ltK k k = false)
    (entries rest : List (Entry K)) (c : Entry K) (h : Admissible ltK entries (c :: rest)) :
    c ∈ entries ∧ ∀ x ∈ entries, x.pref ≤ c.pref ∧ (x.pref = c.pref → ltK c.key x.key = false) := by
  obtain ⟨hc, hmax⟩ := admissible_head ltK hirr h
  exact ⟨hc, fun x hx => (gtPK_false_iff ltK x c).1 (hmax x hx)⟩

/-- The driver's executable acceptor only accepts orders that are `Admissible`. -/
theorem acceptor_sound {K : Type} (ltK : K → K → Bool) (entries : List (Entry K))
    (hnd : (entries.map (·.id)).Nodup) (ids : List Nat) (h : admitsIds ltK entries ids = true) :
    ∃ out, out.map (·.id) = ids ∧ Admissible ltK entries out :=
  admitsIds_sound ltK hnd h

/-- preference values are the ones of `KillPreference` in `Types.h` (regenerated from the source) and
    "prefer" wins when both kinds of xattr are set -/
theorem preference_values :
    killPreference true false false false = OomdModel.Generated.killPrefPrefer ∧
    killPreference false true false false = OomdModel.Generated.killPrefPrefer ∧
    killPreference false false true false = OomdModel.Generated.killPrefAvoid ∧
    killPreference false false false true = OomdModel.Generated.killPrefAvoid ∧
    killPreference false false false false = OomdModel.Generated.killPrefNormal ∧
    (∀ ta ua, killPreference true false ta ua = OomdModel.Generated.killPrefPrefer) ∧
    OomdModel.Generated.killPrefAvoid < OomdModel.Generated.killPrefNormal ∧
    OomdModel.Generated.killPrefNormal < OomdModel.Generated.killPrefPrefer := by
  refine ⟨by decide, by decide, by decide, by decide, by decide, ?_, by decide, by decide⟩
  intro ta ua; cases ta <;> cases ua <;> decide

/-! ## `RankOK`: what C03 consumes.  Holds for every number instance. -/

set_option linter.unusedSectionVars false

section
variable {D F : Type} [Num D] [Num F] [Narrow D F]

/-- every ranking the model admits is a permutation of a sublist of the siblings, sorted
    non-increasingly by `(preference, key)` -/
def RankOK {K : Type} (ltK : K → K → Bool) (sibs : List (Stat D F)) (out : List (Entry K)) : Prop :=
  SubPerm (out.map (·.id)) (sibs.map (·.id)) ∧ SortedByPrefKey ltK out

theorem rankOK_growth (p : GrowthParams F) (sibs : List (Stat D F)) (out : List (Entry (Int × F × Int)))
    (h : Admissible ltGrowthKey (growthEntries p sibs) out) : RankOK ltGrowthKey sibs out := by
  exact ⟨admissible_subperm_map _ (·.id) _ (fun _ => rfl) sibs h, admissible_sortedByPrefKey _ h⟩

theorem rankOK_swap (v : Variant) (p : SwapParams) (sibs : List (Stat D F)) (out : List (Entry Int))
    (h : Admissible ltInt (swapEntries v p sibs) out) : RankOK ltInt sibs out :=
  ⟨admissible_subperm _ (·.id) _ _ (fun _ => rfl) sibs h, admissible_sortedByPrefKey _ h⟩

theorem rankOK_pressure (r : Resource) (sibs : List (Stat D F)) (out : List (Entry F))
    (h : Admissible (fun a b => Num.lt a b) (pressureEntries r sibs) out) : RankOK (fun a b => Num.lt a b) sibs out := by
  exact ⟨admissible_subperm_map _ (·.id) _ (fun _ => rfl) sibs h, admissible_sortedByPrefKey _ h⟩

theorem rankOK_iocost (sibs : List (Stat D F)) (out : List (Entry D))
    (h : Admissible (fun a b => Num.lt a b) (ioCostEntries sibs) out) : RankOK (fun a b => Num.lt a b) sibs out := by
  exact ⟨admissible_subperm_map _ (·.id) _ (fun _ => rfl) sibs h, admissible_sortedByPrefKey _ h⟩

theorem rankOK_pgscan (sibs : List (Stat D F)) (out : List (Entry Int))
    (h : Admissible ltInt (pgScanEntries sibs) out) : RankOK ltInt sibs out :=
  ⟨admissible_subperm _ (·.id) _ _ (fun _ => rfl) sibs h, admissible_sortedByPrefKey _ h⟩

/-! ## `kill_by_swap_usage` -/

/-- the ranking quantity: swap usage, or the swap excess when `biased_swap_kill` is set -/
def swapKey (v : Variant) (p : SwapParams) (s : Stat D F) : Int :=
  if p.biased then swapExcess (swapRatio F v p) s else s.swap

/-- Filter: a cgroup is ranked iff its swap usage is above the threshold - in particular a cgroup
    at or below the threshold is never chosen. -/
theorem swap_filter_exact (v : Variant) (p : SwapParams) (sibs : List (Stat D F)) (out : List (Entry Int))
    (h : Admissible ltInt (swapEntries v p sibs) out) (i : Nat) :
    i ∈ out.map (·.id) ↔ ∃ s ∈ sibs, s.id = i ∧ swapThreshold v p < s.swap := by
  simp only [List.mem_map, admissible_mem_iff _ h, swapEntries, List.mem_filter, decide_eq_true_eq]
  constructor
  · rintro ⟨e, ⟨s, ⟨hs, hgt⟩, rfl⟩, rfl⟩; exact ⟨s, hs, rfl, hgt⟩
  · rintro ⟨s, hs, rfl, hgt⟩; exact ⟨_, ⟨s, ⟨hs, hgt⟩, rfl⟩, rfl⟩

/-- First choice: it is above the threshold, no ranked cgroup is more preferred, and among the equally
    preferred cgroups above the threshold none has a larger swap usage (swap excess if biased). -/
theorem swap_first_choice (v : Variant) (p : SwapParams) (sibs : List (Stat D F)) (c : Entry Int) (rest : List (Entry Int))
    (h : Admissible ltInt (swapEntries v p sibs) (c :: rest)) :
    ∃ sc ∈ sibs, sc.id = c.id ∧ sc.pref = c.pref ∧ swapThreshold v p < sc.swap ∧
      ∀ s ∈ sibs, swapThreshold v p < s.swap →
        s.pref ≤ sc.pref ∧ (s.pref = sc.pref → swapKey v p s ≤ swapKey v p sc) := by
  obtain ⟨hc, hmax⟩ := first_choice_is_maximal ltInt (by simp [ltInt]) _ _ _ h
  simp only [swapEntries, List.mem_map, List.mem_filter, decide_eq_true_eq] at hc
  obtain ⟨sc, ⟨hsc, hgt⟩, rfl⟩ := hc
  refine ⟨sc, hsc, rfl, rfl, hgt, fun s hs hsgt => ?_⟩
  have := hmax { id := s.id, pref := s.pref, key := if p.biased then swapExcess (swapRatio F v p) s else s.swap }
    (by simp only [swapEntries, List.mem_map, List.mem_filter, decide_eq_true_eq]; exact ⟨s, ⟨hs, hsgt⟩, rfl⟩)
  simp only [ltInt, decide_eq_false_iff_not, Int.not_lt] at this
  exact this

end

/-- A percent threshold acts at exactly `pct` % of the full 64-bit `SwapTotal` (no narrowing):
    `swap > threshold  ⇔  swap / SwapTotal > pct / 100`, for every non-negative total. -/
theorem swap_threshold_percent_exact (biased : Bool) (st : Int) (mt : Option Int) (pct swap : Int)
    (hst : 0 ≤ st) (hpct : 0 ≤ pct) :
    swapThreshold Variant.fixed { threshold := .percent pct, biased := biased, swapTotal := some st, memTotal := mt } < swap
      ↔ st * pct < swap * 100 := by
  have hnn : 0 ≤ st * pct := Int.mul_nonneg hst hpct
  simp only [swapThreshold, swapTotalSeen, Variant.fixed, Option.getD_some, Bool.false_eq_true, if_false]
  rw [Int.tdiv_eq_ediv_of_nonneg hnn]
  omega

/-- The biased key is the swap usage minus the protected share `⌊ratio · protection⌋`, not below 0. -/
theorem swap_excess_exact (ratio : Rat) (s : RStat) (hr : 0 ≤ ratio) (hp : 0 ≤ s.prot) :
    swapExcess ratio s = Max.max 0 (s.swap - (ratio * (s.prot : Rat)).floor) := by
  have h0 : (0 : Rat) ≤ ratio * (s.prot : Rat) := Rat.mul_nonneg hr (by exact_mod_cast hp)
  simp only [swapExcess, Num.trunc, Num.mul, Num.ofInt, ratTrunc, h0, if_true]
  split <;> omega

/-- The unrepaired code (`auto swapTotal = 0;` is an `int`): with `SwapTotal` = 4 GiB and `threshold=50%`
    the threshold becomes 0 bytes, and a cgroup using 1 MiB of swap - far below 2 GiB - is ranked first. -/
theorem legacy_swap_total_truncated_counterexample :
    let p : SwapParams := { threshold := .percent 50, biased := false, swapTotal := some 4294967296, memTotal := some 8589934592 }
    let s : RStat := { id := 0, pref := 0, cur := 0, prot := 0, avg := 0, swap := 1048576, mp10 := 0, mp60 := 0,
                       ip10 := 0, ip60 := 0, ioRate := 0, pgRate := none }
    swapThreshold Variant.fixed p = 2147483648 ∧ swapEntries Variant.fixed p [s] = [] ∧
    swapThreshold Variant.legacy p = 0 ∧
    Admissible ltInt (swapEntries Variant.legacy p [s]) [{ id := 0, pref := 0, key := 1048576 }] := by
  refine ⟨by decide +kernel, by decide +kernel, by decide +kernel, ?_, by decide +kernel⟩
  have : swapEntries (D := Rat) (F := Rat) Variant.legacy
      { threshold := .percent 50, biased := false, swapTotal := some 4294967296, memTotal := some 8589934592 }
      [{ id := 0, pref := 0, cur := 0, prot := 0, avg := 0, swap := 1048576, mp10 := 0, mp60 := 0,
         ip10 := 0, ip60 := 0, ioRate := 0, pgRate := none }] = [{ id := 0, pref := 0, key := 1048576 }] := by decide +kernel
  rw [this]

/-! ## `kill_by_pg_scan` -/

section
variable {D F : Type} [Num D] [Num F] [Narrow D F]

/-- Filter: a cgroup is ranked iff it has a pgscan increase (two samples) and the increase is positive. -/
theorem pgscan_filter_exact (sibs : List (Stat D F)) (out : List (Entry Int))
    (h : Admissible ltInt (pgScanEntries sibs) out) (i : Nat) :
    i ∈ out.map (·.id) ↔ ∃ s ∈ sibs, s.id = i ∧ ∃ r, s.pgRate = some r ∧ 0 < r := by
  simp only [List.mem_map, admissible_mem_iff _ h, pgScanEntries, List.mem_filter, decide_eq_true_eq]
  constructor
  · rintro ⟨e, ⟨s, ⟨hs, hgt⟩, rfl⟩, rfl⟩
    refine ⟨s, hs, rfl, ?_⟩
    cases hr : s.pgRate with
    | none => simp [hr] at hgt
    | some r => exact ⟨r, rfl, by simpa [hr] using hgt⟩
  · rintro ⟨s, hs, rfl, r, hr, hpos⟩
    exact ⟨_, ⟨s, ⟨hs, by simpa [hr] using hpos⟩, rfl⟩, rfl⟩

/-- First choice: it has a positive increase and no equally preferred cgroup has a larger positive increase. -/
theorem pgscan_first_choice (sibs : List (Stat D F)) (c : Entry Int) (rest : List (Entry Int))
    (h : Admissible ltInt (pgScanEntries sibs) (c :: rest)) :
    ∃ sc ∈ sibs, sc.id = c.id ∧ sc.pref = c.pref ∧ ∃ rc, sc.pgRate = some rc ∧ 0 < rc ∧
      ∀ s ∈ sibs, ∀ r, s.pgRate = some r → 0 < r → s.pref ≤ sc.pref ∧ (s.pref = sc.pref → r ≤ rc) := by
  obtain ⟨hc, hmax⟩ := first_choice_is_maximal ltInt (by simp [ltInt]) _ _ _ h
  simp only [pgScanEntries, List.mem_map, List.mem_filter, decide_eq_true_eq] at hc
  obtain ⟨sc, ⟨hsc, hgt⟩, rfl⟩ := hc
  cases hrc : sc.pgRate with
  | none => simp [hrc] at hgt
  | some rc =>
    refine ⟨sc, hsc, rfl, rfl, rc, hrc, by simpa [hrc] using hgt, fun s hs r hr hpos => ?_⟩
    have := hmax { id := s.id, pref := s.pref, key := s.pgRate.getD 0 }
      (by simp only [pgScanEntries, List.mem_map, List.mem_filter, decide_eq_true_eq]
          exact ⟨s, ⟨hs, by simpa [hr] using hpos⟩, rfl⟩)
    simpa [ltInt, hr, hrc] using this

end

/-! ## `kill_by_pressure` (exact arithmetic) -/

/-- the documented quantity: mean of the 10 s and 60 s averages of the chosen resource -/
def meanPressure (r : Resource) (s : RStat) : Rat :=
  match r with
  | .io => (s.ip10 + s.ip60) / 2
  | .memory => (s.mp10 + s.mp60) / 2

/-- First choice: no ranked cgroup is more preferred and no equally preferred one has a higher mean of the
    10 s and 60 s pressure (fractions included: 10.9 beats 10.1). -/
theorem pressure_first_choice (r : Resource) (sibs : List RStat) (c : Entry Rat) (rest : List (Entry Rat))
    (h : Admissible (fun a b => Num.lt a b) (pressureEntries r sibs) (c :: rest)) :
    ∃ sc ∈ sibs, sc.id = c.id ∧ sc.pref = c.pref ∧
      ∀ s ∈ sibs, s.pref ≤ sc.pref ∧ (s.pref = sc.pref → meanPressure r s ≤ meanPressure r sc) := by
  obtain ⟨hc, hmax⟩ := first_choice_is_maximal (fun a b : Rat => Num.lt a b) (by simp [Num.lt, Rat.lt_irrefl]) _ _ _ h
  simp only [pressureEntries, List.mem_map] at hc
  obtain ⟨sc, hsc, rfl⟩ := hc
  refine ⟨sc, hsc, rfl, rfl, fun s hs => ?_⟩
  have := hmax { id := s.id, pref := s.pref, key := pressureMean r s }
    (by simp only [pressureEntries, List.mem_map]; exact ⟨s, hs, rfl⟩)
  refine ⟨this.1, fun he => ?_⟩
  have h2 := this.2 he
  simp only [Num.lt, decide_eq_false_iff_not, Rat.not_lt] at h2
  cases r <;> simp only [pressureMean, meanPressure, Num.add, Num.div, Num.ofInt] at h2 ⊢ <;> grind

/-- Everything is ranked: `kill_by_pressure` has no filter. -/
theorem pressure_ranks_all (r : Resource) (sibs : List RStat) (out : List (Entry Rat))
    (h : Admissible (fun a b => Num.lt a b) (pressureEntries r sibs) out) :
    (out.map (·.id)).Perm (sibs.map (·.id)) := by
  have := h.1.map (·.id)
  simpa [pressureEntries, List.map_map, Function.comp_def] using this

/-- The unrepaired code (`int average`): means 10.9 and 10.1 both truncate to 10, so the order that puts the
    10.1 cgroup first is admitted; the repaired code does not admit it. -/
theorem legacy_pressure_truncation_counterexample :
    let a : RStat := { id := 0, pref := 0, cur := 0, prot := 0, avg := 0, swap := 0, mp10 := 109 / 10, mp60 := 109 / 10,
                       ip10 := 0, ip60 := 0, ioRate := 0, pgRate := none }
    let b : RStat := { id := 1, pref := 0, cur := 0, prot := 0, avg := 0, swap := 0, mp10 := 101 / 10, mp60 := 101 / 10,
                       ip10 := 0, ip60 := 0, ioRate := 0, pgRate := none }
    admitsIds ltInt (pressureEntriesLegacy .memory [a, b]) [1, 0] = true ∧
    admitsIds (fun x y : Rat => Num.lt x y) (pressureEntries .memory [a, b]) [1, 0] = false ∧
    admitsIds (fun x y : Rat => Num.lt x y) (pressureEntries .memory [a, b]) [0, 1] = true := by
  refine ⟨by decide +kernel, by decide +kernel, by decide +kernel⟩

/-! ## `kill_by_io_cost` (exact arithmetic) -/

/-- First choice: no ranked cgroup is more preferred and no equally preferred one has a larger io-cost
    increase; everything is ranked. -/
theorem iocost_first_choice (sibs : List RStat) (c : Entry Rat) (rest : List (Entry Rat))
    (h : Admissible (fun a b => Num.lt a b) (ioCostEntries sibs) (c :: rest)) :
    ∃ sc ∈ sibs, sc.id = c.id ∧ sc.pref = c.pref ∧
      ∀ s ∈ sibs, s.pref ≤ sc.pref ∧ (s.pref = sc.pref → s.ioRate ≤ sc.ioRate) := by
  obtain ⟨hc, hmax⟩ := first_choice_is_maximal (fun a b : Rat => Num.lt a b) (by simp [Num.lt, Rat.lt_irrefl]) _ _ _ h
  simp only [ioCostEntries, List.mem_map] at hc
  obtain ⟨sc, hsc, rfl⟩ := hc
  refine ⟨sc, hsc, rfl, rfl, fun s hs => ?_⟩
  have := hmax { id := s.id, pref := s.pref, key := s.ioRate }
    (by simp only [ioCostEntries, List.mem_map]; exact ⟨s, hs, rfl⟩)
  refine ⟨this.1, fun he => ?_⟩
  simpa [Num.lt, Rat.not_lt] using this.2 he

/-! ## `kill_by_memory_size_or_growth` (exact arithmetic) -/

/-- the siblings' total usage -/
def totalUsage (sibs : List RStat) : Int := (sibs.map (·.cur)).foldl (· + ·) 0

/-- Size threshold: a cgroup is size-eligible iff it holds at least `size_threshold` % of the siblings' total,
    compared in whole bytes (`⌊total · t / 100⌋ ≤ usage`, i.e. `total · t < (usage + 1) · 100`), for every
    64-bit byte count. -/
theorem growth_size_threshold_exact (p : GrowthParams Rat) (sibs : List RStat) (s : RStat)
    (htot : 0 ≤ totalUsage sibs) (hthr : 0 ≤ p.sizeThreshold) :
    sizeEligible (growthCtx Rat p sibs) s = true ↔ totalUsage sibs * p.sizeThreshold < (s.cur + 1) * 100 := by
  have h0 : (0 : Rat) ≤ (totalUsage sibs : Rat) * ((p.sizeThreshold : Rat) / (100 : Int)) := by
    apply Rat.mul_nonneg (by exact_mod_cast htot)
    have : (0 : Rat) ≤ (p.sizeThreshold : Rat) := by exact_mod_cast hthr
    have h100 : ((100 : Int) : Rat) = 100 := rfl
    rw [h100]; grind
  simp only [sizeEligible, decide_eq_true_eq]
  show ratTrunc ((totalUsage sibs : Rat) * ((p.sizeThreshold : Rat) / ((100 : Int) : Rat))) ≤ s.cur ↔ _
  rw [ratTrunc_le_iff h0, ← Rat.intCast_lt_intCast (a := totalUsage sibs * p.sizeThreshold)]
  have h100 : ((100 : Int) : Rat) = 100 := rfl
  simp only [Rat.intCast_mul, Rat.intCast_add, h100]
  have h1 : ((1 : Int) : Rat) = 1 := rfl
  rw [h1]
  constructor <;> intro h <;> grind

/-- Growth: a cgroup with a positive moving average is growth-eligible iff `usage / average >= min_growth_ratio`
    at exactly the configured (possibly fractional) ratio, and it is among the top of the percentile cut. -/
theorem growth_ratio_exact (p : GrowthParams Rat) (sibs : List RStat) (s : RStat) (havg : 0 < s.avg) :
    growthEligible p (growthCtx Rat p sibs) s = true ↔
      p.minGrowthRatio * (s.avg : Rat) ≤ (s.cur : Rat) ∧ (growthCtx Rat p sibs).minEff ≤ s.eff := by
  have hne : s.avg ≠ 0 := by omega
  have hpos : (0 : Rat) < (s.avg : Rat) := by exact_mod_cast havg
  simp only [growthEligible, Bool.and_eq_true, rat_ge_iff, decide_eq_true_eq, growthRatio, memoryGrowth, hne, if_false,
    Narrow.narrow, id, Num.div, Num.ofInt]
  rw [← Rat.not_lt, Rat.div_lt_iff hpos, Rat.not_lt]

/-- With a zero moving average the code takes the growth to be 0. -/
theorem growth_zero_average (p : GrowthParams Rat) (sibs : List RStat) (s : RStat) (havg : s.avg = 0) :
    growthRatio s = (0 : Rat) ∧
    (growthEligible p (growthCtx Rat p sibs) s = true ↔ p.minGrowthRatio ≤ 0 ∧ (growthCtx Rat p sibs).minEff ≤ s.eff) := by
  have hz : growthRatio s = (0 : Rat) := by simp [growthRatio, memoryGrowth, havg, Narrow.narrow, Num.zero, Num.ofInt]
  refine ⟨hz, ?_⟩
  simp only [growthEligible, Bool.and_eq_true, rat_ge_iff, decide_eq_true_eq, hz]

/-- what the three theorems below share: the first choice `sc`, and for every sibling that it is not more
    preferred and, when equally preferred, not greater in the rank tuple -/
theorem growth_first_choice_tuple (p : GrowthParams Rat) (sibs : List RStat) (c : Entry (Int × Rat × Int))
    (rest : List (Entry (Int × Rat × Int))) (h : Admissible ltGrowthKey (growthEntries p sibs) (c :: rest)) :
    ∃ sc ∈ sibs, sc.id = c.id ∧ sc.pref = c.pref ∧ ∀ s ∈ sibs, s.pref ≤ sc.pref ∧
      (s.pref = sc.pref → ltGrowthKey (growthKey p (growthCtx Rat p sibs) sc) (growthKey p (growthCtx Rat p sibs) s) = false) := by
  obtain ⟨hc, hmax⟩ := first_choice_is_maximal ltGrowthKey ltGrowthKey_irrefl _ _ _ h
  simp only [growthEntries, List.mem_map] at hc
  obtain ⟨sc, hsc, rfl⟩ := hc
  refine ⟨sc, hsc, rfl, rfl, fun s hs => ?_⟩
  exact hmax { id := s.id, pref := s.pref, key := growthKey p (growthCtx Rat p sibs) s }
    (by simp only [growthEntries, List.mem_map]; exact ⟨s, hs, rfl⟩)

/-- Phase 1 - PARTIAL: proved only under the extra hypothesis that some equally preferred size-eligible
    cgroup has *positive* effective usage (usage − protection).  Then the first choice is size-eligible and
    has the largest effective usage among the equally preferred size-eligible cgroups.
    Missing: when every size-eligible cgroup is fully protected (effective usage 0) the code does not choose
    among them - see `growth_size_eligible_zero_effective_usage_counterexample`. -/
theorem growth_size_phase_partial (p : GrowthParams Rat) (sibs : List RStat) (c : Entry (Int × Rat × Int))
    (rest : List (Entry (Int × Rat × Int))) (h : Admissible ltGrowthKey (growthEntries p sibs) (c :: rest)) :
    ∃ sc ∈ sibs, sc.id = c.id ∧ sc.pref = c.pref ∧
      ((∃ x ∈ sibs, x.pref = sc.pref ∧ sizeEligible (growthCtx Rat p sibs) x = true ∧ 0 < x.eff) →
        sizeEligible (growthCtx Rat p sibs) sc = true ∧
        ∀ s ∈ sibs, s.pref = sc.pref → sizeEligible (growthCtx Rat p sibs) s = true → s.eff ≤ sc.eff) := by
  obtain ⟨sc, hsc, hid, hpref, hmax⟩ := growth_first_choice_tuple p sibs c rest h
  refine ⟨sc, hsc, hid, hpref, ?_⟩
  rintro ⟨x, hx, hxp, hxe, hxpos⟩
  have hX := (ltGrowthKey_false_iff _ _).1 ((hmax x hx).2 hxp)
  simp only [growthKey, hxe, if_true] at hX
  have hsce : sizeEligible (growthCtx Rat p sibs) sc = true := by
    cases hh : sizeEligible (growthCtx Rat p sibs) sc with
    | true => rfl
    | false => simp only [hh] at hX; simp at hX; omega
  refine ⟨hsce, fun s hs hsp hse => ?_⟩
  have hS := (ltGrowthKey_false_iff _ _).1 ((hmax s hs).2 hsp)
  simp only [growthKey, hse, hsce, if_true] at hS
  omega

/-- well-formed statistics: byte counts are non-negative and the protection does not exceed the usage
    (`protection_le_usage` shows the model's protection has this property) -/
def WF (sibs : List RStat) : Prop := ∀ s ∈ sibs, 0 ≤ s.cur ∧ 0 ≤ s.avg ∧ s.prot ≤ s.cur

/-- Phase 2: when no equally preferred size-eligible cgroup has positive effective usage (in particular when
    none is size-eligible) and some equally preferred cgroup is growth-eligible, the first choice is
    growth-eligible and has the largest usage / moving-average ratio among the equally preferred
    growth-eligible cgroups. -/
theorem growth_growth_phase (p : GrowthParams Rat) (sibs : List RStat) (hwf : WF sibs) (c : Entry (Int × Rat × Int))
    (rest : List (Entry (Int × Rat × Int))) (h : Admissible ltGrowthKey (growthEntries p sibs) (c :: rest)) :
    ∃ sc ∈ sibs, sc.id = c.id ∧ sc.pref = c.pref ∧
      ((∀ s ∈ sibs, s.pref = sc.pref → sizeEligible (growthCtx Rat p sibs) s = true → s.eff ≤ 0) →
       (∃ x ∈ sibs, x.pref = sc.pref ∧ growthEligible p (growthCtx Rat p sibs) x = true) →
        growthEligible p (growthCtx Rat p sibs) sc = true ∧
        ∀ s ∈ sibs, s.pref = sc.pref → growthEligible p (growthCtx Rat p sibs) s = true → growthRatio s ≤ (growthRatio sc : Rat)) := by
  obtain ⟨sc, hsc, hid, hpref, hmax⟩ := growth_first_choice_tuple p sibs c rest h
  refine ⟨sc, hsc, hid, hpref, fun hno ⟨x, hx, hxp, hxe⟩ => ?_⟩
  have k1 := key1_zero p sibs hwf sc.pref hno
  -- second components decide
  have second : ∀ s ∈ sibs, s.pref = sc.pref →
      (growthKey p (growthCtx Rat p sibs) s).2.1 < (growthKey p (growthCtx Rat p sibs) sc).2.1 ∨
      ((growthKey p (growthCtx Rat p sibs) s).2.1 = (growthKey p (growthCtx Rat p sibs) sc).2.1 ∧ s.eff ≤ sc.eff) := by
    intro s hs hsp
    have hS := (ltGrowthKey_false_iff _ _).1 ((hmax s hs).2 hsp)
    rw [k1 s hs hsp, k1 sc hsc rfl] at hS
    rcases hS with hS | ⟨_, hS⟩
    · omega
    · simpa [growthKey] using hS
  have hsce : growthEligible p (growthCtx Rat p sibs) sc = true := by
    cases hh : growthEligible p (growthCtx Rat p sibs) sc with
    | true => rfl
    | false =>
      exfalso
      have hx2 := second x hx hxp
      simp only [growthKey, hxe, hh, if_true, Bool.false_eq_true, if_false, Num.zero, Num.ofInt] at hx2
      have hxr := growthRatio_nonneg x (hwf x hx).1 (hwf x hx).2.1
      have h00 : ((0 : Int) : Rat) = 0 := rfl
      rw [h00] at hx2
      rcases hx2 with hlt | ⟨heq, heff⟩
      · exact absurd hxr (Rat.not_le.2 hlt)
      · -- x is eligible with ratio 0: so min_growth_ratio ≤ 0 and sc, at least as large, is eligible as well
        simp only [growthEligible, Bool.and_eq_true, rat_ge_iff, decide_eq_true_eq] at hxe
        have hscr := growthRatio_nonneg sc (hwf sc hsc).1 (hwf sc hsc).2.1
        have h1 : p.minGrowthRatio ≤ (growthRatio sc : Rat) := Rat.le_trans (by rw [← heq]; exact hxe.1) hscr
        have h2 : (growthCtx Rat p sibs).minEff ≤ sc.eff := by omega
        have h3 : growthEligible p (growthCtx Rat p sibs) sc = true := by
          simp only [growthEligible, Bool.and_eq_true, rat_ge_iff, decide_eq_true_eq]
          exact ⟨h1, h2⟩
        rw [hh] at h3
        cases h3
  refine ⟨hsce, fun s hs hsp hse => ?_⟩
  have hs2 := second s hs hsp
  simp only [growthKey, hse, hsce, if_true] at hs2
  rcases hs2 with hlt | ⟨heq, _⟩
  · exact Rat.le_of_lt hlt
  · rw [heq]; exact Rat.le_refl

/-- Phase 3: when no equally preferred size-eligible cgroup has positive effective usage and none is
    growth-eligible, the first choice has the largest effective usage (usage − protection). -/
theorem growth_fallback_phase (p : GrowthParams Rat) (sibs : List RStat) (hwf : WF sibs) (c : Entry (Int × Rat × Int))
    (rest : List (Entry (Int × Rat × Int))) (h : Admissible ltGrowthKey (growthEntries p sibs) (c :: rest)) :
    ∃ sc ∈ sibs, sc.id = c.id ∧ sc.pref = c.pref ∧
      ((∀ s ∈ sibs, s.pref = sc.pref → sizeEligible (growthCtx Rat p sibs) s = true → s.eff ≤ 0) →
       (∀ s ∈ sibs, s.pref = sc.pref → growthEligible p (growthCtx Rat p sibs) s = false) →
        ∀ s ∈ sibs, s.pref = sc.pref → s.eff ≤ sc.eff) := by
  obtain ⟨sc, hsc, hid, hpref, hmax⟩ := growth_first_choice_tuple p sibs c rest h
  refine ⟨sc, hsc, hid, hpref, fun hno hng s hs hsp => ?_⟩
  have k1 := key1_zero p sibs hwf sc.pref hno
  have hS := (ltGrowthKey_false_iff _ _).1 ((hmax s hs).2 hsp)
  rw [k1 s hs hsp, k1 sc hsc rfl] at hS
  simp only [growthKey, hng s hs hsp, hng sc hsc rfl, Bool.false_eq_true, if_false] at hS
  rcases hS with hS | ⟨_, hS | ⟨_, hS⟩⟩
  · omega
  · exact absurd hS Rat.lt_irrefl
  · exact hS

/-- Percentile cut: with `growing_size_percentile = P` in (0, 100) and `n` siblings, the cut is the effective usage of
    the `k`-th largest sibling, `k = ⌈n (100 − P) / 100⌉`: it is some sibling's effective usage, fewer than `k`
    siblings are strictly above it and at least `k` reach it - so exactly the top `k` by size (with ties) pass. -/
theorem growth_percentile_cut (p : GrowthParams Rat) (sibs : List RStat) (hn : 0 < sibs.length)
    (hP : 0 < p.percentile) (hP100 : p.percentile < 100) :
    let m := (growthCtx Rat p sibs).minEff
    let k := nthIndex sibs.length p.percentile + 1
    (∃ s ∈ sibs, s.eff = m) ∧
    (sibs.filter fun s => decide (m < s.eff)).length < k ∧
    k ≤ (sibs.filter fun s => decide (m ≤ s.eff)).length ∧
    (sibs.length : Int) * (100 - p.percentile) ≤ (k : Int) * 100 ∧
    ((k : Int) - 1) * 100 < (sibs.length : Int) * (100 - p.percentile) := by
  intro m k
  have hlen : (sibs.map Stat.eff).length = sibs.length := List.length_map _
  have hcut := growthMinEff_cut p.percentile (sibs.map Stat.eff) (by omega) hP hP100
  have hm : m = growthMinEff p.percentile (sibs.map Stat.eff) := rfl
  rw [← hm, hlen] at hcut
  obtain ⟨hmem, hgt, hge⟩ := hcut
  obtain ⟨hc1, hc2⟩ := nthIndex_ceil sibs.length p.percentile hn hP hP100
  refine ⟨?_, ?_, ?_, hc1, ?_⟩
  · obtain ⟨s, hs, he⟩ := List.mem_map.1 hmem; exact ⟨s, hs, he⟩
  · rw [List.filter_map, List.length_map] at hgt
    show _ < nthIndex sibs.length p.percentile + 1
    exact Nat.lt_succ_of_le hgt
  · rw [List.filter_map, List.length_map] at hge
    exact hge
  · show (((nthIndex sibs.length p.percentile + 1 : Nat) : Int) - 1) * 100 < _
    have : (((nthIndex sibs.length p.percentile + 1 : Nat) : Int) - 1) = ((nthIndex sibs.length p.percentile : Nat) : Int) := by omega
    rw [this]; exact hc2

/-- `growing_size_percentile = 0` switches the cut off (threshold 0; effective usage is never negative). -/
theorem growth_percentile_zero (p : GrowthParams Rat) (sibs : List RStat) (hP : p.percentile = 0) :
    (growthCtx Rat p sibs).minEff = 0 := by
  simp [growthCtx, growthMinEff, hP]

/-- Everything is ranked: `kill_by_memory_size_or_growth` removes nothing. -/
theorem growth_ranks_all (p : GrowthParams Rat) (sibs : List RStat) (out : List (Entry (Int × Rat × Int)))
    (h : Admissible ltGrowthKey (growthEntries p sibs) out) : (out.map (·.id)).Perm (sibs.map (·.id)) := by
  have := h.1.map (·.id)
  simpa [growthEntries, List.map_map, Function.comp_def] using this

/-- The documented phase 1 without the positivity hypothesis is FALSE for the code: A holds 60 % of the total
    (size-eligible at the default 50 %) but is fully protected, B holds 40 % and grows; the order `[B, A]` is the
    only one the model admits, although the text names A ("largest by usage − protection among those holding at
    least size_threshold %").  Replayed on the real plugin in `corpus/C09/known-growth-zero-eff.json`. -/
theorem growth_size_eligible_zero_effective_usage_counterexample :
    let a : RStat := { id := 0, pref := 0, cur := 600, prot := 600, avg := 600, swap := 0, mp10 := 0, mp60 := 0,
                       ip10 := 0, ip60 := 0, ioRate := 0, pgRate := none }
    let b : RStat := { id := 1, pref := 0, cur := 400, prot := 0, avg := 100, swap := 0, mp10 := 0, mp60 := 0,
                       ip10 := 0, ip60 := 0, ioRate := 0, pgRate := none }
    let p : GrowthParams Rat := { sizeThreshold := 50, percentile := 80, minGrowthRatio := 5 / 4 }
    sizeEligible (growthCtx Rat p [a, b]) a = true ∧ sizeEligible (growthCtx Rat p [a, b]) b = false ∧
    admitsIds ltGrowthKey (growthEntries p [a, b]) [1, 0] = true ∧
    admitsIds ltGrowthKey (growthEntries p [a, b]) [0, 1] = false := by
  refine ⟨by decide +kernel, by decide +kernel, by decide +kernel, by decide +kernel⟩

/-- The unrepaired code (`min_growth_ratio` through `parseUnsignedInt`): `1.5` is read as 1, so A (growing by
    1.25) is treated as a grower and chosen before the larger B; with the ratio read exactly, nobody reaches
    1.5 and the larger B is the only admissible first choice. -/
theorem legacy_min_growth_ratio_truncated_counterexample :
    let a : RStat := { id := 0, pref := 0, cur := 5, prot := 0, avg := 4, swap := 0, mp10 := 0, mp60 := 0,
                       ip10 := 0, ip60 := 0, ioRate := 0, pgRate := none }
    let b : RStat := { id := 1, pref := 0, cur := 6, prot := 0, avg := 6, swap := 0, mp10 := 0, mp60 := 0,
                       ip10 := 0, ip60 := 0, ioRate := 0, pgRate := none }
    let pl : GrowthParams Rat := { sizeThreshold := 90, percentile := 10, minGrowthRatio := parseMinGrowthRatio Variant.legacy 15 1 }
    let pf : GrowthParams Rat := { sizeThreshold := 90, percentile := 10, minGrowthRatio := parseMinGrowthRatio Variant.fixed 15 1 }
    (parseMinGrowthRatio Variant.legacy 15 1 : Rat) = 1 ∧ (parseMinGrowthRatio Variant.fixed 15 1 : Rat) = 3 / 2 ∧
    admitsIds ltGrowthKey (growthEntries pl [a, b]) [0, 1] = true ∧
    admitsIds ltGrowthKey (growthEntries pf [a, b]) [0, 1] = false ∧
    admitsIds ltGrowthKey (growthEntries pf [a, b]) [1, 0] = true := by
  refine ⟨by decide +kernel, by decide +kernel, by decide +kernel, by decide +kernel, by decide +kernel⟩

/-! ## protection never exceeds usage (so effective usage is non-negative) -/

theorem protection_le_usage (cur mn low parentProt protSum : Int) (hcur : 0 ≤ cur) (hmn : 0 ≤ mn)
    (hpp : 0 ≤ parentProt) (hsum : 0 ≤ protSum) :
    0 ≤ rawProtection cur mn low ∧ rawProtection cur mn low ≤ cur ∧
    normalizedProtection (D := Rat) (rawProtection cur mn low) parentProt protSum ≤ cur := by
  have hraw0 : 0 ≤ rawProtection cur mn low := by simp only [rawProtection]; omega
  have hrawc : rawProtection cur mn low ≤ cur := by simp only [rawProtection]; omega
  refine ⟨hraw0, hrawc, ?_⟩
  unfold normalizedProtection
  split
  · exact hcur
  · rename_i hne
    have hspos : (0 : Rat) < (protSum : Rat) := by exact_mod_cast (show 0 < protSum by omega)
    have hppr : (0 : Rat) ≤ (parentProt : Rat) := by exact_mod_cast hpp
    have hr : (0 : Rat) ≤ (rawProtection cur mn low : Rat) := by exact_mod_cast hraw0
    -- the scaling factor is between 0 and 1
    have hq : (0 : Rat) ≤ (1 : Rat) * (parentProt : Rat) / (protSum : Rat) := by
      rw [← Rat.not_lt, Rat.div_lt_iff hspos, Rat.not_lt]; grind
    have hm : ∀ q : Rat, 0 ≤ q → 0 ≤ Num.min (1 : Rat) q ∧ Num.min (1 : Rat) q ≤ 1 := by
      intro q hq
      simp only [Num.min, Num.lt]
      split
      · rename_i hlt; simp at hlt; exact ⟨hq, Rat.le_of_lt hlt⟩
      · exact ⟨by decide +kernel, Rat.le_refl⟩
    obtain ⟨hm0, hm1⟩ := hm _ hq
    simp only [Num.trunc, Num.mul, Num.div, Num.ofInt, Num.one]
    have h11 : ((1 : Int) : Rat) = 1 := rfl
    rw [h11]
    have hprod0 : (0 : Rat) ≤ (rawProtection cur mn low : Rat) * Num.min (1 : Rat) ((1 : Rat) * (parentProt : Rat) / (protSum : Rat)) :=
      Rat.mul_nonneg hr hm0
    have hprod1 : (rawProtection cur mn low : Rat) * Num.min (1 : Rat) ((1 : Rat) * (parentProt : Rat) / (protSum : Rat))
        ≤ (rawProtection cur mn low : Rat) := by
      have := Rat.mul_le_mul_of_nonneg_left hm1 hr
      simpa [Rat.mul_one] using this
    rw [ratTrunc_of_nonneg hprod0]
    have : (((rawProtection cur mn low : Rat) * Num.min (1 : Rat) ((1 : Rat) * (parentProt : Rat) / (protSum : Rat))).floor : Rat)
        ≤ (rawProtection cur mn low : Rat) := Rat.le_trans (Rat.floor_le _) hprod1
    have : ((rawProtection cur mn low : Rat) * Num.min (1 : Rat) ((1 : Rat) * (parentProt : Rat) / (protSum : Rat))).floor
        ≤ rawProtection cur mn low := by exact_mod_cast this
    omega

/-! ## non-vacuity -/

/-- a concrete non-trivial instance of the hypotheses used above: three well-formed siblings, an admissible
    order of the growth plugin with a size-eligible first choice of positive effective usage -/
example :
    let a : RStat := { id := 0, pref := 0, cur := 700, prot := 100, avg := 650, swap := 0, mp10 := 0, mp60 := 0,
                       ip10 := 0, ip60 := 0, ioRate := 0, pgRate := none }
    let b : RStat := { id := 1, pref := 0, cur := 200, prot := 0, avg := 100, swap := 0, mp10 := 0, mp60 := 0,
                       ip10 := 0, ip60 := 0, ioRate := 0, pgRate := none }
    let c : RStat := { id := 2, pref := 1, cur := 100, prot := 0, avg := 100, swap := 0, mp10 := 0, mp60 := 0,
                       ip10 := 0, ip60 := 0, ioRate := 0, pgRate := none }
    let p : GrowthParams Rat := { sizeThreshold := 50, percentile := 80, minGrowthRatio := 5 / 4 }
    WF [a, b, c] ∧ admitsIds ltGrowthKey (growthEntries p [a, b, c]) [2, 0, 1] = true ∧
      sizeEligible (growthCtx Rat p [a, b, c]) a = true ∧ 0 < a.eff := by
  refine ⟨?_, by decide +kernel, by decide +kernel, by decide +kernel⟩
  intro s hs
  simp only [List.mem_cons, List.not_mem_nil, or_false] at hs
  rcases hs with rfl | rfl | rfl <;> decide

end C09

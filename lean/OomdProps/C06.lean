import OomdProofs.EngineC06
import OomdProofs.EngineRun
import OomdProps.C02
import OomdProofs.DropInState

/-!
# C06 — Async continuation

Statements about `OomdModel.Engine.rsRun` (one `Ruleset::runOnceImpl`) for every configuration,
script of plugin behaviour (so: every detector history during the pause), clock reading and uuid
counter.  `Good st now` is the state invariant established by `good_invariant`.
-/

namespace C06
open OomdModel.Engine

/-- **Resumption.**  If a chain is suspended at action index `i` with context `c` and the ruleset
is not paused, this tick runs - whatever the detectors return - exactly the actions from index `i`
on (not from the start; no second chain), up to the first that does not return CONTINUE, and every
one of them sees exactly the context `c` the chain was fired with (ruleset, detector group, run
uuid, prekill deadline), starting with the suspended action itself. -/
theorem resumes_same_action_same_ctx (inv : Bool) (cfg : RsCfg) (sc : Script) (st : RsState) (now ctr : Nat)
    (i : Nat) (c : Ctx) (hact : st.active = some (i, c)) (hi : i < cfg.actions.length)
    (hnp : ¬ ((detPhase cfg sc cfg.groups now ctr none).2.2.1 < st.pauseUntil)) :
    actInsts (rsRun inv cfg sc st now ctr).2.1 = takeThrough sc (cfg.actions.drop i) ∧
    (takeThrough sc (cfg.actions.drop i)).head? = cfg.actions[i]? ∧
    ∀ e ∈ (rsRun inv cfg sc st now ctr).2.1, isAct e = true → ∃ a t b, e = Ev.act a t c b := by
  have hd := detPhase_dets cfg sc cfg.groups now ctr none
  have hdet := detPhase_all_det cfg sc cfg.groups now ctr none
  unfold rsRun
  simp only [hact, hnp, if_false, hi, if_true]
  refine ⟨by simp [hd.2, (chain_acts ..).1], ?_, ?_⟩
  · cases hq : cfg.actions.drop i with
    | nil =>
      have := List.drop_eq_nil_iff.1 hq
      omega
    | cons a as =>
      have : cfg.actions[i]? = some a := by
        rw [← List.head?_drop, hq]; rfl
      rw [this]
      simp only [takeThrough]
      split <;> rfl
  · intro e he hisact
    simp only [List.mem_append] at he
    rcases he with he | he
    · have := hdet e he
      cases e <;> simp [isDet, isAct] at this hisact
    · obtain ⟨a, t, rfl, _⟩ := chain_events _ _ _ _ _ _ _ _ e he
      exact ⟨a, t, _, rfl⟩

/-- **Suspension.**  After a chain ran from a clean state, the ruleset is suspended iff the last
action run returned ASYNC_PAUSED, and then exactly at that action's index with the chain's context. -/
theorem suspends_at_async (cfg : RsCfg) (sc : Script) (inv : Bool) (ctx : Ctx) (as : List Nat) (i now : Nat) (st : RsState)
    (hp : Protocol sc) (hn : st.active = none) :
    (chain cfg sc inv ctx as i now st).1.active = (asyncIdx sc as i).map (fun j => (j, ctx)) :=
  chain_active cfg sc inv ctx as i now st hp hn

theorem suspended_action_is_last (sc : Script) (as : List Nat) (i j : Nat) (h : asyncIdx sc as i = some j) :
    ∃ k a, j = i + k ∧ as[k]? = some a ∧ (sc a).ret = .async ∧ takeThrough sc as = as.take (k + 1) :=
  asyncIdx_spec sc as i j h

/-- **Clean end.**  If the last action run did not return ASYNC_PAUSED (it returned STOP, or the
chain ran to its end on CONTINUE) the ruleset is clean ... -/
theorem clean_after_end (cfg : RsCfg) (sc : Script) (inv : Bool) (ctx : Ctx) (as : List Nat) (i now : Nat) (st : RsState)
    (hp : Protocol sc) (hn : st.active = none)
    (hlast : ∀ a, (takeThrough sc as).getLast? = some a → (sc a).ret ≠ .async) :
    (chain cfg sc inv ctx as i now st).1.active = none := by
  rw [chain_active cfg sc inv ctx as i now st hp hn]
  cases h : asyncIdx sc as i with
  | none => rfl
  | some j =>
    obtain ⟨k, a, _, hk, hr, ht⟩ := asyncIdx_spec sc as i j h
    have : (takeThrough sc as).getLast? = some a := by
      rw [ht, List.getLast?_take]
      simp [hk]
    exact absurd hr (hlast a this)

/-- ... so the next firing starts at the first action (this is `C02.chain_starts_iff`) with a fresh
uuid: the context created by a firing carries the current value of the uuid counter, which is
then incremented; without a firing the counter is unchanged.  (In the C++ the uuids are 128-bit
random strings; the harness checks that a fresh chain never re-uses one.) -/
theorem fresh_uuid (cfg : RsCfg) (sc : Script) (now ctr : Nat) :
    match (detPhase cfg sc cfg.groups now ctr none).1 with
    | some c => c.uuid = ctr ∧ (detPhase cfg sc cfg.groups now ctr none).2.2.2 = ctr + 1
    | none => (detPhase cfg sc cfg.groups now ctr none).2.2.2 = ctr := by
  have := detPhase_first cfg sc cfg.groups now ctr
  split <;> rename_i h <;> simp only [h] at this
  · exact ⟨this.2.2.1, this.2.2.2⟩
  · exact this.2

/-- **Invariant.**  `Good st now` (no pending override flag; a suspended chain implies the ruleset
is not inside a pause at reading `now`) holds initially and is preserved by every tick of the
repaired engine under the plugin protocol - hence, clock readings being non-decreasing, a suspended
chain is never blocked by the pause test: it resumes on the very next tick. -/
theorem good_initial (now : Nat) : Good {} now := ⟨rfl, by simp⟩

theorem good_invariant (cfg : RsCfg) (sc : Script) (st : RsState) (now ctr : Nat)
    (hp : Protocol sc) (hg : Good st now) :
    Good (rsRun true cfg sc st now ctr).1 (rsRun true cfg sc st now ctr).2.2.1 :=
  rsRun_good cfg sc st now ctr hp hg

theorem resumes_next_tick (cfg : RsCfg) (sc : Script) (st : RsState) (now now' ctr : Nat) (i : Nat) (c : Ctx)
    (hg : Good st now) (hle : now ≤ now') (hact : st.active = some (i, c)) (hi : i < cfg.actions.length) :
    actInsts (rsRun true cfg sc st now' ctr).2.1 = takeThrough sc (cfg.actions.drop i) ∧
    takeThrough sc (cfg.actions.drop i) ≠ [] := by
  have h1 := hg.2 (by simp [hact])
  have h2 := detPhase_clock cfg sc cfg.groups now' ctr none
  have hnp : ¬ ((detPhase cfg sc cfg.groups now' ctr none).2.2.1 < st.pauseUntil) := by omega
  refine ⟨(resumes_same_action_same_ctx true cfg sc st now' ctr i c hact hi hnp).1, ?_⟩
  cases hq : cfg.actions.drop i with
  | nil => have := List.drop_eq_nil_iff.1 hq; omega
  | cons a as => simp only [takeThrough]; split <;> simp

/-- the world after a history of ticks of the whole engine -/
def runWorld (inv : Bool) : World → List TickIn → World
  | w, [] => w
  | w, ti :: rest => runWorld inv (tick inv w ti).1 rest

theorem good_mono {st : RsState} {a b : Nat} (h : Good st a) (hab : a ≤ b) : Good st b :=
  ⟨h.1, fun hs => Nat.le_trans (h.2 hs) hab⟩

/-- **The invariant holds for every ruleset of every run of the whole engine**: whatever the other
rulesets and the tick spacing are, the ruleset at position `j` is `Good` at the world's clock after
any number of ticks. -/
theorem engine_good_invariant (j : Nat) :
    ∀ (ticks : List TickIn) (w : World) (cfg : RsCfg) (st : RsState),
      w.rs[j]? = some (cfg, st) → Good st w.now → (∀ ti ∈ ticks, Protocol ti.sc) →
      ∃ st', (runWorld true w ticks).rs[j]? = some (cfg, st') ∧ Good st' (runWorld true w ticks).now := by
  intro ticks
  induction ticks with
  | nil => intro w cfg st h hg _; exact ⟨st, h, hg⟩
  | cons ti rest ih =>
    intro w cfg st h hg hp
    obtain ⟨h1, h2, h3⟩ := tick_at true w ti j cfg st h
    simp only [runWorld]
    refine ih _ cfg _ h1 ?_ (fun t ht => hp t (by simp [ht]))
    have := rsRun_good cfg ti.sc st (entryOf true ti.sc w.rs j (w.now + ti.gap) w.ctr).1
      (entryOf true ti.sc w.rs j (w.now + ti.gap) w.ctr).2 (hp ti (by simp)) (good_mono hg h3)
    exact good_mono this h2

/-- While a chain is suspended the detectors keep running each tick (`C02.all_detectors_run` holds in
every state) and other rulesets proceed (`C02.independence`). -/
theorem detectors_run_while_suspended (inv : Bool) (cfg : RsCfg) (sc : Script) (st : RsState) (now ctr : Nat) :
    detInsts (rsRun inv cfg sc st now ctr).2.1 = cfg.groups.flatMap (·.dets) :=
  C02.all_detectors_run inv cfg sc st now ctr

/-! non-vacuity: a chain suspended at its second action resumes there with its context although
no group fires -/
example :
    let cfg : RsCfg := { rid := 0, groups := [{ gid := 0, dets := [0] }], actions := [1, 2, 3], delay := 15, hookTimeout := 5 }
    let c : Ctx := { ruleset := 0, group := 0, uuid := 7, deadline := 99 }
    let sc : Script := fun i => if i = 0 then { ret := .stop } else {}
    (rsRun true cfg sc { active := some (1, c) } 1000 8).2.1 =
      [Ev.det 0 1000, Ev.act 2 1000 c true, Ev.act 3 1000 c true] := by decide

/-! ### suspended chains and drop-ins

With drop-ins (`OomdModel.DropIn`, C13's model of `Engine` + `DropInServiceAdaptor`) a base ruleset can be disabled for any
number of ticks while one of its chains is suspended.  The suspended chain is part of the ruleset's run state; the theorems
below show that this state is changed by nothing but the ruleset's own `runOnceImpl` - so when the drop-in goes away the
resumption theorems above apply to exactly the chain that was suspended.  The real engine is held to this by the
`dropinsusp` pass of this check (h_dropin, clause `C06.suspended_chain_resumes`), including ruleset-cgroup bases, whose
per-cgroup instance holds the chain. -/

open OomdModel.DropIn in
/-- **Drop-in operations never touch a base ruleset's run state**: adding, re-adding or removing any tag - accepted or refused -
leaves every base ruleset's configuration, pause deadline, override flag and suspended chain as they were. -/
theorem dropin_ops_keep_base_state (env : Env) (w : OomdModel.DropIn.World) (op : Op) (hop : ∀ ti, op ≠ .tick ti) :
    baseStates (step env w op).1.eng = baseStates w.eng := by
  cases op with
  | add tag d =>
    simp only [step]
    cases compileDropIn env.reg env.root d with
    | none => rfl
    | some u => exact updateDropIn_states tag (some u) w.eng
  | remove tag => exact updateDropIn_states tag none w.eng
  | tick ti => exact absurd rfl (hop ti)

open OomdModel.DropIn in
/-- **A tick changes a base ruleset's run state only by that ruleset's own `runOnceImpl`.**  The base ruleset at position `k`
keeps its state on a tick on which it is disabled (it does not run at all - `C13.enabled_iff` says when that is); on a tick
on which it is enabled its state moves by `rsRun` from its own previous state, which is what `resumes_same_action_same_ctx`
and `resumes_next_tick` speak about.  No other ruleset and no drop-in copy writes to it. -/
theorem base_state_only_changes_by_its_own_run (env : Env) (w : OomdModel.DropIn.World) (ti : TickIn) (k : Nat) (b : BaseRs)
    (hk : w.eng.rulesets[k]? = some b) :
    ∃ b', (step env w (.tick ti)).1.eng.rulesets[k]? = some b' ∧ b'.rs.cfg = b.rs.cfg ∧
      ((b.rs.enabled = false ∧ b'.rs.st = b.rs.st) ∨
       (b.rs.enabled = true ∧ ∃ now' ctr', b'.rs.st = (rsRun env.inv b.rs.cfg ti.sc b.rs.st now' ctr').1)) := by
  simp only [step]
  exact runBases_state env.inv ti.sc w.eng.rulesets (w.now + ti.gap) w.ctr k b hk

/-- non-vacuity: a disabled base with a suspended chain keeps it over a tick -/
example :
    let cfg : RsCfg := { rid := 0, groups := [{ gid := 0, dets := [0] }], actions := [1, 2], delay := 15, hookTimeout := 5 }
    let c : Ctx := { ruleset := 0, group := 0, uuid := 7, deadline := 99 }
    let b : OomdModel.DropIn.BaseRs :=
      { rs := { cfg := cfg, perm := { disable := true, dg := true, act := true }, st := { active := some (1, c) },
                enabled := false, numTargeted := 1 }, dropins := [] }
    ((OomdModel.DropIn.runBases true (fun _ => {}) [b] 1000 0).1.map (·.rs.st.active)) = [some (1, c)] := by decide

end C06

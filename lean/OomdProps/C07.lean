import OomdProofs.Hook
import OomdProps.C13
import OomdProps.C16
import OomdProofs.EngineDeadline

/-!
# C07 — Prekill hooks: one hook per victim, finished or timed out before the kill

Model: `OomdModel.Hook` (on top of the shared kill model `OomdModel.Kill`), tied to `BaseKillPlugin.cpp`, `PrekillHook.h`,
`Engine::firePrekillHook` by the `h_hook` correspondence run.

A *history* (`runHistory cfg none none ticks env`) is any sequence of `run()` calls of one kill-plugin instance:
`cfg` = kill arguments + hook priority list + patterns per hook, each `TickIn` = the tick's whole tree, the resolved `cgroup`
argument, the plugin's ranking function on that tick and the deadline a chain fired on that tick would get, `env` = every answer of
the environment (kill(2)/xattr/… results of the kill model, the steady-clock reading of every `pastPrekillHookTimeout` call,
the answer of every `didFinish` call).  Nothing bounds the number of ticks, hooks, patterns, candidates, the length of a wait,
or what happens to the tree between ticks (removal / re-creation = the tree of the next tick).

Vocabulary of the trace (`HEv`): `now t past` (a reading and the verdict of `pastPrekillHookTimeout`), `fire hook cg path inv`,
`poll inv finished`, `destroy inv`, `attempt cg path evs ok` (one `tryToLogAndKillCgroup`; **every** signal and `cgroup.kill` write
of the model is inside the `evs` of an attempt block - C01 says which), `ret r`.  `quiet e` = `e` is neither a fire, nor an attempt,
nor a final (non-ASYNC) return.
-/

namespace C07
open OomdModel OomdModel.Kill OomdModel.Hook

/-- the trace of a whole history of a fresh plugin instance -/
def trace (cfg : HCfg) (ticks : List TickIn) (env : HEnv) : List HEv :=
  flat (runHistory cfg none none ticks env)

/-! ## C07_priority -/

/-- **Which list `Engine::firePrekillHook` walks** (C13): after any history of drop-in additions and removals, the hook fired for
a victim is `selectHook` over: the hooks of the active drop-ins, newest drop-in first, then the base hooks in configuration order. -/
theorem priority_engine_order (env : OomdModel.DropIn.Env) (B : List OomdModel.DropIn.Rs) (H : List Nat) (now : Nat)
    (hB : ∀ b ∈ B, OomdModel.DropIn.Pristine b) (ops : List OomdModel.DropIn.Op)
    (pats : Nat → List Path.CgPath) (victim : Path.CgPath) :
    OomdModel.DropIn.firePrekillHook (C13.after env B H now ops) (canRunOn pats victim) =
      selectHook (((OomdModel.DropIn.specRun env B [] ops).flatMap fun p => p.2.hooks) ++ H) pats victim :=
  C13.hook_priority env B H now hB ops (canRunOn pats victim)

/-- `selectHook` picks the **first** hook of the priority list that can run on the victim. -/
theorem select_first_match (prio : List Nat) (pats : Nat → List Path.CgPath) (victim : Path.CgPath) (h : Nat) :
    selectHook prio pats victim = some h ↔
      ∃ i, prio[i]? = some h ∧ canRunOn pats victim h = true ∧
        ∀ (j g : Nat), j < i → prio[j]? = some g → canRunOn pats victim g = false := by
  unfold selectHook
  induction prio with
  | nil => simp
  | cons x xs ih =>
    simp only [List.find?_cons]
    cases hx : canRunOn pats victim x with
    | true =>
      simp only [Option.some.injEq]
      constructor
      · rintro rfl
        exact ⟨0, rfl, hx, fun j g hj => absurd hj (Nat.not_lt_zero j)⟩
      · rintro ⟨i, hi, _, hmin⟩
        cases i with
        | zero => simpa using hi
        | succ i =>
          have := hmin 0 x (Nat.succ_pos i) rfl
          rw [hx] at this; cases this
    | false =>
      rw [ih]
      constructor
      · rintro ⟨i, hi, hc, hmin⟩
        refine ⟨i + 1, by simpa using hi, hc, ?_⟩
        intro j g hj hg
        cases j with
        | zero => simp only [List.getElem?_cons_zero, Option.some.injEq] at hg; subst hg; exact hx
        | succ j => exact hmin j g (Nat.lt_of_succ_lt_succ hj) (by simpa using hg)
      · rintro ⟨i, hi, hc, hmin⟩
        cases i with
        | zero =>
          simp only [List.getElem?_cons_zero, Option.some.injEq] at hi
          subst hi; rw [hx] at hc; cases hc
        | succ i =>
          refine ⟨i, by simpa using hi, hc, ?_⟩
          intro j g hj hg
          exact hmin (j + 1) g (Nat.succ_lt_succ hj) (by simpa using hg)

/-- `canRunOnCgroup`: some pattern of the hook matches the victim in one of the three documented ways (C16): the whole path,
or the victim is an ancestor of a path the pattern matches, or a descendant of one. -/
theorem canRun_three_cases (pats : Nat → List Path.CgPath) (victim : Path.CgPath) (h : Nat) :
    canRunOn pats victim h = true ↔
      ∃ p ∈ pats h,
        C16.fullMatch victim.parts p.parts = true
        ∨ (∃ ext, ext ≠ [] ∧ C16.fullMatch (victim.parts ++ ext) p.parts = true)
        ∨ (∃ pre suf, suf ≠ [] ∧ victim.parts = pre ++ suf ∧ C16.fullMatch pre p.parts = true) := by
  simp only [canRunOn, List.any_eq_true, Path.prefixMatch, C16.pattern_three_cases]

/-! ## every history is accepted by the trace automaton (`OomdProofs.Hook.step`) -/

/-- Soundness of the automaton that states C07's clauses, for every configuration, ranking function, history and environment. -/
theorem sound (cfg : HCfg) (ticks : List TickIn) (env : HEnv) :
    ∃ m, mrun cfg.prio cfg.pats Mon.init (trace cfg ticks env) = some m :=
  runHistory_accepted cfg ticks none none env Mon.init invSt_init

/-- **C07_priority.**  Every hook fired, in any history, is the one `selectHook` names for the victim's path: the first in
priority order whose patterns match. -/
theorem priority (cfg : HCfg) (ticks : List TickIn) (env : HEnv)
    (pre post : List HEv) (h cg : Nat) (path : String) (inv : Nat)
    (htr : trace cfg ticks env = pre ++ .fire h cg path inv :: post) :
    selectHook cfg.prio cfg.pats (vp path) = some h := by
  obtain ⟨m, hm⟩ := sound cfg ticks env
  rw [htr] at hm
  exact (accepted_fire hm rfl).2.1

/-! ## C07_at_most_one_outstanding -/

/-- **C07_at_most_one_outstanding.**  In every prefix of every history the number of invocations created exceeds the number
destroyed by at most one (and is never smaller): a kill action never has two invocations outstanding. -/
theorem at_most_one_outstanding (cfg : HCfg) (ticks : List TickIn) (env : HEnv)
    (pre suf : List HEv) (htr : trace cfg ticks env = pre ++ suf) :
    nDestroy pre ≤ nFire pre ∧ nFire pre ≤ nDestroy pre + 1 := by
  obtain ⟨m, hm⟩ := sound cfg ticks env
  rw [htr] at hm
  exact accepted_outstanding hm

/-- A hook is fired only when nothing is outstanding: all earlier invocations have been destroyed. -/
theorem fire_finds_none_outstanding (cfg : HCfg) (ticks : List TickIn) (env : HEnv)
    (pre post : List HEv) (h cg : Nat) (path : String) (inv : Nat)
    (htr : trace cfg ticks env = pre ++ .fire h cg path inv :: post) :
    nFire pre = nDestroy pre := by
  obtain ⟨m, hm⟩ := sound cfg ticks env
  rw [htr] at hm
  obtain ⟨_, _, mp, hpre, hl⟩ := accepted_fire hm rfl
  have := mrun_count pre Mon.init mp hpre
  simp only [liveCount, hl] at this
  simpa [Mon.init] using this

/-- Polls and destroys always concern the invocation fired last: between its fire and the poll / destroy there is no other
fire, no attempt and no final return. -/
theorem poll_and_destroy_name_the_fired_invocation (cfg : HCfg) (ticks : List TickIn) (env : HEnv)
    (pre post : List HEv) (inv : Nat) (e : HEv) (he : (∃ fin, e = .poll inv fin) ∨ e = .destroy inv)
    (htr : trace cfg ticks env = pre ++ e :: post) :
    ∃ pre1 h cg path mid, pre = pre1 ++ [.fire h cg path inv] ++ mid ∧ ∀ x ∈ mid, quiet x = true := by
  obtain ⟨m, hm⟩ := sound cfg ticks env
  rw [htr] at hm
  rcases he with ⟨fin, rfl⟩ | rfl
  · obtain ⟨cg, pre1, h, path, mid, hpre, hq, _⟩ := accepted_poll hm
    exact ⟨pre1, h, cg, path, mid, hpre, hq⟩
  · obtain ⟨cg, pre1, h, path, mid, hpre, hq, _⟩ := accepted_destroy hm
    exact ⟨pre1, h, cg, path, mid, hpre, hq⟩

/-- `run()` returns ASYNC_PAUSED exactly when it leaves an invocation outstanding (`prekillHookState_` set). -/
theorem async_iff_outstanding (cfg : HCfg) (ticks : List TickIn) (env : HEnv) :
    ∀ out ∈ runHistory cfg none none ticks env, out.ret = .async ↔ out.st.isSome = true := by
  refine runHistory_forall cfg (fun out => out.ret = .async ↔ out.st.isSome = true) ?_ ticks none none env Mon.init invSt_init
  intro rank dl top roots st env m hm
  exact (runTick_accepted cfg rank dl top roots st env m hm).choose_spec.2.2

/-! ## C07_fire_only_inside_window -/

/-- **C07_fire_only_inside_window.**  In every `run()` of every history a hook is fired only directly after a clock reading
that is not past the deadline of the ActionContext that `run()` was given ... -/
theorem fire_only_inside_window (cfg : HCfg) (ticks : List TickIn) (env : HEnv) :
    ∀ out ∈ runHistory cfg none none ticks env, ∀ (pre post : List HEv) (h cg : Nat) (path : String) (inv : Nat),
      out.evs = pre ++ .fire h cg path inv :: post →
      ∃ pre1 t, pre = pre1 ++ [.now t false] ∧ ∀ d, out.dl = some d → t ≤ d := by
  refine runHistory_forall cfg (fun out => ∀ (pre post : List HEv) (h cg : Nat) (path : String) (inv : Nat),
      out.evs = pre ++ .fire h cg path inv :: post →
      ∃ pre1 t, pre = pre1 ++ [.now t false] ∧ ∀ d, out.dl = some d → t ≤ d) ?_ ticks none none env Mon.init invSt_init
  intro rank dl top roots st env m hm pre post h cg path inv hev
  simp only at hev
  obtain ⟨m', hacc, _, _⟩ := runTick_accepted cfg rank dl top roots st env m hm
  rw [hev] at hacc
  have hln : m.lastNow = none := by
    cases st with
    | none => exact hm.2
    | some p => exact hm.2
  obtain ⟨⟨pre1, t, rfl⟩, _, _⟩ := accepted_fire hacc hln
  refine ⟨pre1, t, rfl, ?_⟩
  have hnow := runTick_nowOK cfg rank dl top roots st env (.now t false) (by rw [hev]; simp) t false rfl
  intro d hd
  simp only at hd
  subst hd
  simp only [past] at hnow
  have := of_decide_eq_false hnow.symm
  omega

/-- ... and that deadline is fixed when the action chain fires: a `run()` that follows an ASYNC_PAUSED one sees the same
deadline (the ruleset resumes the chain with the saved ActionContext, C06), any other sees the deadline of a chain fired on
its own tick (reading at fire + `prekill_hook_timeout`, `Ruleset::runOnceImpl`). -/
theorem deadline_fixed_at_chain_fire (cfg : HCfg) (ticks : List TickIn) (env : HEnv)
    (i : Nat) (o1 o2 : TickOut) (ti : TickIn)
    (h1 : (runHistory cfg none none ticks env)[i]? = some o1)
    (h2 : (runHistory cfg none none ticks env)[i + 1]? = some o2) (hti : ticks[i + 1]? = some ti) :
    o2.dl = if o1.ret = .async then o1.dl else ti.freshDl :=
  runHistory_dl_next cfg ticks none none env i o1 o2 ti h1 h2 hti

theorem first_deadline (cfg : HCfg) (ti : TickIn) (rest : List TickIn) (env : HEnv) (o : TickOut)
    (h : (runHistory cfg none none (ti :: rest) env)[0]? = some o) : o.dl = ti.freshDl :=
  runHistory_dl_first cfg ti rest none env o h

/-- every reading's verdict in a `run()` is the comparison `t > deadline` with that `run()`'s deadline (no deadline: never past) -/
theorem readings_judged_by_the_deadline (cfg : HCfg) (ticks : List TickIn) (env : HEnv) :
    ∀ out ∈ runHistory cfg none none ticks env, ∀ t b, HEv.now t b ∈ out.evs → b = past out.dl t := by
  refine runHistory_forall cfg (fun out => ∀ t b, HEv.now t b ∈ out.evs → b = past out.dl t) ?_
    ticks none none env Mon.init invSt_init
  intro rank dl top roots st env m _ t b hmem
  exact runTick_nowOK cfg rank dl top roots st env _ hmem t b rfl

/-! ## C07_no_signal_before_done -/

/-- **C07_no_signal_before_done.**  Take any fire of a hook and the next kill attempt after it (nothing but quiet events in
between - across any number of ticks of waiting).  Then the attempt is on the cgroup the hook was fired for, and between the
two the invocation was destroyed and was done: one of its polls answered "finished", or a reading was past the deadline.
Since every signal of the model lies inside an attempt block, no process of the victim is signalled earlier. -/
theorem no_signal_before_done (cfg : HCfg) (ticks : List TickIn) (env : HEnv)
    (pre mid post : List HEv) (h cg : Nat) (path : String) (inv cg' : Nat) (path' : String) (evs : List Ev) (ok : Bool)
    (htr : trace cfg ticks env = pre ++ [.fire h cg path inv] ++ mid ++ [.attempt cg' path' evs ok] ++ post)
    (hq : ∀ e ∈ mid, quiet e = true) :
    cg' = cg ∧ HEv.destroy inv ∈ mid ∧ (HEv.poll inv true ∈ mid ∨ ∃ t, HEv.now t true ∈ mid) := by
  obtain ⟨m, hm⟩ := sound cfg ticks env
  rw [htr] at hm
  exact accepted_fire_then_attempt hm hq

/-- Signals happen nowhere else: outside the attempt blocks the only event of the kill model in any history is the
`pause_actions` call that follows a successful kill - no `kill(2)`, no `cgroup.kill` write, no xattr write. -/
theorem only_attempts_signal (cfg : HCfg) (ticks : List TickIn) (env : HEnv) (pre post : List HEv) (e : Ev)
    (htr : trace cfg ticks env = pre ++ .k e :: post) : ∃ d, e = .pause d := by
  obtain ⟨m, hm⟩ := sound cfg ticks env
  rw [htr] at hm
  exact accepted_k hm

/-! ## C07_fallback_fires_again -/

/-- **C07_fallback_fires_again** (every attempt is gated, the first one and every fallback after a failed kill alike).
Each kill attempt of any history comes right after one of:
* the fire of a hook **for that cgroup** and its destroy, with nothing but quiet events in between (its own hook ran);
* a clock reading past the deadline (the window is over: no hook);
* a clock reading inside the window, when no hook's patterns match the victim.
So a candidate tried after a failed kill gets its own hook whenever one matches and the window is still open. -/
theorem fallback_fires_again (cfg : HCfg) (ticks : List TickIn) (env : HEnv)
    (pre post : List HEv) (cg : Nat) (path : String) (evs : List Ev) (ok : Bool)
    (htr : trace cfg ticks env = pre ++ .attempt cg path evs ok :: post) :
    (∃ pre1 h path' inv mid, pre = pre1 ++ [.fire h cg path' inv] ++ mid ∧ (∀ e ∈ mid, quiet e = true) ∧ HEv.destroy inv ∈ mid)
    ∨ (∃ pre1 t, pre = pre1 ++ [.now t true])
    ∨ ((∃ pre1 t, pre = pre1 ++ [.now t false]) ∧ selectHook cfg.prio cfg.pats (vp path) = none) := by
  obtain ⟨m, hm⟩ := sound cfg ticks env
  rw [htr] at hm
  rcases accepted_attempt hm with ⟨inv, pre1, h, path', mid, hpre, hq, hd⟩ | h2 | h3
  · exact Or.inl ⟨pre1, h, path', inv, mid, hpre, hq, hd rfl⟩
  · exact Or.inr (Or.inl h2)
  · exact Or.inr (Or.inr h3)

/-! ## C07_recreated_not_killed -/

/-- **C07_recreated_not_killed.**  A `run()` that finds a hook outstanding for a victim serialised as `(path, id)`, on a tick
whose tree has no cgroup at that path or one with another id (removed, or re-created under the same path): makes no kill
attempt at all - neither on the victim nor on the fallback candidates - and either keeps waiting (ASYNC_PAUSED, state
unchanged) or, once the hook is done, destroys the invocation and returns CONTINUE with no hook state left. -/
theorem recreated_not_killed (cfg : HCfg) (rank : List View → List View) (dl : Option Nat) (top roots : List View)
    (p : Pending) (env : HEnv)
    (hgone : ∀ v, findF p.victim.path top = some v → v.id ≠ p.victim.id) :
    (∀ e ∈ (runTick cfg rank dl top roots (some p) env).evs, ∀ cg path evs ok, e ≠ .attempt cg path evs ok) ∧
    (((runTick cfg rank dl top roots (some p) env).val = (some p, .async) ∧ (hookDone dl p env).val = false) ∨
     ((runTick cfg rank dl top roots (some p) env).val = (none, .cont) ∧ (hookDone dl p env).val = true ∧
       HEv.destroy p.inv ∈ (runTick cfg rank dl top roots (some p) env).evs)) :=
  runTick_victim_gone cfg rank dl top roots p env ((deser_none_iff top p.victim).2 hgone)

/-- The serialised reference of a victim is its path and id at the tick the hook was fired, so "cannot be deserialised" is
exactly "path gone or id differs" - and when the same cgroup is still there and the hook is done, the `run()` destroys the
invocation and then attempts exactly that cgroup. -/
theorem same_victim_attempted (cfg : HCfg) (rank : List View → List View) (dl : Option Nat) (top roots : List View)
    (p : Pending) (env : HEnv) (v : View) (hv : findF p.victim.path top = some v) (hid : v.id = p.victim.id)
    (hdone : (hookDone dl p env).val = true) :
    ∃ rest, (runTick cfg rank dl top roots (some p) env).evs =
      (hookDone dl p env).evs ++ ([.destroy p.inv] ++ ((attempt cfg.kill v 0 (hookDone dl p env).env).evs ++ rest)) := by
  apply runTick_victim_there cfg rank dl top roots p env v _ hdone
  simp [deser, hv, hid]

/-! ## the hooks do not change the kill itself -/

/-- In a `run()` that does not end up waiting, the loop with hooks does exactly what the kill model's loop
(`OomdModel.Kill.loop`, the subject of C01 / C03 / C04 / C17) does: same boundary events, same answers consumed, same result. -/
theorem hooks_do_not_change_the_kill (cfg : HCfg) (rank : List View → List View) (dl : Option Nat)
    (n : Nat) (stack : List View) (k : Nat) (env : HEnv) (hnd : ∀ p, (hloop cfg rank dl n stack k env).val ≠ .defer p) :
    flatK (hloop cfg rank dl n stack k env).evs = (loop cfg.kill rank n stack k env.kenv).evs ∧
    (hloop cfg rank dl n stack k env).env.kenv = (loop cfg.kill rank n stack k env.kenv).env ∧
    ((hloop cfg rank dl n stack k env).val = .success ↔ (loop cfg.kill rank n stack k env.kenv).val = true) :=
  hloop_refines_loop cfg rank dl n stack k env hnd

/-- and with no hook configured it never waits -/
theorem no_hooks_never_waits (cfg : HCfg) (rank : List View → List View) (dl : Option Nat) (hp : cfg.prio = [])
    (n : Nat) (stack : List View) (k : Nat) (env : HEnv) (p : Pending) : (hloop cfg rank dl n stack k env).val ≠ .defer p :=
  hloop_no_hooks_nodefer cfg rank dl hp n stack k env p

/-! ## non-vacuity: concrete histories -/

namespace Ex
def info (id : Nat) (path : String) : Info :=
  { id := id, path := path, populated := some true, oomGroup := some false, marks := default, key := 0, eligible := true,
    pidsCurrent := none }
def va : View := .mk (info 11 "w/a") []
def vb : View := .mk (info 12 "w/b") []
/-- `w/a` re-created: same path, another id -/
def va' : View := .mk (info 14 "w/a") []
def kcfg : KillCfg :=
  { recursive := false, dry := false, alwaysContinue := false, kernelKill := false, reapMemory := false,
    postActionDelay := none, hasRuleset := true }
/-- hook 0 (higher priority) matches only `w/b`, hook 1 matches everything below `w` -/
def hcfg : HCfg :=
  { kill := kcfg, prio := [0, 1], pats := fun h => if h = 0 then [Path.mk [] "w/b".toList] else [Path.mk [] "w".toList] }
def tin : TickIn := { top := [.mk (info 10 "w") [va, vb]], roots := [va, vb], freshDl := some 100, rank := id }
def tinRecreated : TickIn := { top := [.mk (info 10 "w") [va', vb]], roots := [va', vb], freshDl := some 200, rank := id }
def kenv : Env := { procs := [some [101], some [102]], killRc := [3, 0], xattr := [], writes := [], pidfd := [], mrelease := [] }
/-- the boundary events inside an attempt are not shown -/
def shape : HEv → HEv
  | .attempt cg p _ ok => .attempt cg p [] ok
  | e => e
end Ex

open Ex in
/-- hook 1 fires for `w/a`, runs over two ticks, finishes on the third; the kill of `w/a` fails (ESRCH); the fallback candidate
`w/b` gets its own hook - hook 0, the first that matches it - which finishes at once; `w/b` is killed -/
example : (trace hcfg [tin, tin, tin]
      { kenv := kenv, clock := [50, 60, 70], polls := [false, false, true, true], nextInv := 0 }).map shape =
    [.now 50 false, .fire 1 11 "w/a" 0, .poll 0 false, .ret .async,
     .poll 0 false, .now 60 false, .ret .async,
     .poll 0 true, .destroy 0, .attempt 11 "w/a" [] false,
     .now 70 false, .fire 0 12 "w/b" 1, .poll 1 true, .destroy 1, .attempt 12 "w/b" [] true, .ret .stop] := by decide

open Ex in
/-- the hook times out (reading 101 > deadline 100 of the firing tick; the fresh deadline 200 of the later tick is not used);
the fallback candidate is tried past the window: no hook for it -/
example : (trace hcfg [tin, { tin with freshDl := some 200 }]
      { kenv := kenv, clock := [50, 101, 102], polls := [false, false], nextInv := 0 }).map shape =
    [.now 50 false, .fire 1 11 "w/a" 0, .poll 0 false, .ret .async,
     .poll 0 false, .now 101 true, .destroy 0, .attempt 11 "w/a" [] false,
     .now 102 true, .attempt 12 "w/b" [] true, .ret .stop] := by decide

open Ex in
/-- `w/a` is re-created while its hook runs: not killed, nothing else killed, CONTINUE; the next tick starts a fresh cycle
with a fresh deadline -/
example : (trace hcfg [tin, tinRecreated, tinRecreated]
      { kenv := kenv, clock := [50, 150], polls := [false, true, true], nextInv := 0 }).map shape =
    [.now 50 false, .fire 1 11 "w/a" 0, .poll 0 false, .ret .async,
     .poll 0 true, .destroy 0, .ret .cont,
     .now 150 false, .fire 1 14 "w/a" 1, .poll 1 true, .destroy 1, .attempt 14 "w/a" [] false,
     .now 0 false, .fire 0 12 "w/b" 2, .poll 2 true, .destroy 2, .attempt 12 "w/b" [] true, .ret .stop] := by decide

/-! ### where the deadline comes from: the ruleset's `prekill_hook_timeout`, also in per-cgroup instances

The hook model above takes the deadline of a kill cycle as given (`dl`).  It is fixed by the ruleset when the chain starts:
the reading right after the check of the first group that fires, plus the ruleset's `prekill_hook_timeout`.  A per-cgroup
instance of a ruleset-cgroup ruleset is run by the same `runOnceImpl` with the template's configuration, so its chains carry
the template's time-out (the real instances are held to this by the `percg` pass of this check, clause
`C07.percg_deadline_is_fire_plus_ruleset_timeout`). -/

open OomdModel.Engine in
/-- **Deadline of a fresh chain.**  Every action of a run that starts a new chain sees the deadline
`fireTime + prekill_hook_timeout` of its ruleset, whatever the detectors and earlier actions of that run did to the clock. -/
theorem fresh_chain_deadline (inv : Bool) (cfg : RsCfg) (sc : Script) (st : RsState) (now ctr : Nat)
    (hact : st.active = none) (a t : Nat) (c : Ctx) (iv : Bool)
    (he : Ev.act a t c iv ∈ (rsRun inv cfg sc st now ctr).2.1) :
    some c.deadline = (fireTime sc cfg.groups now).map (· + cfg.hookTimeout) :=
  rsRun_fresh_deadline inv cfg sc st now ctr hact a t c iv he

open OomdModel.Engine OomdModel.RsCgroup in
/-- **... in a per-cgroup instance too**: the instance for cgroup `p`, new or carried over, with no chain suspended, starts
its chain with the deadline `fireTime + cfg.rs.hookTimeout` - the time-out configured on the ruleset, not a default. -/
theorem percg_fresh_chain_deadline (F : Fixes) (cfg : Cfg) (p : Path) (oi : Option Inst) (sc : Script) (now ctr g : Nat)
    (hact : ∀ i, oi = some i → i.st.active = none) (gen a t : Nat) (c : Ctx) (iv : Bool)
    (he : CEv.run p gen (Ev.act a t c iv) ∈ (instVisit F cfg p oi sc now ctr g).evs) :
    some c.deadline = (fireTime sc cfg.rs.groups now).map (· + cfg.rs.hookTimeout) := by
  simp only [instVisit, List.mem_append, List.mem_map] at he
  have hst : (match oi with | some i => i | none => ({ gen := g, st := {} } : Inst)).st.active = none := by
    cases oi with
    | none => rfl
    | some i => exact hact i rfl
  rcases he with he | ⟨e, he, heq⟩
  · -- creation events are inits and preruns, never runs
    exfalso
    cases oi with
    | some _ => simp at he
    | none =>
      have := createEvs_nonrun cfg p g _ he
      simp [isRun] at this
  · injection heq with _ _ h3
    subst h3
    exact rsRun_fresh_deadline F.invOnResume cfg.rs sc _ now ctr hst a t c iv he

/-- non-vacuity: time-out 30 s, the group fires at 1000 s + 2 s of detector time: deadline 1032 s -/
example :
    let cfg : OomdModel.Engine.RsCfg := { rid := 0, groups := [{ gid := 0, dets := [0] }], actions := [1], delay := 15, hookTimeout := 30 }
    let sc : OomdModel.Engine.Script := fun i => if i = 0 then { adv := 2 } else {}
    OomdModel.Engine.fireTime sc cfg.groups 1000 = some 1002 ∧
      (OomdModel.Engine.rsRun true cfg sc {} 1000 7).2.1 =
        [OomdModel.Engine.Ev.det 0 1000, OomdModel.Engine.Ev.act 1 1002 { ruleset := 0, group := 0, uuid := 7, deadline := 1032 } true] := by
  decide

end C07

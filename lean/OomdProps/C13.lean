import OomdProofs.DropIn
import OomdModel.Generated.Consts

/-!
# C13 — Drop-in override semantics: LIFO before base, scoped replacement, reversible

Model: `OomdModel.DropIn` (tied to `Engine.cpp`, `Ruleset.cpp`, `ConfigCompiler.cpp`,
`DropInServiceAdaptor.cpp` by the `h_dropin` correspondence run).  A *history* is any list of
operations `add tag dropin-IR | remove tag | tick`; nothing bounds its length, the tags, the base
configuration, the permission bits or the number of rulesets / hooks in a drop-in file.

Vocabulary (definitions in `OomdProofs.DropIn`):
* `Spec` — the active drop-ins `(tag, unit)`, newest first; `specRun` — what a history does to it
  (`remove` = delete the tag, accepted `add` = delete the tag then put the unit in front, an `add`
  that does not compile = nothing, an `add` the engine refuses = delete the tag);
* `build B H S` — the engine determined by base rulesets `B`, base hooks `H` and `S`;
* `eraseEng` — forget the run-time state (pause deadline, suspended chain) of every ruleset: what
  is left is the evaluation order, the parts of every ruleset, enablement, `numTargeted_`, the hook
  list and `oomd.dropin.added`;
* `lastWins` — the declarative reading of `specRun` (backward scan; the last effective operation on
  a tag decides), `effect` — what one operation does;
* `orderView` — for every ruleset that runs on a tick, whether it is a drop-in (tag) or a base, and
  its parts;
* `evalOrder` — the rulesets a tick runs, in order: per base ruleset its drop-ins from the front of
  the deque, then the base, each only if enabled.
-/

namespace C13
open OomdModel.Engine OomdModel.DropIn

/-- the world at the start of a history: the engine as `Engine::Engine` builds it -/
def start (B : List Rs) (H : List Nat) (now : Nat) : OomdModel.DropIn.World := { eng := mkEngine B H, now := now, ctr := 0 }

/-- the engine after a history -/
def after (env : Env) (B : List Rs) (H : List Nat) (now : Nat) (ops : List Op) : Eng :=
  (apply env (start B H now) ops).eng

/-- **Refinement to the specification** (the invariant behind the theorems below, by induction over
the history): after every history the engine is, up to run-time state, the engine determined by the
specification state. -/
theorem refines_spec (env : Env) (B : List Rs) (H : List Nat) (now : Nat) (hB : ∀ b ∈ B, Pristine b)
    (ops : List Op) :
    eraseEng (after env B H now ops) = build B H (specRun env B [] ops) :=
  refines env B H [] (start B H now) ops (mkEngine_build B H hB)

/-- **The specification state is declarative**: scanning the history from its end, a tag is active
iff the last effective operation on it (a removal, an add that compiled – an add that does not
compile has no effect at all) is an add the engine accepted; its content is that add's unit; the
active tags are ordered by the position of that operation, latest first. -/
theorem spec_last_writer (env : Env) (B : List Rs) (ops : List Op) :
    specRun env B [] ops = lastWins env B ops.reverse [] :=
  specRun_eq_lastWins env B ops

/-- The hypothesis of `refines_spec` is what the compiler produces: an engine compiled from a
configuration is `mkEngine` of pristine rulesets, one per IR ruleset, in order. -/
theorem compiled_is_pristine (reg : Reg) (root : Root) (e : Eng) (h : compile reg root = some e) :
    e = mkEngine (root.rulesets.map freshRs) root.hooks ∧ ∀ b ∈ root.rulesets.map freshRs, Pristine b := by
  unfold compile at h
  cases h1 : compileRss reg root.rulesets with
  | none => simp [h1] at h
  | some rs =>
    have := compileRss_pristine reg root.rulesets rs h1
    subst this
    simp only [h1, compileHooks_eq] at h
    split at h
    · simp at h
    · simp only [Option.map_some, Option.some.injEq] at h
      refine ⟨h.symm, ?_⟩
      intro b hb
      obtain ⟨ir, _, rfl⟩ := List.mem_map.1 hb
      exact ⟨rfl, rfl⟩

/-! ## evaluation order -/

/-- **A tick runs, for each base ruleset in configuration order, its drop-ins from the front of the
deque and then the base ruleset (each if enabled)** – and nothing else: a tick of the drop-in engine
is exactly a tick of the plain rule engine of C02/C05/C06 (`OomdModel.Engine.tick`) on the list
`evalOrder`; events, clock, uuid counter and the new state of every ruleset agree.  For every engine
state, script and clock. -/
theorem lifo_before_base (env : Env) (w : OomdModel.DropIn.World) (ti : TickIn) :
    let t := OomdModel.Engine.tick env.inv { rs := evalOrder w.eng.rulesets, now := w.now, ctr := w.ctr } ti
    (step env w (.tick ti)).2 = Out.tick t.2 ∧
    evalOrder (step env w (.tick ti)).1.eng.rulesets = t.1.rs ∧
    (step env w (.tick ti)).1.now = t.1.now ∧ (step env w (.tick ti)).1.ctr = t.1.ctr := by
  have hs := runBases_sim env.inv ti.sc w.eng.rulesets (w.now + ti.gap) w.ctr
  have hp := enginePrerun_eq w.eng
  simp only [step, OomdModel.Engine.tick]
  refine ⟨?_, hs.1, ?_, ?_⟩
  · rw [hp, hs.2]
  · rw [hs.2]
  · rw [hs.2]

/-- `orderView` (used by `remove_reversible`) lists exactly the rulesets of `evalOrder`, in order -/
theorem orderView_is_tick_order (e : Eng) : (orderView e).map (·.2) = (evalOrder e.rulesets).map (·.1) :=
  orderView_evalOrder e

/-- **Newest first.**  After any history, the drop-ins in front of the base ruleset at position
`pre.length` are: none if an earlier base ruleset has the same name, otherwise the rulesets of the
active drop-ins that name it, the most recently added drop-in first (and inside one drop-in file the
ruleset listed last first). -/
theorem lifo_newest_first (env : Env) (pre post : List Rs) (b : Rs) (H : List Nat) (now : Nat)
    (hB : ∀ x ∈ pre ++ b :: post, Pristine x) (ops : List Op) :
    ((after env (pre ++ b :: post) H now ops).rulesets.map dropinView)[pre.length]? =
      some (if known pre b.cfg.rid then []
            else ((flat (specRun env (pre ++ b :: post) [] ops)).filter fun d => d.rs.cfg.rid == b.cfg.rid).map
              fun d => (d.tag, d.rs.cfg)) := by
  have h := congrArg Eng.rulesets (refines_spec env (pre ++ b :: post) H now hB ops)
  simp only [eraseEng, build, buildA] at h
  have h2 : (after env (pre ++ b :: post) H now ops).rulesets.map dropinView =
      ((buildBases (pre ++ b :: post) (flat (specRun env (pre ++ b :: post) [] ops))).map (·.dropins)).map
        (·.map fun d => (d.tag, d.rs.cfg)) := by
    rw [← h]
    simp only [List.map_map]
    apply List.map_congr_left
    intro x _
    exact (dropinView_erase x).symm
  rw [h2, List.getElem?_map, buildBases_first_match]
  simp only [Option.map_some]
  split <;> rfl

/-! ## scoped replacement -/

/-- **A drop-in is a fresh copy of the base with exactly the supplied parts replaced, or refused as
a whole.**  `compileDropIn` succeeds iff every ruleset of the file is `accepted` – its name is found
in the base IR (first match = `targetOf`), the target and the drop-in can be instantiated, detector
groups are supplied only if the target opens them up, actions likewise – and every hook can be
instantiated.  The unit then holds, in file order, `mergedRs target d`: name, delays, permission bits
of the target, detector groups / actions of the drop-in where it supplies them and of the target
where it does not, no run-time state, enabled, not targeted. -/
theorem scoped_replacement (reg : Reg) (root d : Root) :
    compileDropIn reg root d =
      if d.rulesets.all (accepted reg root.rulesets) && !d.hooks.any reg.badHook then
        some { rulesets := d.rulesets.filterMap fun dr => (targetOf root.rulesets dr).map fun b => mergedRs b dr
               hooks := d.hooks }
      else none :=
  compileDropIn_eq reg root d

/-- what `accepted` means, spelled out -/
theorem accepted_iff (reg : Reg) (root : List RsIR) (d : RsIR) :
    accepted reg root d = true ↔
      ∃ b, root.find? (fun b => b.rid == d.rid) = some b ∧
        compOk reg b false = true ∧ compOk reg d true = true ∧
        (d.groups ≠ [] → b.perm.dg = true) ∧ (d.actions ≠ [] → b.perm.act = true) := by
  unfold accepted targetOf
  cases root.find? (fun b => b.rid == d.rid) with
  | none => simp
  | some b =>
    simp only [acceptable, Bool.and_eq_true, Bool.or_eq_true, List.isEmpty_iff, Option.some.injEq, exists_eq_left']
    constructor
    · rintro ⟨⟨⟨h1, h2⟩, h3⟩, h4⟩
      exact ⟨h1, h2, fun hn => h3.resolve_left hn, fun hn => h4.resolve_left hn⟩
    · rintro ⟨h1, h2, h3, h4⟩
      refine ⟨⟨⟨h1, h2⟩, ?_⟩, ?_⟩
      · by_cases hg : d.groups = []
        · exact Or.inl hg
        · exact Or.inr (h3 hg)
      · by_cases ha : d.actions = []
        · exact Or.inl ha
        · exact Or.inr (h4 ha)

/-- one ruleset the base did not open up, or one unknown target, refuses the whole file -/
theorem refused_as_a_whole (reg : Reg) (root d : Root) (dr : RsIR) (hm : dr ∈ d.rulesets)
    (hr : accepted reg root.rulesets dr = false) : compileDropIn reg root d = none := by
  rw [scoped_replacement]
  have : d.rulesets.all (accepted reg root.rulesets) = false := by
    rw [List.all_eq_false]
    exact ⟨dr, hm, by simp [hr]⟩
  simp [this]

/-! ## failed adds -/

/-- **A failed add leaves nothing behind.**  (1) A drop-in that does not compile is not queued: the
world is unchanged, the statistic too.  (2) If the engine refuses a compiled unit (one of its
rulesets names a ruleset the engine does not have – after some of its rulesets were already
inserted), then after the clean-up the engine is, up to run-time state, the engine with the tag
removed: no ruleset and no hook of the unit remains, every other drop-in, enablement, `numTargeted_`
and `oomd.dropin.added` are what they are without it.  For every reachable engine state. -/
theorem failed_add_leaves_nothing (env : Env) (B : List Rs) (H : List Nat) (now : Nat)
    (hB : ∀ b ∈ B, Pristine b) (ops : List Op) (T : Tag) (d : Root) :
    let w := apply env (start B H now) ops
    (compileDropIn env.reg env.root d = none →
      step env w (.add T d) = (w, Out.op .compileFailed w.eng.added)) ∧
    (∀ u, compileDropIn env.reg env.root d = some u → knows B u = false →
      (step env w (.add T d)).2 = Out.op .addFailed (removeDropInConfig T w.eng).added ∧
      eraseEng (step env w (.add T d)).1.eng = eraseEng (removeDropInConfig T w.eng) ∧
      (∀ b ∈ (step env w (.add T d)).1.eng.rulesets, ∀ x ∈ b.dropins, x.tag ≠ T) ∧
      (∀ h ∈ (step env w (.add T d)).1.eng.hooksRev, h.tag ≠ some T)) := by
  intro w
  constructor
  · intro hc
    simp only [step, hc]
  · intro u hc hk
    have hw : eraseEng w.eng = build B H (specRun env B [] ops) := refines_spec env B H now hB ops
    have e1 : eraseEng (updateDropIn T (some u) w.eng).2 = (updateDropIn T (some (eraseU u)) (eraseEng w.eng)).2 := by
      simp only [updateDropIn, removeDropInConfig_erase, addDropInConfig_erase]
    have e2 : (updateDropIn T (some u) w.eng).1 = (updateDropIn T (some (eraseU u)) (eraseEng w.eng)).1 := by
      simp only [updateDropIn, removeDropInConfig_erase, addDropInConfig_erase]
    rw [hw, updateDropIn_build] at e1 e2
    simp only [hk, Bool.false_eq_true, if_false] at e1 e2
    have e3 : eraseEng (removeDropInConfig T w.eng) = build B H (dropTag T (specRun env B [] ops)) := by
      rw [← removeDropInConfig_erase, hw, removeDropInConfig_build]
    have hres : eraseEng (step env w (.add T d)).1.eng = build B H (dropTag T (specRun env B [] ops)) := by
      simp only [step, hc]; exact e1
    refine ⟨?_, ?_, ?_, ?_⟩
    · simp only [step, hc, e2, Bool.false_eq_true, if_false]
      have a1 := congrArg Eng.added e1
      have a2 := congrArg Eng.added e3
      simp only [eraseEng] at a1 a2
      rw [a1, a2]
    · rw [hres, e3]
    · intro b hb x hx
      have hr := congrArg Eng.rulesets hres
      simp only [eraseEng, build, buildA] at hr
      have hb' : eraseB b ∈ buildBases B (flat (dropTag T (specRun env B [] ops))) := by
        rw [← hr]; exact List.mem_map_of_mem hb
      have hx' : eraseD x ∈ (eraseB b).dropins := List.mem_map_of_mem hx
      have hf := buildBases_dropins_mem _ _ _ hb' _ hx'
      rw [flat_dropTag] at hf
      have := (List.mem_filter.1 hf).2
      simpa using this
    · intro h hh
      have hr := congrArg Eng.hooksRev hres
      simp only [eraseEng, build, buildA] at hr
      rw [hr, specHooks_dropTag] at hh
      simp only [List.mem_append, List.mem_reverse, List.mem_filter] at hh
      rcases hh with hh | hh
      · simp only [baseHooksRev, List.mem_map] at hh
        obtain ⟨_, _, rfl⟩ := hh
        simp
      · simpa using hh.2

/-- If the adaptor's IR is the configuration the engine was compiled from (as in `Oomd`), case (2)
cannot occur: a drop-in that compiles names only rulesets the engine has. -/
theorem engine_never_refuses_compiled_dropin (reg : Reg) (root d : Root) (u : DUnit)
    (h : compileDropIn reg root d = some u) : knows (root.rulesets.map freshRs) u = true :=
  knows_of_consistent reg root d u h

/-! ## enablement -/

/-- **The base is disabled exactly while disable-on-drop-in is set and at least one drop-in targets
it**, with the invariant `numTargeted_ = dropins.size()`; drop-in rulesets themselves are always
enabled.  After every history. -/
theorem enabled_iff (env : Env) (B : List Rs) (H : List Nat) (now : Nat) (hB : ∀ b ∈ B, Pristine b)
    (ops : List Op) :
    ∀ b ∈ (after env B H now ops).rulesets,
      b.rs.numTargeted = Int.ofNat b.dropins.length ∧
      (b.rs.enabled = false ↔ b.rs.perm.disable = true ∧ b.dropins ≠ []) ∧
      ∀ d ∈ b.dropins, d.rs.enabled = true := by
  intro b hb
  have hr := congrArg Eng.rulesets (refines_spec env B H now hB ops)
  simp only [eraseEng, build, buildA] at hr
  have hb' : eraseB b ∈ buildBases B (flat (specRun env B [] ops)) := by
    rw [← hr]; exact List.mem_map_of_mem hb
  obtain ⟨h1, h2⟩ := buildBases_wf _ _ _ hb'
  have hlen : (eraseB b).dropins.length = b.dropins.length := by simp [eraseB]
  have hemp : (eraseB b).dropins.isEmpty = b.dropins.isEmpty := by simp [eraseB]
  refine ⟨?_, ?_, ?_⟩
  · rw [← hlen]; exact h1
  · have h2' : b.rs.enabled = !(b.rs.perm.disable && !b.dropins.isEmpty) := by rw [← hemp]; exact h2
    rw [h2']
    cases b.rs.perm.disable <;> cases hd : b.dropins <;> simp
  · intro d hd
    have hd' : eraseD d ∈ (eraseB b).dropins := List.mem_map_of_mem hd
    obtain ⟨p, hp, r, hrr, he⟩ := flat_mem _ _ (buildBases_dropins_mem _ _ _ hb' _ hd')
    have hu := specRun_units env B (fun u => ∀ r ∈ u.rulesets, r.st = {} ∧ Pristine r)
      (fun d u h => compileDropIn_pristine env.reg env.root d u h) [] ops (by simp) p hp r hrr
    have : (eraseD d).rs.enabled = true := by rw [he]; exact hu.2.1
    exact this

/-! ## re-adding -/

/-- **Re-adding a tag replaces its previous content and moves it to the front.**  After any history,
an accepted `add T d` leaves, in front of every base ruleset, first the new rulesets that target it
(`buildBases` distributes them: first base with the name; inside the file the last ruleset is the
front-most) and then the previous drop-ins without those of tag `T`, in their previous order; the
hook priority list is the unit's hooks in file order followed by the previous list without the
hooks of tag `T`; the new drop-in rulesets carry no run-time state. -/
theorem readd_moves_to_front (env : Env) (B : List Rs) (H : List Nat) (now : Nat) (hB : ∀ b ∈ B, Pristine b)
    (ops : List Op) (T : Tag) (d : Root) (u : DUnit)
    (hc : compileDropIn env.reg env.root d = some u) (hk : knows B u = true) :
    let w := apply env (start B H now) ops
    let w' := (step env w (.add T d)).1
    (step env w (.add T d)).2 = Out.op .added w'.eng.added ∧
    w'.eng.rulesets.map dropinView =
      List.zipWith (· ++ ·)
        ((buildBases B (u.rulesets.reverse.map fun r => { tag := T, rs := eraseRs r })).map dropinView)
        (w.eng.rulesets.map fun b => (dropinView b).filter fun p => !(p.1 == T)) ∧
    hookPriority w'.eng =
      (u.hooks.map fun h => { tag := some T, hid := h }) ++ (hookPriority w.eng).filter fun h => !(h.tag == some T) := by
  intro w w'
  have hw : eraseEng w.eng = build B H (specRun env B [] ops) := refines_spec env B H now hB ops
  have e1 : eraseEng (updateDropIn T (some u) w.eng).2 = (updateDropIn T (some (eraseU u)) (eraseEng w.eng)).2 := by
    simp only [updateDropIn, removeDropInConfig_erase, addDropInConfig_erase]
  have e2 : (updateDropIn T (some u) w.eng).1 = (updateDropIn T (some (eraseU u)) (eraseEng w.eng)).1 := by
    simp only [updateDropIn, removeDropInConfig_erase, addDropInConfig_erase]
  rw [hw, updateDropIn_build] at e1 e2
  simp only [hk, if_true] at e1 e2
  have hw' : eraseEng w'.eng = build B H ((T, u) :: dropTag T (specRun env B [] ops)) := by
    show eraseEng (step env w (.add T d)).1.eng = _
    simp only [step, hc]; exact e1
  refine ⟨?_, ?_, ?_⟩
  · show (step env w (.add T d)).2 = Out.op .added (step env w (.add T d)).1.eng.added
    simp only [step, hc, e2, if_true]
  · have hr' := congrArg Eng.rulesets hw'
    have hr := congrArg Eng.rulesets hw
    simp only [eraseEng, build, buildA] at hr hr'
    have v' : w'.eng.rulesets.map dropinView = (buildBases B (flat ((T, u) :: dropTag T (specRun env B [] ops)))).map dropinView := by
      rw [← hr', List.map_map]
      apply List.map_congr_left
      intro x _
      exact (dropinView_erase x).symm
    have v : (w.eng.rulesets.map fun b => (dropinView b).filter fun p => !(p.1 == T)) =
        (buildBases B (flat (dropTag T (specRun env B [] ops)))).map dropinView := by
      rw [flat_dropTag, ← buildBases_remove, ← hr, List.map_map, List.map_map]
      apply List.map_congr_left
      intro x _
      simp only [Function.comp, dropinView, removeFromBase_dropins, eraseB, List.filter_map, List.map_map]
      rfl
    rw [v', v]
    have hfl : flat ((T, u) :: dropTag T (specRun env B [] ops)) =
        (u.rulesets.reverse.map fun r => ({ tag := T, rs := eraseRs r } : DropInRs)) ++ flat (dropTag T (specRun env B [] ops)) := by
      simp [flat]
    rw [hfl]
    have := buildBases_append_dropins B (u.rulesets.reverse.map fun r => ({ tag := T, rs := eraseRs r } : DropInRs))
      (flat (dropTag T (specRun env B [] ops)))
    have hmap : ∀ l : List BaseRs, l.map dropinView = (l.map (·.dropins)).map (·.map fun d => (d.tag, d.rs.cfg)) := by
      intro l; simp [dropinView]
    rw [hmap, this, hmap, hmap]
    generalize (buildBases B _).map (·.dropins) = xs
    generalize (buildBases B _).map (·.dropins) = ys
    induction xs generalizing ys with
    | nil => simp
    | cons x xs ih =>
      cases ys with
      | nil => simp
      | cons y ys => simp [ih]
  · have hh' := congrArg Eng.hooksRev hw'
    have hh := congrArg Eng.hooksRev hw
    simp only [eraseEng, build, buildA] at hh hh'
    simp only [hookPriority, hh, hh', specHooks, List.flatMap_cons, List.reverse_append, List.reverse_reverse]
    have := specHooks_dropTag T (specRun env B [] ops)
    simp only [specHooks] at this
    rw [this, List.filter_append, List.append_assoc]
    congr 2
    symm
    rw [List.filter_eq_self]
    intro h hh
    simp only [baseHooksRev, List.reverse_reverse, List.map_reverse, List.mem_map] at hh
    obtain ⟨_, _, rfl⟩ := hh
    rfl

/-- **A drop-in is a fresh copy.**  In every engine state (reachable or not), after an accepted
`add T d` every drop-in ruleset carrying tag `T` is one of the rulesets the compiler produced for
`d`: the merged copy `mergedRs target dr` of `scoped_replacement`, with no pause deadline and no
suspended chain of its own, sharing nothing with the base ruleset or with the tag's previous
content. -/
theorem dropin_is_fresh_copy (env : Env) (w : OomdModel.DropIn.World) (T : Tag) (d : Root) (stat : Int)
    (hok : (step env w (.add T d)).2 = Out.op .added stat) :
    ∀ b ∈ (step env w (.add T d)).1.eng.rulesets, ∀ x ∈ b.dropins, x.tag = T →
      x.rs.st = {} ∧
      ∃ dr ∈ d.rulesets, ∃ target, targetOf env.root.rulesets dr = some target ∧ x.rs = mergedRs target dr := by
  intro b hb x hx ht
  simp only [step] at hok hb
  cases hc : compileDropIn env.reg env.root d with
  | none => simp [hc] at hok
  | some u =>
    simp only [hc] at hok hb
    have h1 : (updateDropIn T (some u) w.eng).1 = true := by
      cases h : (updateDropIn T (some u) w.eng).1
      · simp [h] at hok
      · rfl
    have hm := updateDropIn_tagged T u w.eng h1 b hb x hx ht
    refine ⟨(compileDropIn_pristine env.reg env.root d u hc x.rs hm).1, ?_⟩
    rw [scoped_replacement] at hc
    split at hc
    · simp only [Option.some.injEq] at hc
      subst hc
      simp only [List.mem_filterMap, Option.map_eq_some_iff] at hm
      obtain ⟨dr, hdr, target, htg, he⟩ := hm
      exact ⟨dr, hdr, target, htg, he.symm⟩
    · simp at hc

/-! ## reversibility -/

/-- **Removing a tag restores exactly what the same history without that tag produces**: for every
history `ops` (adds, re-adds, removals, failing adds of any tags, ticks anywhere in between) and every
tag `T`, the history followed by `remove T` and the history with every operation on `T` deleted
lead to engines that agree up to run-time state – in particular on the evaluation order (which
rulesets run, in which order, with which parts), on the enablement and `numTargeted_` of every base
ruleset, on the hook priority list and on `oomd.dropin.added`. -/
theorem remove_reversible (env : Env) (B : List Rs) (H : List Nat) (now : Nat) (hB : ∀ b ∈ B, Pristine b)
    (ops : List Op) (T : Tag) :
    let e1 := after env B H now (ops ++ [Op.remove T])
    let e2 := after env B H now (ops.filter fun o => decide (o.tag? ≠ some T))
    eraseEng e1 = eraseEng e2 ∧
    orderView e1 = orderView e2 ∧
    e1.rulesets.map (fun b => (b.rs.enabled, b.rs.numTargeted)) = e2.rulesets.map (fun b => (b.rs.enabled, b.rs.numTargeted)) ∧
    hookPriority e1 = hookPriority e2 ∧
    e1.added = e2.added := by
  intro e1 e2
  have h1 : eraseEng e1 = build B H (specRun env B [] (ops ++ [Op.remove T])) := refines_spec env B H now hB _
  have h2 : eraseEng e2 = build B H (specRun env B [] (ops.filter fun o => decide (o.tag? ≠ some T))) :=
    refines_spec env B H now hB _
  have hs : specRun env B [] (ops ++ [Op.remove T]) = specRun env B [] (ops.filter fun o => decide (o.tag? ≠ some T)) := by
    rw [specRun_append]
    have := specRun_filter env B [] ops T
    simp only [dropTag, List.filter_nil] at this
    rw [this]
    rfl
  have he : eraseEng e1 = eraseEng e2 := by rw [h1, h2, hs]
  refine ⟨he, ?_, ?_, ?_, ?_⟩
  · rw [← orderView_erase e1, ← orderView_erase e2, he]
  · have := congrArg (fun e : Eng => e.rulesets.map fun b => (b.rs.enabled, b.rs.numTargeted)) he
    simp only [eraseEng, List.map_map] at this
    exact this
  · show hookPriority (eraseEng e1) = hookPriority (eraseEng e2)
    rw [he]
  · show (eraseEng e1).added = (eraseEng e2).added
    rw [he]

/-! ## hook priority -/

/-- **Drop-in prekill hooks take priority newest-first over base hooks.**  After any history the
hook fired for a cgroup is the first one that can run on it in the list: hooks of the active
drop-ins, most recently added drop-in first, inside one drop-in in file order; then the base hooks
in configuration order. -/
theorem hook_priority (env : Env) (B : List Rs) (H : List Nat) (now : Nat) (hB : ∀ b ∈ B, Pristine b)
    (ops : List Op) (canRun : Nat → Bool) :
    firePrekillHook (after env B H now ops) canRun =
      ((((specRun env B [] ops).flatMap fun p => p.2.hooks) ++ H).find? canRun) := by
  have hh := congrArg hookPriority (refines_spec env B H now hB ops)
  rw [build_hookPriority] at hh
  have : hookPriority (eraseEng (after env B H now ops)) = hookPriority (after env B H now ops) := rfl
  rw [this] at hh
  simp only [firePrekillHook]
  simp only [hookPriority] at hh
  rw [hh]
  have : ∀ l : List TaggedHook, (l.find? fun h => canRun h.hid).map (·.hid) = (l.map (·.hid)).find? canRun := by
    intro l
    induction l with
    | nil => rfl
    | cons x xs ih =>
      simp only [List.find?_cons, List.map_cons]
      cases canRun x.hid <;> simp [ih]
  rw [this]
  congr 1
  have e : ∀ t, ((fun x : TaggedHook => x.hid) ∘ fun h => ({ tag := t, hid := h } : TaggedHook)) = id := fun _ => rfl
  simp [specHooks, List.map_flatMap, e]

/-! ## table tie -/

/-- the statistic the property names (regenerated from `CoreStats.h` on every run); the harness reads
the counter under `CoreStats::kNumDropInAdds`, the model's `Eng.added` -/
theorem stat_name : OomdModel.Generated.statDropInAdds = "oomd.dropin.added" := rfl

/-! ## non-vacuity: a concrete history -/

/-- two base rulesets (r0 opens everything up and is disabled on drop-in; r1 opens up actions only),
one base hook; history: add a (actions of r0), add b (groups of r0 and actions of r1), re-add a,
a refused add c (r1 does not open up detector groups), remove b -/
example :
    let reg : Reg := { badPlugin := fun _ => false, badHook := fun _ => false }
    let g (gid d : Nat) : Group := { gid := gid, dets := [d] }
    let ir0 : RsIR := { rid := 0, groups := [g 0 1], actions := [2], delay := 0, hookTimeout := 0, perm := { disable := true, dg := true, act := true }, malformed := false }
    let ir1 : RsIR := { rid := 1, groups := [g 1 3], actions := [4], delay := 0, hookTimeout := 0, perm := { disable := false, dg := false, act := true }, malformed := false }
    let root : Root := { rulesets := [ir0, ir1], hooks := [100] }
    let env : Env := { reg := reg, root := root, inv := true }
    let B := root.rulesets.map freshRs
    let dr (rid : Nat) (gs : List Group) (as : List Nat) : RsIR :=
      { rid := rid, groups := gs, actions := as, delay := 0, hookTimeout := 0, perm := {}, malformed := false }
    let ops : List Op :=
      [.add 0 { rulesets := [dr 0 [] [10]], hooks := [110] },
       .add 1 { rulesets := [dr 0 [g 5 11] [], dr 1 [] [12]], hooks := [111] },
       .add 0 { rulesets := [dr 0 [] [13]], hooks := [] },
       .add 2 { rulesets := [dr 1 [g 6 14] []], hooks := [] },
       .remove 1]
    let e := after env B root.hooks 1000 ops
    (∀ b ∈ B, Pristine b) ∧
    orderView e = [(some 0, { rid := 0, groups := [g 0 1], actions := [13], delay := 0, hookTimeout := 0 }),
                   (none, { rid := 1, groups := [g 1 3], actions := [4], delay := 0, hookTimeout := 0 })] ∧
    e.added = 1 ∧ (hookPriority e).map (·.hid) = [100] := by
  decide

/-- the engine-level refusal is reachable when the adaptor's IR knows a ruleset (r9) the engine does
not have: the first ruleset of the file is inserted, the second is refused, the clean-up removes the
tag (including its previous content) and the counter is back to what it is without the tag -/
example :
    let reg : Reg := { badPlugin := fun _ => false, badHook := fun _ => false }
    let g (gid d : Nat) : Group := { gid := gid, dets := [d] }
    let ir (rid : Nat) : RsIR := { rid := rid, groups := [g rid 1], actions := [2], delay := 0, hookTimeout := 0, perm := { disable := true, dg := true, act := true }, malformed := false }
    let env : Env := { reg := reg, root := { rulesets := [ir 0, ir 9], hooks := [] }, inv := true }
    let B := [freshRs (ir 0)]
    let dr (rid : Nat) (as : List Nat) : RsIR :=
      { rid := rid, groups := [], actions := as, delay := 0, hookTimeout := 0, perm := {}, malformed := false }
    let w := apply env (start B [] 1000) [.add 0 { rulesets := [dr 0 [10]], hooks := [] }]
    let r := step env w (.add 0 { rulesets := [dr 0 [11], dr 9 [12]], hooks := [7] })
    w.eng.added = 1 ∧ r.2 = Out.op .addFailed 0 ∧ orderView r.1.eng = [(none, (freshRs (ir 0)).cfg)] ∧
      r.1.eng.hooksRev = [] := by
  decide

end C13
